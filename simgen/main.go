// simgen rewrites a scratch copy of the code under test so that every
// synchronisation operation goes through the simulator: it substitutes the
// imports of sync, sync/atomic and time by the simulated packages and turns
// go statements, channel operations, select statements and range-over-map /
// range-over-channel loops into calls to verif/sim/rt. Nothing else changes.
//
// usage: simgen <dir of module copy>
//
// Exit status 0: rewritten. 2: met a construct it cannot rewrite (message names
// file and line) or the tree does not type-check.
package main

import (
	"bytes"
	"fmt"
	"go/ast"
	"go/format"
	"go/token"
	"go/types"
	"os"
	"sort"
	"strconv"
	"strings"

	"golang.org/x/tools/go/ast/astutil"
	"golang.org/x/tools/go/packages"
)

const (
	rtPath     = "verif/sim/rt"
	rtName     = "simrt"
	syncPath   = "verif/sim/ssync"
	atomicPath = "verif/sim/satomic"
	timePath   = "verif/sim/stime"
	randPath   = "verif/sim/srand"
)

func die(format string, a ...any) {
	fmt.Fprintf(os.Stderr, "simgen: "+format+"\n", a...)
	os.Exit(2)
}

var coverTable []string

type stats struct {
	files, imports, sends, recvs, closes, selects, gos, mapRanges, chanRanges int
}

func main() {
	if len(os.Args) != 2 && len(os.Args) != 3 {
		die("usage: simgen <module dir> [<cover table file>]")
	}
	dir := os.Args[1]
	coverFile := ""
	if len(os.Args) == 3 {
		coverFile = os.Args[2]
	}
	cfg := &packages.Config{
		Mode:  packages.NeedName | packages.NeedFiles | packages.NeedCompiledGoFiles | packages.NeedSyntax | packages.NeedTypes | packages.NeedTypesInfo | packages.NeedImports | packages.NeedDeps,
		Dir:   dir,
		Tests: false,
		Env:   append(os.Environ(), "GOFLAGS=-mod=mod", "GOPROXY=off", "GOSUMDB=off"),
	}
	pkgs, err := packages.Load(cfg, "./...")
	if err != nil {
		die("load: %v", err)
	}
	bad := false
	for _, p := range pkgs {
		for _, e := range p.Errors {
			fmt.Fprintf(os.Stderr, "simgen: %v\n", e)
			bad = true
		}
	}
	if bad {
		die("the tree does not type-check")
	}
	sort.Slice(pkgs, func(i, j int) bool { return pkgs[i].PkgPath < pkgs[j].PkgPath })
	var st stats
	for _, p := range pkgs {
		for i, f := range p.Syntax {
			name := p.CompiledGoFiles[i]
			if strings.HasSuffix(name, "_test.go") {
				continue
			}
			r := &rewriter{fset: p.Fset, info: p.TypesInfo, file: f, st: &st}
			changed := r.rewrite()
			if coverFile != "" {
				rel := strings.TrimPrefix(strings.TrimPrefix(name, dir), "/")
				if r.cover(rel, &coverTable) {
					changed = true
				}
			}
			if changed {
				var buf bytes.Buffer
				if err := format.Node(&buf, p.Fset, f); err != nil {
					die("%s: format: %v", name, err)
				}
				if err := os.WriteFile(name, buf.Bytes(), 0o644); err != nil {
					die("%v", err)
				}
				st.files++
			}
		}
	}
	if coverFile != "" {
		var sb strings.Builder
		for i, c := range coverTable {
			fmt.Fprintf(&sb, "%d %s\n", i, c)
		}
		if err := os.WriteFile(coverFile, []byte(sb.String()), 0o644); err != nil {
			die("%v", err)
		}
	}
	fmt.Printf("simgen: files=%d imports=%d go=%d send=%d recv=%d close=%d select=%d range-map=%d range-chan=%d\n",
		st.files, st.imports, st.gos, st.sends, st.recvs, st.closes, st.selects, st.mapRanges, st.chanRanges)
}

type rewriter struct {
	fset     *token.FileSet
	info     *types.Info
	file     *ast.File
	st       *stats
	usedRT   bool
	changed  bool
	n        int
	skip     map[ast.Node]bool          // comm statements of select clauses and their top-level operation
	recvs    map[*ast.CallExpr]bool     // generated simrt.Recv calls (upgradable to Recv2)
	gosched  map[*ast.SelectorExpr]bool // runtime.Gosched, to become simrt.Gosched
	keyIdx   map[*ast.IndexExpr]bool    // m[k] on the left of an assignment, k of a type whose values have identity only (pointer, channel, ...)
	keyLits  map[*ast.KeyValueExpr]bool // the same in a map literal
	rkind    map[*ast.RangeStmt]string
	goConst  map[*ast.GoStmt][]bool // argument is an untyped constant or nil: inline it
	goDirect map[*ast.GoStmt]bool   // the callee names a declared function (possibly generic, possibly of another package): nothing to evaluate at the go statement
}

func (r *rewriter) pos(n ast.Node) string { return r.fset.Position(n.Pos()).String() }

func (r *rewriter) fresh(prefix string) string {
	r.n++
	return "_" + prefix + strconv.Itoa(r.n)
}

func rt(name string) ast.Expr {
	return &ast.SelectorExpr{X: ast.NewIdent(rtName), Sel: ast.NewIdent(name)}
}

func call(fun ast.Expr, args ...ast.Expr) *ast.CallExpr {
	return &ast.CallExpr{Fun: fun, Args: args}
}

func id(s string) *ast.Ident { return ast.NewIdent(s) }

func define(lhs []ast.Expr, rhs ...ast.Expr) *ast.AssignStmt {
	return &ast.AssignStmt{Lhs: lhs, Tok: token.DEFINE, Rhs: rhs}
}

func isBlank(e ast.Expr) bool {
	if e == nil {
		return true
	}
	i, ok := e.(*ast.Ident)
	return ok && i.Name == "_"
}

// coreKind classifies a type as "map", "chan" or "".
// mapType returns the map type behind t (directly, or as the single core type of a
// type parameter).
func mapType(t types.Type) (*types.Map, bool) {
	if t == nil {
		return nil, false
	}
	if m, ok := t.Underlying().(*types.Map); ok {
		return m, true
	}
	if tp, ok := t.(*types.TypeParam); ok {
		var found *types.Map
		n := 0
		var visit func(t types.Type)
		visit = func(t types.Type) {
			switch x := t.(type) {
			case *types.Union:
				for i := 0; i < x.Len(); i++ {
					visit(x.Term(i).Type())
				}
			default:
				switch y := x.Underlying().(type) {
				case *types.Map:
					found = y
					n++
				case *types.Interface:
					for i := 0; i < y.NumEmbeddeds(); i++ {
						visit(y.EmbeddedType(i))
					}
				}
			}
		}
		visit(tp.Constraint())
		if n == 1 {
			return found, true
		}
	}
	return nil, false
}

// identityKey reports whether values of the key type may have identity only - no
// content that orders them the same way in every process: pointers, channels,
// unsafe pointers, and anything that may hold one (interfaces, type parameters).
// Map iteration order over such keys is made replayable by giving each key an
// ordinal when it is inserted (simrt.Key), which is program order and therefore the
// same in every execution of a seed.
func identityKey(t types.Type) bool {
	switch u := t.(type) {
	case *types.TypeParam:
		return true
	default:
		switch b := u.Underlying().(type) {
		case *types.Pointer, *types.Chan, *types.Interface:
			return true
		case *types.Basic:
			return b.Kind() == types.UnsafePointer
		case *types.Struct:
			for i := 0; i < b.NumFields(); i++ {
				if identityKey(b.Field(i).Type()) {
					return true
				}
			}
		case *types.Array:
			return identityKey(b.Elem())
		}
	}
	return false
}

// noteKey records e when it is m[k] with a map m whose keys have identity only.
func (r *rewriter) noteKey(e ast.Expr) {
	ix, ok := e.(*ast.IndexExpr)
	if !ok {
		return
	}
	if mt, ok := mapType(r.info.TypeOf(ix.X)); ok && identityKey(mt.Key()) {
		if r.keyIdx == nil {
			r.keyIdx = map[*ast.IndexExpr]bool{}
		}
		r.keyIdx[ix] = true
	}
}

func coreKind(t types.Type) string {
	if t == nil {
		return ""
	}
	switch u := t.Underlying().(type) {
	case *types.Map:
		return "map"
	case *types.Chan:
		return "chan"
	case *types.Interface:
		// type parameter: all terms must agree
		kind := ""
		ok := true
		var visit func(t types.Type)
		visit = func(t types.Type) {
			switch x := t.(type) {
			case *types.Union:
				for i := 0; i < x.Len(); i++ {
					visit(x.Term(i).Type())
				}
			default:
				k := ""
				switch y := x.Underlying().(type) {
				case *types.Map:
					k = "map"
				case *types.Chan:
					k = "chan"
				case *types.Interface:
					for i := 0; i < y.NumEmbeddeds(); i++ {
						visit(y.EmbeddedType(i))
					}
					return
				}
				if kind == "" {
					kind = k
				} else if kind != k {
					ok = false
				}
				if k == "" {
					ok = false
				}
			}
		}
		for i := 0; i < u.NumEmbeddeds(); i++ {
			visit(u.EmbeddedType(i))
		}
		if ok {
			return kind
		}
	}
	return ""
}

func simpleExpr(e ast.Expr) bool {
	switch x := e.(type) {
	case *ast.Ident:
		return true
	case *ast.SelectorExpr:
		return simpleExpr(x.X)
	case *ast.ParenExpr:
		return simpleExpr(x.X)
	}
	return false
}

func (r *rewriter) rewrite() bool {
	r.skip = map[ast.Node]bool{}
	r.recvs = map[*ast.CallExpr]bool{}
	r.rkind = map[*ast.RangeStmt]string{}
	r.goConst = map[*ast.GoStmt][]bool{}
	r.goDirect = map[*ast.GoStmt]bool{}

	// imports
	for _, is := range r.file.Imports {
		p, _ := strconv.Unquote(is.Path.Value)
		var np, nn string
		switch p {
		case "sync":
			np, nn = syncPath, "sync"
		case "sync/atomic":
			np, nn = atomicPath, "atomic"
		case "time":
			np, nn = timePath, "time"
		case "math/rand":
			np, nn = randPath, "rand"
		default:
			continue
		}
		is.Path.Value = strconv.Quote(np)
		if is.Name == nil {
			is.Name = id(nn)
		}
		r.changed = true
		r.st.imports++
	}

	// facts that need type information, gathered on the untouched tree
	ast.Inspect(r.file, func(n ast.Node) bool {
		switch x := n.(type) {
		case *ast.SelectorExpr:
			// blocking or time-dependent library calls the simulator has no model
			// for: refusing (exit 2) is the honest answer, a run in which a real
			// timer or goroutine acts behind the scheduler's back is not
			if pkg, ok := x.X.(*ast.Ident); ok {
				if pn, isPkg := r.info.Uses[pkg].(*types.PkgName); isPkg {
					full := pn.Imported().Path() + "." + x.Sel.Name
					switch full {
					case "context.WithTimeout", "context.WithDeadline", "context.WithTimeoutCause", "context.WithDeadlineCause", "context.AfterFunc",
						// a context derived from the caller's is cancelled by the context package
						// itself, with a real close of a real channel behind the scheduler's back
						"context.WithCancel", "context.WithCancelCause",
						"reflect.Select", "runtime.LockOSThread", "os/signal.Notify", "runtime.SetFinalizer":
						die("%s: %s is not modelled by the simulator (it would act outside the scheduler's control)", r.pos(x), full)
					}
					if pn.Imported().Path() == "math/rand/v2" {
						switch x.Sel.Name {
						case "New", "NewPCG", "NewChaCha8", "NewZipf", "Rand", "Source", "PCG", "ChaCha8", "Zipf":
						default:
							die("%s: math/rand/v2.%s draws from a randomly seeded global source and is not modelled by the simulator (equal seeds would give different runs)", r.pos(x), x.Sel.Name)
						}
					}
					switch full {
					case "runtime.Gosched":
						// a scheduling point at which the caller offers to be descheduled
						if r.gosched == nil {
							r.gosched = map[*ast.SelectorExpr]bool{}
						}
						r.gosched[x] = true
					}
				}
			}
		case *ast.RangeStmt:
			r.rkind[x] = coreKind(r.info.TypeOf(x.X))
		case *ast.AssignStmt:
			for _, l := range x.Lhs {
				r.noteKey(l)
			}
		case *ast.IncDecStmt:
			r.noteKey(x.X)
		case *ast.CompositeLit:
			if mt, ok := mapType(r.info.TypeOf(x)); ok && identityKey(mt.Key()) {
				for _, e := range x.Elts {
					if kv, ok := e.(*ast.KeyValueExpr); ok {
						if r.keyLits == nil {
							r.keyLits = map[*ast.KeyValueExpr]bool{}
						}
						r.keyLits[kv] = true
					}
				}
			}
		case *ast.GoStmt:
			cs := make([]bool, len(x.Call.Args))
			for i, a := range x.Call.Args {
				if tv, ok := r.info.Types[a]; ok && (tv.Value != nil || tv.IsNil()) {
					cs[i] = true
				}
			}
			r.goConst[x] = cs
			fun := x.Call.Fun
			for {
				// f[T](...) / f[T1, T2](...): explicit instantiation
				if ie, ok := fun.(*ast.IndexExpr); ok {
					fun = ie.X
				} else if il, ok := fun.(*ast.IndexListExpr); ok {
					fun = il.X
				} else {
					break
				}
			}
			switch f := fun.(type) {
			case *ast.Ident:
				if fo, ok := r.info.Uses[f].(*types.Func); ok && fo.Type().(*types.Signature).Recv() == nil {
					r.goDirect[x] = true
				}
			case *ast.SelectorExpr:
				if pkg, ok := f.X.(*ast.Ident); ok {
					if _, isPkg := r.info.Uses[pkg].(*types.PkgName); isPkg {
						if _, ok := r.info.Uses[f.Sel].(*types.Func); ok {
							r.goDirect[x] = true
						}
					}
				}
			}
		case *ast.CommClause:
			if x.Comm != nil {
				r.skip[x.Comm] = true
				switch c := x.Comm.(type) {
				case *ast.ExprStmt:
					r.skip[c.X] = true
				case *ast.AssignStmt:
					if len(c.Rhs) == 1 {
						r.skip[c.Rhs[0]] = true
					}
				}
			}
		}
		return true
	})

	astutil.Apply(r.file, nil, func(c *astutil.Cursor) bool {
		n := c.Node()
		if n == nil || r.skip[n] {
			return true
		}
		switch x := n.(type) {
		case *ast.SendStmt:
			c.Replace(&ast.ExprStmt{X: call(rt("Send"), x.Chan, x.Value)})
			r.mark()
			r.st.sends++
		case *ast.UnaryExpr:
			if x.Op == token.ARROW {
				ce := call(rt("Recv"), x.X)
				r.recvs[ce] = true
				c.Replace(ce)
				r.mark()
				r.st.recvs++
			}
		case *ast.AssignStmt:
			if len(x.Lhs) == 2 && len(x.Rhs) == 1 {
				if ce, ok := x.Rhs[0].(*ast.CallExpr); ok && r.recvs[ce] {
					ce.Fun = rt("Recv2")
				}
			}
		case *ast.ValueSpec:
			if len(x.Names) == 2 && len(x.Values) == 1 {
				if ce, ok := x.Values[0].(*ast.CallExpr); ok && r.recvs[ce] {
					ce.Fun = rt("Recv2")
				}
			}
		case *ast.IndexExpr:
			if r.keyIdx[x] {
				x.Index = call(rt("Key"), x.Index)
				r.mark()
			}
		case *ast.KeyValueExpr:
			if r.keyLits[x] {
				x.Key = call(rt("Key"), x.Key)
				r.mark()
			}
		case *ast.CallExpr:
			if se, ok := x.Fun.(*ast.SelectorExpr); ok && r.gosched[se] {
				x.Fun = rt("Gosched")
				r.mark()
			}
			if fn, ok := x.Fun.(*ast.Ident); ok && fn.Name == "close" && len(x.Args) == 1 {
				if _, isBuiltin := r.info.Uses[fn].(*types.Builtin); isBuiltin {
					x.Fun = rt("Close")
					r.mark()
					r.st.closes++
				}
			}
		case *ast.GoStmt:
			c.Replace(r.goStmt(x))
			r.mark()
			r.st.gos++
		case *ast.SelectStmt:
			lab := ""
			if ls, ok := c.Parent().(*ast.LabeledStmt); ok {
				lab = ls.Label.Name
				_ = lab
				die("%s: labelled select statement is not supported by the rewriter", r.pos(x))
			}
			c.Replace(r.selectStmt(x))
			r.mark()
			r.st.selects++
		case *ast.RangeStmt:
			_, labelled := c.Parent().(*ast.LabeledStmt)
			switch r.rkind[x] {
			case "map":
				c.Replace(r.rangeMap(x, labelled))
				r.mark()
				r.st.mapRanges++
			case "chan":
				c.Replace(r.rangeChan(x, labelled))
				r.mark()
				r.st.chanRanges++
			}
		}
		return true
	})

	if r.usedRT {
		astutil.AddNamedImport(r.fset, r.file, rtName, rtPath)
	}
	if len(r.gosched) > 0 && !astutil.UsesImport(r.file, "runtime") {
		astutil.DeleteImport(r.fset, r.file, "runtime")
	}
	if r.changed {
		// generated nodes carry no positions; free-floating comments could be
		// printed in the middle of them. Keep only what precedes the package
		// clause (licence header, build constraints).
		var keep []*ast.CommentGroup
		for _, cg := range r.file.Comments {
			if cg.End() < r.file.Package {
				keep = append(keep, cg)
			}
		}
		r.file.Comments = keep
	}
	return r.changed
}

func (r *rewriter) mark() { r.usedRT = true; r.changed = true }

// cover numbers every block of the file (function bodies, branches, loop
// bodies, case clauses) and makes it report its executions to simrt.Cover.
func (r *rewriter) cover(rel string, table *[]string) bool {
	n := 0
	add := func(list []ast.Stmt, pos token.Pos) []ast.Stmt {
		if !pos.IsValid() {
			for _, st := range list {
				if st.Pos().IsValid() {
					pos = st.Pos()
					break
				}
			}
		}
		if !pos.IsValid() {
			return list // a block the rewriter itself generated
		}
		id := len(*table)
		*table = append(*table, fmt.Sprintf("%s:%d", rel, r.fset.Position(pos).Line))
		n++
		probe := &ast.ExprStmt{X: call(rt("Cover"), &ast.BasicLit{Kind: token.INT, Value: strconv.Itoa(id)})}
		return append([]ast.Stmt{probe}, list...)
	}
	ast.Inspect(r.file, func(nd ast.Node) bool {
		switch x := nd.(type) {
		case *ast.FuncDecl:
			if x.Body != nil {
				x.Body.List = add(x.Body.List, x.Pos())
			}
		case *ast.FuncLit:
			x.Body.List = add(x.Body.List, x.Pos())
		case *ast.IfStmt:
			x.Body.List = add(x.Body.List, x.Body.Pos())
			if els, ok := x.Else.(*ast.BlockStmt); ok {
				els.List = add(els.List, els.Pos())
			}
		case *ast.ForStmt:
			x.Body.List = add(x.Body.List, x.Body.Pos())
		case *ast.RangeStmt:
			x.Body.List = add(x.Body.List, x.Body.Pos())
		case *ast.CaseClause:
			x.Body = add(x.Body, x.Pos())
		}
		return true
	})
	if n == 0 {
		return false
	}
	if !r.usedRT {
		astutil.AddNamedImport(r.fset, r.file, rtName, rtPath)
		r.usedRT = true
	}
	r.file.Comments = keepHeader(r.file)
	return true
}

func keepHeader(f *ast.File) []*ast.CommentGroup {
	var keep []*ast.CommentGroup
	for _, cg := range f.Comments {
		if cg.End() < f.Package {
			keep = append(keep, cg)
		}
	}
	return keep
}

func (r *rewriter) goStmt(g *ast.GoStmt) ast.Stmt {
	cl := g.Call
	// go func(){...}() with no arguments: run the literal itself
	if fl, ok := cl.Fun.(*ast.FuncLit); ok && len(cl.Args) == 0 {
		return &ast.ExprStmt{X: call(rt("Go"), fl)}
	}
	var lhs, rhs []ast.Expr
	var callee ast.Expr
	if r.goDirect[g] {
		// a declared function: a generic one cannot even be stored uninstantiated
		callee = cl.Fun
	} else {
		fn := r.fresh("gof")
		lhs = append(lhs, id(fn))
		rhs = append(rhs, cl.Fun)
		callee = id(fn)
	}
	var args []ast.Expr
	consts := r.goConst[g]
	for i, a := range cl.Args {
		if i < len(consts) && consts[i] {
			args = append(args, a)
			continue
		}
		nm := r.fresh("goa")
		lhs = append(lhs, id(nm))
		rhs = append(rhs, a)
		args = append(args, id(nm))
	}
	inner := &ast.CallExpr{Fun: callee, Args: args, Ellipsis: cl.Ellipsis}
	if cl.Ellipsis != token.NoPos {
		inner.Ellipsis = 1
	}
	lit := &ast.FuncLit{Type: &ast.FuncType{Params: &ast.FieldList{}}, Body: &ast.BlockStmt{List: []ast.Stmt{&ast.ExprStmt{X: inner}}}}
	if len(lhs) == 0 {
		return &ast.ExprStmt{X: call(rt("Go"), lit)}
	}
	return &ast.BlockStmt{List: []ast.Stmt{
		define(lhs, rhs...),
		&ast.ExprStmt{X: call(rt("Go"), lit)},
	}}
}

func (r *rewriter) selectStmt(s *ast.SelectStmt) ast.Stmt {
	sel := r.fresh("sel")
	var pre []ast.Stmt
	var clauses []ast.Stmt
	n := 0
	hasDefault := false
	for _, cs := range s.Body.List {
		cc := cs.(*ast.CommClause)
		if cc.Comm == nil {
			hasDefault = true
		} else {
			n++
		}
	}
	pre = append(pre, define([]ast.Expr{id(sel)}, call(rt("NewSelect"), &ast.BasicLit{Kind: token.INT, Value: strconv.Itoa(n)}, id(strconv.FormatBool(hasDefault)))))
	idx := 0
	lit := func(i int) ast.Expr { return &ast.BasicLit{Kind: token.INT, Value: strconv.Itoa(i)} }
	for _, cs := range s.Body.List {
		cc := cs.(*ast.CommClause)
		var body []ast.Stmt
		var caseExpr ast.Expr
		switch c := cc.Comm.(type) {
		case nil:
			caseExpr = nil
		case *ast.SendStmt:
			pre = append(pre, &ast.ExprStmt{X: call(rt("SelSend"), id(sel), lit(idx), c.Chan, c.Value)})
			caseExpr = lit(idx)
			idx++
		case *ast.ExprStmt:
			u, ok := c.X.(*ast.UnaryExpr)
			if !ok || u.Op != token.ARROW {
				die("%s: unexpected select communication", r.pos(c))
			}
			pre = append(pre, &ast.ExprStmt{X: call(rt("SelRecv"), id(sel), lit(idx), u.X)})
			caseExpr = lit(idx)
			idx++
		case *ast.AssignStmt:
			u, ok := c.Rhs[0].(*ast.UnaryExpr)
			if !ok || u.Op != token.ARROW || len(c.Rhs) != 1 {
				die("%s: unexpected select communication", r.pos(c))
			}
			rc := r.fresh("rc")
			pre = append(pre, define([]ast.Expr{id(rc)}, call(rt("SelRecv"), id(sel), lit(idx), u.X)))
			method := "Value"
			if len(c.Lhs) == 2 {
				method = "Result"
			}
			get := call(&ast.SelectorExpr{X: id(rc), Sel: id(method)})
			allBlank := true
			for _, l := range c.Lhs {
				if !isBlank(l) {
					allBlank = false
				}
			}
			if allBlank {
				body = append(body, &ast.AssignStmt{Lhs: []ast.Expr{id("_")}, Tok: token.ASSIGN, Rhs: []ast.Expr{id(rc)}})
			} else {
				body = append(body, &ast.AssignStmt{Lhs: c.Lhs, Tok: c.Tok, Rhs: []ast.Expr{get}})
			}
			caseExpr = lit(idx)
			idx++
		default:
			die("%s: unexpected select communication", r.pos(cc))
		}
		body = append(body, cc.Body...)
		if caseExpr == nil {
			clauses = append(clauses, &ast.CaseClause{Body: body})
		} else {
			clauses = append(clauses, &ast.CaseClause{List: []ast.Expr{caseExpr}, Body: body})
		}
	}
	if !hasDefault {
		// keeps the switch a terminating statement exactly when the select was one
		clauses = append(clauses, &ast.CaseClause{Body: []ast.Stmt{&ast.ExprStmt{X: call(id("panic"), &ast.BasicLit{Kind: token.STRING, Value: strconv.Quote("simrt: select returned an impossible case")})}}})
	}
	sw := &ast.SwitchStmt{Tag: call(&ast.SelectorExpr{X: id(sel), Sel: id("Wait")}), Body: &ast.BlockStmt{List: clauses}}
	return &ast.BlockStmt{List: append(pre, sw)}
}

func (r *rewriter) hoist(x ast.Expr, labelled bool, what string, at ast.Node) (ast.Expr, ast.Stmt) {
	if simpleExpr(x) {
		return x, nil
	}
	if labelled {
		die("%s: labelled range over a non-trivial %s expression is not supported by the rewriter", r.pos(at), what)
	}
	nm := r.fresh("rx")
	return id(nm), define([]ast.Expr{id(nm)}, x)
}

func (r *rewriter) rangeMap(s *ast.RangeStmt, labelled bool) ast.Stmt {
	m, pre := r.hoist(s.X, labelled, "map", s)
	k := r.fresh("k")
	v := r.fresh("v")
	ok := r.fresh("ok")
	var head []ast.Stmt
	// presence check: a key deleted during the loop must not be produced
	head = append(head, define([]ast.Expr{id(v), id(ok)}, &ast.IndexExpr{X: m, Index: id(k)}))
	head = append(head, &ast.IfStmt{Cond: &ast.UnaryExpr{Op: token.NOT, X: id(ok)}, Body: &ast.BlockStmt{List: []ast.Stmt{&ast.BranchStmt{Tok: token.CONTINUE}}}})
	tok := s.Tok
	if tok == token.ILLEGAL {
		tok = token.DEFINE
	}
	if !isBlank(s.Key) {
		head = append(head, &ast.AssignStmt{Lhs: []ast.Expr{s.Key}, Tok: tok, Rhs: []ast.Expr{id(k)}})
	}
	if !isBlank(s.Value) {
		head = append(head, &ast.AssignStmt{Lhs: []ast.Expr{s.Value}, Tok: tok, Rhs: []ast.Expr{id(v)}})
	} else {
		head = append(head, &ast.AssignStmt{Lhs: []ast.Expr{id("_")}, Tok: token.ASSIGN, Rhs: []ast.Expr{id(v)}})
	}
	loop := &ast.RangeStmt{Key: id("_"), Value: id(k), Tok: token.DEFINE, X: call(rt("MapOrder"), m),
		Body: &ast.BlockStmt{List: append(head, s.Body.List...)}}
	if pre != nil {
		return &ast.BlockStmt{List: []ast.Stmt{pre, loop}}
	}
	return loop
}

func (r *rewriter) rangeChan(s *ast.RangeStmt, labelled bool) ast.Stmt {
	ch, pre := r.hoist(s.X, labelled, "channel", s)
	v := r.fresh("v")
	ok := r.fresh("ok")
	var head []ast.Stmt
	head = append(head, define([]ast.Expr{id(v), id(ok)}, call(rt("Recv2"), ch)))
	head = append(head, &ast.IfStmt{Cond: &ast.UnaryExpr{Op: token.NOT, X: id(ok)}, Body: &ast.BlockStmt{List: []ast.Stmt{&ast.BranchStmt{Tok: token.BREAK}}}})
	tok := s.Tok
	if tok == token.ILLEGAL {
		tok = token.DEFINE
	}
	if !isBlank(s.Key) {
		head = append(head, &ast.AssignStmt{Lhs: []ast.Expr{s.Key}, Tok: tok, Rhs: []ast.Expr{id(v)}})
	} else {
		head = append(head, &ast.AssignStmt{Lhs: []ast.Expr{id("_")}, Tok: token.ASSIGN, Rhs: []ast.Expr{id(v)}})
	}
	loop := &ast.ForStmt{Body: &ast.BlockStmt{List: append(head, s.Body.List...)}}
	if pre != nil {
		return &ast.BlockStmt{List: []ast.Stmt{pre, loop}}
	}
	return loop
}
