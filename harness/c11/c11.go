// Package c11 checks property C11: Bimap keeps its two directions mutually
// inverse. Single client, no faults.
package c11

import (
	"encoding/json"
	"fmt"

	"gopkg.in/typ.v4/maps"

	"verif/harness/core"
	simrt "verif/sim/rt"
)

// Op is one call on one of the live bimaps.
type Op struct {
	K string `json:"k"` // add rmf rmr clear clone
	A int    `json:"a,omitempty"`
	B int    `json:"b,omitempty"`
	M int    `json:"m,omitempty"`
}

func (o Op) String() string {
	switch o.K {
	case "add":
		return fmt.Sprintf("m%d.add(%d,%d)", o.M, o.A, o.B)
	case "rmf":
		return fmt.Sprintf("m%d.rmf(%d)", o.M, o.A)
	case "rmr":
		return fmt.Sprintf("m%d.rmr(%d)", o.M, o.B)
	}
	return fmt.Sprintf("m%d.%s", o.M, o.K)
}

// Scenario is a history over small key and value universes.
type Scenario struct {
	UK      int  `json:"keys"`
	Strings bool `json:"strings,omitempty"` // Bimap[string, struct] instead of Bimap[int,int]
	UV      int  `json:"values"`
	Ops     []Op `json:"ops"`
}

// H is the harness.
type H struct{}

// ID implements core.Harness.
func (H) ID() string { return "C11" }

// Faults implements core.Harness.
func (H) Faults() core.FaultMenu {
	return core.FaultMenu{Sequential: true, MapOrder: true, MaxSteps: 100000}
}

// Decode implements core.Harness.
func (H) Decode(b []byte) (any, error) {
	var s Scenario
	err := json.Unmarshal(b, &s)
	return &s, err
}

// Describe implements core.Harness.
func (H) Describe(sc any) string {
	s := sc.(*Scenario)
	return fmt.Sprintf("keys=%d values=%d ops=%v", s.UK, s.UV, s.Ops)
}

// Generate implements core.Harness.
func (H) Generate(r *simrt.Rand, tier string) any {
	s := &Scenario{UK: 3 + r.Intn(2), UV: 3 + r.Intn(2), Strings: r.Intn(4) == 0}
	if r.Intn(6) == 0 {
		s.UK, s.UV = 3+r.Intn(14), 3+r.Intn(14)
	}
	n := 1 + r.Intn(25)
	if r.Intn(5) == 0 {
		n = 1 + r.Intn(200)
	}
	if tier == "thorough" && r.Intn(5) == 0 {
		n = 1 + r.Intn(2000)
	}
	if r.Intn(10) == 0 {
		// phases: fill with distinct pairs to a peak, drain by removals to a quarter or
		// a half of it (one more or less), to one pair or to none, then collide -
		// high-water marks, compaction and shrinking policies act at such boundaries,
		// and a mixed history hardly ever lines up with them
		s.UK, s.UV = 8+r.Intn(40), 8+r.Intn(40)
		lim := s.UK
		if s.UV < lim {
			lim = s.UV
		}
		for round := 0; round < 1+r.Intn(3); round++ {
			m := 8 + r.Intn(lim-7)
			keys, vals := r.Perm(s.UK), r.Perm(s.UV)
			for i := 0; i < m; i++ {
				s.Ops = append(s.Ops, Op{K: "add", A: keys[i], B: vals[i]})
			}
			target := []int{m / 4, m/4 + 1, m/4 - 1, m / 2, 1, 0}[r.Intn(6)]
			if target < 0 {
				target = 0
			}
			for i := 0; i < m-target; i++ {
				if r.Intn(2) == 0 {
					s.Ops = append(s.Ops, Op{K: "rmf", A: keys[i]})
				} else {
					s.Ops = append(s.Ops, Op{K: "rmr", B: vals[i]})
				}
			}
			for i := 0; i < 1+r.Intn(6); i++ {
				o := Op{K: []string{"add", "add", "add", "rmf", "rmr", "clone", "clear"}[r.Intn(7)], A: r.Intn(s.UK), B: r.Intn(s.UV), M: r.Intn(3)}
				if o.K == "add" && target > 0 && r.Intn(2) == 0 {
					o.A = keys[m-1-r.Intn(target)] // a key that is still bound
				}
				s.Ops = append(s.Ops, o)
			}
		}
		return s
	}
	big := r.Intn(80) == 0
	if big {
		// a bimap of a hundred pairs and more: size policies (a Clear that drops its
		// maps, a Clone that shares them) only start there. Mostly additions over
		// large universes, one Clear late in the history, a clone now and then
		s.UK, s.UV = 70+r.Intn(230), 70+r.Intn(230)
		n = 80 + r.Intn(320)
	}
	for i := 0; i < n; i++ {
		o := Op{A: r.Intn(s.UK), B: r.Intn(s.UV), M: r.Intn(3)}
		x := r.Intn(100)
		if big {
			// 0..54 add, 55..84 removals, 85..89 clear, 90..92 rangemut, 93.. clone
			x = []int{0, 0, 0, 0, 0, 0, 0, 0, 0, 0, 0, 0, 0, 0, 0, 0, 0, 0, 0, 0, 0, 0, 60, 75, 91, 95}[r.Intn(26)]
			if i == n-1-n/8 || (i == n/2 && r.Intn(2) == 0) {
				x = 87
			}
		}
		switch {
		case x < 55:
			o.K = "add"
		case x < 70:
			o.K = "rmf"
		case x < 85:
			o.K = "rmr"
		case x < 90:
			o.K = "clear"
		case x < 93:
			o.K = "rangemut"
		default:
			o.K = "clone"
		}
		s.Ops = append(s.Ops, o)
	}
	return s
}

// Shrink implements core.Harness.
func (H) Shrink(sc any) []any {
	s := sc.(*Scenario)
	var out []any
	mk := func(ops []Op) *Scenario { return &Scenario{UK: s.UK, UV: s.UV, Strings: s.Strings, Ops: ops} }
	n := len(s.Ops)
	if n > 2 {
		out = append(out, mk(append([]Op(nil), s.Ops[:n/2]...)), mk(append([]Op(nil), s.Ops[n/2:]...)))
	}
	for i := range s.Ops {
		if len(out) > 300 {
			break
		}
		out = append(out, mk(append(append([]Op(nil), s.Ops[:i]...), s.Ops[i+1:]...)))
	}
	return out
}

// bimap is the Bimap under test behind int ids (two type instantiations).
type bimap interface {
	Len() int
	Add(k, v int)
	RemoveForward(k int)
	RemoveReverse(v int)
	Range(f func(k, v int) bool)
	ContainsForward(k int) bool
	GetForward(k int) (int, bool)
	ContainsReverse(v int) bool
	GetReverse(v int) (int, bool)
	Clear()
	Clone() bimap
}

type intBM struct{ b maps.Bimap[int, int] }

func (x *intBM) Len() int                     { return x.b.Len() }
func (x *intBM) Add(k, v int)                 { x.b.Add(k, v) }
func (x *intBM) RemoveForward(k int)          { x.b.RemoveForward(k) }
func (x *intBM) RemoveReverse(v int)          { x.b.RemoveReverse(v) }
func (x *intBM) Range(f func(k, v int) bool)  { x.b.Range(f) }
func (x *intBM) ContainsForward(k int) bool   { return x.b.ContainsForward(k) }
func (x *intBM) GetForward(k int) (int, bool) { return x.b.GetForward(k) }
func (x *intBM) ContainsReverse(v int) bool   { return x.b.ContainsReverse(v) }
func (x *intBM) GetReverse(v int) (int, bool) { return x.b.GetReverse(v) }
func (x *intBM) Clear()                       { x.b.Clear() }
func (x *intBM) Clone() bimap                 { return &intBM{x.b.Clone()} }

// strBM: string keys ("" is key 0) and struct values.
type sv struct{ A, B int }
type strBM struct{ b maps.Bimap[string, sv] }

func ks(k int) string {
	if k == 0 {
		return ""
	}
	return fmt.Sprint("k", k)
}
func sk(s string) int {
	if s == "" {
		return 0
	}
	var k int
	fmt.Sscanf(s, "k%d", &k)
	return k
}
func vs(v int) sv                    { return sv{v, v * 2} }
func (x *strBM) Len() int            { return x.b.Len() }
func (x *strBM) Add(k, v int)        { x.b.Add(ks(k), vs(v)) }
func (x *strBM) RemoveForward(k int) { x.b.RemoveForward(ks(k)) }
func (x *strBM) RemoveReverse(v int) { x.b.RemoveReverse(vs(v)) }
func (x *strBM) Range(f func(k, v int) bool) {
	x.b.Range(func(k string, v sv) bool { return f(sk(k), v.A) })
}
func (x *strBM) ContainsForward(k int) bool   { return x.b.ContainsForward(ks(k)) }
func (x *strBM) GetForward(k int) (int, bool) { v, ok := x.b.GetForward(ks(k)); return v.A, ok }
func (x *strBM) ContainsReverse(v int) bool   { return x.b.ContainsReverse(vs(v)) }
func (x *strBM) GetReverse(v int) (int, bool) { k, ok := x.b.GetReverse(vs(v)); return sk(k), ok }
func (x *strBM) Clear()                       { x.b.Clear() }
func (x *strBM) Clone() bimap                 { return &strBM{x.b.Clone()} }

type live struct {
	bm  bimap
	fwd map[int]int
	rev map[int]int
}

// Execute implements core.Harness.
func (H) Execute(scAny any, cfg simrt.Config, st *core.Stats) (*simrt.Outcome, *core.Violation) {
	sc := scAny.(*Scenario)
	var v *core.Violation
	var h uint64
	changes := 0
	body := func() {
		var first bimap = &intBM{} // starts from the zero value
		if sc.Strings {
			first = &strBM{}
		}
		ms := []*live{{bm: first, fwd: map[int]int{}, rev: map[int]int{}}}
		for i, o := range sc.Ops {
			simrt.Yield()
			h = core.HashInts(h, int(o.K[0])+256*int(o.K[len(o.K)-1]), o.A, o.B, o.M%len(ms))
			m := ms[o.M%len(ms)]
			k, val := o.A, o.B+100*(sc.UV%2) // zero keys (and, for even value universes, zero values) are in the universe
			cat := o.K
			switch o.K {
			case "add":
				_, hadK := m.fwd[k]
				_, hadV := m.rev[val]
				cat = fmt.Sprintf("add-samekey=%v-samevalue=%v", hadK, hadV)
				m.bm.Add(k, val)
				if ov, ok := m.fwd[k]; ok {
					delete(m.rev, ov)
				}
				if ok2, ok := m.rev[val]; ok {
					delete(m.fwd, ok2)
				}
				m.fwd[k] = val
				m.rev[val] = k
				changes++
			case "rmf":
				m.bm.RemoveForward(k)
				if ov, ok := m.fwd[k]; ok {
					delete(m.rev, ov)
					delete(m.fwd, k)
					changes++
				}
			case "rmr":
				m.bm.RemoveReverse(val)
				if ok2, ok := m.rev[val]; ok {
					delete(m.fwd, ok2)
					delete(m.rev, val)
					changes++
				}
			case "rangemut":
				// Range whose callback removes other pairs. The statement does not say
				// what Range does with pairs that go away while it runs, and "every pair
				// that stays is visited once, none twice" is what a Go map gives, not what
				// every layout gives (a dense slice that removes by swapping the last pair
				// into the hole skips it; open addressing with backward shifts may meet a
				// pair again). What is checked: only pairs the bimap held when the call
				// began are handed out, and afterwards the bimap is exactly what the
				// removals leave.
				start := map[int]int{}
				for a, b := range m.fwd {
					start[a] = b
				}
				seen := map[int]bool{}
				calls := 0
				bad := ""
				m.bm.Range(func(rk, rv int) bool {
					calls++
					seen[rk] = true
					if want, ok := start[rk]; !ok || want != rv {
						bad = fmt.Sprintf("range-mismatch: Range with a removing callback visited (%d,%d), which was not a pair when the call began: %v", rk, rv, start)
					}
					if calls == 1+o.A%3 {
						// remove up to 1+B other pairs, lowest keys first
						left := 1 + o.B
						for a := 0; a < sc.UK && left > 0; a++ {
							if ov, ok := m.fwd[a]; ok && a != rk {
								if a%2 == 0 {
									m.bm.RemoveForward(a)
								} else {
									m.bm.RemoveReverse(ov)
								}
								delete(m.fwd, a)
								delete(m.rev, ov)
								left--
								changes++
							}
						}
					}
					return true
				})
				if bad != "" {
					v = &core.Violation{Signature: "range-mismatch:rangemut", Detail: fmt.Sprintf("op %d %s: %s", i, o, bad)}
					return
				}
			case "clear":
				m.bm.Clear()
				m.fwd, m.rev = map[int]int{}, map[int]int{}
				changes++
			case "clone":
				if len(ms) < 3 {
					nl := &live{bm: m.bm.Clone(), fwd: map[int]int{}, rev: map[int]int{}}
					for a, b := range m.fwd {
						nl.fwd[a] = b
						nl.rev[b] = a
					}
					ms = append(ms, nl)
					changes++
				}
			}
			for mi, lm := range ms {
				if d := verify(sc, lm); d != "" {
					sig := d
					if j := indexByte(d, ':'); j >= 0 {
						sig = d[:j]
					}
					v = &core.Violation{Signature: sig + ":" + cat, Detail: fmt.Sprintf("after op %d %s, bimap %d: %s", i, o, mi, d)}
					return
				}
			}
		}
	}
	out := core.RunSequential(cfg, body)
	out.Hash = simrt.Mix(out.Hash, h)
	out.Nontrivial = changes >= 3
	if pv := core.OutcomeViolation(out); pv != nil {
		return out, pv
	}
	if out.Truncated && v == nil {
		return out, core.NoProgress(out)
	}
	return out, v
}

func indexByte(s string, c byte) int {
	for i := 0; i < len(s); i++ {
		if s[i] == c {
			return i
		}
	}
	return -1
}

func verify(sc *Scenario, m *live) string {
	if got := m.bm.Len(); got != len(m.fwd) {
		return fmt.Sprintf("len-mismatch: Len()=%d, %d pairs expected %v", got, len(m.fwd), m.fwd)
	}
	for a := 0; a < sc.UK; a++ {
		want, ok := m.fwd[a]
		got, gok := m.bm.GetForward(a)
		if gok != ok || (ok && got != want) {
			return fmt.Sprintf("forward-mismatch: GetForward(%d)=(%d,%v) want (%d,%v); pairs %v", a, got, gok, want, ok, m.fwd)
		}
		if c := m.bm.ContainsForward(a); c != ok {
			return fmt.Sprintf("forward-mismatch: ContainsForward(%d)=%v want %v", a, c, ok)
		}
	}
	for b := 100 * (sc.UV % 2); b < 100*(sc.UV%2)+sc.UV; b++ {
		want, ok := m.rev[b]
		got, gok := m.bm.GetReverse(b)
		if gok != ok || (ok && got != want) {
			return fmt.Sprintf("reverse-mismatch: GetReverse(%d)=(%d,%v) want (%d,%v); pairs %v", b, got, gok, want, ok, m.fwd)
		}
		if c := m.bm.ContainsReverse(b); c != ok {
			return fmt.Sprintf("reverse-mismatch: ContainsReverse(%d)=%v want %v", b, c, ok)
		}
	}
	seen := map[int]bool{}
	bad := ""
	m.bm.Range(func(k, v int) bool {
		if seen[k] {
			bad = fmt.Sprintf("range-mismatch: Range visited key %d twice", k)
		}
		seen[k] = true
		if want, ok := m.fwd[k]; !ok || want != v {
			bad = fmt.Sprintf("range-mismatch: Range visited (%d,%d) which is not a pair of %v", k, v, m.fwd)
		}
		return true
	})
	if bad != "" {
		return bad
	}
	if len(seen) != len(m.fwd) {
		return fmt.Sprintf("range-mismatch: Range visited %d pairs of %d", len(seen), len(m.fwd))
	}
	return ""
}
