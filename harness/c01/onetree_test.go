package c01

import (
	"math/rand"
	"testing"
)

type tn struct {
	v    int
	l, r *tn
}

func build(r *rand.Rand, n, u int) *tn {
	if n == 0 {
		return nil
	}
	k := r.Intn(n)
	return &tn{v: r.Intn(u), l: build(r, k, u), r: build(r, n-1-k, u)}
}

func walk(t *tn, pre, in, post *[]int) {
	if t == nil {
		return
	}
	*pre = append(*pre, t.v)
	walk(t.l, pre, in, post)
	*in = append(*in, t.v)
	walk(t.r, pre, in, post)
	*post = append(*post, t.v)
}

// TestOneTree: traversals of arbitrary trees (few distinct values, so plenty of
// ambiguity) are accepted; a transposition in one of them is rejected unless it
// happens to describe another tree (checked by brute force for small sizes).
func TestOneTree(t *testing.T) {
	r := rand.New(rand.NewSource(1))
	for it := 0; it < 3000; it++ {
		n := r.Intn(40)
		tr := build(r, n, 1+r.Intn(4))
		var pre, in, post []int
		walk(tr, &pre, &in, &post)
		if !oneTree(pre, in, post) {
			t.Fatalf("rejected genuine traversals %v %v %v", pre, in, post)
		}
		if n >= 2 && n <= 7 {
			bad := append([]int(nil), post...)
			i := r.Intn(n - 1)
			bad[i], bad[i+1] = bad[i+1], bad[i]
			if oneTree(pre, in, bad) != brute(pre, in, bad) {
				t.Fatalf("oneTree(%v,%v,%v) disagrees with brute force", pre, in, bad)
			}
		}
	}
	// large and highly ambiguous: must stay fast
	big := build(r, 3000, 2)
	var pre, in, post []int
	walk(big, &pre, &in, &post)
	if ok, _ := oneTreeBudget(pre, in, post, 200000); !ok {
		t.Fatal("rejected big tree")
	}
}

func brute(pre, in, post []int) bool {
	n := len(pre)
	if n == 0 {
		return true
	}
	if post[n-1] != pre[0] {
		return false
	}
	for i := 0; i < n; i++ {
		if in[i] == pre[0] && brute(pre[1:1+i], in[:i], post[:i]) && brute(pre[1+i:], in[i+1:], post[i:n-1]) {
			return true
		}
	}
	return false
}
