// Package c01 checks property C01: the AVL tree is a sorted multiset under
// every operation history. Single client, no faults: the space explored is
// that of operation histories.
package c01

import (
	"encoding/json"
	"fmt"
	"sort"

	"gopkg.in/typ.v4/avl"

	"verif/harness/core"
	simrt "verif/sim/rt"
)

// Op is one call on one of the live trees.
type Op struct {
	K    string `json:"k"` // add remove contains len clear clone
	V    int    `json:"v,omitempty"`
	Tree int    `json:"tree,omitempty"` // index of the live tree (modulo their number)
}

func (o Op) String() string {
	if o.K == "add" || o.K == "remove" || o.K == "contains" {
		return fmt.Sprintf("t%d.%s(%d)", o.Tree, o.K, o.V)
	}
	return fmt.Sprintf("t%d.%s", o.Tree, o.K)
}

// Scenario is a history over a small value universe.
type Scenario struct {
	Elem string `json:"elem"` // int string struct reversed
	U    int    `json:"universe"`
	Ops  []Op   `json:"ops"`
}

// H is the harness.
type H struct{}

// ID implements core.Harness.
func (H) ID() string { return "C01" }

// Faults implements core.Harness.
func (H) Faults() core.FaultMenu {
	return core.FaultMenu{Sequential: true, MapOrder: true, MaxSteps: 100000}
}

// Decode implements core.Harness.
func (H) Decode(b []byte) (any, error) {
	var s Scenario
	err := json.Unmarshal(b, &s)
	return &s, err
}

// Describe implements core.Harness.
func (H) Describe(sc any) string {
	s := sc.(*Scenario)
	return fmt.Sprintf("elem=%s universe=%d ops=%v", s.Elem, s.U, s.Ops)
}

// Generate implements core.Harness.
func (H) Generate(r *simrt.Rand, tier string) any {
	s := &Scenario{Elem: []string{"int", "string", "struct", "reversed"}[r.Intn(4)], U: 2 + r.Intn(10)}
	n := 1 + r.Intn(40)
	if r.Intn(4) == 0 {
		n = 1 + r.Intn(200)
	}
	if tier == "thorough" && r.Intn(4) == 0 {
		n = 1 + r.Intn(2000)
		s.U = 2 + r.Intn(60)
	}
	removeHeavy := r.Intn(3) == 0
	if r.Intn(12) == 0 {
		// size and shape are knobs too: several hundred mostly distinct values give
		// trees deep enough for anything sized from log2(n)
		n = 150 + r.Intn(450)
		s.U = 200 + r.Intn(800)
		removeHeavy = false
	}
	for i := 0; i < n; i++ {
		o := Op{V: r.Intn(s.U), Tree: r.Intn(3)}
		x := r.Intn(100)
		big := s.U >= 200
		switch {
		case x < 40 || (big && x < 62):
			o.K = "add"
		case x < 65 || (removeHeavy && x < 80) || (big && x < 84):
			// (also in the big scenario: removals from a tree hundreds of nodes deep in
			// its history are where a retrace that stops early, or a fixed-size path
			// stack, shows)
			o.K = "remove"
		case x < 88:
			o.K = "contains"
		case x < 92:
			o.K = "len"
		case x < 95:
			o.K = "clear"
		default:
			o.K = "clone"
		}
		if big {
			// one tree, never cleared, so that it does get big; a clone is taken late
			// (of a big tree) and then lives alongside
			if o.K == "clear" || (o.K == "clone" && i < n/2) {
				o.K = "contains"
			}
			if r.Intn(8) != 0 {
				o.Tree = 0
			}
		}
		s.Ops = append(s.Ops, o)
	}
	return s
}

// Shrink implements core.Harness.
func (H) Shrink(sc any) []any {
	s := sc.(*Scenario)
	var out []any
	mk := func(ops []Op) *Scenario { return &Scenario{Elem: s.Elem, U: s.U, Ops: ops} }
	n := len(s.Ops)
	if n > 4 {
		out = append(out, mk(append([]Op(nil), s.Ops[:n/2]...)), mk(append([]Op(nil), s.Ops[n/2:]...)))
	}
	for chunk := n / 4; chunk >= 1; chunk /= 2 {
		for i := 0; i+chunk <= n && len(out) < 400; i += chunk {
			ops := append(append([]Op(nil), s.Ops[:i]...), s.Ops[i+chunk:]...)
			out = append(out, mk(ops))
		}
	}
	if s.Elem != "int" {
		c := mk(append([]Op(nil), s.Ops...))
		c.Elem = "int"
		out = append(out, c)
	}
	return out
}

type pair struct{ A, B int }

// Execute implements core.Harness.
func (H) Execute(scAny any, cfg simrt.Config, st *core.Stats) (*simrt.Outcome, *core.Violation) {
	sc := scAny.(*Scenario)
	var v *core.Violation
	var h uint64
	changes := 0
	body := func() {
		switch sc.Elem {
		case "string":
			v, h, changes = runHistory(sc, avl.NewOrdered[string](), func(i int) string { return fmt.Sprintf("%03d", i) }, func(a, b string) bool { return a < b })
		case "struct":
			cmp := func(a, b pair) int {
				switch {
				case a.A != b.A && a.A < b.A, a.A == b.A && a.B < b.B:
					return -1
				case a == b:
					return 0
				}
				return 1
			}
			v, h, changes = runHistory(sc, avl.New(cmp), func(i int) pair { return pair{i / 3, i % 3} }, func(a, b pair) bool { return cmp(a, b) < 0 })
		case "reversed":
			cmp := func(a, b int) int {
				switch {
				case a > b:
					return -1
				case a == b:
					return 0
				}
				return 1
			}
			v, h, changes = runHistory(sc, avl.New(cmp), func(i int) int { return i }, func(a, b int) bool { return a > b })
		default:
			v, h, changes = runHistory(sc, avl.NewOrdered[int](), func(i int) int { return i }, func(a, b int) bool { return a < b })
		}
	}
	out := core.RunSequential(cfg, body)
	out.Hash = simrt.Mix(out.Hash, h)
	out.Nontrivial = changes >= 3
	if pv := core.OutcomeViolation(out); pv != nil {
		return out, pv
	}
	if out.Truncated && v == nil {
		return out, core.NoProgress(out)
	}
	return out, v
}

type live[T comparable] struct {
	tree  *avl.Tree[T]
	model []T // sorted
}

func runHistory[T comparable](sc *Scenario, first avl.Tree[T], conv func(int) T, less func(a, b T) bool) (*core.Violation, uint64, int) {
	trees := []*live[T]{{tree: &first}}
	var h uint64
	changes := 0
	for i, o := range sc.Ops {
		simrt.Yield()
		h = core.HashInts(h, int(o.K[0])+256*int(o.K[len(o.K)-1]), o.V, o.Tree%len(trees))
		t := trees[o.Tree%len(trees)]
		val := conv(o.V)
		at := func(sig, format string, a ...any) *core.Violation {
			return &core.Violation{Signature: sig, Detail: fmt.Sprintf("after op %d %s (elem=%s): ", i, o, sc.Elem) + fmt.Sprintf(format, a...)}
		}
		idx := sort.Search(len(t.model), func(j int) bool { return !less(t.model[j], val) })
		present := idx < len(t.model) && t.model[idx] == val
		cat := o.K
		switch o.K {
		case "add":
			t.tree.Add(val)
			// equal values go after their equals: upper bound
			ub := sort.Search(len(t.model), func(j int) bool { return less(val, t.model[j]) })
			t.model = append(t.model, val)
			copy(t.model[ub+1:], t.model[ub:])
			t.model[ub] = val
			changes++
		case "remove":
			got := t.tree.Remove(val)
			if present {
				cat = "remove-present"
				t.model = append(t.model[:idx], t.model[idx+1:]...)
				changes++
			} else {
				cat = "remove-absent"
			}
			if got != present {
				return at("remove-result:"+cat, "Remove returned %v, value present: %v", got, present), h, changes
			}
		case "contains":
			if got := t.tree.Contains(val); got != present {
				return at("contains-mismatch", "Contains(%v)=%v, model says %v", val, got, present), h, changes
			}
		case "len":
			// checked below for every live tree
		case "clear":
			t.tree.Clear()
			t.model = nil
			changes++
		case "clone":
			if len(trees) < 3 {
				c := t.tree.Clone()
				trees = append(trees, &live[T]{tree: &c, model: append([]T(nil), t.model...)})
				changes++
			}
		}
		for ti, lt := range trees {
			if sc.U >= 200 && i%16 != 15 && i != len(sc.Ops)-1 {
				// big trees: the full comparison every 16th call and at the end, a
				// cheap one (size) in between
				if got := lt.tree.Len(); got != len(lt.model) {
					return &core.Violation{Signature: "len-mismatch:" + cat, Detail: fmt.Sprintf("after op %d %s, tree %d: Len()=%d want %d", i, o, ti, got, len(lt.model))}, h, changes
				}
				continue
			}
			if v := checkTree(lt, sc.U, conv); v != nil {
				v.Signature += ":" + cat
				v.Detail = fmt.Sprintf("after op %d %s (elem=%s), tree %d: %s", i, o, sc.Elem, ti, v.Detail)
				return v, h, changes
			}
		}
	}
	return nil, h, changes
}

func equal[T comparable](a, b []T) bool {
	if len(a) != len(b) {
		return false
	}
	for i := range a {
		if a[i] != b[i] {
			return false
		}
	}
	return true
}

func checkTree[T comparable](lt *live[T], u int, conv func(int) T) *core.Violation {
	in := lt.tree.SliceInOrder()
	if got := lt.tree.Len(); got != len(lt.model) {
		return &core.Violation{Signature: "len-mismatch", Detail: fmt.Sprintf("Len()=%d, the multiset has %d values (in-order walk lists %d)", got, len(lt.model), len(in))}
	}
	if !equal(in, lt.model) {
		return &core.Violation{Signature: "inorder-mismatch", Detail: fmt.Sprintf("in-order walk %v, expected sorted multiset %v", in, lt.model)}
	}
	cnt := map[T]int{}
	for _, v := range lt.model {
		cnt[v]++
	}
	step := 1
	if u >= 200 {
		step = 7 // a sample of the universe is enough for big ones
	}
	for i := 0; i < u; i += step {
		v := conv(i)
		if got := lt.tree.Contains(v); got != (cnt[v] > 0) {
			return &core.Violation{Signature: "contains-mismatch", Detail: fmt.Sprintf("Contains(%v)=%v but the multiset holds it %d times", v, got, cnt[v])}
		}
	}
	pre, post := lt.tree.SlicePreOrder(), lt.tree.SlicePostOrder()
	if len(pre) != len(in) || len(post) != len(in) || !oneTree(pre, in, post) {
		return &core.Violation{Signature: "traversals-inconsistent", Detail: fmt.Sprintf("pre=%v in=%v post=%v are not three traversals of one binary tree", pre, in, post)}
	}
	var wp, wi, wo []T
	lt.tree.WalkPreOrder(func(v T) { wp = append(wp, v) })
	lt.tree.WalkInOrder(func(v T) { wi = append(wi, v) })
	lt.tree.WalkPostOrder(func(v T) { wo = append(wo, v) })
	if !equal(wp, pre) || !equal(wi, in) || !equal(wo, post) {
		return &core.Violation{Signature: "walk-vs-slice", Detail: "Walk* and Slice* disagree"}
	}
	if got, want := lt.tree.String(), fmt.Sprint(in); got != want {
		return &core.Violation{Signature: "string-mismatch", Detail: fmt.Sprintf("String()=%q want %q", got, want)}
	}
	// the returned slices belong to the caller: overwriting them must not reach
	// the tree (the next check reads everything again)
	for _, sl := range [][]T{in, pre, post} {
		for i, j := 0, len(sl)-1; i < j; i, j = i+1, j-1 {
			sl[i], sl[j] = sl[j], sl[i]
		}
		if len(sl) > 0 {
			sl[0] = conv(u + 5)
		}
	}
	return nil
}

// oneTree reports whether some binary tree has exactly these three traversals
// (with duplicates the root's position in the in-order sequence is ambiguous, so
// every candidate split is tried; the roots of both subtrees are known from the
// pre- and post-order sequences, which prunes almost every wrong split, and
// failed sub-problems are remembered).
func oneTree[T comparable](pre, in, post []T) bool {
	ok, _ := oneTreeBudget(pre, in, post, 200000)
	return ok
}

// oneTreeBudget gives up (reporting true, inconclusive) after budget
// sub-problems: the search is exponential for long runs of equal values, and an
// oracle that cannot finish must stay silent rather than stall the run.
func oneTreeBudget[T comparable](pre, in, post []T, budget int) (ok bool, conclusive bool) {
	if len(pre) != len(in) || len(pre) != len(post) {
		return false, true
	}
	type key struct{ a, b, c, n int }
	failed := map[key]bool{}
	spent := 0
	var rec func(a, b, c, n int) bool // pre[a:a+n], in[b:b+n], post[c:c+n]
	rec = func(a, b, c, n int) bool {
		if n == 0 {
			return true
		}
		spent++
		if spent > budget {
			return true
		}
		root := pre[a]
		if post[c+n-1] != root {
			return false
		}
		if n == 1 {
			return in[b] == root
		}
		k := key{a, b, c, n}
		if failed[k] {
			return false
		}
		for i := 0; i < n; i++ {
			if in[b+i] != root {
				continue
			}
			// left subtree has i nodes: its root is pre[a+1] and post[c+i-1]
			if i > 0 && pre[a+1] != post[c+i-1] {
				continue
			}
			// right subtree has n-1-i nodes: its root is pre[a+1+i] and post[c+n-2]
			if i < n-1 && pre[a+1+i] != post[c+n-2] {
				continue
			}
			if rec(a+1, b, c, i) && rec(a+1+i, b+i+1, c+i, n-1-i) {
				return true
			}
		}
		if spent <= budget {
			failed[k] = true
		}
		return spent > budget
	}
	res := rec(0, 0, 0, len(pre))
	return res, spent <= budget
}
