// Package c01 checks property C01: the AVL tree is a sorted multiset under
// every operation history. Single client, no faults: the space explored is
// that of operation histories.
package c01

import (
	"encoding/json"
	"fmt"
	"sort"

	"gopkg.in/typ.v4/avl"

	"verif/harness/core"
	simrt "verif/sim/rt"
)

// Op is one call on one of the live trees.
type Op struct {
	K    string `json:"k"` // add remove contains len clear clone
	V    int    `json:"v,omitempty"`
	Tree int    `json:"tree,omitempty"` // index of the live tree (modulo their number)
}

func (o Op) String() string {
	if o.K == "add" || o.K == "remove" || o.K == "contains" {
		return fmt.Sprintf("t%d.%s(%d)", o.Tree, o.K, o.V)
	}
	return fmt.Sprintf("t%d.%s", o.Tree, o.K)
}

// Scenario is a history over a small value universe.
type Scenario struct {
	Elem string `json:"elem"` // int string struct reversed
	U    int    `json:"universe"`
	Ops  []Op   `json:"ops"`
}

// H is the harness.
type H struct{}

// ID implements core.Harness.
func (H) ID() string { return "C01" }

// Faults implements core.Harness.
func (H) Faults() core.FaultMenu {
	return core.FaultMenu{Sequential: true, MapOrder: true, MaxSteps: 100000}
}

// Decode implements core.Harness.
func (H) Decode(b []byte) (any, error) {
	var s Scenario
	err := json.Unmarshal(b, &s)
	return &s, err
}

// Describe implements core.Harness.
func (H) Describe(sc any) string {
	s := sc.(*Scenario)
	return fmt.Sprintf("elem=%s universe=%d ops=%v", s.Elem, s.U, s.Ops)
}

// Generate implements core.Harness.
func (H) Generate(r *simrt.Rand, tier string) any {
	s := &Scenario{Elem: []string{"int", "string", "struct", "reversed"}[r.Intn(4)], U: 2 + r.Intn(10)}
	n := 1 + r.Intn(40)
	if r.Intn(4) == 0 {
		n = 1 + r.Intn(200)
	}
	if tier == "thorough" && r.Intn(4) == 0 {
		n = 1 + r.Intn(2000)
		s.U = 2 + r.Intn(60)
	}
	removeHeavy := r.Intn(3) == 0
	for i := 0; i < n; i++ {
		o := Op{V: r.Intn(s.U), Tree: r.Intn(3)}
		x := r.Intn(100)
		switch {
		case x < 40:
			o.K = "add"
		case x < 65 || (removeHeavy && x < 80):
			o.K = "remove"
		case x < 88:
			o.K = "contains"
		case x < 92:
			o.K = "len"
		case x < 95:
			o.K = "clear"
		default:
			o.K = "clone"
		}
		s.Ops = append(s.Ops, o)
	}
	return s
}

// Shrink implements core.Harness.
func (H) Shrink(sc any) []any {
	s := sc.(*Scenario)
	var out []any
	mk := func(ops []Op) *Scenario { return &Scenario{Elem: s.Elem, U: s.U, Ops: ops} }
	n := len(s.Ops)
	if n > 4 {
		out = append(out, mk(append([]Op(nil), s.Ops[:n/2]...)), mk(append([]Op(nil), s.Ops[n/2:]...)))
	}
	for chunk := n / 4; chunk >= 1; chunk /= 2 {
		for i := 0; i+chunk <= n && len(out) < 400; i += chunk {
			ops := append(append([]Op(nil), s.Ops[:i]...), s.Ops[i+chunk:]...)
			out = append(out, mk(ops))
		}
	}
	if s.Elem != "int" {
		c := mk(append([]Op(nil), s.Ops...))
		c.Elem = "int"
		out = append(out, c)
	}
	return out
}

type pair struct{ A, B int }

// Execute implements core.Harness.
func (H) Execute(scAny any, cfg simrt.Config, st *core.Stats) (*simrt.Outcome, *core.Violation) {
	sc := scAny.(*Scenario)
	var v *core.Violation
	var h uint64
	changes := 0
	body := func() {
		switch sc.Elem {
		case "string":
			v, h, changes = runHistory(sc, avl.NewOrdered[string](), func(i int) string { return fmt.Sprintf("%03d", i) }, func(a, b string) bool { return a < b })
		case "struct":
			cmp := func(a, b pair) int {
				switch {
				case a.A != b.A && a.A < b.A, a.A == b.A && a.B < b.B:
					return -1
				case a == b:
					return 0
				}
				return 1
			}
			v, h, changes = runHistory(sc, avl.New(cmp), func(i int) pair { return pair{i / 3, i % 3} }, func(a, b pair) bool { return cmp(a, b) < 0 })
		case "reversed":
			cmp := func(a, b int) int {
				switch {
				case a > b:
					return -1
				case a == b:
					return 0
				}
				return 1
			}
			v, h, changes = runHistory(sc, avl.New(cmp), func(i int) int { return i }, func(a, b int) bool { return a > b })
		default:
			v, h, changes = runHistory(sc, avl.NewOrdered[int](), func(i int) int { return i }, func(a, b int) bool { return a < b })
		}
	}
	out := core.RunSequential(cfg, body)
	out.Hash = simrt.Mix(out.Hash, h)
	out.Nontrivial = changes >= 3
	if pv := core.OutcomeViolation(out); pv != nil {
		return out, pv
	}
	if out.Truncated && v == nil {
		return out, core.NoProgress(out)
	}
	return out, v
}

type live[T comparable] struct {
	tree  *avl.Tree[T]
	model []T // sorted
}

func runHistory[T comparable](sc *Scenario, first avl.Tree[T], conv func(int) T, less func(a, b T) bool) (*core.Violation, uint64, int) {
	trees := []*live[T]{{tree: &first}}
	var h uint64
	changes := 0
	for i, o := range sc.Ops {
		simrt.Yield()
		h = core.HashInts(h, int(o.K[0])+256*int(o.K[len(o.K)-1]), o.V, o.Tree%len(trees))
		t := trees[o.Tree%len(trees)]
		val := conv(o.V)
		at := func(sig, format string, a ...any) *core.Violation {
			return &core.Violation{Signature: sig, Detail: fmt.Sprintf("after op %d %s (elem=%s): ", i, o, sc.Elem) + fmt.Sprintf(format, a...)}
		}
		idx := sort.Search(len(t.model), func(j int) bool { return !less(t.model[j], val) })
		present := idx < len(t.model) && t.model[idx] == val
		cat := o.K
		switch o.K {
		case "add":
			t.tree.Add(val)
			// equal values go after their equals: upper bound
			ub := sort.Search(len(t.model), func(j int) bool { return less(val, t.model[j]) })
			t.model = append(t.model, val)
			copy(t.model[ub+1:], t.model[ub:])
			t.model[ub] = val
			changes++
		case "remove":
			got := t.tree.Remove(val)
			if present {
				cat = "remove-present"
				t.model = append(t.model[:idx], t.model[idx+1:]...)
				changes++
			} else {
				cat = "remove-absent"
			}
			if got != present {
				return at("remove-result:"+cat, "Remove returned %v, value present: %v", got, present), h, changes
			}
		case "contains":
			if got := t.tree.Contains(val); got != present {
				return at("contains-mismatch", "Contains(%v)=%v, model says %v", val, got, present), h, changes
			}
		case "len":
			// checked below for every live tree
		case "clear":
			t.tree.Clear()
			t.model = nil
			changes++
		case "clone":
			if len(trees) < 3 {
				c := t.tree.Clone()
				trees = append(trees, &live[T]{tree: &c, model: append([]T(nil), t.model...)})
				changes++
			}
		}
		for ti, lt := range trees {
			if v := checkTree(lt, sc.U, conv); v != nil {
				v.Signature += ":" + cat
				v.Detail = fmt.Sprintf("after op %d %s (elem=%s), tree %d: %s", i, o, sc.Elem, ti, v.Detail)
				return v, h, changes
			}
		}
	}
	return nil, h, changes
}

func equal[T comparable](a, b []T) bool {
	if len(a) != len(b) {
		return false
	}
	for i := range a {
		if a[i] != b[i] {
			return false
		}
	}
	return true
}

func checkTree[T comparable](lt *live[T], u int, conv func(int) T) *core.Violation {
	in := lt.tree.SliceInOrder()
	if got := lt.tree.Len(); got != len(lt.model) {
		return &core.Violation{Signature: "len-mismatch", Detail: fmt.Sprintf("Len()=%d, the multiset has %d values (in-order walk lists %d)", got, len(lt.model), len(in))}
	}
	if !equal(in, lt.model) {
		return &core.Violation{Signature: "inorder-mismatch", Detail: fmt.Sprintf("in-order walk %v, expected sorted multiset %v", in, lt.model)}
	}
	cnt := map[T]int{}
	for _, v := range lt.model {
		cnt[v]++
	}
	for i := 0; i < u; i++ {
		v := conv(i)
		if got := lt.tree.Contains(v); got != (cnt[v] > 0) {
			return &core.Violation{Signature: "contains-mismatch", Detail: fmt.Sprintf("Contains(%v)=%v but the multiset holds it %d times", v, got, cnt[v])}
		}
	}
	pre, post := lt.tree.SlicePreOrder(), lt.tree.SlicePostOrder()
	if len(pre) != len(in) || len(post) != len(in) || !oneTree(pre, in, post) {
		return &core.Violation{Signature: "traversals-inconsistent", Detail: fmt.Sprintf("pre=%v in=%v post=%v are not three traversals of one binary tree", pre, in, post)}
	}
	var wp, wi, wo []T
	lt.tree.WalkPreOrder(func(v T) { wp = append(wp, v) })
	lt.tree.WalkInOrder(func(v T) { wi = append(wi, v) })
	lt.tree.WalkPostOrder(func(v T) { wo = append(wo, v) })
	if !equal(wp, pre) || !equal(wi, in) || !equal(wo, post) {
		return &core.Violation{Signature: "walk-vs-slice", Detail: "Walk* and Slice* disagree"}
	}
	if got, want := lt.tree.String(), fmt.Sprint(in); got != want {
		return &core.Violation{Signature: "string-mismatch", Detail: fmt.Sprintf("String()=%q want %q", got, want)}
	}
	return nil
}

// oneTree reports whether some binary tree has exactly these three traversals
// (with duplicates the root's position in the in-order sequence is ambiguous,
// so every candidate split is tried).
func oneTree[T comparable](pre, in, post []T) bool {
	n := len(pre)
	if n == 0 {
		return true
	}
	root := pre[0]
	if post[n-1] != root {
		return false
	}
	for i := 0; i < n; i++ {
		if in[i] != root {
			continue
		}
		if oneTree(pre[1:1+i], in[:i], post[:i]) && oneTree(pre[1+i:], in[i+1:], post[i:n-1]) {
			return true
		}
	}
	return false
}
