// Package c06 checks property C06: lists.List and lists.Ring behave exactly
// like container/list and container/ring. Single client, no faults.
package c06

import (
	"container/list"
	"container/ring"
	"encoding/json"
	"fmt"

	"gopkg.in/typ.v4/lists"

	"verif/harness/core"
	simrt "verif/sim/rt"
)

// Op is one call; A and B index the handle table (modulo its size), L and M
// select lists.
type Op struct {
	K string `json:"k"`
	L int    `json:"l,omitempty"`
	M int    `json:"m,omitempty"`
	A int    `json:"a,omitempty"`
	B int    `json:"b,omitempty"`
	N int    `json:"n,omitempty"`
}

func (o Op) String() string {
	return fmt.Sprintf("%s(l=%d,m=%d,a=%d,b=%d,n=%d)", o.K, o.L, o.M, o.A, o.B, o.N)
}

// Scenario is a list or a ring history.
type Scenario struct {
	Kind  string `json:"kind"` // list ring
	Rings []int  `json:"rings,omitempty"`
	Ops   []Op   `json:"ops"`
}

// H is the harness.
type H struct{}

// ID implements core.Harness.
func (H) ID() string { return "C06" }

// Faults implements core.Harness.
func (H) Faults() core.FaultMenu {
	return core.FaultMenu{Sequential: true, MapOrder: true, MaxSteps: 100000}
}

// Decode implements core.Harness.
func (H) Decode(b []byte) (any, error) {
	var s Scenario
	err := json.Unmarshal(b, &s)
	return &s, err
}

// Describe implements core.Harness.
func (H) Describe(sc any) string {
	s := sc.(*Scenario)
	return fmt.Sprintf("%s rings=%v ops=%v", s.Kind, s.Rings, s.Ops)
}

var listKinds = []string{"pushfront", "pushback", "pushback", "insertbefore", "insertafter", "remove", "remove", "movetofront", "movetoback", "movebefore", "moveafter", "pushbacklist", "pushfrontlist", "init"}
var ringKinds = []string{"next", "prev", "move", "move", "link", "link", "link", "linknil", "unlink", "unlink", "len", "do", "domut"}

// Generate implements core.Harness.
func (H) Generate(r *simrt.Rand, tier string) any {
	s := &Scenario{Kind: []string{"list", "ring"}[r.Intn(2)]}
	n := 1 + r.Intn(30)
	if r.Intn(5) == 0 {
		n = 1 + r.Intn(150)
	}
	if tier == "thorough" && r.Intn(5) == 0 {
		n = 1 + r.Intn(1000)
	}
	if s.Kind == "ring" {
		for i := 0; i < 1+r.Intn(3); i++ {
			s.Rings = append(s.Rings, r.Intn(6)) // 0: the zero-value ring
		}
	}
	for i := 0; i < n; i++ {
		o := Op{L: r.Intn(3), M: r.Intn(3), A: r.Intn(4096), B: r.Intn(4096), N: r.Intn(15) - 4}
		if s.Kind == "list" {
			o.K = listKinds[r.Intn(len(listKinds))]
			if o.K == "init" && r.Intn(3) != 0 {
				o.K = "pushback"
			}
		} else {
			o.K = ringKinds[r.Intn(len(ringKinds))]
		}
		s.Ops = append(s.Ops, o)
	}
	return s
}

// Shrink implements core.Harness.
func (H) Shrink(sc any) []any {
	s := sc.(*Scenario)
	var out []any
	n := len(s.Ops)
	mk := func(ops []Op) *Scenario { return &Scenario{Kind: s.Kind, Rings: s.Rings, Ops: ops} }
	if n > 2 {
		out = append(out, mk(append([]Op(nil), s.Ops[:n/2]...)), mk(append([]Op(nil), s.Ops[:n-1]...)))
	}
	for i := 0; i < n && len(out) < 300; i++ {
		out = append(out, mk(append(append([]Op(nil), s.Ops[:i]...), s.Ops[i+1:]...)))
	}
	return out
}

// bigCount is the count given to Move and Unlink: the small one of the history,
// or (one call in twelve) a count of several whole laps of the ring as it is at
// that moment, one more or less, or a plain large number - counts are reduced
// modulo the length by the implementation, and a shortcut taken only for large
// counts never shows with -4..10.
func bigCount(op Op, r *ring.Ring) int {
	l := 1
	if r != nil {
		l = r.Len()
	}
	switch op.A % 24 {
	case 0:
		return l*(1+op.B%40) + op.N%2
	case 1:
		return 11 + op.B%300
	}
	return op.N
}

// Execute implements core.Harness.
func (H) Execute(scAny any, cfg simrt.Config, st *core.Stats) (*simrt.Outcome, *core.Violation) {
	sc := scAny.(*Scenario)
	var v *core.Violation
	var h uint64
	body := func() {
		if sc.Kind == "ring" {
			v, h = runRings(sc)
		} else {
			v, h = runLists(sc)
		}
	}
	out := core.RunSequential(cfg, body)
	out.Hash = simrt.Mix(out.Hash, h)
	out.Nontrivial = len(sc.Ops) >= 3
	if pv := core.OutcomeViolation(out); pv != nil {
		return out, pv
	}
	if out.Truncated && v == nil {
		return out, core.NoProgress(out)
	}
	return out, v
}

// sval reads a container/list value (the sentinel of a list holds nil).
func sval(v any) int {
	if i, ok := v.(int); ok {
		return i
	}
	return 0
}

func catch(f func()) (panicked bool) {
	defer func() {
		if recover() != nil {
			panicked = true
		}
	}()
	f()
	return false
}

type lh struct {
	o *lists.Element[int]
	s *list.Element
}

func runLists(sc *Scenario) (*core.Violation, uint64) {
	// slot 0: New(), slot 1: zero value, slot 2: New()
	ours := []*lists.List[int]{lists.New[int](), new(lists.List[int]), lists.New[int]()}
	std := []*list.List{list.New(), new(list.List), list.New()}
	var tab []lh
	oidx := map[*lists.Element[int]]int{}
	sidx := map[*list.Element]int{}
	reg := func(o *lists.Element[int], s *list.Element) {
		oidx[o] = len(tab)
		sidx[s] = len(tab)
		tab = append(tab, lh{o, s})
	}
	var h uint64
	next := -1                                                          // the first value pushed is the zero value
	same := func(o *lists.Element[int], s *list.Element) (bool, bool) { // (corresponds, bothUnknown)
		if o == nil || s == nil {
			return o == nil && s == nil, false
		}
		i, ok1 := oidx[o]
		j, ok2 := sidx[s]
		if !ok1 && !ok2 {
			return true, true
		}
		return ok1 && ok2 && i == j, false
	}
	for i, op := range sc.Ops {
		simrt.Yield()
		h = core.HashInts(h, int(op.K[0])+256*int(op.K[len(op.K)-1]), op.L, op.M, op.A, op.B)
		fail := func(sig, format string, a ...any) *core.Violation {
			return &core.Violation{Signature: "list:" + sig + ":" + op.K, Detail: fmt.Sprintf("after op %d %s: ", i, op) + fmt.Sprintf(format, a...)}
		}
		l, sl := ours[op.L], std[op.L]
		var ea, eb lh
		if len(tab) > 0 {
			ea, eb = tab[op.A%len(tab)], tab[op.B%len(tab)]
		}
		needs := map[string]int{"insertbefore": 1, "insertafter": 1, "remove": 1, "movetofront": 1, "movetoback": 1, "movebefore": 2, "moveafter": 2}
		if needs[op.K] > 0 && len(tab) == 0 {
			continue
		}
		var ro *lists.Element[int]
		var rs *list.Element
		created := false
		var vo int
		var vs any
		var fo, fs func()
		switch op.K {
		case "pushfront":
			next++
			created = true
			fo, fs = func() { ro = l.PushFront(next) }, func() { rs = sl.PushFront(next) }
		case "pushback":
			next++
			created = true
			fo, fs = func() { ro = l.PushBack(next) }, func() { rs = sl.PushBack(next) }
		case "insertbefore":
			next++
			created = true
			fo, fs = func() { ro = l.InsertBefore(next, ea.o) }, func() { rs = sl.InsertBefore(next, ea.s) }
		case "insertafter":
			next++
			created = true
			fo, fs = func() { ro = l.InsertAfter(next, ea.o) }, func() { rs = sl.InsertAfter(next, ea.s) }
		case "remove":
			fo, fs = func() { vo = l.Remove(ea.o) }, func() { vs = sl.Remove(ea.s) }
		case "movetofront":
			fo, fs = func() { l.MoveToFront(ea.o) }, func() { sl.MoveToFront(ea.s) }
		case "movetoback":
			fo, fs = func() { l.MoveToBack(ea.o) }, func() { sl.MoveToBack(ea.s) }
		case "movebefore":
			fo, fs = func() { l.MoveBefore(ea.o, eb.o) }, func() { sl.MoveBefore(ea.s, eb.s) }
		case "moveafter":
			fo, fs = func() { l.MoveAfter(ea.o, eb.o) }, func() { sl.MoveAfter(ea.s, eb.s) }
		case "pushbacklist":
			if std[op.M].Len() > 64 {
				continue
			}
			fo, fs = func() { l.PushBackList(ours[op.M]) }, func() { sl.PushBackList(std[op.M]) }
		case "pushfrontlist":
			if std[op.M].Len() > 64 {
				continue
			}
			fo, fs = func() { l.PushFrontList(ours[op.M]) }, func() { sl.PushFrontList(std[op.M]) }
		case "init":
			fo, fs = func() { l.Init() }, func() { sl.Init() }
		}
		po, ps := catch(fo), catch(fs)
		if po != ps {
			return fail("panic", "lists panicked=%v, container/list panicked=%v", po, ps), h
		}
		if po {
			// both implementations panic here (a state reachable only through Init
			// with stale handles): observationally identical, and the end of what
			// can be compared
			return nil, h
		}
		if op.K == "remove" && sval(vs) != vo {
			return fail("return-value", "Remove returned %d, container/list %v", vo, vs), h
		}
		if created {
			if (ro == nil) != (rs == nil) {
				return fail("return-value", "returned element nil=%v, container/list nil=%v", ro == nil, rs == nil), h
			}
			if ro != nil {
				if ro.Value != sval(rs.Value) {
					return fail("return-value", "new element holds %d, container/list %v", ro.Value, rs.Value), h
				}
				reg(ro, rs)
			}
		}
		// compare all three lists
		corrupt := false
		for li := range ours {
			if ours[li].Len() != std[li].Len() {
				return fail("len", "list %d: Len()=%d, container/list %d", li, ours[li].Len(), std[li].Len()), h
			}
			limit := std[li].Len() + 2
			if limit < 2 {
				limit = 2
			}
			eo, es := ours[li].Front(), std[li].Front()
			steps := 0
			for (eo != nil || es != nil) && steps < limit {
				ok, fresh := same(eo, es)
				if !ok {
					return fail("forward", "list %d: forward traversal diverges at position %d", li, steps), h
				}
				if fresh {
					reg(eo, es) // elements created by PushBackList/PushFrontList
				}
				if eo.Value != sval(es.Value) {
					return fail("forward", "list %d position %d holds %d, container/list %v", li, steps, eo.Value, es.Value), h
				}
				eo, es = eo.Next(), es.Next()
				steps++
			}
			if steps != std[li].Len() {
				// container/list itself is inconsistent here (its traversal and its Len
				// disagree: reachable through Init with stale handles). The fork agreed
				// with it so far; nothing further can be compared meaningfully.
				corrupt = true
			}
			eo, es = ours[li].Back(), std[li].Back()
			steps = 0
			for (eo != nil || es != nil) && steps < limit {
				if ok, _ := same(eo, es); !ok {
					return fail("backward", "list %d: backward traversal diverges at position %d from the back", li, steps), h
				}
				eo, es = eo.Prev(), es.Prev()
				steps++
			}
			if steps != std[li].Len() {
				corrupt = true
			}
		}
		if corrupt {
			return nil, h
		}
		for hi, e := range tab {
			if ok, _ := same(e.o.Next(), e.s.Next()); !ok {
				return fail("neighbours", "handle %d (value %d): Next() differs from container/list", hi, e.o.Value), h
			}
			if ok, _ := same(e.o.Prev(), e.s.Prev()); !ok {
				return fail("neighbours", "handle %d (value %d): Prev() differs from container/list", hi, e.o.Value), h
			}
			if e.o.Value != sval(e.s.Value) {
				return fail("neighbours", "handle %d: value %d vs %v", hi, e.o.Value, e.s.Value), h
			}
		}
	}
	return nil, h
}

type rh struct {
	o *lists.Ring[int]
	s *ring.Ring
}

// emptyRings checks the empty ring, which container/ring represents by a nil
// pointer: New(n) for n <= 0 returns it, its Len is 0 and its Do calls nothing.
// (container/ring's Next, Prev, Move, Link and Unlink dereference their receiver,
// so nothing is asked of them.)
func emptyRings() *core.Violation {
	for _, n := range []int{0, -1, -7} {
		var o *lists.Ring[int]
		if panics(func() { o = lists.NewRing[int](n) }) || o != nil {
			return &core.Violation{Signature: "ring:new-nonpositive", Detail: fmt.Sprintf("NewRing(%d) must return the empty (nil) ring as container/ring's New does", n)}
		}
	}
	var o *lists.Ring[int]
	calls, length := 0, -1
	if panics(func() { length = o.Len(); o.Do(func(int) { calls++ }) }) || length != 0 || calls != 0 {
		return &core.Violation{Signature: "ring:nil-receiver", Detail: fmt.Sprintf("on the empty (nil) ring Len must be 0 and Do must call nothing, without panicking: Len=%d, %d calls", length, calls)}
	}
	return nil
}

func panics(f func()) (p bool) {
	defer func() {
		if recover() != nil {
			p = true
		}
	}()
	f()
	return false
}

func runRings(sc *Scenario) (*core.Violation, uint64) {
	if v := emptyRings(); v != nil {
		return v, 0
	}
	var tab []rh
	oidx := map[*lists.Ring[int]]int{}
	sidx := map[*ring.Ring]int{}
	val := 0
	for _, n := range sc.Rings {
		var o *lists.Ring[int]
		var s *ring.Ring
		if n == 0 {
			o, s = new(lists.Ring[int]), new(ring.Ring) // zero value: a one-element ring
			n = 1
		} else {
			o, s = lists.NewRing[int](n), ring.New(n)
		}
		if (o == nil) != (s == nil) {
			return &core.Violation{Signature: "ring:new", Detail: fmt.Sprintf("NewRing(%d) nil=%v, container/ring nil=%v", n, o == nil, s == nil)}, 0
		}
		for k := 0; k < n; k++ {
			val++
			o.Value = val
			s.Value = val
			oidx[o] = len(tab)
			sidx[s] = len(tab)
			tab = append(tab, rh{o, s})
			if n > 1 { // a zero-value ring is left untouched: its first operation is the history's
				o, s = o.Next(), s.Next()
			}
		}
	}
	var h uint64
	if len(tab) == 0 {
		return nil, h
	}
	same := func(o *lists.Ring[int], s *ring.Ring) bool {
		if o == nil || s == nil {
			return o == nil && s == nil
		}
		i, ok1 := oidx[o]
		j, ok2 := sidx[s]
		return ok1 && ok2 && i == j
	}
	for i, op := range sc.Ops {
		simrt.Yield()
		h = core.HashInts(h, int(op.K[0])+256*int(op.K[len(op.K)-1]), op.A, op.B, op.N)
		fail := func(sig, format string, a ...any) *core.Violation {
			return &core.Violation{Signature: "ring:" + sig + ":" + op.K, Detail: fmt.Sprintf("after op %d %s (rings %v): ", i, op, sc.Rings) + fmt.Sprintf(format, a...)}
		}
		a, b := tab[op.A%len(tab)], tab[op.B%len(tab)]
		var ro *lists.Ring[int]
		var rs *ring.Ring
		var lo, ls int
		var do1, do2 []int
		hasResult := true
		var fo, fs func()
		switch op.K {
		case "next":
			fo, fs = func() { ro = a.o.Next() }, func() { rs = a.s.Next() }
		case "prev":
			fo, fs = func() { ro = a.o.Prev() }, func() { rs = a.s.Prev() }
		case "move":
			n := bigCount(op, a.s)
			fo, fs = func() { ro = a.o.Move(n) }, func() { rs = a.s.Move(n) }
		case "link":
			fo, fs = func() { ro = a.o.Link(b.o) }, func() { rs = a.s.Link(b.s) }
		case "linknil":
			fo, fs = func() { ro = a.o.Link(nil) }, func() { rs = a.s.Link(nil) }
		case "unlink":
			n := bigCount(op, a.s)
			fo, fs = func() { ro = a.o.Unlink(n) }, func() { rs = a.s.Unlink(n) }
		case "len":
			hasResult = false
			fo, fs = func() { lo = a.o.Len() }, func() { ls = a.s.Len() }
		case "domut":
			// Do whose callback edits the ring ahead of the traversal (never *r
			// itself, which container/ring calls undefined): at the k-th visit the
			// visited element x is linked to b, or unlinks op.N elements
			hasResult = false
			k := 1 + op.B%3
			limit := 4*len(tab) + 8
			mutate := func(x, y int, unlink bool, n int) (bool, int, int) {
				// decided on the container/ring structure only; none of the four
				// elements whose pointers change may be r
				xs, ys := tab[x].s, tab[y].s
				if unlink {
					if n <= 0 {
						return false, 0, 0
					}
					ys = xs.Move(n + 1)
				}
				for _, e := range []*ring.Ring{xs, xs.Next(), ys, ys.Prev()} {
					if e == a.s {
						return false, 0, 0
					}
				}
				return true, x, sidx[ys]
			}
			var plan struct {
				do   bool
				x, y int
			}
			visitS := 0
			fs = func() {
				a.s.Do(func(v any) {
					visitS++
					if visitS > limit {
						panic("too many visits")
					}
					do2 = append(do2, sval(v))
					if visitS == k {
						x := -1
						for hi, e := range tab {
							if sval(e.s.Value) == sval(v) {
								x = hi
							}
						}
						if x >= 0 {
							plan.do, plan.x, plan.y = mutate(x, op.B%len(tab), op.N%2 == 0, op.N/2)
							if plan.do {
								tab[plan.x].s.Link(tab[plan.y].s)
							}
						}
					}
				})
			}
			visitO := 0
			fo = func() {
				a.o.Do(func(v int) {
					visitO++
					if visitO > limit {
						panic("too many visits")
					}
					do1 = append(do1, v)
					if visitO == k && plan.do {
						tab[plan.x].o.Link(tab[plan.y].o)
					}
				})
			}
			// container/ring goes first: it decides the plan
			ps0 := catch(fs)
			po0 := catch(fo)
			fo, fs = func() {
				if po0 {
					panic("replay")
				}
			}, func() {
				if ps0 {
					panic("replay")
				}
			}
		default: // do: possibly the very first operation on a zero-value ring
			hasResult = false
			fo, fs = func() { a.o.Do(func(v int) { do1 = append(do1, v) }) }, func() { a.s.Do(func(v any) { do2 = append(do2, sval(v)) }) }
		}
		po, ps := catch(fo), catch(fs)
		if po != ps {
			return fail("panic", "lists panicked=%v, container/ring panicked=%v", po, ps), h
		}
		if po {
			return nil, h
		}
		if hasResult && !same(ro, rs) {
			return fail("result", "%s returned a different element than container/ring", op.K), h
		}
		if lo != ls {
			return fail("len", "Len()=%d, container/ring %d", lo, ls), h
		}
		if fmt.Sprint(do1) != fmt.Sprint(do2) {
			return fail("do", "Do visits %v, container/ring %v", do1, do2), h
		}
		// all neighbours first: Len and Do below walk the links, and on a chain that
		// does not close they would not come back
		for hi, e := range tab {
			if !same(e.o.Next(), e.s.Next()) || !same(e.o.Prev(), e.s.Prev()) {
				return fail("neighbours", "element %d (value %d): Next/Prev differ from container/ring", hi, e.o.Value), h
			}
		}
		for hi, e := range tab {
			if lo, ls := e.o.Len(), e.s.Len(); lo != ls {
				return fail("len", "element %d: Len()=%d, container/ring %d", hi, lo, ls), h
			}
			var do1, do2 []int
			e.o.Do(func(v int) { do1 = append(do1, v) })
			e.s.Do(func(v any) { do2 = append(do2, v.(int)) })
			if fmt.Sprint(do1) != fmt.Sprint(do2) {
				return fail("do", "element %d: Do visits %v, container/ring %v", hi, do1, do2), h
			}
		}
	}
	return nil, h
}
