// Package c05 checks property C05: sync2.Set behaves as one atomic set under
// concurrent use.
package c05

import (
	"encoding/json"
	"fmt"
	"sort"
	"strings"
	"time"

	"github.com/anishathalye/porcupine"
	"gopkg.in/typ.v4/maps"
	"gopkg.in/typ.v4/sync2"

	"verif/harness/core"
	simrt "verif/sim/rt"
	"verif/sim/ssync"
)

// Op is one API call.
type Op struct {
	K    string `json:"k"` // add remove has addset removeset len
	V    int    `json:"v,omitempty"`
	Vals []int  `json:"vals,omitempty"`
}

func (o Op) String() string {
	switch o.K {
	case "addset", "removeset":
		return fmt.Sprintf("%s%v", o.K, o.Vals)
	case "len":
		return "len"
	}
	return fmt.Sprintf("%s(%d)", o.K, o.V)
}

// Scenario is a sequential prefix, concurrent clients, then a checker.
type Scenario struct {
	U       int    `json:"universe"`
	Strings bool   `json:"strings,omitempty"` // Set[string] (empty string included), composite arguments are concurrent sets
	Prefix  []Op   `json:"prefix"`
	Clients [][]Op `json:"clients"`
}

// Rec is a recorded call.
type Rec struct {
	Op   Op
	Inv  int64
	Ret  int64
	Done bool
	B    bool
	N    int
	List []int
}

// H is the harness.
type H struct{}

// ID implements core.Harness.
func (H) ID() string { return "C05" }

// Faults implements core.Harness.
func (H) Faults() core.FaultMenu {
	return core.FaultMenu{MapOrder: true, MaxSteps: 12000, PCTSteps: 150}
}

// Decode implements core.Harness.
func (H) Decode(b []byte) (any, error) {
	var s Scenario
	err := json.Unmarshal(b, &s)
	return &s, err
}

// Describe implements core.Harness.
func (H) Describe(sc any) string {
	s := sc.(*Scenario)
	var sb strings.Builder
	fmt.Fprintf(&sb, "universe=%d prefix=%v", s.U, s.Prefix)
	for i, c := range s.Clients {
		fmt.Fprintf(&sb, " c%d=%v", i, c)
	}
	return sb.String()
}

var kinds = []string{"add", "add", "add", "remove", "remove", "has", "has", "addset", "removeset", "len"}

func genOp(r *simrt.Rand, u int) Op {
	o := Op{K: kinds[r.Intn(len(kinds))], V: r.Intn(u)}
	if o.K == "addset" || o.K == "removeset" {
		o.V = 0
		n := 1
		if r.Intn(3) == 0 {
			n = r.Intn(4) // 0..3, singletons over-represented: their count is an exact per-element result
		}
		seen := map[int]bool{}
		for len(o.Vals) < n && len(seen) < u {
			v := r.Intn(u)
			if !seen[v] {
				seen[v] = true
				o.Vals = append(o.Vals, v)
			}
		}
		sort.Ints(o.Vals)
	}
	if o.K == "len" {
		o.V = 0
	}
	return o
}

// Generate implements core.Harness.
func (H) Generate(r *simrt.Rand, tier string) any {
	s := &Scenario{U: 1 + r.Intn(4), Strings: r.Intn(4) == 0}
	if r.Intn(8) == 0 {
		s.U = 5 + r.Intn(8)
	}
	switch r.Intn(3) {
	case 0: // a promoted read map with a deleted entry that the next new key expunges
		s.Prefix = append(s.Prefix, Op{K: "add", V: 0}, Op{K: "add", V: 1 % s.U}, Op{K: "has", V: 0}, Op{K: "has", V: 0}, Op{K: "has", V: 0}, Op{K: "remove", V: 0})
		if r.Intn(2) == 0 {
			s.Prefix = append(s.Prefix, Op{K: "add", V: 2 % s.U})
		}
	case 1:
		for i := 0; i < r.Intn(10)+s.U; i++ {
			s.Prefix = append(s.Prefix, genOp(r, s.U))
		}
	}
	nc := 2 + r.Intn(3)
	if r.Intn(6) == 0 {
		nc = 5 + r.Intn(4)
	}
	for i := 0; i < nc; i++ {
		var c []Op
		maxOps := 4
		if tier == "thorough" && r.Intn(3) == 0 {
			maxOps = 7
		}
		for j := 0; j < 1+r.Intn(maxOps); j++ {
			c = append(c, genOp(r, s.U))
		}
		s.Clients = append(s.Clients, c)
	}
	return s
}

// Shrink implements core.Harness.
func (H) Shrink(sc any) []any {
	s := sc.(*Scenario)
	var out []any
	clone := func() *Scenario {
		c := &Scenario{U: s.U, Strings: s.Strings, Prefix: append([]Op(nil), s.Prefix...)}
		for _, cl := range s.Clients {
			c.Clients = append(c.Clients, append([]Op(nil), cl...))
		}
		return c
	}
	for i := range s.Clients {
		c := clone()
		c.Clients = append(c.Clients[:i], c.Clients[i+1:]...)
		out = append(out, c)
	}
	for i := range s.Clients {
		for j := range s.Clients[i] {
			c := clone()
			c.Clients[i] = append(c.Clients[i][:j], c.Clients[i][j+1:]...)
			out = append(out, c)
		}
	}
	for i := range s.Prefix {
		c := clone()
		c.Prefix = append(c.Prefix[:i], c.Prefix[i+1:]...)
		out = append(out, c)
	}
	for i := range s.Clients {
		for j, o := range s.Clients[i] {
			if len(o.Vals) > 1 {
				for k := range o.Vals {
					c := clone()
					c.Clients[i][j].Vals = append(append([]int(nil), o.Vals[:k]...), o.Vals[k+1:]...)
					out = append(out, c)
				}
			}
		}
	}
	return out
}

// set is the set under test behind int values (two type instantiations).
type set interface {
	Add(v int) bool
	Remove(v int) bool
	Has(v int) bool
	AddSet(vals []int) int
	RemoveSet(vals []int) int
	Len() int
	Slice() []int
}

type intSet struct{ s sync2.Set[int] }

func (x *intSet) Add(v int) bool    { return x.s.Add(v) }
func (x *intSet) Remove(v int) bool { return x.s.Remove(v) }
func (x *intSet) Has(v int) bool    { return x.s.Has(v) }
func (x *intSet) AddSet(vals []int) int {
	arg := make(maps.Set[int])
	for _, v := range vals {
		arg.Add(v)
	}
	return x.s.AddSet(arg)
}
func (x *intSet) RemoveSet(vals []int) int {
	arg := make(maps.Set[int])
	for _, v := range vals {
		arg.Add(v)
	}
	return x.s.RemoveSet(arg)
}
func (x *intSet) Len() int     { return x.s.Len() }
func (x *intSet) Slice() []int { return x.s.Slice() }

// strSet: string members, the empty string included; composite arguments are
// themselves concurrent sets.
type strSet struct{ s sync2.Set[string] }

func ss(v int) string {
	if v == 0 {
		return ""
	}
	return fmt.Sprint("v", v)
}
func (x *strSet) Add(v int) bool    { return x.s.Add(ss(v)) }
func (x *strSet) Remove(v int) bool { return x.s.Remove(ss(v)) }
func (x *strSet) Has(v int) bool    { return x.s.Has(ss(v)) }
func (x *strSet) AddSet(vals []int) int {
	var arg sync2.Set[string]
	for _, v := range vals {
		arg.Add(ss(v))
	}
	return x.s.AddSet(&arg)
}
func (x *strSet) RemoveSet(vals []int) int {
	var arg sync2.Set[string]
	for _, v := range vals {
		arg.Add(ss(v))
	}
	return x.s.RemoveSet(&arg)
}
func (x *strSet) Len() int { return x.s.Len() }
func (x *strSet) Slice() []int {
	var out []int
	for _, m := range x.s.Slice() {
		v := 0
		if m != "" {
			fmt.Sscanf(m, "v%d", &v)
		}
		out = append(out, v)
	}
	return out
}

func do(s set, o Op) Rec {
	rec := Rec{Op: o}
	rec.Inv = simrt.Stamp()
	switch o.K {
	case "add":
		rec.B = s.Add(o.V)
	case "remove":
		rec.B = s.Remove(o.V)
	case "has":
		rec.B = s.Has(o.V)
	case "addset":
		rec.N = s.AddSet(o.Vals)
	case "removeset":
		rec.N = s.RemoveSet(o.Vals)
	case "len":
		rec.N = s.Len()
	case "slice":
		rec.List = s.Slice()
		sort.Ints(rec.List)
	}
	rec.Ret = simrt.Stamp()
	rec.Done = true
	return rec
}

// Execute implements core.Harness.
func (H) Execute(scAny any, cfg simrt.Config, st *core.Stats) (*simrt.Outcome, *core.Violation) {
	sc := scAny.(*Scenario)
	var set set = &intSet{}
	if sc.Strings {
		set = &strSet{}
	}
	hist := make([][]Rec, 2+len(sc.Clients))
	cfg.StopWhenClientsDone = true // goroutines of the implementation itself (none on the pinned tree) do not keep a run alive
	s := simrt.New(cfg)
	s.Go(func() {
		for _, o := range sc.Prefix {
			simrt.Yield()
			hist[0] = append(hist[0], do(set, o))
		}
		var wg ssync.WaitGroup
		wg.Add(len(sc.Clients))
		for i := range sc.Clients {
			i := i
			simrt.Go(func() {
				defer wg.Done()
				for _, o := range sc.Clients[i] {
					simrt.Yield()
					hist[1+i] = append(hist[1+i], do(set, o))
				}
			})
		}
		wg.Wait()
		last := 1 + len(sc.Clients)
		for v := 0; v < sc.U; v++ {
			simrt.Yield()
			hist[last] = append(hist[last], do(set, Op{K: "has", V: v}))
		}
		simrt.Yield()
		hist[last] = append(hist[last], do(set, Op{K: "len"}))
		simrt.Yield()
		hist[last] = append(hist[last], do(set, Op{K: "slice"}))
	})
	out := s.Run()
	if v := core.OutcomeViolation(out); v != nil {
		return out, v
	}
	if out.Truncated {
		return out, core.NoProgress(out)
	}
	if core.Deadlocked(out) {
		return out, &core.Violation{Signature: "deadlock", Detail: "run ended with tasks blocked forever: " + strings.Join(out.StuckTasks, ", ")}
	}
	return out, check(sc, hist, st)
}

type in struct {
	k    string // add remove has present absent
	desc string
}

var model = porcupine.Model{
	Init: func() interface{} { return false },
	Step: func(state, input, output interface{}) (bool, interface{}) {
		present := state.(bool)
		i := input.(in)
		res := output.(bool)
		switch i.k {
		case "add":
			return res == !present, true
		case "remove":
			return res == present, false
		case "has":
			return res == present, present
		case "addfree": // element of a composite call whose own outcome is not known yet
			return true, true
		case "removefree":
			return true, false
		case "present":
			return present, present
		case "absent":
			return !present, present
		}
		return false, present
	},
	DescribeOperation: func(input, output interface{}) string {
		return fmt.Sprintf("%s -> %v", input.(in).desc, output)
	},
}

type pop struct {
	v  int
	op porcupine.Operation
}

type amb struct {
	desc string
	alts [][]pop
	free []pop // outcome-free form of the same call, used before the search
}

func subsets(items []int, k int) [][]int {
	var out [][]int
	var rec func(start int, cur []int)
	rec = func(start int, cur []int) {
		if len(cur) == k {
			out = append(out, append([]int(nil), cur...))
			return
		}
		for i := start; i < len(items); i++ {
			rec(i+1, append(cur, items[i]))
		}
	}
	rec(0, nil)
	return out
}

func check(sc *Scenario, hist [][]Rec, st *core.Stats) *core.Violation {
	base := make([][]porcupine.Operation, sc.U)
	type ival struct{ inv, ret int64 }
	mut := make([][]ival, sc.U)
	for _, h := range hist {
		for _, r := range h {
			switch r.Op.K {
			case "add", "remove":
				mut[r.Op.V] = append(mut[r.Op.V], ival{r.Inv, r.Ret})
			case "addset", "removeset":
				for _, v := range r.Op.Vals {
					mut[v] = append(mut[v], ival{r.Inv, r.Ret})
				}
			}
		}
	}
	untouched := func(v int, r Rec) bool {
		for _, iv := range mut[v] {
			if !(iv.ret < r.Inv || iv.inv > r.Ret) {
				return false
			}
		}
		return true
	}
	var ambs []amb
	adds, removes := 0, 0
	finalLen := -1
	var finalHas []bool
	for c, h := range hist {
		for _, r := range h {
			call, ret := 2*r.Inv, 2*r.Ret+1
			mk := func(k string, res bool, v int) pop {
				return pop{v, porcupine.Operation{ClientId: c, Input: in{k, fmt.Sprintf("%s[%s %d]", r.Op, k, v)}, Call: call, Output: res, Return: ret}}
			}
			switch r.Op.K {
			case "add", "remove", "has":
				if r.Op.K == "add" && r.B {
					adds++
				}
				if r.Op.K == "remove" && r.B {
					removes++
				}
				p := mk(r.Op.K, r.B, r.Op.V)
				base[r.Op.V] = append(base[r.Op.V], p.op)
				if c == len(hist)-1 && r.Op.K == "has" {
					finalHas = append(finalHas, r.B)
				}
			case "addset", "removeset":
				k := strings.TrimSuffix(r.Op.K, "set")
				if r.N < 0 || r.N > len(r.Op.Vals) {
					return &core.Violation{Signature: "count-out-of-range", Detail: fmt.Sprintf("%s returned %d", r.Op, r.N)}
				}
				if k == "add" {
					adds += r.N
				} else {
					removes += r.N
				}
				a := amb{desc: fmt.Sprintf("%s=%d", r.Op, r.N)}
				for _, succ := range subsets(r.Op.Vals, r.N) {
					in := map[int]bool{}
					for _, v := range succ {
						in[v] = true
					}
					var alt []pop
					for _, v := range r.Op.Vals {
						alt = append(alt, mk(k, in[v], v))
					}
					a.alts = append(a.alts, alt)
				}
				if len(a.alts) == 1 {
					for _, p := range a.alts[0] {
						base[p.v] = append(base[p.v], p.op)
					}
				} else {
					for _, v := range r.Op.Vals {
						a.free = append(a.free, mk(k+"free", true, v))
					}
					ambs = append(ambs, a)
				}
			case "len":
				if r.N < 0 || r.N > sc.U {
					return &core.Violation{Signature: "len-out-of-range", Detail: fmt.Sprintf("Len returned %d with a universe of %d values", r.N, sc.U)}
				}
				if c == len(hist)-1 {
					finalLen = r.N
				}
				if sc.U > 5 {
					// the subset search is exponential in the universe: a concurrent Len
					// over a large universe is only range-checked
					st.Add("oracle.len_range_checked_only", 1)
					continue
				}
				all := make([]int, sc.U)
				for i := range all {
					all[i] = i
				}
				a := amb{desc: fmt.Sprintf("len=%d", r.N)}
				for _, counted := range subsets(all, r.N) {
					in := map[int]bool{}
					for _, v := range counted {
						in[v] = true
					}
					var alt []pop
					for v := 0; v < sc.U; v++ {
						if in[v] {
							alt = append(alt, mk("present", true, v))
						} else if untouched(v, r) {
							alt = append(alt, mk("absent", true, v))
						}
					}
					a.alts = append(a.alts, alt)
				}
				if len(a.alts) == 1 {
					for _, p := range a.alts[0] {
						base[p.v] = append(base[p.v], p.op)
					}
				} else {
					ambs = append(ambs, a)
				}
			case "slice":
				seen := map[int]bool{}
				for _, v := range r.List {
					if v < 0 || v >= sc.U || seen[v] {
						return &core.Violation{Signature: "slice-bad-member", Detail: fmt.Sprintf("Slice returned %v", r.List)}
					}
					seen[v] = true
				}
				for v := 0; v < sc.U; v++ {
					k := "absent"
					if seen[v] {
						k = "present"
					}
					p := mk(k, true, v)
					base[p.v] = append(base[p.v], p.op)
				}
			}
		}
	}
	// conservation: successes(Add) - successes(Remove) == final membership, counts of composites included
	if finalLen >= 0 {
		members := 0
		for _, b := range finalHas {
			if b {
				members++
			}
		}
		if adds-removes != members || members != finalLen {
			return &core.Violation{Signature: "conservation", Detail: fmt.Sprintf("successful adds %d - successful removes %d = %d, but final membership is %d and final Len is %d", adds, removes, adds-removes, members, finalLen)}
		}
	}
	lin := func(v int, extra []porcupine.Operation) bool {
		ops := base[v]
		if len(extra) > 0 {
			ops = append(append([]porcupine.Operation(nil), ops...), extra...)
		}
		if len(ops) == 0 {
			return true
		}
		res := porcupine.CheckOperationsTimeout(model, ops, 10*time.Second)
		st.Add("porcupine.checked_histories", 1)
		st.Add("porcupine.operations", int64(len(ops)))
		if res == porcupine.Unknown {
			st.Add("porcupine.unknown", 1)
		}
		return res != porcupine.Illegal
	}
	free := make([][]porcupine.Operation, sc.U)
	for _, a := range ambs {
		for _, p := range a.free {
			free[p.v] = append(free[p.v], p.op)
		}
	}
	for v := 0; v < sc.U; v++ {
		if !lin(v, free[v]) {
			return &core.Violation{Signature: "not-linearizable", Detail: fmt.Sprintf("the definite results for value %d cannot be ordered as an atomic set: %s", v, describe(base[v]))}
		}
	}
	if len(ambs) == 0 {
		return nil
	}
	// composite calls: some assignment of per-element outcomes consistent with
	// every returned count must make all per-value histories linearizable
	combos := 1
	for _, a := range ambs {
		if len(a.alts) == 0 {
			return &core.Violation{Signature: "count-impossible", Detail: a.desc}
		}
		combos *= len(a.alts)
		if combos > 4000 {
			st.Add("oracle.composite_search_capped", 1)
			return nil
		}
	}
	extra := make([][]porcupine.Operation, sc.U)
	var search func(i int) bool
	search = func(i int) bool {
		if i == len(ambs) {
			for v := 0; v < sc.U; v++ {
				if (len(extra[v]) > 0 || len(free[v]) > 0) && !lin(v, extra[v]) {
					return false
				}
			}
			return true
		}
		for _, alt := range ambs[i].alts {
			for _, p := range alt {
				extra[p.v] = append(extra[p.v], p.op)
			}
			ok := search(i + 1)
			for _, p := range alt {
				extra[p.v] = extra[p.v][:len(extra[p.v])-1]
			}
			if ok {
				return true
			}
		}
		return false
	}
	st.Add("oracle.composite_searches", 1)
	if !search(0) {
		var ds []string
		for _, a := range ambs {
			ds = append(ds, a.desc)
		}
		return &core.Violation{Signature: "not-linearizable", Detail: "no assignment of per-element outcomes to the composite calls [" + strings.Join(ds, ", ") + "] is consistent with an atomic set"}
	}
	return nil
}

func describe(ops []porcupine.Operation) string {
	var sb strings.Builder
	for _, o := range ops {
		fmt.Fprintf(&sb, "[c%d %d..%d %s] ", o.ClientId, o.Call, o.Return, model.DescribeOperation(o.Input, o.Output))
	}
	return sb.String()
}
