// Package c03 checks property C03: set operations equal mathematical set
// algebra in both implementations. Single client, no faults.
package c03

import (
	"encoding/json"
	"fmt"
	"sort"
	"strings"

	"gopkg.in/typ.v4/maps"
	"gopkg.in/typ.v4/sets"
	"gopkg.in/typ.v4/sync2"

	"verif/harness/core"
	simrt "verif/sim/rt"
)

// BOp builds an operand.
type BOp struct {
	K string `json:"k"` // add remove has len
	V int    `json:"v"`
}

func (o BOp) String() string { return fmt.Sprintf("%s(%d)", o.K, o.V) }

// Call is one operation on the two operands.
type Call struct {
	K    string `json:"k"`
	Recv int    `json:"recv"`
	Arg  int    `json:"arg"`
	V    int    `json:"v,omitempty"`
	Vals []int  `json:"vals,omitempty"`
}

func (c Call) String() string {
	n := []string{"A", "B"}
	switch c.K {
	case "add", "remove", "has":
		return fmt.Sprintf("%s.%s(%d)", n[c.Recv], c.K, c.V)
	case "fromslice", "fromkeys", "fromvalues", "stringfmt":
		return fmt.Sprintf("%s(%v)", c.K, c.Vals)
	case "clone", "len":
		return fmt.Sprintf("%s.%s", n[c.Recv], c.K)
	case "rangestop":
		return fmt.Sprintf("%s.range(stop@%d)", n[c.Recv], c.V)
	case "cartesian":
		return fmt.Sprintf("cartesian(%s,%s)", n[c.Recv], n[c.Arg])
	}
	return fmt.Sprintf("%s.%s(%s)", n[c.Recv], c.K, n[c.Arg])
}

// Scenario is two operands, each in one of the implementations, and calls.
type Scenario struct {
	Impl   [2]string `json:"impl"` // maps sync2
	U      int       `json:"universe"`
	BuildA []BOp     `json:"build_a"`
	BuildB []BOp     `json:"build_b"`
	Calls  []Call    `json:"calls"`
	// Lazy: the operands are fully re-read only after the build phase and at the
	// end. Reading a concurrent set promotes its dirty map, so re-reading after every
	// call would keep it in one layout for the whole history.
	Lazy bool `json:"lazy,omitempty"`
}

// H is the harness.
type H struct{}

// ID implements core.Harness.
func (H) ID() string { return "C03" }

// Faults implements core.Harness.
func (H) Faults() core.FaultMenu {
	return core.FaultMenu{Sequential: true, MapOrder: true, MaxSteps: 4000000}
}

// Decode implements core.Harness.
func (H) Decode(b []byte) (any, error) {
	var s Scenario
	err := json.Unmarshal(b, &s)
	return &s, err
}

// Describe implements core.Harness.
func (H) Describe(sc any) string {
	s := sc.(*Scenario)
	return fmt.Sprintf("A:%s=%v B:%s=%v universe=%d calls=%v", s.Impl[0], s.BuildA, s.Impl[1], s.BuildB, s.U, s.Calls)
}

func genBuild(r *simrt.Rand, u int) []BOp {
	var out []BOp
	if u >= 20 && r.Intn(2) == 0 {
		// a large promoted layout, then removals and fresh additions with no
		// enumeration in between: size-guarded fast paths and amended/dirty
		// bookkeeping only move here
		m := 16 + r.Intn(u-18)
		for v := 0; v < m; v++ {
			out = append(out, BOp{K: "add", V: v})
		}
		out = append(out, BOp{K: "len"})
		fresh := m
		for i := 0; i < 2+r.Intn(12); i++ {
			switch r.Intn(4) {
			case 0, 1:
				out = append(out, BOp{K: "remove", V: r.Intn(m)})
			case 2:
				if fresh < u {
					out = append(out, BOp{K: "add", V: fresh})
					fresh++
				}
			default:
				out = append(out, BOp{K: "remove", V: m + r.Intn(u-m)})
			}
		}
		return out
	}
	for i := 0; i < r.Intn(14+u); i++ {
		out = append(out, BOp{K: []string{"add", "add", "add", "remove", "has", "has", "len"}[r.Intn(7)], V: r.Intn(u)})
	}
	return out
}

var callKinds = []string{"stringfmt", "rangestop", "rangestop", "union", "intersect", "setdiff", "symdiff", "union", "intersect", "setdiff", "symdiff", "addset", "removeset", "add", "remove", "has", "clone", "cartesian", "fromslice", "fromkeys", "fromvalues", "len"}

// Generate implements core.Harness.
func (H) Generate(r *simrt.Rand, tier string) any {
	impls := []string{"maps", "sync2"}
	s := &Scenario{Impl: [2]string{impls[r.Intn(2)], impls[r.Intn(2)]}, U: 1 + r.Intn(7)}
	if r.Intn(5) == 0 {
		s.U = 8 + r.Intn(32)
	}
	if r.Intn(60) == 0 {
		// a few hundred members: chunked, sharded or compacting representations have
		// thresholds (64, 128, 256) that a handful of values never reaches
		s.U = 64 + r.Intn(240)
	}
	s.BuildA, s.BuildB = genBuild(r, s.U), genBuild(r, s.U)
	s.Lazy = r.Intn(2) == 0
	n := 1 + r.Intn(10)
	if tier == "thorough" && r.Intn(4) == 0 {
		n = 1 + r.Intn(80)
	}
	for i := 0; i < n; i++ {
		c := Call{K: callKinds[r.Intn(len(callKinds))], Recv: r.Intn(2), Arg: r.Intn(2), V: r.Intn(s.U + 1)}
		if (c.K == "addset" || c.K == "removeset") && c.Arg == c.Recv {
			c.Arg = 1 - c.Recv // a set mutating itself while ranging over itself is documented misuse
		}
		if strings.HasPrefix(c.K, "from") || c.K == "stringfmt" {
			for j := 0; j < r.Intn(8); j++ {
				c.Vals = append(c.Vals, r.Intn(s.U))
			}
		}
		s.Calls = append(s.Calls, c)
	}
	return s
}

// Shrink implements core.Harness.
func (H) Shrink(sc any) []any {
	s := sc.(*Scenario)
	clone := func() *Scenario {
		c := *s
		c.BuildA = append([]BOp(nil), s.BuildA...)
		c.BuildB = append([]BOp(nil), s.BuildB...)
		c.Calls = append([]Call(nil), s.Calls...)
		return &c
	}
	var out []any
	for i := range s.Calls {
		c := clone()
		c.Calls = append(c.Calls[:i], c.Calls[i+1:]...)
		out = append(out, c)
	}
	for i := range s.BuildA {
		c := clone()
		c.BuildA = append(c.BuildA[:i], c.BuildA[i+1:]...)
		out = append(out, c)
	}
	for i := range s.BuildB {
		c := clone()
		c.BuildB = append(c.BuildB[:i], c.BuildB[i+1:]...)
		out = append(out, c)
	}
	for k := 0; k < 2; k++ {
		if s.Impl[k] == "sync2" {
			c := clone()
			c.Impl[k] = "maps"
			out = append(out, c)
		}
	}
	return out
}

var palette = []string{"[x]", "a]", "[b", "{c}", "plain", "]", "[[d]]", "e"}

// stringFormats builds sets of awkward strings and of arrays in both
// implementations and compares String() with every ordering of the members'
// own fmt.Sprint text.
func stringFormats(vals []int) string {
	seen := map[int]bool{}
	var strs []string
	var arrs [][2]int
	for _, v := range vals {
		if seen[v] || len(strs) >= 4 {
			continue
		}
		seen[v] = true
		strs = append(strs, palette[v%len(palette)])
		arrs = append(arrs, [2]int{v, v + 1})
	}
	check := func(got string, members []string) string {
		var perm func(rest []string, acc []string) bool
		perm = func(rest, acc []string) bool {
			if len(rest) == 0 {
				return got == "{"+strings.Join(acc, " ")+"}"
			}
			for i := range rest {
				nr := append(append([]string(nil), rest[:i]...), rest[i+1:]...)
				if perm(nr, append(acc, rest[i])) {
					return true
				}
			}
			return false
		}
		if !perm(members, nil) {
			return fmt.Sprintf("string: String()=%q is not {members separated by spaces} for members %q", got, members)
		}
		return ""
	}
	dedup := map[string]bool{}
	var ms []string
	for _, x := range strs {
		if !dedup[x] {
			dedup[x] = true
			ms = append(ms, x)
		}
	}
	var as []string
	for _, a := range arrs {
		as = append(as, fmt.Sprint(a))
	}
	for _, got := range []string{maps.NewSetFromSlice(strs).String(), sync2.NewSetFromSlice(strs).String()} {
		if d := check(got, ms); d != "" {
			return d
		}
	}
	for _, got := range []string{maps.NewSetFromSlice(arrs).String(), sync2.NewSetFromSlice(arrs).String()} {
		if d := check(got, as); d != "" {
			return d
		}
	}
	return ""
}

func newSet(impl string) sets.Set[int] {
	if impl == "sync2" {
		return &sync2.Set[int]{}
	}
	return make(maps.Set[int])
}

type model map[int]bool

func (m model) sorted() []int {
	var out []int
	for k := range m {
		out = append(out, k)
	}
	sort.Ints(out)
	return out
}

func (m model) clone() model {
	c := model{}
	for k := range m {
		c[k] = true
	}
	return c
}

// verify compares every read method of s with the membership model.
func verify(s sets.Set[int], m model, u int) string {
	if got := s.Len(); got != len(m) {
		return fmt.Sprintf("len: Len()=%d want %d (%v)", got, len(m), m.sorted())
	}
	for v := 0; v <= u+1; v++ {
		if got := s.Has(v); got != m[v] {
			return fmt.Sprintf("has: Has(%d)=%v want %v (%v)", v, got, m[v], m.sorted())
		}
	}
	raw := s.Slice()
	sl := append([]int(nil), raw...)
	sort.Ints(sl)
	if fmt.Sprint(sl) != fmt.Sprint(m.sorted()) {
		return fmt.Sprintf("slice: Slice()=%v want %v", sl, m.sorted())
	}
	// "Slice returns a new slice": it is the caller's, and writing into it changes
	// nothing the set enumerates later (the Range below, and the next Slice)
	for i := range raw {
		raw[i] = -1000 - i
	}
	sl = append([]int(nil), s.Slice()...)
	sort.Ints(sl)
	if fmt.Sprint(sl) != fmt.Sprint(m.sorted()) {
		return fmt.Sprintf("slice-shared: Slice()=%v after the caller wrote into the slice returned before, want %v", sl, m.sorted())
	}
	var seen []int
	s.Range(func(v int) bool { seen = append(seen, v); return true })
	sort.Ints(seen)
	if fmt.Sprint(seen) != fmt.Sprint(m.sorted()) {
		return fmt.Sprintf("range: Range visited %v want %v", seen, m.sorted())
	}
	calls := 0
	s.Range(func(v int) bool { calls++; return false })
	if want := min(1, len(m)); calls != want {
		return fmt.Sprintf("range-stop: callback returning false was called %d times", calls)
	}
	str := s.String()
	if !strings.HasPrefix(str, "{") || !strings.HasSuffix(str, "}") {
		return fmt.Sprintf("string: %q", str)
	}
	toks := strings.Fields(str[1 : len(str)-1])
	sort.Strings(toks)
	var want []string
	for _, v := range m.sorted() {
		want = append(want, fmt.Sprint(v))
	}
	sort.Strings(want)
	if fmt.Sprint(toks) != fmt.Sprint(want) {
		return fmt.Sprintf("string: String()=%q want members %v", str, m.sorted())
	}
	return ""
}

// Execute implements core.Harness.
func (H) Execute(scAny any, cfg simrt.Config, st *core.Stats) (*simrt.Outcome, *core.Violation) {
	sc := scAny.(*Scenario)
	var v *core.Violation
	var h uint64
	body := func() {
		ops := [2]sets.Set[int]{newSet(sc.Impl[0]), newSet(sc.Impl[1])}
		ms := [2]model{{}, {}}
		// the zero value of maps.Set (a nil map) is a valid empty set to read from and
		// to remove from, and every operation on it still returns a set of its own
		// that can be written; nothing is ever added to the operand itself
		var nilOp [2]bool
		for k, build := range [2][]BOp{sc.BuildA, sc.BuildB} {
			adds := false
			for _, o := range build {
				adds = adds || o.K == "add"
			}
			if sc.Impl[k] == "maps" && !adds && (len(build)+sc.U+len(sc.Calls))%2 == 0 {
				var zero maps.Set[int]
				ops[k], nilOp[k] = zero, true
			}
		}
		fail := func(where, d string) {
			sig := d
			if i := strings.Index(d, ":"); i >= 0 {
				sig = d[:i]
			}
			v = &core.Violation{Signature: sig + ":" + where, Detail: fmt.Sprintf("%s (A is %s, B is %s): %s", where, sc.Impl[0], sc.Impl[1], d)}
		}
		for k, build := range [2][]BOp{sc.BuildA, sc.BuildB} {
			for _, o := range build {
				simrt.Yield()
				h = core.HashInts(h, k, int(o.K[0]), o.V)
				switch o.K {
				case "add":
					if got := ops[k].Add(o.V); got != !ms[k][o.V] {
						fail("build", fmt.Sprintf("add-result: Add(%d)=%v", o.V, got))
						return
					}
					ms[k][o.V] = true
				case "remove":
					if got := ops[k].Remove(o.V); got != ms[k][o.V] {
						fail("build", fmt.Sprintf("remove-result: Remove(%d)=%v", o.V, got))
						return
					}
					delete(ms[k], o.V)
				case "has":
					ops[k].Has(o.V + 100) // a miss: moves a concurrent set towards promoting its dirty map
				case "len":
					ops[k].Len() // ranges: promotes the dirty map of a concurrent set
				}
			}
		}
		checkOperands := func(where string) bool {
			for k := 0; k < 2; k++ {
				if d := verify(ops[k], ms[k], sc.U); d != "" {
					fail(where, fmt.Sprintf("operand-%s", d)+fmt.Sprintf(" [operand %c]", 'A'+k))
					return false
				}
			}
			return true
		}
		if !sc.Lazy && !checkOperands("after-build") {
			return
		}
		type keptResult struct {
			res   sets.Set[int]
			want  model
			where string
		}
		var kept []keptResult
		keep := false
		checkKept := func() bool {
			for _, k := range kept {
				if d := verify(k.res, k.want, sc.U); d != "" {
					fail(k.where+"/after-later-calls", "result-"+d)
					return false
				}
			}
			return true
		}
		// result must equal want, and be detached from the operands
		checkResult := func(where string, res sets.Set[int], want model) bool {
			if d := verify(res, want, sc.U); d != "" {
				fail(where, "result-"+d)
				return false
			}
			if keep {
				// left unwritten and read again after later calls have changed the
				// operands: a copy that is only made when the result is written
				// still shares with them until then
				kept = append(kept, keptResult{res, want.clone(), where})
				return true
			}
			res.Add(777)
			for _, x := range want.sorted() {
				res.Remove(x)
			}
			if sc.Lazy {
				return true // the operands are re-read at the end: sharing still shows there
			}
			return checkOperands(where + "/after-mutating-result")
		}
		for ci, c := range sc.Calls {
			simrt.Yield()
			keep = ci%2 == 1 && len(kept) < 8
			h = core.HashInts(h, int(c.K[0])+256*int(c.K[len(c.K)-1]), c.Recv, c.Arg, c.V, len(c.Vals))
			a, b := ops[c.Recv], ops[c.Arg]
			ma, mb := ms[c.Recv], ms[c.Arg]
			where := fmt.Sprintf("%s[%s,%s]", c.K, sc.Impl[c.Recv], sc.Impl[c.Arg])
			if nilOp[c.Recv] && (c.K == "add" || c.K == "addset") {
				continue // a write to a nil map panics, as it does for any Go map: not a call to make
			}
			if nilOp[c.Recv] {
				where += "/zero-value-receiver"
			}
			switch c.K {
			case "union", "intersect", "setdiff", "symdiff":
				want := model{}
				for x := range ma {
					switch c.K {
					case "union":
						want[x] = true
					case "intersect":
						if mb[x] {
							want[x] = true
						}
					case "setdiff", "symdiff":
						if !mb[x] {
							want[x] = true
						}
					}
				}
				for x := range mb {
					if c.K == "union" || (c.K == "symdiff" && !ma[x]) {
						want[x] = true
					}
				}
				var res sets.Set[int]
				switch c.K {
				case "union":
					res = a.Union(b)
				case "intersect":
					res = a.Intersect(b)
				case "setdiff":
					res = a.SetDiff(b)
				case "symdiff":
					res = a.SymDiff(b)
				}
				if !checkResult(where, res, want) {
					return
				}
			case "addset":
				n := 0
				for x := range mb {
					if !ma[x] {
						n++
						ma[x] = true
					}
				}
				if got := a.AddSet(b); got != n {
					fail(where, fmt.Sprintf("count: AddSet returned %d, %d members were gained", got, n))
					return
				}
			case "removeset":
				n := 0
				for x := range mb {
					if ma[x] {
						n++
						delete(ma, x)
					}
				}
				if got := a.RemoveSet(b); got != n {
					fail(where, fmt.Sprintf("count: RemoveSet returned %d, %d members were lost", got, n))
					return
				}
			case "add":
				if got := a.Add(c.V); got != !ma[c.V] {
					fail(where, fmt.Sprintf("add-result: Add(%d)=%v", c.V, got))
					return
				}
				ma[c.V] = true
			case "remove":
				if got := a.Remove(c.V); got != ma[c.V] {
					fail(where, fmt.Sprintf("remove-result: Remove(%d)=%v", c.V, got))
					return
				}
				delete(ma, c.V)
			case "has":
				a.Has(c.V + 100)
			case "len":
				if got := a.Len(); got != len(ma) {
					fail(where, fmt.Sprintf("len: Len()=%d want %d", got, len(ma)))
					return
				}
			case "rangestop":
				calls := 0
				seen := map[int]bool{}
				bad := ""
				a.Range(func(v int) bool {
					calls++
					if !ma[v] || seen[v] {
						bad = fmt.Sprintf("range: visited %d (member: %v, already visited: %v)", v, ma[v], seen[v])
					}
					seen[v] = true
					return calls < c.V
				})
				want := c.V
				if want < 1 {
					want = 1
				}
				if want > len(ma) {
					want = len(ma)
				}
				if bad != "" {
					fail(where, bad)
					return
				}
				if calls != want {
					fail(where, fmt.Sprintf("range-stop: the callback asked to stop at call %d of a set of %d and was called %d times", c.V, len(ma), calls))
					return
				}
			case "clone":
				if !checkResult(where, a.Clone(), ma.clone()) {
					return
				}
			case "stringfmt":
				// members whose own text contains brackets and braces, and array
				// members: String must print exactly the members, in some order
				if d := stringFormats(c.Vals); d != "" {
					fail(where, d)
					return
				}
			case "cartesian":
				prod := sets.CartesianProduct(a, b)
				seen := map[[2]int]bool{}
				for _, p := range prod {
					if !ma[p.A] || !mb[p.B] || seen[[2]int{p.A, p.B}] {
						fail(where, fmt.Sprintf("pairs: unexpected or repeated pair %v in %v", p, prod))
						return
					}
					seen[[2]int{p.A, p.B}] = true
				}
				if len(prod) != len(ma)*len(mb) {
					fail(where, fmt.Sprintf("pairs: %d pairs for |A|=%d |B|=%d", len(prod), len(ma), len(mb)))
					return
				}
			case "fromslice", "fromkeys", "fromvalues":
				want := model{}
				keys := map[int]int{}
				vals := map[int]int{}
				for i, x := range c.Vals {
					want[x] = true
					keys[x] = i
					vals[i] = x
				}
				for _, impl := range []string{"maps", "sync2"} {
					var res sets.Set[int]
					switch {
					case c.K == "fromslice" && impl == "maps":
						res = maps.NewSetFromSlice(c.Vals)
					case c.K == "fromslice":
						res = sync2.NewSetFromSlice(c.Vals)
					case c.K == "fromkeys" && impl == "maps":
						res = maps.NewSetFromKeys(keys)
					case c.K == "fromkeys":
						res = sync2.NewSetFromKeys(keys)
					case impl == "maps":
						res = maps.NewSetFromValues(vals)
					default:
						res = sync2.NewSetFromValues(vals)
					}
					if !checkResult(c.K+"["+impl+"]", res, want.clone()) {
						return
					}
				}
			}
			if !sc.Lazy && !checkOperands(where) {
				return
			}
			switch c.K {
			case "add", "remove", "addset", "removeset":
				if !checkKept() {
					return
				}
			}
		}
		if sc.Lazy && !checkOperands("at-the-end") {
			return
		}
		if !checkKept() {
			return
		}
	}
	out := core.RunSequential(cfg, body)
	out.Hash = simrt.Mix(out.Hash, h)
	out.Nontrivial = len(sc.BuildA)+len(sc.BuildB)+len(sc.Calls) >= 3
	if pv := core.OutcomeViolation(out); pv != nil {
		return out, pv
	}
	if out.Truncated && v == nil {
		return out, core.NoProgress(out)
	}
	return out, v
}
