// Package c19 checks property C19: the channel helpers never lose, duplicate
// or invent a value.
package c19

import (
	"context"
	"encoding/json"
	"fmt"
	"strings"
	"sync/atomic"
	"time"

	"gopkg.in/typ.v4/chans"

	"verif/harness/core"
	simrt "verif/sim/rt"
)

// Peer is another goroutine using the channel.
type Peer struct {
	Kind  string `json:"kind"` // send sendclose (sends, then closes the channel) recv close cancel
	Delay int    `json:"delay,omitempty"`
	Sleep int64  `json:"sleep,omitempty"` // virtual nanoseconds before acting
	N     int    `json:"n,omitempty"`     // number of values to send/receive (default 1)
}

func (p Peer) String() string {
	return fmt.Sprintf("%s(n=%d,after %d yields+%v)", p.Kind, p.count(), p.Delay, time.Duration(p.Sleep))
}

func (p Peer) count() int {
	if p.N <= 0 {
		return 1
	}
	return p.N
}

// Scenario is one helper call plus its environment.
type Scenario struct {
	Call    string `json:"call"` // SendTimeout SendContext RecvTimeout RecvContext RecvQueued RecvQueuedFull
	Cap     int    `json:"cap"`
	Fill    int    `json:"fill"`
	Closed  bool   `json:"closed,omitempty"` // closed before the call (after pre-filling)
	Timeout int64  `json:"timeout,omitempty"`
	Limit   int    `json:"limit,omitempty"`
	Peers   []Peer `json:"peers,omitempty"`
}

// H is the harness.
type H struct{}

// ID implements core.Harness.
func (H) ID() string { return "C19" }

// Faults implements core.Harness.
func (H) Faults() core.FaultMenu { return core.FaultMenu{Stall: true, MaxSteps: 6000, PCTSteps: 40} }

// Decode implements core.Harness.
func (H) Decode(b []byte) (any, error) {
	var s Scenario
	err := json.Unmarshal(b, &s)
	return &s, err
}

// Describe implements core.Harness.
func (H) Describe(sc any) string {
	s := sc.(*Scenario)
	x := fmt.Sprintf("%s cap=%d fill=%d closed=%v", s.Call, s.Cap, s.Fill, s.Closed)
	if strings.HasSuffix(s.Call, "Timeout") {
		x += fmt.Sprintf(" timeout=%v", time.Duration(s.Timeout))
	}
	if strings.HasPrefix(s.Call, "RecvQueued") {
		x += fmt.Sprintf(" limit=%d", s.Limit)
	}
	return x + fmt.Sprintf(" peers=%v", s.Peers)
}

var timeouts = []int64{-int64(time.Second), 0, int64(time.Millisecond), int64(time.Second), int64(time.Minute)}
var sleeps = []int64{0, 0, int64(500 * time.Microsecond), int64(2 * time.Millisecond), int64(2 * time.Second)}

// Generate implements core.Harness.
func (H) Generate(r *simrt.Rand, tier string) any {
	s := &Scenario{}
	if r.Intn(3) == 0 {
		s.Call = []string{"RecvQueued", "RecvQueuedFull"}[r.Intn(2)]
		s.Cap = r.Intn(5)
		s.Limit = r.Intn(7)
		if r.Intn(4) == 0 {
			// sizes are a tuning knob too: batch- or chunk-size dependent code only
			// shows with capacities and limits well above a handful
			s.Cap = r.Intn(70)
			s.Limit = r.Intn(90)
		}
		s.Fill = r.Intn(s.Cap + 1)
		if r.Intn(3) == 0 {
			s.Fill = s.Cap
		}
		s.Closed = r.Intn(3) == 0
		if !s.Closed && r.Intn(2) == 0 {
			for i := 0; i < 1+r.Intn(2); i++ {
				s.Peers = append(s.Peers, Peer{Kind: "send", Delay: r.Intn(6), N: 1 + r.Intn(3+s.Cap/8)})
			}
			if len(s.Peers) == 1 && r.Intn(2) == 0 {
				// the usual producer: sends what it has, then closes the channel - while
				// the queued receiver may be in the middle of draining it
				s.Peers[0].Kind = "sendclose"
			}
		}
		if r.Intn(4) == 0 {
			// a competing consumer: whatever it takes, the queued receiver must not block
			for i := 0; i < 1+r.Intn(2); i++ {
				s.Peers = append(s.Peers, Peer{Kind: "recv", Delay: r.Intn(6), N: 1 + r.Intn(2+s.Cap/4)})
			}
		}
		return s
	}
	s.Call = []string{"SendTimeout", "SendContext", "RecvTimeout", "RecvContext"}[r.Intn(4)]
	s.Cap = r.Intn(3)
	s.Fill = r.Intn(s.Cap + 1)
	s.Timeout = timeouts[r.Intn(len(timeouts))]
	recv := strings.HasPrefix(s.Call, "Recv")
	if recv && r.Intn(8) == 0 {
		s.Closed = true
	}
	for i := 0; i < r.Intn(3); i++ {
		k := "send"
		if r.Intn(2) == 0 {
			k = "recv"
		}
		if s.Closed && k == "send" {
			k = "recv"
		}
		s.Peers = append(s.Peers, Peer{Kind: k, Delay: r.Intn(8), Sleep: sleeps[r.Intn(len(sleeps))]})
	}
	if recv && !s.Closed && r.Intn(4) == 0 {
		// sending on a closed channel is the caller's own error: only receivers see a close
		ok := true
		for _, p := range s.Peers {
			if p.Kind == "send" {
				ok = false
			}
		}
		if ok {
			s.Peers = append(s.Peers, Peer{Kind: "close", Delay: r.Intn(8), Sleep: sleeps[r.Intn(len(sleeps))]})
		}
	}
	if strings.HasSuffix(s.Call, "Context") && r.Intn(3) != 0 {
		s.Peers = append(s.Peers, Peer{Kind: "cancel", Delay: r.Intn(8), Sleep: sleeps[r.Intn(len(sleeps))]})
	}
	return s
}

// Shrink implements core.Harness.
func (H) Shrink(sc any) []any {
	s := sc.(*Scenario)
	clone := func() *Scenario {
		c := *s
		c.Peers = append([]Peer(nil), s.Peers...)
		return &c
	}
	var out []any
	for i := range s.Peers {
		c := clone()
		c.Peers = append(c.Peers[:i], c.Peers[i+1:]...)
		out = append(out, c)
	}
	for i, p := range s.Peers {
		if p.Delay > 0 {
			c := clone()
			c.Peers[i].Delay = 0
			out = append(out, c)
		}
		if p.Sleep > 0 {
			c := clone()
			c.Peers[i].Sleep = 0
			out = append(out, c)
		}
		if p.N > 1 {
			c := clone()
			c.Peers[i].N = p.N - 1
			out = append(out, c)
		}
	}
	if s.Fill > 0 {
		c := clone()
		c.Fill--
		out = append(out, c)
	}
	if s.Cap > s.Fill {
		c := clone()
		c.Cap--
		out = append(out, c)
	}
	if s.Limit > 1 {
		c := clone()
		c.Limit--
		out = append(out, c)
	}
	return out
}

type simCtx struct {
	done chan struct{}
	err  atomic.Value // error; a real context synchronises Err with cancellation too
}

func (c *simCtx) Deadline() (time.Time, bool) { return time.Time{}, false }
func (c *simCtx) Done() <-chan struct{}       { return c.done }
func (c *simCtx) Err() error {
	if e, ok := c.err.Load().(error); ok {
		return e
	}
	return nil
}
func (c *simCtx) Value(any) any { return nil }

const callerToken = 500

type result struct {
	returned bool
	ok       bool
	val      int
	list     []int
	buf      []int
	full     []int
	n        int
	t0, t1   int64
	inv, ret int64
}

type peerLog struct {
	sentAck  []int // sends that returned
	offered  []int // sends attempted
	received []int
	closedAt int64
	acted    bool
}

// Execute implements core.Harness.
func (H) Execute(scAny any, cfg simrt.Config, st *core.Stats) (*simrt.Outcome, *core.Violation) {
	sc := scAny.(*Scenario)
	ch := make(chan int, sc.Cap)
	for i := 1; i <= sc.Fill; i++ {
		ch <- i
	}
	if sc.Closed {
		close(ch)
	}
	ctx := &simCtx{done: make(chan struct{})}
	var res result
	logs := make([]peerLog, len(sc.Peers))
	var cancelAt, closeAt int64 = -1, -1
	cfg.StopWhenClientsDone = true // goroutines of the implementation itself (none on the pinned tree) do not keep a run alive
	s := simrt.New(cfg)
	s.Go(func() {
		if sc.Closed {
			// tell the model: the channel was closed outside the simulation
			simrt.MarkClosed(ch)
		}
		for i := range sc.Peers {
			i := i
			p := sc.Peers[i]
			simrt.Go(func() {
				for d := 0; d < p.Delay; d++ {
					simrt.Yield()
				}
				if p.Sleep > 0 {
					simrt.Sleep(time.Duration(p.Sleep))
				}
				switch p.Kind {
				case "send":
					for k := 0; k < p.count(); k++ {
						tok := 1000*(i+1) + k
						logs[i].offered = append(logs[i].offered, tok)
						simrt.Send(ch, tok)
						logs[i].sentAck = append(logs[i].sentAck, tok)
					}
				case "sendclose":
					for k := 0; k < p.count(); k++ {
						tok := 1000*(i+1) + k
						logs[i].offered = append(logs[i].offered, tok)
						simrt.Send(ch, tok)
						logs[i].sentAck = append(logs[i].sentAck, tok)
					}
					closeAt = simrt.Stamp()
					simrt.Close(ch)
				case "recv":
					for k := 0; k < p.count(); k++ {
						v, ok := simrt.Recv2(ch)
						if !ok {
							break
						}
						logs[i].received = append(logs[i].received, v)
					}
				case "close":
					closeAt = simrt.Stamp()
					simrt.Close(ch)
				case "cancel":
					cancelAt = simrt.Stamp()
					simrt.Count("fault.ctx_cancel", 1)
					ctx.err.Store(context.Canceled)
					simrt.Close(ctx.done)
				}
				logs[i].acted = true
			})
		}
		simrt.Yield()
		res.t0 = simrt.NowNanos()
		res.inv = simrt.Stamp()
		switch sc.Call {
		case "SendTimeout":
			res.ok = chans.SendTimeout(ch, callerToken, time.Duration(sc.Timeout))
		case "SendContext":
			res.ok = chans.SendContext(context.Context(ctx), ch, callerToken)
		case "RecvTimeout":
			res.val, res.ok = chans.RecvTimeout(ch, time.Duration(sc.Timeout))
		case "RecvContext":
			res.val, res.ok = chans.RecvContext(context.Context(ctx), (<-chan int)(ch))
		case "RecvQueued":
			res.list = chans.RecvQueued(ch, sc.Limit)
		case "RecvQueuedFull":
			// the caller's buffer is a window into a larger array (a reused scratch
			// buffer): the limit is its length, not its capacity
			spare := (sc.Cap + sc.Fill) % 4
			res.full = make([]int, sc.Limit+spare)
			for i := range res.full {
				res.full[i] = -1
			}
			res.buf = res.full[:sc.Limit]
			res.n = chans.RecvQueuedFull(ch, res.buf)
		}
		res.ret = simrt.Stamp()
		res.t1 = simrt.NowNanos()
		res.returned = true
	})
	out := s.Run()
	if v := core.OutcomeViolation(out); v != nil {
		return out, v
	}
	if out.Truncated && res.returned {
		return out, core.NoProgress(out)
	}
	// (A run that exhausts its steps while the call under test has not returned is
	// judged like one that ended with the call parked: an implementation may wait by
	// polling, and for the timed helpers never returning is not a violation by
	// itself - for the queued receivers it is, and is reported as such below.)
	// drain what is left in the channel
	var left []int
drain:
	for {
		select {
		case v, ok := <-ch:
			if !ok {
				break drain
			}
			left = append(left, v)
		default:
			break drain
		}
	}
	return out, check(sc, &res, logs, left, cancelAt, closeAt, out)
}

func check(sc *Scenario, res *result, logs []peerLog, left []int, cancelAt, closeAt int64, out *simrt.Outcome) *core.Violation {
	offered := map[int]bool{}
	acked := map[int]bool{}
	for i := 1; i <= sc.Fill; i++ {
		offered[i], acked[i] = true, true
	}
	for _, l := range logs {
		for _, t := range l.offered {
			offered[t] = true
		}
		for _, t := range l.sentAck {
			acked[t] = true
		}
	}
	sendCall := strings.HasPrefix(sc.Call, "Send")
	if sendCall {
		offered[callerToken] = true
		if res.returned && res.ok {
			acked[callerToken] = true
		}
	}
	// where every token ended up
	where := map[int]int{}
	for _, l := range logs {
		for _, t := range l.received {
			where[t]++
		}
	}
	for _, t := range left {
		where[t]++
	}
	var got []int
	switch sc.Call {
	case "RecvTimeout", "RecvContext":
		if res.returned && res.ok {
			got = []int{res.val}
		}
	case "RecvQueued":
		got = res.list
	case "RecvQueuedFull":
		if res.returned {
			if res.n < 0 || res.n > len(res.buf) {
				return &core.Violation{Signature: "recvqueuedfull-count-out-of-range", Detail: fmt.Sprintf("returned %d for a buffer of %d", res.n, len(res.buf))}
			}
			got = res.buf[:res.n]
			// what the slots of buf after the count hold is nobody's business (an
			// implementation may clear the buffer first, or leave the zero value of a
			// receive that found the channel closed there); the array BEHIND the buffer
			// the caller handed in is the caller's
			for i := len(res.buf); i < len(res.full); i++ {
				if res.full[i] != -1 {
					return &core.Violation{Signature: "recvqueuedfull-wrote-past-buffer", Detail: fmt.Sprintf("returned %d for a buffer of length %d, but the caller's array behind it is now %v (it held -1 everywhere)", res.n, len(res.buf), res.full)}
				}
			}
		}
	}
	queued := strings.HasPrefix(sc.Call, "RecvQueued")
	for _, t := range got {
		if !offered[t] {
			sig := "invented-value"
			if queued && t == 0 {
				sig = "recvqueued-zero-padding"
			}
			return &core.Violation{Signature: sig, Detail: fmt.Sprintf("%s returned %v (ok=%v): %d was never sent; channel cap=%d prefilled 1..%d closed=%v", sc.Call, got, res.ok, t, sc.Cap, sc.Fill, sc.Closed || closeAt >= 0)}
		}
		where[t]++
	}
	for t, n := range where {
		if !offered[t] {
			return &core.Violation{Signature: "invented-value", Detail: fmt.Sprintf("token %d appeared on the channel but was never sent", t)}
		}
		if n > 1 {
			return &core.Violation{Signature: "duplicated-value", Detail: fmt.Sprintf("token %d was received %d times", t, n)}
		}
	}
	for t := range acked {
		if where[t] == 0 {
			what := "a value a sender was told had been sent"
			if t == callerToken {
				what = "the value for which the send helper returned true"
			}
			return &core.Violation{Signature: "lost-value", Detail: fmt.Sprintf("%s (token %d) is neither with a receiver nor in the channel: consumed and dropped", what, t)}
		}
	}
	if sendCall && where[callerToken] > 0 && !(res.returned && res.ok) {
		return &core.Violation{Signature: "sent-but-reported-false", Detail: fmt.Sprintf("%s returned=%v ok=%v but its value reached the channel", sc.Call, res.returned, res.ok)}
	}
	if queued {
		if !res.returned {
			return &core.Violation{Signature: "recvqueued-blocked", Detail: sc.Call + " did not return: " + strings.Join(out.StuckTasks, ", ")}
		}
		if len(got) > sc.Limit {
			return &core.Violation{Signature: "recvqueued-over-limit", Detail: fmt.Sprintf("%d values for a limit of %d", len(got), sc.Limit)}
		}
		// FIFO: prefilled tokens first and in order, each sender's tokens in its own order
		last := map[int]int{}
		for _, t := range got {
			src := 0
			if t >= 1000 {
				src = t / 1000
			}
			if t <= last[src] {
				return &core.Violation{Signature: "recvqueued-order", Detail: fmt.Sprintf("%v is not in FIFO order", got)}
			}
			last[src] = t
		}
		want := sc.Fill
		if want > sc.Limit {
			want = sc.Limit
		}
		competing := false
		for _, p := range sc.Peers {
			if p.Kind == "recv" {
				competing = true
			}
		}
		if competing {
			// another consumer may take queued values first: only never-blocks, the
			// limit, FIFO order and conservation (above) are required
			return nil
		}
		if len(got) < want {
			return &core.Violation{Signature: "recvqueued-missed-queued-values", Detail: fmt.Sprintf("%d values were queued at the call (limit %d) but only %v was returned", sc.Fill, sc.Limit, got)}
		}
		for i := 0; i < want; i++ {
			if got[i] != i+1 {
				return &core.Violation{Signature: "recvqueued-order", Detail: fmt.Sprintf("the queued values 1..%d must come first, got %v", want, got)}
			}
		}
		if len(sc.Peers) == 0 && len(got) != want {
			return &core.Violation{Signature: "recvqueued-extra-values", Detail: fmt.Sprintf("quiescent channel with %d queued, limit %d: got %v", sc.Fill, sc.Limit, got)}
		}
		return nil
	}
	if !res.returned {
		// never returning is only a violation when the statement promises a return:
		// it does not (a positive timeout is not promised to fire, a peer may never come)
		return nil
	}
	// legitimacy of a false result
	if !res.ok {
		if !sendCall && res.val != 0 {
			return &core.Violation{Signature: "nonzero-value-with-false", Detail: fmt.Sprintf("%s returned (%d,false)", sc.Call, res.val)}
		}
		closedBefore := sc.Closed || (closeAt >= 0 && closeAt <= res.ret)
		switch sc.Call {
		case "SendTimeout", "RecvTimeout":
			if sc.Call == "RecvTimeout" && closedBefore {
				return nil
			}
			if sc.Timeout <= 0 {
				return &core.Violation{Signature: "gave-up-without-limit", Detail: fmt.Sprintf("%s with timeout %v (no limit) returned false on an open channel", sc.Call, time.Duration(sc.Timeout))}
			}
			if res.t1-res.t0 < sc.Timeout {
				return &core.Violation{Signature: "timed-out-early", Detail: fmt.Sprintf("%s gave up after %v of virtual time, timeout was %v", sc.Call, time.Duration(res.t1-res.t0), time.Duration(sc.Timeout))}
			}
		case "SendContext", "RecvContext":
			if sc.Call == "RecvContext" && closedBefore {
				return nil
			}
			if cancelAt < 0 || cancelAt > res.ret {
				return &core.Violation{Signature: "gave-up-without-cancel", Detail: sc.Call + " returned false although the context was not cancelled and the channel is open"}
			}
		}
	}
	return nil
}
