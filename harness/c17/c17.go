// Package c17 checks property C17: Once1/Once2/Once3 run exactly one of the
// supplied functions exactly once, every Do returns that invocation's values,
// and only after it has completed.
package c17

import (
	"encoding/json"
	"fmt"
	"strings"

	"gopkg.in/typ.v4/sync2"

	"verif/harness/core"
	simrt "verif/sim/rt"
	"verif/sim/ssync"
)

// Caller is one task calling Do.
type Caller struct {
	Delay int  `json:"delay"`           // yields before calling: later arrivals
	Inner int  `json:"inner"`           // scheduling points inside this caller's function
	Again int  `json:"again"`           // extra Do calls afterwards by the same task
	Panic bool `json:"panic,omitempty"` // fault: this caller's function panics instead of returning
	Nil   bool `json:"nil,omitempty"`   // this caller passes a nil function
}

// Scenario is a set of callers of one OnceN value.
type Scenario struct {
	N       int      `json:"n"`               // 1, 2 or 3 results
	Iface   bool     `json:"iface,omitempty"` // N==1 only: the result type is an interface and the functions return nil
	Callers []Caller `json:"callers"`
}

// H is the harness.
type H struct{}

// ID implements core.Harness.
func (H) ID() string { return "C17" }

// Faults implements core.Harness.
func (H) Faults() core.FaultMenu { return core.FaultMenu{MaxSteps: 8000, PCTSteps: 60} }

// Decode implements core.Harness.
func (H) Decode(b []byte) (any, error) {
	var s Scenario
	err := json.Unmarshal(b, &s)
	return &s, err
}

// Describe implements core.Harness.
func (H) Describe(sc any) string {
	s := sc.(*Scenario)
	if s.Iface {
		return fmt.Sprintf("Once1[any] returning nil, callers=%+v", s.Callers)
	}
	return fmt.Sprintf("Once%d callers=%+v", s.N, s.Callers)
}

// Generate implements core.Harness.
func (H) Generate(r *simrt.Rand, tier string) any {
	s := &Scenario{N: 1 + r.Intn(3)}
	if s.N == 1 && r.Intn(3) == 0 {
		s.Iface = true
	}
	n := 2 + r.Intn(5)
	for i := 0; i < n; i++ {
		c := Caller{Inner: r.Intn(4)}
		if r.Intn(3) == 0 {
			c.Delay = r.Intn(12)
		}
		if r.Intn(4) == 0 {
			c.Again = 1 + r.Intn(2)
		}
		if r.Intn(8) == 0 {
			c.Panic = true
		}
		if r.Intn(10) == 0 {
			c.Nil = true
		}
		s.Callers = append(s.Callers, c)
	}
	return s
}

// Shrink implements core.Harness.
func (H) Shrink(sc any) []any {
	s := sc.(*Scenario)
	var out []any
	for i := range s.Callers {
		if len(s.Callers) <= 1 {
			break
		}
		c := &Scenario{N: s.N, Iface: s.Iface}
		c.Callers = append(append([]Caller(nil), s.Callers[:i]...), s.Callers[i+1:]...)
		out = append(out, c)
	}
	for i, cl := range s.Callers {
		if cl.Panic || cl.Nil {
			c := &Scenario{N: s.N, Iface: s.Iface, Callers: append([]Caller(nil), s.Callers...)}
			c.Callers[i].Panic, c.Callers[i].Nil = false, false
			out = append(out, c)
		}
		if cl.Delay > 0 || cl.Inner > 0 || cl.Again > 0 {
			c := &Scenario{N: s.N, Iface: s.Iface, Callers: append([]Caller(nil), s.Callers...)}
			if cl.Delay > 0 {
				c.Callers[i].Delay = 0
			} else if cl.Again > 0 {
				c.Callers[i].Again = 0
			} else {
				c.Callers[i].Inner--
			}
			out = append(out, c)
		}
	}
	return out
}

func winnerOf(invoked []int) int {
	w := -1
	for i, n := range invoked {
		if n > 0 {
			w = i
		}
	}
	return w
}

type actionPanic struct{}

type result struct {
	done     bool
	panicked bool
	r        [3]int
	effect   int // value of the shared plain variable read right after Do returned
}

// Execute implements core.Harness.
func (H) Execute(scAny any, cfg simrt.Config, st *core.Stats) (*simrt.Outcome, *core.Violation) {
	sc := scAny.(*Scenario)
	var o1 sync2.Once1[int]
	var oi sync2.Once1[any] // interface-typed result: the action returns nil
	var o2 sync2.Once2[int, int]
	var o3 sync2.Once3[int, int, int]
	invoked := make([]int, len(sc.Callers)) // per function: each slot written by the task that runs it
	nilInvoked := make([]int, len(sc.Callers))
	effect := 0 // plain: written as the last statement of the action
	var results [][]result
	for range sc.Callers {
		results = append(results, nil)
	}
	cfg.StopWhenClientsDone = true // goroutines of the implementation itself (none on the pinned tree) do not keep a run alive
	s := simrt.New(cfg)
	s.Go(func() {
		var wg ssync.WaitGroup
		wg.Add(len(sc.Callers))
		for i := range sc.Callers {
			i := i
			c := sc.Callers[i]
			simrt.Go(func() {
				defer wg.Done()
				for d := 0; d < c.Delay; d++ {
					simrt.Yield()
				}
				body := func() {
					invoked[i]++
					for k := 0; k < c.Inner; k++ {
						simrt.Yield()
					}
					if c.Panic {
						simrt.Count("fault.action_panics", 1)
						panic(actionPanic{})
					}
					effect = i + 1
				}
				for rep := 0; rep <= c.Again; rep++ {
					simrt.Yield()
					var res result
					func() {
						defer func() {
							if p := recover(); p != nil {
								if _, ours := p.(actionPanic); !ours {
									if e, isErr := p.(error); !(c.Nil && isErr && strings.Contains(e.Error(), "nil pointer dereference")) {
										panic(p)
									}
									// this caller's nil function was the one chosen: the invocation panics
									nilInvoked[i]++
								}
								res.panicked = true
							}
						}()
						switch {
						case c.Nil && sc.N == 1 && sc.Iface:
							got := oi.Do(nil)
							res.r[0] = (winnerOf(invoked)+1)*10 + 1
							if got != nil {
								res.r[0] = -1
							}
						case c.Nil && sc.N == 1:
							res.r[0] = o1.Do(nil)
						case c.Nil && sc.N == 2:
							res.r[0], res.r[1] = o2.Do(nil)
						case c.Nil && sc.N == 3:
							res.r[0], res.r[1], res.r[2] = o3.Do(nil)
						case sc.N == 1 && sc.Iface:
							got := oi.Do(func() any { body(); return nil })
							res.r[0] = (winnerOf(invoked)+1)*10 + 1 // nil is the only possible value: encode "as expected"
							if got != nil {
								res.r[0] = -1
							}
						case sc.N == 1:
							res.r[0] = o1.Do(func() int { body(); return (i+1)*10 + 1 })
						case sc.N == 2:
							res.r[0], res.r[1] = o2.Do(func() (int, int) { body(); return (i+1)*10 + 1, (i+1)*10 + 2 })
						case sc.N == 3:
							res.r[0], res.r[1], res.r[2] = o3.Do(func() (int, int, int) { body(); return (i+1)*10 + 1, (i+1)*10 + 2, (i+1)*10 + 3 })
						}
					}()
					res.effect = effect
					res.done = true
					results[i] = append(results[i], res)
				}
			})
		}
		wg.Wait()
	})
	out := s.Run()
	if v := core.OutcomeViolation(out); v != nil {
		return out, v
	}
	if out.Truncated {
		return out, core.NoProgress(out)
	}
	if core.Deadlocked(out) {
		return out, &core.Violation{Signature: "deadlock", Detail: fmt.Sprint("Do never returned: ", out.StuckTasks)}
	}
	total, winner := 0, -1
	for i, n := range invoked {
		total += n
		if n > 0 {
			winner = i
		}
	}
	nilTotal := 0
	for _, n := range nilInvoked {
		nilTotal += n
	}
	if nilTotal > 0 {
		// a nil function was the one invoked (and panicked): it counts as the one
		// invocation, and there are no values to share
		if total+nilTotal != 1 {
			return out, &core.Violation{Signature: "invocations!=1", Detail: fmt.Sprintf("%d function invocations in total, %d of them of a nil function (per caller: %v / %v)", total+nilTotal, nilTotal, invoked, nilInvoked)}
		}
		return out, nil
	}
	if total != 1 {
		return out, &core.Violation{Signature: "invocations!=1", Detail: fmt.Sprintf("%d function invocations in total (per caller: %v)", total, invoked)}
	}
	if sc.Callers[winner].Panic {
		// the one invocation did not return: there are no values to share; what the
		// statement still promises is that no second function is invoked (checked above)
		return out, nil
	}
	for i, rs := range results {
		for _, r := range rs {
			if r.panicked {
				return out, &core.Violation{Signature: "unexpected-panic", Detail: fmt.Sprintf("caller %d's Do panicked although the invoked function returned normally", i)}
			}
			for k := 0; k < sc.N; k++ {
				if r.r[k] != (winner+1)*10+k+1 {
					return out, &core.Violation{Signature: "wrong-results", Detail: fmt.Sprintf("caller %d got %v, the only invocation (caller %d's function) returned %d..", i, r.r[:sc.N], winner, (winner+1)*10+1)}
				}
			}
			if r.effect != winner+1 {
				return out, &core.Violation{Signature: "returned-before-completion", Detail: fmt.Sprintf("caller %d returned from Do and read effect=%d, but the invocation's last write is %d", i, r.effect, winner+1)}
			}
		}
	}
	return out, nil
}
