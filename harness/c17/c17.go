// Package c17 checks property C17: Once1/Once2/Once3 run exactly one of the
// supplied functions exactly once, every Do returns that invocation's values,
// and only after it has completed.
package c17

import (
	"encoding/json"
	"fmt"
	"strings"

	"gopkg.in/typ.v4/sync2"

	"verif/harness/core"
	simrt "verif/sim/rt"
	"verif/sim/ssync"
)

// Caller is one task calling Do.
type Caller struct {
	Delay int   `json:"delay"`           // yields before calling: later arrivals
	Inner int   `json:"inner"`           // scheduling points inside this caller's function
	Again int   `json:"again"`           // extra Do calls afterwards by the same task
	Panic bool  `json:"panic,omitempty"` // fault: this caller's function panics instead of returning
	Nil   bool  `json:"nil,omitempty"`   // this caller passes a nil function
	Sleep int64 `json:"sleep,omitempty"` // a slow action: this many extra scheduling points inside this caller's function
	On    int   `json:"on,omitempty"`    // with two Once values: which one this caller uses
	Nest  bool  `json:"nest,omitempty"`  // with two Once values: this caller's function calls Do on the other one
}

// Scenario is a set of callers of one OnceN value.
type Scenario struct {
	N       int      `json:"n"`               // 1, 2 or 3 results
	Iface   bool     `json:"iface,omitempty"` // N==1 only: the result type is an interface and the functions return nil
	Two     bool     `json:"two,omitempty"`   // two Once values of the same type are in use at once
	Callers []Caller `json:"callers"`
}

// H is the harness.
type H struct{}

// ID implements core.Harness.
func (H) ID() string { return "C17" }

// Faults implements core.Harness.
func (H) Faults() core.FaultMenu { return core.FaultMenu{MaxSteps: 8000, PCTSteps: 60} }

// Decode implements core.Harness.
func (H) Decode(b []byte) (any, error) {
	var s Scenario
	err := json.Unmarshal(b, &s)
	return &s, err
}

// Describe implements core.Harness.
func (H) Describe(sc any) string {
	s := sc.(*Scenario)
	if s.Iface {
		return fmt.Sprintf("Once1[any] returning nil, callers=%+v", s.Callers)
	}
	if s.Two {
		return fmt.Sprintf("two Once%d values, callers=%+v", s.N, s.Callers)
	}
	return fmt.Sprintf("Once%d callers=%+v", s.N, s.Callers)
}

// Generate implements core.Harness.
func (H) Generate(r *simrt.Rand, tier string) any {
	s := &Scenario{N: 1 + r.Intn(3)}
	if s.N == 1 && r.Intn(3) == 0 {
		s.Iface = true
	}
	s.Two = r.Intn(4) == 0
	n := 2 + r.Intn(5)
	for i := 0; i < n; i++ {
		c := Caller{Inner: r.Intn(4)}
		if r.Intn(6) == 0 {
			c.Sleep = int64(100 + r.Intn(300)) // scheduling points the action takes
		}
		if s.Two {
			c.On = r.Intn(2)
			c.Nest = c.On == 0 && r.Intn(3) == 0
		}
		if r.Intn(3) == 0 {
			c.Delay = r.Intn(12)
		}
		if r.Intn(4) == 0 {
			c.Again = 1 + r.Intn(2)
		}
		if r.Intn(8) == 0 {
			c.Panic = true
		}
		if r.Intn(10) == 0 {
			c.Nil = true
		}
		s.Callers = append(s.Callers, c)
	}
	return s
}

// Shrink implements core.Harness.
func (H) Shrink(sc any) []any {
	s := sc.(*Scenario)
	var out []any
	for i := range s.Callers {
		if len(s.Callers) <= 1 {
			break
		}
		c := &Scenario{N: s.N, Iface: s.Iface, Two: s.Two}
		c.Callers = append(append([]Caller(nil), s.Callers[:i]...), s.Callers[i+1:]...)
		out = append(out, c)
	}
	for i, cl := range s.Callers {
		if cl.Panic || cl.Nil {
			c := &Scenario{N: s.N, Iface: s.Iface, Two: s.Two, Callers: append([]Caller(nil), s.Callers...)}
			c.Callers[i].Panic, c.Callers[i].Nil = false, false
			out = append(out, c)
		}
		if cl.Sleep > 0 || cl.Nest {
			c := &Scenario{N: s.N, Iface: s.Iface, Two: s.Two, Callers: append([]Caller(nil), s.Callers...)}
			if cl.Nest {
				c.Callers[i].Nest = false
			} else {
				c.Callers[i].Sleep = 0
			}
			out = append(out, c)
		}
		if cl.Delay > 0 || cl.Inner > 0 || cl.Again > 0 {
			c := &Scenario{N: s.N, Iface: s.Iface, Two: s.Two, Callers: append([]Caller(nil), s.Callers...)}
			if cl.Delay > 0 {
				c.Callers[i].Delay = 0
			} else if cl.Again > 0 {
				c.Callers[i].Again = 0
			} else {
				c.Callers[i].Inner--
			}
			out = append(out, c)
		}
	}
	return out
}

func winnerOf(invoked []int) int {
	w := -1
	for i, n := range invoked {
		if n > 0 {
			w = i
		}
	}
	return w
}

type actionPanic struct{}

type result struct {
	done     bool
	panicked bool
	r        [3]int
	effect   int // value of the shared plain variable read right after Do returned
}

// Execute implements core.Harness.
func (H) Execute(scAny any, cfg simrt.Config, st *core.Stats) (*simrt.Outcome, *core.Violation) {
	sc := scAny.(*Scenario)
	// one or two Once values of the same type: an implementation may share state
	// between values (a package-level lock or condition variable), and the
	// statement is about each value
	nOnce := 1
	if sc.Two {
		nOnce = 2
	}
	var o1 [2]sync2.Once1[int]
	var oi [2]sync2.Once1[any] // interface-typed result: the action returns nil
	var o2 [2]sync2.Once2[int, int]
	var o3 [2]sync2.Once3[int, int, int]
	// function identities: caller i's own function is i; the function it passes to
	// the other value from inside its action (Nest) is len(Callers)+i
	nf := 2 * len(sc.Callers)
	invoked := make([][]int, nOnce) // per value, per function: each slot written by the task that runs it
	nilInvoked := make([][]int, nOnce)
	for k := range invoked {
		invoked[k] = make([]int, nf)
		nilInvoked[k] = make([]int, nf)
	}
	var effect [2]int      // plain: written as the last statement of the action
	var panickedIn [2]bool // the function invoked on this value panicked
	type tagged struct {
		once  int
		res   result
		nilFn bool // the call passed a nil function
	}
	results := make([][]tagged, len(sc.Callers))
	cfg.StopWhenClientsDone = true // goroutines of the implementation itself (none on the pinned tree) do not keep a run alive
	s := simrt.New(cfg)
	// do calls Do on value k with function identity who; body is the action
	var do func(k, who int, isNil bool, body func()) result
	do = func(k, who int, isNil bool, body func()) (res result) {
		defer func() {
			if p := recover(); p != nil {
				if _, ours := p.(actionPanic); !ours {
					e, isErr := p.(error)
					switch {
					case isNil && isErr && strings.Contains(e.Error(), "nil pointer dereference"):
						// this caller's nil function was the one chosen: the invocation panics
						nilInvoked[k][who]++
					case isNil:
						// a nil function refused up front, with a panic of the implementation's
						// own: the statement does not say what Do(nil) does; no invocation
					case panickedIn[k]:
						// the one invocation panicked and this Do call panics with something
						// else than the value it panicked with (wrapped, or a later caller told
						// that the action had panicked): what Do does then is not in the statement
					default:
						panic(p)
					}
				}
				res.panicked = true
			}
			res.effect = effect[k]
			res.done = true
		}()
		switch {
		case isNil && sc.N == 1 && sc.Iface:
			got := oi[k].Do(nil)
			res.r[0] = (winnerOf(invoked[k])+1)*10 + 1
			if got != nil {
				res.r[0] = -1
			}
		case isNil && sc.N == 1:
			res.r[0] = o1[k].Do(nil)
		case isNil && sc.N == 2:
			res.r[0], res.r[1] = o2[k].Do(nil)
		case isNil && sc.N == 3:
			res.r[0], res.r[1], res.r[2] = o3[k].Do(nil)
		case sc.N == 1 && sc.Iface:
			got := oi[k].Do(func() any { body(); return nil })
			res.r[0] = (winnerOf(invoked[k])+1)*10 + 1 // nil is the only possible value: encode "as expected"
			if got != nil {
				res.r[0] = -1
			}
		case sc.N == 1:
			res.r[0] = o1[k].Do(func() int { body(); return (who+1)*10 + 1 })
		case sc.N == 2:
			res.r[0], res.r[1] = o2[k].Do(func() (int, int) { body(); return (who+1)*10 + 1, (who+1)*10 + 2 })
		case sc.N == 3:
			res.r[0], res.r[1], res.r[2] = o3[k].Do(func() (int, int, int) { body(); return (who+1)*10 + 1, (who+1)*10 + 2, (who+1)*10 + 3 })
		}
		return res
	}
	s.Go(func() {
		var wg ssync.WaitGroup
		wg.Add(len(sc.Callers))
		for i := range sc.Callers {
			i := i
			c := sc.Callers[i]
			k := 0
			if sc.Two {
				k = c.On & 1
			}
			simrt.Go(func() {
				defer wg.Done()
				for d := 0; d < c.Delay; d++ {
					simrt.Yield()
				}
				body := func() {
					invoked[k][i]++
					for j := 0; j < c.Inner; j++ {
						simrt.Yield()
					}
					if c.Sleep > 0 {
						// a slow action: hundreds of scheduling points long, so that a waiter
						// which polls a bounded number of times runs out of patience while
						// the action is still under way. (Not a sleep on the virtual clock:
						// that clock only moves when nobody can run, and an implementation
						// whose waiters poll without bound is legal - it would keep the clock,
						// and with it the sleeper, standing still for ever.)
						simrt.Count("fault.slow_action", 1)
						for j := int64(0); j < c.Sleep; j++ {
							simrt.Yield()
						}
					}
					if sc.Two && c.Nest && k == 0 {
						// the action itself uses the other Once value (an initialiser that
						// needs another lazily initialised thing)
						simrt.Count("fault.nested_other_once", 1)
						me := len(sc.Callers) + i
						nr := do(1, me, false, func() {
							invoked[1][me]++
							simrt.Yield()
							effect[1] = me + 1
						})
						results[i] = append(results[i], tagged{1, nr, false})
					}
					if c.Panic {
						simrt.Count("fault.action_panics", 1)
						panickedIn[k] = true
						panic(actionPanic{})
					}
					effect[k] = i + 1
				}
				for rep := 0; rep <= c.Again; rep++ {
					simrt.Yield()
					res := do(k, i, c.Nil, body)
					simrt.Stamp() // a call has returned: progress, for the no-progress rule
					results[i] = append(results[i], tagged{k, res, c.Nil})
				}
			})
		}
		wg.Wait()
	})
	out := s.Run()
	if v := core.OutcomeViolation(out); v != nil {
		return out, v
	}
	if out.Truncated {
		return out, core.NoProgress(out)
	}
	if core.Deadlocked(out) {
		return out, &core.Violation{Signature: "deadlock", Detail: fmt.Sprint("Do never returned: ", out.StuckTasks)}
	}
	for k := 0; k < nOnce; k++ {
		total, winner := 0, -1
		for i, n := range invoked[k] {
			total += n
			if n > 0 {
				winner = i
			}
		}
		nilTotal := 0
		for _, n := range nilInvoked[k] {
			nilTotal += n
		}
		used := false
		for _, rs := range results {
			for _, r := range rs {
				used = used || r.once == k
			}
		}
		if !used && total == 0 {
			continue // nobody called Do on this value
		}
		if nilTotal > 0 {
			// a nil function was the one invoked (and panicked): it counts as the one
			// invocation, and there are no values to share
			if total+nilTotal != 1 {
				return out, &core.Violation{Signature: "invocations!=1", Detail: fmt.Sprintf("value %d: %d function invocations in total, %d of them of a nil function (per function: %v / %v)", k, total+nilTotal, nilTotal, invoked[k], nilInvoked[k])}
			}
			continue
		}
		if total != 1 {
			return out, &core.Violation{Signature: "invocations!=1", Detail: fmt.Sprintf("value %d: %d function invocations in total (per function: %v)", k, total, invoked[k])}
		}
		if winner < len(sc.Callers) && sc.Callers[winner].Panic {
			// the one invocation did not return: there are no values to share; what the
			// statement still promises is that no second function is invoked (checked above)
			continue
		}
		for i, rs := range results {
			for _, tr := range rs {
				if tr.once != k {
					continue
				}
				r := tr.res
				if r.panicked && tr.nilFn {
					continue // Do(nil) refused with a panic: not in the statement
				}
				if r.panicked {
					return out, &core.Violation{Signature: "unexpected-panic", Detail: fmt.Sprintf("caller %d's Do on value %d panicked although the invoked function returned normally", i, k)}
				}
				for j := 0; j < sc.N; j++ {
					if r.r[j] != (winner+1)*10+j+1 {
						return out, &core.Violation{Signature: "wrong-results", Detail: fmt.Sprintf("caller %d got %v from value %d, the only invocation (function %d) returned %d..", i, r.r[:sc.N], k, winner, (winner+1)*10+1)}
					}
				}
				if r.effect != winner+1 {
					return out, &core.Violation{Signature: "returned-before-completion", Detail: fmt.Sprintf("caller %d returned from Do on value %d and read effect=%d, but the invocation's last write is %d", i, k, r.effect, winner+1)}
				}
			}
		}
	}
	return out, nil
}
