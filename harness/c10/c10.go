// Package c10 checks property C10: PubSub delivers every event exactly once
// to every subscriber, keeps its Unsub/WithOnly contract, and never panics.
package c10

import (
	"encoding/json"
	"fmt"
	"os"
	"strings"
	"sync"
	"sync/atomic"
	"time"
	"unsafe"

	"gopkg.in/typ.v4/chans"

	"verif/harness/core"
	simrt "verif/sim/rt"
)

// Recv describes the goroutine receiving from one subscription.
type Recv struct {
	Mode  string `json:"mode"` // good slow stop none
	Pause int    `json:"pause,omitempty"`
	After int    `json:"after,omitempty"` // stop: stop receiving after this many values
}

// SubSpec is an initial subscription.
type SubSpec struct {
	Buf  int  `json:"buf"` // -1: Sub() with DefaultBuffer
	Recv Recv `json:"recv"`
}

// PubCall is one publish call.
type PubCall struct {
	Variant string `json:"variant"` // Pub PubSlice PubWait PubSliceWait PubSync PubSliceSync
	N       int    `json:"n"`       // events (slice variants: 0-3; others 1)
	Only    int    `json:"only"`    // WithOnly(subscription index), -1: all
	Delay   int    `json:"delay,omitempty"`
}

// CtlOp is one call of the control task.
type CtlOp struct {
	Op     string `json:"op"` // sub subbuf unsub unsubclone (= Unsub called on a WithOnly publisher of the target) unsubnil unsubunknown unsuball
	Target int    `json:"target,omitempty"`
	Buf    int    `json:"buf,omitempty"`
	Delay  int    `json:"delay,omitempty"`
	Recv   Recv   `json:"recv,omitempty"`
}

// Scenario is a PubSub workload.
type Scenario struct {
	Timeout   int64       `json:"timeout"`
	OnTimeout bool        `json:"on_timeout"`
	DefBuf    int         `json:"default_buffer"`
	Subs      []SubSpec   `json:"subs"`
	Pubs      [][]PubCall `json:"pubs"`
	Ctl       []CtlOp     `json:"ctl"`
	// Ctl2: a second control task that only unsubscribes initial subscriptions the
	// first one never touches, so that Unsub calls overlap each other
	Ctl2 []CtlOp `json:"ctl2,omitempty"`
	// EarlyClone: publishers that use WithOnly make their clone once, when they
	// start, and keep using it - also after the subscription has been removed
	EarlyClone bool `json:"early_clone,omitempty"`
	// Nested: WithOnly publishers are made by applying WithOnly this many extra
	// times to the publisher WithOnly returned (a publisher made by WithOnly is a
	// PubSub like any other).
	Nested int `json:"nested,omitempty"`
	// UnsubOnTimeout >= 1: the OnPubTimeout callback unsubscribes initial
	// subscription UnsubOnTimeout-1 the first time it is called (no Sync variants
	// in such a scenario: they call the callback with the lock held)
	UnsubOnTimeout int `json:"unsub_on_timeout,omitempty"`
}

// H is the harness.
type H struct{}

// ID implements core.Harness.
func (H) ID() string { return "C10" }

// Faults implements core.Harness.
func (H) Faults() core.FaultMenu { return core.FaultMenu{Stall: true, MaxSteps: 30000, PCTSteps: 150} }

// Decode implements core.Harness.
func (H) Decode(b []byte) (any, error) {
	var s Scenario
	err := json.Unmarshal(b, &s)
	return &s, err
}

// Describe implements core.Harness.
func (H) Describe(sc any) string {
	s := sc.(*Scenario)
	x := fmt.Sprintf("timeout=%v onTimeout=%v defbuf=%d subs=%+v pubs=%+v ctl=%+v ctl2=%+v", time.Duration(s.Timeout), s.OnTimeout, s.DefBuf, s.Subs, s.Pubs, s.Ctl, s.Ctl2)
	if s.Nested > 0 {
		x += fmt.Sprintf(" [WithOnly applied %d times over]", s.Nested+1)
	}
	if s.EarlyClone {
		x += " [WithOnly clones are made once, up front, and outlive their subscription]"
	}
	if s.UnsubOnTimeout > 0 {
		x += fmt.Sprintf(" [OnPubTimeout unsubscribes subscription %d]", s.UnsubOnTimeout-1)
	}
	return x
}

var variants = []string{"Pub", "PubSlice", "PubWait", "PubSliceWait", "PubSync", "PubSliceSync"}

func genRecv(r *simrt.Rand) Recv {
	switch r.Intn(20) {
	case 0, 1:
		return Recv{Mode: "stop", After: r.Intn(3)}
	case 2:
		return Recv{Mode: "none"}
	case 3, 4, 5:
		return Recv{Mode: "slow", Pause: 1 + r.Intn(4)}
	}
	return Recv{Mode: "good"}
}

// Generate implements core.Harness.
func (H) Generate(r *simrt.Rand, tier string) any {
	if r.Intn(40) == 0 {
		return flood(r)
	}
	s := &Scenario{DefBuf: r.Intn(3)}
	if r.Intn(2) == 0 {
		s.Timeout = []int64{int64(time.Millisecond), int64(time.Second), int64(time.Minute)}[r.Intn(3)]
		s.OnTimeout = r.Intn(10) < 7
	}
	nsub := r.Intn(5)
	wide := r.Intn(8) == 0
	if wide {
		nsub = 4 + r.Intn(6)
	}
	for i := 0; i < nsub; i++ {
		b := r.Intn(5) - 1
		s.Subs = append(s.Subs, SubSpec{Buf: b, Recv: genRecv(r)})
	}
	base252 := os.Getenv("VERIF_C10_BASE252") != "" // regression runs on the code before 41a08ec: do not exercise what was broken there
	withOnly := len(s.Subs) > 0 && r.Intn(5) == 0
	only := -1
	protect := -1 // a subscription the control tasks leave alone
	if withOnly {
		only = r.Intn(len(s.Subs))
		s.EarlyClone = r.Intn(2) == 0 && !base252
		if r.Intn(3) == 0 && !base252 {
			s.Nested = 1 + r.Intn(2)
		}
		if !s.EarlyClone {
			protect = only // a clone made at call time is not used after its channel's removal
		}
	}
	maxCalls := 3
	if tier == "thorough" && r.Intn(3) == 0 {
		maxCalls = 6
	}
	for p := 0; p < 1+r.Intn(3); p++ {
		var calls []PubCall
		for c := 0; c < 1+r.Intn(maxCalls); c++ {
			pc := PubCall{Variant: variants[r.Intn(len(variants))], N: 1, Only: -1, Delay: r.Intn(4)}
			if strings.Contains(pc.Variant, "Slice") {
				pc.N = r.Intn(4)
				if wide {
					pc.N = r.Intn(9)
				}
			}
			if withOnly && r.Intn(2) == 0 {
				pc.Only = only
			}
			calls = append(calls, pc)
		}
		s.Pubs = append(s.Pubs, calls)
	}
	live := len(s.Subs)
	for i := 0; i < r.Intn(5); i++ {
		op := CtlOp{Delay: r.Intn(10)}
		switch r.Intn(10) {
		case 0:
			op.Op = "sub"
			op.Recv = genRecv(r)
			live++
		case 1:
			op.Op = "subbuf"
			op.Buf = r.Intn(4)
			op.Recv = genRecv(r)
			live++
		case 2, 3, 4, 5:
			if live == 0 {
				op.Op = "unsubunknown"
				break
			}
			op.Op = "unsub"
			if r.Intn(6) == 0 && !base252 {
				op.Op = "unsubclone" // the publisher WithOnly returned is a PubSub too: unsubscribe through it
			}
			op.Target = r.Intn(live) // may name a subscription that was removed already
			if op.Target == protect {
				op.Op = "unsubunknown"
			}
		case 6:
			op.Op = "unsubnil"
		case 7:
			op.Op = "unsubunknown"
		default:
			op.Op = "unsuball"
			if protect >= 0 {
				op.Op = "unsubnil"
			}
		}
		s.Ctl = append(s.Ctl, op)
	}
	if len(s.Subs) >= 2 && r.Intn(3) == 0 {
		// overlapping Unsub calls: the first control task keeps to the lower half of
		// the initial subscriptions and never calls UnsubAll, the second takes the rest
		half := len(s.Subs) / 2
		subMode := r.Intn(3) == 0 // the second control task subscribes instead of unsubscribing
		for i := range s.Ctl {
			switch s.Ctl[i].Op {
			case "unsub", "unsubclone":
				s.Ctl[i].Target %= half
				if s.Ctl[i].Target == protect {
					s.Ctl[i].Op = "unsubunknown"
				}
			case "sub", "subbuf":
				s.Ctl[i].Op = "unsubnil"
			case "unsuball":
				if protect >= 0 || !subMode {
					s.Ctl[i].Op = "unsubnil" // UnsubAll racing an Unsub of the same channel has no single right error value
				}
			}
		}
		for i := 0; i < 1+r.Intn(3); i++ {
			if subMode {
				// subscribing while the other control task may be inside UnsubAll
				s.Ctl2 = append(s.Ctl2, CtlOp{Op: "subbuf", Buf: r.Intn(3), Delay: r.Intn(10), Recv: genRecv(r)})
				continue
			}
			t := half + r.Intn(len(s.Subs)-half)
			if t == protect {
				continue
			}
			s.Ctl2 = append(s.Ctl2, CtlOp{Op: "unsub", Target: t, Delay: r.Intn(10)})
		}
	}
	if s.Timeout > 0 && s.OnTimeout && len(s.Subs) > 0 && len(s.Ctl2) == 0 && r.Intn(4) == 0 && !base252 {
		sync := false
		for _, p := range s.Pubs {
			for _, c := range p {
				if c.Variant == "PubSync" || c.Variant == "PubSliceSync" {
					sync = true
				}
			}
		}
		if !sync {
			// "unsubscribe whoever is too slow", from the callback
			t := len(s.Subs) - 1
			s.UnsubOnTimeout = t + 1
			for i := range s.Ctl {
				if ((s.Ctl[i].Op == "unsub" || s.Ctl[i].Op == "unsubclone") && s.Ctl[i].Target == t) || s.Ctl[i].Op == "unsuball" {
					s.Ctl[i].Op = "unsubnil"
				}
			}
		}
	}
	return s
}

// flood is the backlog family: asynchronous publishes, without a timeout, towards
// a subscriber that never receives, so that dozens of sender goroutines are
// parked at once (and stay parked when the run ends, unless the channel is
// unsubscribed, which must release them all). Anything the library keeps per
// parked sender - a slot, a counter, a queue entry - piles up here, within the run
// and, for package-level state, from run to run in the worker process.
func flood(r *simrt.Rand) *Scenario {
	s := &Scenario{}
	s.Subs = append(s.Subs, SubSpec{Buf: r.Intn(2), Recv: Recv{Mode: "none"}})
	if r.Intn(2) == 0 {
		s.Subs = append(s.Subs, SubSpec{Buf: r.Intn(3), Recv: Recv{Mode: "good"}})
	}
	for p := 0; p < 1+r.Intn(2); p++ {
		var calls []PubCall
		for c := 0; c < 2+r.Intn(5); c++ {
			if r.Intn(3) == 0 {
				calls = append(calls, PubCall{Variant: "Pub", N: 1, Only: -1})
			} else {
				calls = append(calls, PubCall{Variant: "PubSlice", N: 4 + r.Intn(5), Only: -1})
			}
		}
		s.Pubs = append(s.Pubs, calls)
	}
	if r.Intn(2) == 0 {
		s.Ctl = append(s.Ctl, CtlOp{Op: "unsub", Target: 0, Delay: 5 + r.Intn(10)})
	}
	return s
}

// Shrink implements core.Harness.
func (H) Shrink(sc any) []any {
	s := sc.(*Scenario)
	clone := func() *Scenario {
		c := *s
		c.Subs = append([]SubSpec(nil), s.Subs...)
		c.Ctl = append([]CtlOp(nil), s.Ctl...)
		c.Ctl2 = append([]CtlOp(nil), s.Ctl2...)
		c.Pubs = nil
		for _, p := range s.Pubs {
			c.Pubs = append(c.Pubs, append([]PubCall(nil), p...))
		}
		return &c
	}
	var out []any
	for i := range s.Pubs {
		c := clone()
		c.Pubs = append(c.Pubs[:i], c.Pubs[i+1:]...)
		out = append(out, c)
	}
	if s.Nested > 0 {
		c := clone()
		c.Nested = s.Nested - 1
		out = append(out, c)
	}
	for i := range s.Pubs {
		for j := range s.Pubs[i] {
			c := clone()
			c.Pubs[i] = append(c.Pubs[i][:j], c.Pubs[i][j+1:]...)
			out = append(out, c)
		}
	}
	for i := len(s.Ctl) - 1; i >= 0; i-- {
		// dropping a control op shifts subscription indices only when it was a sub: keep those
		if s.Ctl[i].Op == "sub" || s.Ctl[i].Op == "subbuf" {
			continue
		}
		c := clone()
		c.Ctl = append(c.Ctl[:i], c.Ctl[i+1:]...)
		out = append(out, c)
	}
	for i := len(s.Ctl2) - 1; i >= 0; i-- {
		c := clone()
		c.Ctl2 = append(c.Ctl2[:i], c.Ctl2[i+1:]...)
		out = append(out, c)
	}
	// drop the last initial subscription if nothing refers to it
	if n := len(s.Subs); n > 0 {
		used := false
		for _, p := range s.Pubs {
			for _, c := range p {
				if c.Only >= n-1 {
					used = true
				}
			}
		}
		for _, c := range append(append([]CtlOp(nil), s.Ctl...), s.Ctl2...) {
			if c.Op == "sub" || c.Op == "subbuf" || ((c.Op == "unsub" || c.Op == "unsubclone") && c.Target >= n-1) {
				used = true
			}
		}
		if len(s.Ctl2) > 0 {
			used = true
		}
		if !used {
			c := clone()
			c.Subs = c.Subs[:n-1]
			out = append(out, c)
		}
	}
	for i := range s.Pubs {
		for j, pc := range s.Pubs[i] {
			if pc.N > 1 {
				c := clone()
				c.Pubs[i][j].N = pc.N - 1
				out = append(out, c)
			}
			if pc.Delay > 0 {
				c := clone()
				c.Pubs[i][j].Delay = 0
				out = append(out, c)
			}
		}
	}
	for i, op := range s.Ctl {
		if op.Delay > 0 {
			c := clone()
			c.Ctl[i].Delay = 0
			out = append(out, c)
		}
		if op.Op == "unsubclone" {
			c := clone()
			c.Ctl[i].Op = "unsub"
			out = append(out, c)
		}
	}
	for i, sb := range s.Subs {
		if sb.Recv.Mode != "good" {
			c := clone()
			c.Subs[i].Recv = Recv{Mode: "good"}
			out = append(out, c)
		}
	}
	if s.Timeout > 0 {
		c := clone()
		c.Timeout, c.OnTimeout = 0, false
		out = append(out, c)
	}
	return out
}

type delivery struct {
	tok   int
	stamp int64
	step  int64 // OnPubTimeout records: the step at which the callback ran
}

type subState struct {
	ch         <-chan int
	spec       Recv
	createdInv int64
	createdRet int64
	removedInv int64 // -1: never removed
	removedRet int64
	got        []delivery
	closedSeen int64 // -1: receiver never saw the channel closed
	stopped    bool
	left       []int // values still in the channel buffer when the run ended
	maybe      bool  // created while an UnsubAll was in progress: removed or not, either is right
	viaClone   bool  // removed through a WithOnly publisher: the statement does not say whether the origin then still knows it
}

type callRec struct {
	pub, idx int
	pc       PubCall
	evs      []int
	inv, ret int64
	t0       int64 // virtual time at invocation
	returned bool
}

type ctlRec struct {
	op       CtlOp
	inv, ret int64
	err      error
	want     error
	orNil    bool // nil is right as well (Unsub on the origin after the removal through a WithOnly publisher)
	done     bool
}

const maxSubs = 16

func token(p, c, e int) int { return 1000*(p+1) + 100*c + e + 1 }

type run struct {
	sc         *Scenario
	ps         *chans.PubSub[int]
	subs       [maxSubs]*subState
	nsubs      int
	calls      [][]callRec
	ctl        []ctlRec
	ctl2       []ctlRec
	pubsDone   []bool
	ctlDone    [2]bool
	cbErr      error
	tabMu      sync.Mutex   // real mutex around the subscription table (two control tasks add to it)
	cbUnsub    atomic.Int32 // Unsub calls made from inside OnPubTimeout that have not returned
	unsubAllIn int64        // >0 while an UnsubAll call is in progress (its invocation stamp)
	unsubAlls  [][2]int64   // invocation and return stamps of the UnsubAll calls that have returned
	mu         sync.Mutex   // real mutex: OnPubTimeout is invoked from several library goroutines
	touts      []delivery
	sends      []sendRec // every completed send of the run, from the simulator's observer (under mu)
}

// sendRec is one completed channel send: which value, into which channel, and
// the step at which the channel (its buffer or a receiver) accepted it.
type sendRec struct {
	tok  int
	ch   unsafe.Pointer
	step int64
}

func (r *run) receiver(st *subState) {
	if st.spec.Mode == "none" {
		return
	}
	n := 0
	for {
		for p := 0; p < st.spec.Pause; p++ {
			simrt.Yield()
		}
		if st.spec.Mode == "stop" && n >= st.spec.After {
			st.stopped = true
			simrt.Count("fault.receiver_stop", 1)
			return
		}
		v, ok := simrt.Recv2(st.ch)
		stamp := simrt.Stamp()
		if !ok {
			st.closedSeen = stamp
			return
		}
		st.got = append(st.got, delivery{v, stamp, 0})
		n++
	}
}

func (r *run) addSub(buf int, spec Recv) *subState {
	st := &subState{spec: spec, removedInv: -1, removedRet: -1, closedSeen: -1}
	st.createdInv = simrt.Stamp()
	if buf < 0 {
		st.ch = r.ps.Sub()
	} else {
		st.ch = r.ps.SubBuf(buf)
	}
	st.createdRet = simrt.Stamp()
	r.tabMu.Lock()
	if r.unsubAllIn > 0 {
		st.maybe = true
	}
	// ... or that began and ended while this Sub call was under way (an
	// implementation in which one goroutine serves the queued commands of the
	// others can finish somebody's UnsubAll before this Sub call returns)
	for _, u := range r.unsubAlls {
		if u[0] < st.createdRet && u[1] > st.createdInv {
			st.maybe = true
		}
	}
	r.subs[r.nsubs] = st
	r.nsubs++
	r.tabMu.Unlock()
	if spec.Mode == "slow" {
		simrt.Count("fault.receiver_slow", 1)
	}
	simrt.Go(func() { r.receiver(st) })
	return st
}

// withOnly applies WithOnly(ch) to ps, 1+nested times over.
func withOnly(ps *chans.PubSub[int], ch <-chan int, nested int) *chans.PubSub[int] {
	for i := 0; i <= nested; i++ {
		ps = ps.WithOnly(ch)
		if nested > 0 {
			simrt.Count("fault.withonly_nested", 1)
		}
	}
	return ps
}

// Execute implements core.Harness.
func (H) Execute(scAny any, cfg simrt.Config, st *core.Stats) (*simrt.Outcome, *core.Violation) {
	sc := scAny.(*Scenario)
	r := &run{sc: sc, ps: &chans.PubSub[int]{PubTimeoutAfter: time.Duration(sc.Timeout), DefaultBuffer: sc.DefBuf}}
	if sc.OnTimeout {
		unsubbed := false
		r.ps.OnPubTimeout = func(ev int) {
			simrt.Yield() // a callback takes time: whoever must wait for it can be seen not to
			now := simrt.NowNanos()
			step := simrt.Stamp()
			r.mu.Lock()
			r.touts = append(r.touts, delivery{ev, now, step})
			first := sc.UnsubOnTimeout > 0 && !unsubbed
			unsubbed = true
			r.mu.Unlock()
			if first {
				// unsubscribe the slow one, from the callback
				st := r.subs[sc.UnsubOnTimeout-1]
				simrt.Count("fault.unsub_from_callback", 1)
				st.removedInv = simrt.Stamp()
				r.cbUnsub.Add(1)
				if err := r.ps.Unsub(st.ch); err != nil {
					r.cbErr = err
				}
				r.cbUnsub.Add(-1)
				st.removedRet = simrt.Stamp()
			}
		}
	}
	r.calls = make([][]callRec, len(sc.Pubs))
	r.pubsDone = make([]bool, len(sc.Pubs))
	r.ctlDone = [2]bool{len(sc.Ctl) == 0, len(sc.Ctl2) == 0}
	cfg.OnSend = func(ch unsafe.Pointer, v any, step int64) {
		if tok, isInt := v.(int); isInt {
			r.mu.Lock()
			r.sends = append(r.sends, sendRec{tok, ch, step})
			r.mu.Unlock()
		}
	}
	s := simrt.New(cfg)
	s.Go(func() {
		for _, sp := range sc.Subs {
			r.addSub(sp.Buf, sp.Recv)
		}
		for p := range sc.Pubs {
			p := p
			simrt.Go(func() {
				var early *chans.PubSub[int]
				if sc.EarlyClone {
					for _, pc := range sc.Pubs[p] {
						if pc.Only >= 0 && early == nil {
							early = withOnly(r.ps, r.subs[pc.Only].ch, sc.Nested)
						}
					}
				}
				for ci, pc := range sc.Pubs[p] {
					for d := 0; d <= pc.Delay; d++ {
						simrt.Yield()
					}
					rec := callRec{pub: p, idx: ci, pc: pc}
					for e := 0; e < pc.N; e++ {
						rec.evs = append(rec.evs, token(p, ci, e))
					}
					r.calls[p] = append(r.calls[p], rec)
					cr := &r.calls[p][len(r.calls[p])-1]
					ps := r.ps
					cr.t0 = simrt.NowNanos()
					cr.inv = simrt.Stamp()
					if pc.Only >= 0 {
						if early != nil {
							ps = early
						} else {
							ps = withOnly(ps, r.subs[pc.Only].ch, sc.Nested)
						}
					}
					switch pc.Variant {
					case "Pub":
						ps.Pub(cr.evs[0])
					case "PubWait":
						ps.PubWait(cr.evs[0])
					case "PubSync":
						ps.PubSync(cr.evs[0])
					case "PubSlice":
						ps.PubSlice(cr.evs[:len(cr.evs):len(cr.evs)])
					case "PubSliceWait":
						ps.PubSliceWait(cr.evs[:len(cr.evs):len(cr.evs)])
					case "PubSliceSync":
						ps.PubSliceSync(cr.evs[:len(cr.evs):len(cr.evs)])
					}
					if strings.Contains(pc.Variant, "Slice") {
						// the caller owns its slice again once the call has returned:
						// a batching producer reuses it at once
						mine := cr.evs
						cr.evs = append([]int(nil), mine...)
						for k := range mine {
							mine[k] = 999000 + k
						}
					}
					cr.ret = simrt.Stamp()
					cr.returned = true
				}
				r.pubsDone[p] = true
			})
		}
		if len(sc.Ctl2) > 0 {
			simrt.Go(func() {
				for _, op := range sc.Ctl2 {
					for d := 0; d <= op.Delay; d++ {
						simrt.Yield()
					}
					r.ctl2 = append(r.ctl2, ctlRec{op: op})
					cr := &r.ctl2[len(r.ctl2)-1]
					cr.inv = simrt.Stamp()
					if op.Op == "subbuf" {
						r.addSub(op.Buf, op.Recv)
						cr.ret = simrt.Stamp()
						cr.done = true
						continue
					}
					st := r.subs[op.Target]
					if st.removedInv >= 0 {
						cr.want = chans.ErrAlreadyUnsubscribed
					} else {
						st.removedInv = cr.inv
						simrt.Count("fault.unsub", 1)
						simrt.Count("fault.unsub_overlapping", 1)
					}
					cr.err = r.ps.Unsub(st.ch)
					if st.removedRet < 0 {
						st.removedRet = simrt.Stamp()
					}
					cr.ret = simrt.Stamp()
					cr.done = true
				}
				r.ctlDone[1] = true
			})
		}
		if len(sc.Ctl) > 0 {
			simrt.Go(func() {
				for _, op := range sc.Ctl {
					for d := 0; d <= op.Delay; d++ {
						simrt.Yield()
					}
					r.ctl = append(r.ctl, ctlRec{op: op})
					cr := &r.ctl[len(r.ctl)-1]
					cr.inv = simrt.Stamp()
					switch op.Op {
					case "sub":
						r.addSub(-1, op.Recv)
					case "subbuf":
						r.addSub(op.Buf, op.Recv)
					case "unsub", "unsubclone":
						t := op.Target
						r.tabMu.Lock()
						if t >= r.nsubs {
							t = r.nsubs - 1
						}
						r.tabMu.Unlock()
						if t < 0 {
							cr.want = chans.ErrAlreadyUnsubscribed
							cr.err = r.ps.Unsub(make(chan int))
							break
						}
						st := r.subs[t]
						if st.removedInv >= 0 {
							cr.want = chans.ErrAlreadyUnsubscribed
							cr.orNil = st.viaClone && op.Op == "unsub"
						} else {
							st.removedInv = cr.inv
							st.viaClone = op.Op == "unsubclone"
							simrt.Count("fault.unsub", 1)
						}
						if op.Op == "unsubclone" {
							simrt.Count("fault.unsub_via_withonly", 1)
							cr.err = withOnly(r.ps, st.ch, sc.Nested).Unsub(st.ch)
						} else {
							cr.err = r.ps.Unsub(st.ch)
						}
						if st.removedRet < 0 {
							st.removedRet = simrt.Stamp()
						}
					case "unsubnil":
						cr.want = chans.ErrSubscriptionNotInitalized
						cr.err = r.ps.Unsub(nil)
					case "unsubunknown":
						cr.want = chans.ErrAlreadyUnsubscribed
						cr.err = r.ps.Unsub(make(chan int))
					case "unsuball":
						r.tabMu.Lock()
						n0 := r.nsubs
						r.unsubAllIn = cr.inv
						for i := 0; i < n0; i++ {
							if r.subs[i].removedInv < 0 {
								r.subs[i].removedInv = cr.inv
							}
						}
						r.tabMu.Unlock()
						cr.err = r.ps.UnsubAll()
						stamp := simrt.Stamp()
						r.tabMu.Lock()
						r.unsubAllIn = 0
						r.unsubAlls = append(r.unsubAlls, [2]int64{cr.inv, stamp})
						for i := 0; i < n0; i++ {
							if r.subs[i].removedRet < 0 {
								r.subs[i].removedRet = stamp
							}
						}
						r.tabMu.Unlock()
					}
					cr.ret = simrt.Stamp()
					cr.done = true
				}
				r.ctlDone[0] = true
			})
		}
	})
	out := s.Run()
	if v := core.OutcomeViolation(out); v != nil {
		return out, v
	}
	if out.Truncated {
		return out, core.NoProgress(out)
	}
	for si := 0; si < r.nsubs; si++ {
		sb := r.subs[si]
	drain:
		for {
			select {
			case v, ok := <-sb.ch:
				if !ok {
					break drain
				}
				sb.left = append(sb.left, v)
			default:
				break drain
			}
		}
	}
	return out, r.check(out, st)
}

func isWait(v string) bool  { return v == "PubWait" || v == "PubSliceWait" }
func isSync(v string) bool  { return v == "PubSync" || v == "PubSliceSync" }
func isAsync(v string) bool { return v == "Pub" || v == "PubSlice" }

const inf = int64(1) << 50

func (r *run) check(out *simrt.Outcome, st *core.Stats) *core.Violation {
	sc := r.sc
	// with a positive PubTimeoutAfter every hand-off ends within the timeout, so no
	// publish, subscribe or unsubscribe call can be blocked when the run has ended
	if sc.Timeout > 0 && r.cbUnsub.Load() > 0 {
		// The OnPubTimeout callback called Unsub and that call never returned.
		// Nothing says that the callback may re-enter the PubSub (the pinned code
		// happens to allow it for the asynchronous variants and deadlocks for the Sync
		// ones): whoever is blocked behind it is not judged.
		st.Add("oracle.unsub_from_callback_never_returned", 1)
	} else if sc.Timeout > 0 {
		for _, a := range out.Alive {
			// a goroutine of the library that is still trying to hand something over (a
			// send, or a select with a send case); one that sits waiting to receive its
			// next command - a dispatcher, a pump with nothing to do - is not blocked in
			// a hand-off
			if strings.HasPrefix(a.SpawnSite, "chans.") && (a.Op == "chan.send" || (a.Op == "select" && strings.Contains(a.ParkedOn, "send:"))) {
				return &core.Violation{Signature: "blocked-despite-timeout", Detail: fmt.Sprintf("a sender goroutine started by %s never finished although PubTimeoutAfter is %v: %s", a.SpawnSite, time.Duration(sc.Timeout), strings.Join(out.StuckTasks, ", "))}
			}
		}
		for p, d := range r.pubsDone {
			if !d {
				return &core.Violation{Signature: "blocked-despite-timeout", Detail: fmt.Sprintf("publisher %d never finished although PubTimeoutAfter is %v: %s", p, time.Duration(sc.Timeout), strings.Join(out.StuckTasks, ", "))}
			}
		}
		for k, d := range r.ctlDone {
			if !d {
				return &core.Violation{Signature: "blocked-despite-timeout", Detail: fmt.Sprintf("control task %d (Sub/Unsub) never finished although PubTimeoutAfter is %v: %s", k, time.Duration(sc.Timeout), strings.Join(out.StuckTasks, ", "))}
			}
		}
	}
	if r.cbErr != nil {
		return &core.Violation{Signature: "wrong-error:unsub-from-callback", Detail: fmt.Sprintf("Unsub of a live subscription, called from OnPubTimeout, returned %v", r.cbErr)}
	}
	// errors
	for _, c := range append(append([]ctlRec(nil), r.ctl...), r.ctl2...) {
		if !c.done {
			continue
		}
		if c.op.Op == "unsuball" {
			continue // the statement does not say what UnsubAll returns
		}
		if c.err != c.want && !(c.orNil && c.err == nil) {
			return &core.Violation{Signature: "wrong-error:" + c.op.Op, Detail: fmt.Sprintf("%+v returned %v, want %v", c.op, c.err, c.want)}
		}
	}
	// which library-spawned senders were still alive at the end, and is anything but receivers blocked
	libAlive := 0
	for _, a := range out.Alive {
		if strings.HasPrefix(a.SpawnSite, "chans.") {
			// a goroutine of the library that only waits for its next command (parked in
			// a receive, a receive-only select or a condition variable) has no hand-off
			// under way: it does not keep the accounting open
			idle := a.Op == "chan.recv" || a.Op == "cond.Wait" || (a.Op == "select" && !strings.Contains(a.ParkedOn, "send:"))
			if !idle {
				libAlive++
			}
		}
	}
	byTok := map[int]*callRec{}
	for p := range r.calls {
		for i := range r.calls[p] {
			c := &r.calls[p][i]
			for _, e := range c.evs {
				byTok[e] = c
			}
		}
	}
	// per subscription: at most once, no invention, nothing from calls after removal, closing
	for si := 0; si < r.nsubs; si++ {
		s := r.subs[si]
		seen := map[int]bool{}
		lastSync := map[int]int{}
		all := append([]delivery(nil), s.got...)
		for _, v := range s.left {
			all = append(all, delivery{v, inf, 0})
		}
		for _, d := range all {
			c := byTok[d.tok]
			if c == nil {
				return &core.Violation{Signature: "invented-event", Detail: fmt.Sprintf("subscription %d received %d which nobody published", si, d.tok)}
			}
			if seen[d.tok] {
				return &core.Violation{Signature: "duplicate-delivery", Detail: fmt.Sprintf("subscription %d received event %d twice (%s)", si, d.tok, c.pc.Variant)}
			}
			seen[d.tok] = true
			if c.pc.Only >= 0 && c.pc.Only != si {
				return &core.Violation{Signature: "withonly-leak", Detail: fmt.Sprintf("event %d published through WithOnly(subscription %d) reached subscription %d", d.tok, c.pc.Only, si)}
			}
			if s.removedRet >= 0 && c.inv > s.removedRet {
				return &core.Violation{Signature: "delivery-after-removal", Detail: fmt.Sprintf("subscription %d was removed (call returned at step %d) and still received event %d of a %s invoked at step %d", si, s.removedRet, d.tok, c.pc.Variant, c.inv)}
			}
			if c.returned && !isAsync(c.pc.Variant) && s.createdInv > c.ret {
				return &core.Violation{Signature: "delivery-before-subscription", Detail: fmt.Sprintf("subscription %d (created at step %d) received event %d of a call that had returned at step %d", si, s.createdInv, d.tok, c.ret)}
			}
			if isSync(c.pc.Variant) {
				if d.tok <= lastSync[c.pub] {
					return &core.Violation{Signature: "sync-order", Detail: fmt.Sprintf("subscription %d received event %d after %d although publisher %d published them synchronously in the other order", si, d.tok, lastSync[c.pub], c.pub)}
				}
				lastSync[c.pub] = d.tok
			}
		}
		if s.maybe {
			continue // created while UnsubAll was running: closed or open are both right
		}
		if s.closedSeen >= 0 && (s.removedInv < 0 || s.closedSeen < s.removedInv) {
			return &core.Violation{Signature: "closed-without-unsub", Detail: fmt.Sprintf("subscription %d was observed closed at step %d but was not removed (removal invoked at %d)", si, s.closedSeen, s.removedInv)}
		}
		if s.removedRet >= 0 && s.closedSeen < 0 && (s.spec.Mode == "good" || s.spec.Mode == "slow") && !out.Truncated {
			return &core.Violation{Signature: "removed-but-not-closed", Detail: fmt.Sprintf("subscription %d was removed but its receiver never saw the channel closed", si)}
		}
	}
	// Wait and Sync variants return only after every hand-off has finished: no
	// channel accepts one of the call's events at a step after the call's return
	// (whichever goroutine does the sending - one per event, a per-subscription
	// pump, the caller itself). And nothing is delivered to a channel after its
	// removal: no send is accepted after the Unsub/UnsubAll that removed it returned.
	subOf := map[unsafe.Pointer]int{}
	for si := 0; si < r.nsubs; si++ {
		subOf[simrt.ChanKey(r.subs[si].ch)] = si
	}
	for _, sd := range r.sends {
		si, isSub := subOf[sd.ch]
		if !isSub {
			continue
		}
		if c := byTok[sd.tok]; c != nil && c.returned && (isWait(c.pc.Variant) || isSync(c.pc.Variant)) && sd.step > c.ret {
			return &core.Violation{Signature: "wait-returned-early", Detail: fmt.Sprintf("%s returned at step %d, but its event %d was handed to subscription %d only at step %d: a hand-off was not finished", c.pc.Variant, c.ret, sd.tok, si, sd.step)}
		}
		if s := r.subs[si]; !s.maybe && s.removedRet >= 0 && sd.step > s.removedRet {
			return &core.Violation{Signature: "delivery-after-removal", Detail: fmt.Sprintf("subscription %d was removed (the call returned at step %d) and its channel still accepted event %d at step %d", si, s.removedRet, sd.tok, sd.step)}
		}
	}
	// exactly once / delivery-or-timeout accounting per event
	tcount := map[int]int{}
	for _, t := range r.touts {
		c := byTok[t.tok]
		if c == nil {
			return &core.Violation{Signature: "invented-timeout", Detail: fmt.Sprintf("OnPubTimeout called with %d which nobody published", t.tok)}
		}
		if c.returned && (isWait(c.pc.Variant) || isSync(c.pc.Variant)) && t.step > c.ret {
			return &core.Violation{Signature: "wait-returned-early", Detail: fmt.Sprintf("%s returned at step %d, but the OnPubTimeout(%d) call that ends one of its (event, subscriber) pairs ran at step %d", c.pc.Variant, c.ret, t.tok, t.step)}
		}
		if t.stamp-c.t0 < sc.Timeout {
			return &core.Violation{Signature: "timed-out-early", Detail: fmt.Sprintf("OnPubTimeout(%d) was called %v after the %s call began, PubTimeoutAfter is %v", t.tok, time.Duration(t.stamp-c.t0), c.pc.Variant, time.Duration(sc.Timeout))}
		}
		tcount[t.tok]++
	}
	if sc.Timeout == 0 && len(r.touts) > 0 {
		return &core.Violation{Signature: "timeout-without-timeout", Detail: "OnPubTimeout called although PubTimeoutAfter is 0"}
	}
	for p := range r.calls {
		for _, c := range r.calls[p] {
			// the call must be over and its senders gone for the accounting to be final
			if !c.returned || (isAsync(c.pc.Variant) && libAlive > 0) {
				continue
			}
			if isWait(c.pc.Variant) && libAlive > 0 {
				continue
			}
			for _, ev := range c.evs {
				lower, upper := 0, 0
				delivered := 0
				for si := 0; si < r.nsubs; si++ {
					s := r.subs[si]
					if c.pc.Only >= 0 && c.pc.Only != si {
						continue
					}
					got := false
					for _, d := range s.got {
						if d.tok == ev {
							got = true
						}
					}
					for _, v := range s.left {
						if v == ev {
							got = true
						}
					}
					if got {
						delivered++
					}
					end := c.ret
					if isAsync(c.pc.Variant) {
						end = inf // "eventually": only subscriptions never removed are required to be reached
					}
					throughout := s.createdRet < c.inv && (s.removedInv < 0 || s.removedInv > end)
					// (Pub and PubSlice only promise "eventually": a subscription made after
					// the call returned may still be reached by an implementation that fans
					// out later, over the list as it is then)
					atSomeInstant := (s.createdInv < c.ret || isAsync(c.pc.Variant)) && (s.removedRet < 0 || s.removedRet > c.inv)
					if atSomeInstant {
						upper++
					}
					wellBehaved := s.spec.Mode == "good" || s.spec.Mode == "slow"
					if s.maybe {
						continue // may or may not have survived the UnsubAll it was created under
					}
					if throughout && wellBehaved {
						lower++
						if sc.Timeout == 0 && !got {
							return &core.Violation{Signature: "event-not-delivered", Detail: fmt.Sprintf("%s event %d never reached subscription %d, which stayed subscribed throughout the call and kept receiving", c.pc.Variant, ev, si)}
						}
					} else if throughout && sc.Timeout > 0 {
						lower++ // stalled receiver: its pair must end in a delivery or a timeout call
					}
				}
				if sc.Timeout > 0 {
					n := delivered + tcount[ev]
					if !sc.OnTimeout {
						if delivered > upper {
							return &core.Violation{Signature: "too-many-deliveries", Detail: fmt.Sprintf("event %d: %d deliveries for at most %d subscriptions", ev, delivered, upper)}
						}
						continue
					}
					if n < lower || n > upper {
						return &core.Violation{Signature: "delivery-or-timeout-count", Detail: fmt.Sprintf("%s event %d: %d deliveries + %d OnPubTimeout calls, but between %d and %d (event,subscriber) pairs existed", c.pc.Variant, ev, delivered, tcount[ev], lower, upper)}
					}
				} else if delivered > upper {
					return &core.Violation{Signature: "too-many-deliveries", Detail: fmt.Sprintf("event %d: %d deliveries for at most %d subscriptions", ev, delivered, upper)}
				}
			}
		}
	}
	st.Add("oracle.calls_accounted", 1)
	return nil
}
