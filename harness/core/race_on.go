//go:build race

package core

import "runtime"

// RaceErrors returns the number of race reports so far.
func RaceErrors() int { return runtime.RaceErrors() }

// RaceCheck is non-nil in race builds.
var RaceCheck func() int = RaceErrors
