package core

import (
	simrt "verif/sim/rt"

	"encoding/json"
	"flag"
	"fmt"
	"os"
	"time"
)

// WorkerMain is the entry point shared by the worker binaries.
//
//	worker -prop ID -seed S -from A -to B -tier quick -budget 30s -out DIR [-hashes FILE]
//	worker -prop ID -replay FILE [-trace]
//
// Exit status: 0 done (violations, if any, are listed in the JSON result);
// 3 the replay reproduced its violation; 0 it did not; 2 harness trouble.
func WorkerMain(hs map[string]Harness) {
	prop := flag.String("prop", "", "property id")
	seed := flag.Int64("seed", 1, "VERIF_SEED")
	from := flag.Int64("from", 0, "first run")
	to := flag.Int64("to", 100, "one past the last run")
	tier := flag.String("tier", "quick", "quick|thorough")
	budget := flag.Duration("budget", 0, "wall-clock budget")
	out := flag.String("out", os.TempDir(), "directory for replay files")
	hashes := flag.String("hashes", "", "file for interleaving hashes")
	replay := flag.String("replay", "", "replay file")
	trace := flag.Bool("trace", false, "print the trace when replaying")
	maxv := flag.Int("maxviol", 3, "stop after this many distinct violations")
	knownFile := flag.String("known", "", "JSON file with a list of signatures of open known findings")
	shrinkList := flag.String("shrinklist", "", "replay file: write one candidate replay file per smaller scenario into -out")
	normalise := flag.String("normalise", "", "replay file: re-execute it and write the exact decision logs of that execution to -outfile")
	outFile := flag.String("outfile", "", "output file for -normalise")
	mkrange := flag.String("mkrange", "", "violation signature: write a range replay file for runs -from..-to to -outfile")
	progress := flag.String("progress", "", "file receiving the index of the run in flight")
	dumprun := flag.Int64("dumprun", -1, "write the replay file of this run to -outfile without executing it")
	nomin := flag.Bool("nominimise", false, "write unminimised replay files")
	hashlog := flag.String("hashlog", "", "file for one line per run: run, trace hash, steps (determinism self-test)")
	flag.Parse()
	if v := os.Getenv("VERIF_STRATEGY"); v != "" { // strategy comparison only (tools/strategy_eval.py)
		fmt.Sscan(v, &ForceStrategy)
	}
	h := hs[*prop]
	if h == nil {
		fmt.Fprintf(os.Stderr, "worker: unknown property %q\n", *prop)
		os.Exit(2)
	}
	defer func() {
		if p := recover(); p != nil {
			if t, ok := p.(*Trouble); ok {
				fmt.Fprintf(os.Stderr, "worker: trouble: %s\n", t.Msg)
				os.Exit(2)
			}
			panic(p)
		}
	}()
	if *mkrange != "" {
		rp := &Replay{Property: h.ID(), Seed: *seed, Run: *to - 1, HarnessVersion: HarnessVersion, IsRange: true, RangeFrom: *from, RangeTo: *to, Tier: *tier,
			Violation: Violation{Signature: *mkrange, Detail: "depends on state carried over from earlier runs in the same process"},
			Describe:  fmt.Sprintf("runs %d..%d of seed %d, re-executed in order", *from, *to-1, *seed)}
		nb, _ := json.MarshalIndent(rp, "", " ")
		os.WriteFile(*outFile, nb, 0o644)
		os.Exit(0)
	}
	if *dumprun >= 0 {
		DumpRun(h, *seed, *dumprun, *tier, *outFile)
		os.Exit(0)
	}
	if *shrinkList != "" || *normalise != "" {
		name := *shrinkList + *normalise
		b, err := os.ReadFile(name)
		var rp Replay
		if err == nil {
			err = json.Unmarshal(b, &rp)
		}
		if err != nil {
			fmt.Fprintf(os.Stderr, "worker: %v\n", err)
			os.Exit(2)
		}
		sc, err := h.Decode(rp.Scenario)
		if err != nil {
			fmt.Fprintf(os.Stderr, "worker: %v\n", err)
			os.Exit(2)
		}
		if *shrinkList != "" {
			os.MkdirAll(*out, 0o755)
			for i, cand := range h.Shrink(sc) {
				c := rp
				c.Scenario, _ = json.Marshal(cand)
				c.Describe = h.Describe(cand)
				c.Minimised = true
				cb, _ := json.MarshalIndent(&c, "", " ")
				os.WriteFile(fmt.Sprintf("%s/cand-%04d.json", *out, i), cb, 0o644)
			}
			os.Exit(0)
		}
		o, _ := h.Execute(sc, ReplayConfig(&rp, true), &Stats{})
		CheckOutcome(o)
		rp.Sched, rp.Draws, rp.TraceHash, rp.Steps, rp.Trace = o.Sched, o.Draws, o.Hash, o.Steps, o.Trace
		nb, _ := json.MarshalIndent(&rp, "", " ")
		os.WriteFile(*outFile, nb, 0o644)
		os.Exit(0)
	}
	if *replay != "" {
		b, err := os.ReadFile(*replay)
		if err != nil {
			fmt.Fprintf(os.Stderr, "worker: %v\n", err)
			os.Exit(2)
		}
		var rp Replay
		if err := json.Unmarshal(b, &rp); err != nil {
			fmt.Fprintf(os.Stderr, "worker: %v\n", err)
			os.Exit(2)
		}
		races0 := 0
		if RaceCheck != nil {
			races0 = RaceCheck()
		}
		var o *simrt.Outcome
		var v *Violation
		if rp.IsRange {
			o, v = RunRange(h, &rp)
		} else {
			o, v = RunReplay(h, &rp, *trace)
		}
		if v == nil && RaceCheck != nil && RaceCheck() > races0 {
			v = &Violation{Signature: "race", Detail: "data race reported by the race detector"}
		}
		if *trace {
			for _, l := range o.Trace {
				fmt.Println(l)
			}
		}
		res := map[string]any{"property": rp.Property, "expected": rp.Violation.Signature, "steps": o.Steps, "trace_hash": o.Hash, "replay_misses": o.ReplayMiss}
		if v != nil {
			res["got"] = v.Signature
			res["detail"] = v.Detail
		}
		res["same_hash"] = o.Hash == rp.TraceHash
		jb, _ := json.Marshal(res)
		fmt.Println(string(jb))
		if v != nil && v.Signature == rp.Violation.Signature {
			os.Exit(3)
		}
		os.Exit(0)
	}
	known := map[string]bool{}
	if *knownFile != "" {
		var sigs []string
		if b, err := os.ReadFile(*knownFile); err == nil {
			json.Unmarshal(b, &sigs)
		}
		for _, s := range sigs {
			known[s] = true
		}
	}
	res := RunWorker(h, WorkerOpts{Known: known, NoMinimise: *nomin, Progress: *progress, Seed: *seed, From: *from, To: *to, Tier: *tier, Budget: *budget, OutDir: *out, MaxViol: *maxv, HashFile: *hashes, RaceCheck: RaceCheck, HashLog: *hashlog})
	jb, _ := json.Marshal(res)
	fmt.Println(string(jb))
	if res.Trouble != "" {
		fmt.Fprintf(os.Stderr, "worker: trouble: %s\n", res.Trouble)
		os.Exit(2)
	}
	_ = time.Now
}
