//go:build !race

package core

// RaceCheck is nil outside race builds.
var RaceCheck func() int
