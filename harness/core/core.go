// Package core is the part of the harness shared by all properties: the
// per-run seed derivation, swarm configuration, the worker loop, replay
// files, minimisation and result reporting.
package core

import (
	"encoding/json"
	"fmt"
	"hash/fnv"
	"os"
	"sort"
	"strings"
	"time"

	simrt "verif/sim/rt"
)

// HarnessVersion is recorded in replay files.
const HarnessVersion = 1

// Violation is a property violation found in one run.
type Violation struct {
	Signature string `json:"signature"`
	Detail    string `json:"detail"`
}

// Stats are per-worker counters merged by the runner.
type Stats struct {
	Counts  map[string]int64 `json:"counts"`
	Samples []any            `json:"samples,omitempty"`
}

// Add bumps a counter.
func (s *Stats) Add(name string, n int64) {
	if s.Counts == nil {
		s.Counts = map[string]int64{}
	}
	s.Counts[name] += n
}

// Harness is implemented once per property.
type Harness interface {
	ID() string
	// Generate draws a scenario for the tier. The result must marshal to JSON
	// and Decode must invert that.
	Generate(r *simrt.Rand, tier string) any
	Decode(b []byte) (any, error)
	// Faults describes the fault/schedule space to draw a configuration from.
	Faults() FaultMenu
	// Execute runs the scenario under cfg and evaluates the oracle.
	Execute(sc any, cfg simrt.Config, st *Stats) (*simrt.Outcome, *Violation)
	// Shrink proposes strictly smaller scenarios, most aggressive first.
	Shrink(sc any) []any
	// Describe returns a one-line description of a scenario for samples.
	Describe(sc any) string
}

// FaultMenu says which scheduler-owned fault kinds make sense for a property.
type FaultMenu struct {
	Sequential bool // single client: no schedule dimension
	Stall      bool
	MapOrder   bool
	Pool       bool
	NoFreeze   bool // the fault "stalled goroutine" (task_freeze) makes no sense for this workload
	MaxSteps   int
	PCTSteps   int
}

// Deadlocked reports whether the run ended with a caller blocked for ever. A run
// that ends with only goroutines of the implementation itself still parked
// (a pump, a janitor) is not one: every call has returned.
func Deadlocked(out *simrt.Outcome) bool { return out.Stuck && out.ClientsAlive > 0 }

// ForceStrategy, when >= 0, replaces the strategy draw of DrawConfig (0-2 random
// walk, 3-5 sticky, 6-7 partial-order sampling, 8-9 PCT). It exists for the
// strategy comparison of tools/strategy_eval.py (VERIF_STRATEGY) and is never set
// by a registered check.
var ForceStrategy = -1

// DrawConfig draws a swarm configuration for one run.
func DrawConfig(r *simrt.Rand, m FaultMenu) simrt.Config {
	cfg := simrt.Config{MaxSteps: m.MaxSteps, StopOnPanic: true}
	if cfg.MaxSteps == 0 {
		cfg.MaxSteps = 2000
	}
	if m.Sequential {
		cfg.Strategy = simrt.StratRoundRobin
		cfg.Seed = r.Uint64()
		if m.MapOrder {
			cfg.MapShuffle = r.Intn(2) == 0
		}
		return cfg
	}
	pick := r.Intn(10)
	if ForceStrategy >= 0 {
		pick = ForceStrategy
	}
	// shares set from the comparison on the seeded changes (DESIGN.md 11.9): the
	// random walk was the quickest on most of them, PCT the slowest and the only
	// one to miss some entirely, yet each strategy was the only or the quickest one
	// for a few - so all four stay, in proportion
	switch pick {
	case 0, 1, 2:
		cfg.Strategy = simrt.StratRandom
	case 3, 4, 5:
		cfg.Strategy = simrt.StratSticky
		cfg.StickyQ = []float64{0.5, 0.8, 0.95}[r.Intn(3)]
	case 6, 7:
		cfg.Strategy = simrt.StratPOS
	default:
		cfg.Strategy = simrt.StratPCT
		cfg.PCTDepth = 1 + r.Intn(4)
		cfg.PCTSteps = m.PCTSteps
		if cfg.PCTSteps == 0 {
			cfg.PCTSteps = 80
		}
		// the estimate of the run length that PCT places its priority change points
		// in is itself a swarm knob: scenarios differ in length by an order of
		// magnitude, and a fixed estimate would never put a change point late in a
		// long run or densely in a short one
		cfg.PCTSteps = cfg.PCTSteps * []int{1, 2, 4, 1, 1, 8}[r.Intn(6)] / []int{1, 1, 1, 2, 4, 1}[r.Intn(6)]
		if cfg.PCTSteps < 4 {
			cfg.PCTSteps = 4
		}
	}
	if m.Stall && r.Intn(2) == 0 {
		cfg.StallProb = []float64{0.005, 0.02, 0.1, 0.3}[r.Intn(4)]
	}
	if m.MapOrder {
		cfg.MapShuffle = r.Intn(2) == 0
	}
	if !m.NoFreeze && r.Intn(4) == 0 {
		// stalled goroutines: every now and then an enabled task gets no processor for
		// a while (short and frequent, or long and rare)
		cfg.FreezeGap = []int{20, 60, 200}[r.Intn(3)]
		cfg.FreezeMax = []int{30, 200, 1000}[r.Intn(3)]
	}
	if m.Pool {
		cfg.PoolMiss = []float64{0, 0.1, 0.3}[r.Intn(3)]
		cfg.PoolDrop = []float64{0, 0.1, 0.3}[r.Intn(3)]
		cfg.PoolReorder = r.Intn(2) == 0
	}
	cfg.Seed = r.Uint64()
	return cfg
}

// ConfigJSON is the serialisable part of a simrt.Config.
type ConfigJSON struct {
	Seed        uint64  `json:"seed"`
	MaxSteps    int     `json:"max_steps"`
	Strategy    int     `json:"strategy"`
	StickyQ     float64 `json:"sticky_q,omitempty"`
	PCTDepth    int     `json:"pct_depth,omitempty"`
	PCTSteps    int     `json:"pct_steps,omitempty"`
	StallProb   float64 `json:"stall_prob,omitempty"`
	MapShuffle  bool    `json:"map_shuffle,omitempty"`
	PoolMiss    float64 `json:"pool_miss,omitempty"`
	PoolDrop    float64 `json:"pool_drop,omitempty"`
	PoolReorder bool    `json:"pool_reorder,omitempty"`
	FreezeGap   int     `json:"freeze_gap,omitempty"`
	FreezeMax   int     `json:"freeze_max,omitempty"`
}

func toJSONCfg(c simrt.Config) ConfigJSON {
	return ConfigJSON{c.Seed, c.MaxSteps, int(c.Strategy), c.StickyQ, c.PCTDepth, c.PCTSteps, c.StallProb, c.MapShuffle, c.PoolMiss, c.PoolDrop, c.PoolReorder, c.FreezeGap, c.FreezeMax}
}

func fromJSONCfg(c ConfigJSON) simrt.Config {
	return simrt.Config{Seed: c.Seed, MaxSteps: c.MaxSteps, Strategy: simrt.Strategy(c.Strategy), StickyQ: c.StickyQ, PCTDepth: c.PCTDepth,
		PCTSteps: c.PCTSteps, StallProb: c.StallProb, MapShuffle: c.MapShuffle, PoolMiss: c.PoolMiss, PoolDrop: c.PoolDrop, PoolReorder: c.PoolReorder, FreezeGap: c.FreezeGap, FreezeMax: c.FreezeMax, StopOnPanic: true}
}

// Replay is the on-disk replay file.
type Replay struct {
	Property       string          `json:"property"`
	Seed           int64           `json:"seed"`
	Run            int64           `json:"run"`
	HarnessVersion int             `json:"harness_version"`
	Race           bool            `json:"race_build"`
	Scenario       json.RawMessage `json:"scenario"`
	Config         ConfigJSON      `json:"config"`
	Sched          []int32         `json:"sched"`
	Draws          []int64         `json:"draws"`
	Violation      Violation       `json:"violation"`
	TraceHash      uint64          `json:"trace_hash"`
	Minimised      bool            `json:"minimised"`
	Rerun          bool            `json:"rerun,omitempty"` // no decision log: re-execute from the recorded seed (used when the run crashed the process)
	// a range replay: the violation depends on state the code under test carried
	// over from earlier runs in the same process (package-level variables), so the
	// file re-executes runs RangeFrom..RangeTo-1 from their seeds, in order
	IsRange       bool     `json:"is_range,omitempty"`
	RangeFrom     int64    `json:"range_from,omitempty"`
	RangeTo       int64    `json:"range_to,omitempty"`
	Tier          string   `json:"tier,omitempty"`
	OriginalSteps int      `json:"original_steps"`
	Steps         int      `json:"steps"`
	Trace         []string `json:"trace,omitempty"`
	Describe      string   `json:"describe"`
}

// PropHash turns a property id into a seed component.
func PropHash(id string) uint64 {
	h := fnv.New64a()
	h.Write([]byte(id))
	return h.Sum64()
}

// RunSeed is the per-run seed.
func RunSeed(seed int64, prop string, run int64) uint64 {
	return simrt.Mix(uint64(seed), PropHash(prop), uint64(run))
}

// OutcomeViolation converts generic bad outcomes (panic, fatal) to a violation.
func OutcomeViolation(o *simrt.Outcome) *Violation {
	if o.Fatal != "" {
		return &Violation{Signature: "fatal:" + o.Fatal, Detail: o.Fatal}
	}
	if len(o.Panics) > 0 {
		p := o.Panics[0]
		inner := p.Frames
		if i := strings.Index(inner, " < "); i >= 0 {
			inner = inner[:i]
		}
		return &Violation{Signature: fmt.Sprintf("%s in=%s spawned-by=%s", p.Msg, stableName(inner), stableName(p.SpawnSite)),
			Detail: fmt.Sprintf("task %d at step %d: %s; stack: %s; spawned by %s", p.Task, p.Step, p.Msg, p.Frames, p.SpawnSite)}
	}
	return nil
}

// stableName drops the compiler's closure numbering from a function of the
// harness itself (verif/harness/c10.H.Execute.func2.3 -> verif/harness/c10.H.Execute):
// a signature must not change when the harness gains a closure. Names inside the
// code under test are kept as they are.
func stableName(fn string) string {
	if !strings.HasPrefix(fn, "verif/harness/") {
		return fn
	}
	for {
		i := strings.LastIndex(fn, ".")
		if i < 0 {
			return fn
		}
		last := fn[i+1:]
		last = strings.TrimPrefix(last, "func")
		if last == "" {
			return fn
		}
		for _, c := range last {
			if c < '0' || c > '9' {
				return fn
			}
		}
		fn = fn[:i]
	}
}

// NoProgress is the violation reported when a run exhausts its step budget:
// every scenario is finite and every operation of the code under test completes
// in a bounded number of steps once the others stop interfering, so a run that
// is still going after a budget several times the longest legitimate run is a
// livelock (a retry loop that cannot succeed, a spin on a flag nobody sets).
//
// An implementation other than the pinned one may simply need more steps for the
// same workload (hundreds of goroutines woken by every Broadcast of one condition
// variable). The two are told apart by what happened lately: a run in which a call
// returned, a value changed hands or a task finished within the last third of the
// budget was cut short while working, and is counted as truncated, not reported;
// a livelock shows nothing of the kind.
func NoProgress(o *simrt.Outcome) *Violation {
	if o.Steps-o.LastProgress < o.Steps/3 {
		return nil
	}
	return &Violation{Signature: "no-progress", Detail: fmt.Sprintf("the run was still going after %d steps (step budget); tasks alive: %v", o.Steps, o.Alive)}
}

// Trouble is harness trouble: reported with exit status 2, never as a violation.
type Trouble struct{ Msg string }

func (t *Trouble) Error() string { return t.Msg }

// CheckOutcome panics with Trouble when the simulator itself had a problem.
func CheckOutcome(o *simrt.Outcome) {
	if o.Diverged != "" {
		panic(&Trouble{o.Diverged})
	}
	if o.Unsupported != "" {
		panic(&Trouble{o.Unsupported})
	}
}

// WorkerResult is what a worker prints as its last line.
type WorkerResult struct {
	Property   string           `json:"property"`
	From       int64            `json:"from"`
	To         int64            `json:"to"`
	Runs       int64            `json:"runs"`
	Steps      int64            `json:"steps"`
	MaxSteps   int64            `json:"max_steps"`
	Truncated  int64            `json:"truncated"`
	Stuck      int64            `json:"stuck"`
	SimNanos   int64            `json:"sim_nanos"`
	WallS      float64          `json:"wall_s"`
	Race       bool             `json:"race"`
	Counts     map[string]int64 `json:"counts"`
	Samples    []any            `json:"samples"`
	Violations []FoundViolation `json:"violations"`
	Trouble    string           `json:"trouble,omitempty"`
	Hashes     string           `json:"hashes_file,omitempty"`
	Cover      map[int]uint32   `json:"cover,omitempty"`
	Distinct   int64            `json:"distinct"`
	Nontrivial int64            `json:"nontrivial"`
}

// FoundViolation points at a replay file.
type FoundViolation struct {
	Signature string `json:"signature"`
	Detail    string `json:"detail"`
	Replay    string `json:"replay"`
	Run       int64  `json:"run"`
}

// WorkerOpts configures RunWorker.
type WorkerOpts struct {
	Seed       int64
	From, To   int64
	Tier       string
	Budget     time.Duration
	OutDir     string
	MaxViol    int
	HashFile   string
	HashLog    string
	Progress   string // file receiving the index of the run in flight (8 bytes), for crash attribution
	NoMinimise bool
	Known      map[string]bool // signatures of open known findings: recorded once, never minimised, never counted towards MaxViol
	RaceCheck  func() int      // returns number of race reports so far (race build)
}

// RunWorker executes runs [From,To) of h.
func RunWorker(h Harness, o WorkerOpts) (res WorkerResult) {
	start := time.Now()
	res = WorkerResult{Property: h.ID(), From: o.From, To: o.To, Counts: map[string]int64{}, Race: simrt.RaceEnabled}
	st := &Stats{Counts: res.Counts}
	seen := map[string]bool{}
	nunknown := 0
	hashes := map[uint64]bool{}
	nontrivial := map[uint64]bool{}
	defer func() {
		if p := recover(); p != nil {
			if t, ok := p.(*Trouble); ok {
				res.Trouble = t.Msg
			} else {
				panic(p)
			}
		}
		res.WallS = time.Since(start).Seconds()
		for i, n := range simrt.CoverHits {
			if n > 0 {
				if res.Cover == nil {
					res.Cover = map[int]uint32{}
				}
				res.Cover[i] = n
			}
		}
		res.Distinct = int64(len(hashes))
		res.Nontrivial = int64(len(nontrivial))
		if o.HashFile != "" {
			writeHashes(o.HashFile, hashes, nontrivial)
			res.Hashes = o.HashFile
		}
	}()
	menu := h.Faults()
	var hl *os.File
	if o.HashLog != "" {
		hl, _ = os.Create(o.HashLog)
		defer hl.Close()
	}
	var prog *os.File
	if o.Progress != "" {
		prog, _ = os.Create(o.Progress)
		defer prog.Close()
	}
	var pb [8]byte
	for i := o.From; i < o.To; i++ {
		if prog != nil {
			for k := 0; k < 8; k++ {
				pb[k] = byte(uint64(i) >> (8 * k))
			}
			prog.WriteAt(pb[:], 0)
			prog.WriteAt([]byte{1}, 8)
		}
		if o.Budget > 0 && i&63 == 0 && time.Since(start) > o.Budget {
			res.To = i
			break
		}
		r := simrt.NewRand(RunSeed(o.Seed, h.ID(), i))
		sc := h.Generate(r, o.Tier)
		cfg := DrawConfig(r, menu)
		st.Add("strategy."+cfg.Strategy.String(), 1)
		races0 := 0
		if o.RaceCheck != nil {
			races0 = o.RaceCheck()
		}
		out, v := h.Execute(sc, cfg, st)
		CheckOutcome(out)
		res.Runs++
		res.Steps += int64(out.Steps)
		if int64(out.Steps) > res.MaxSteps {
			res.MaxSteps = int64(out.Steps)
		}
		res.SimNanos += out.SimNanos
		if out.Truncated {
			res.Truncated++
		}
		if out.Stuck {
			res.Stuck++
		}
		st.Add("preempts", int64(out.Preempts))
		for k, n := range out.Counts {
			st.Add(k, n)
		}
		hashes[out.Hash] = true
		if len(res.Samples) < 3 && (i-o.From)%7 == 0 {
			res.Samples = append(res.Samples, map[string]any{"run": i, "scenario": h.Describe(sc), "strategy": cfg.Strategy, "steps": out.Steps, "preemptions": out.Preempts})
		}
		if v == nil && o.RaceCheck != nil && o.RaceCheck() > races0 {
			v = &Violation{Signature: "race", Detail: "data race reported by the race detector during this run"}
		}
		if hl != nil {
			vs := ""
			if v != nil {
				vs = v.Signature
			}
			fmt.Fprintf(hl, "%d %x %d %s\n", i, out.Hash, out.Steps, vs)
			if v != nil {
				continue
			}
		}
		if out.PreemptsInCall > 0 || out.Nontrivial {
			nontrivial[out.Hash] = true
		}
		if v == nil {
			continue
		}
		if v.Signature == "race" {
			// the detector reports each distinct race once per process: hand the
			// unminimised schedule to the runner, which works in fresh processes.
			rp := MakeReplay(h, o.Seed, i, sc, cfg, out, v, false)
			path := WriteReplay(o.OutDir, rp)
			res.Violations = append(res.Violations, FoundViolation{v.Signature, v.Detail, path, i})
			res.To = i + 1
			return
		}
		if seen[v.Signature] {
			if o.Known[v.Signature] {
				st.Add("violations.known", 1)
			} else {
				st.Add("violations.repeat", 1)
			}
			continue
		}
		seen[v.Signature] = true
		if o.Known[v.Signature] || o.NoMinimise {
			rp := MakeReplay(h, o.Seed, i, sc, cfg, out, v, false)
			path := WriteReplay(o.OutDir, rp)
			res.Violations = append(res.Violations, FoundViolation{v.Signature, v.Detail, path, i})
			st.Add("violations.known", 1)
			continue
		}
		nunknown++
		// minimisation executes shrunk scenarios, and one of those may kill the
		// process (a corrupted structure overflowing the stack, say): leave the
		// unminimised replay behind first, and say so in the progress file
		if prog != nil {
			rp0 := MakeReplay(h, o.Seed, i, sc, cfg, out, v, false)
			p0 := WriteReplay(o.OutDir, rp0)
			os.WriteFile(o.Progress+".unmin", []byte(p0), 0o644)
			prog.WriteAt([]byte{2}, 8)
		}
		rp := Minimise(h, o.Seed, i, sc, cfg, out, v)
		if prog != nil {
			prog.WriteAt([]byte{1}, 8)
		}
		path := WriteReplay(o.OutDir, rp)
		res.Violations = append(res.Violations, FoundViolation{rp.Violation.Signature, rp.Violation.Detail, path, i})
		if nunknown >= o.MaxViol {
			res.To = i + 1
			break
		}
	}
	return
}

func writeHashes(path string, all, nt map[uint64]bool) {
	f, err := os.Create(path)
	if err != nil {
		return
	}
	defer f.Close()
	buf := make([]byte, 0, 9*len(all))
	for h := range all {
		b := byte(0)
		if nt[h] {
			b = 1
		}
		buf = append(buf, b, byte(h), byte(h>>8), byte(h>>16), byte(h>>24), byte(h>>32), byte(h>>40), byte(h>>48), byte(h>>56))
	}
	f.Write(buf)
}

// RunRange re-executes runs [rp.RangeFrom, rp.RangeTo) in order and returns the
// violation of the last one.
func RunRange(h Harness, rp *Replay) (*simrt.Outcome, *Violation) {
	menu := h.Faults()
	var out *simrt.Outcome
	var v *Violation
	for i := rp.RangeFrom; i < rp.RangeTo; i++ {
		r := simrt.NewRand(RunSeed(rp.Seed, h.ID(), i))
		sc := h.Generate(r, rp.Tier)
		cfg := DrawConfig(r, menu)
		out, v = h.Execute(sc, cfg, &Stats{})
		CheckOutcome(out)
	}
	return out, v
}

// DumpRun writes the replay file of run i without executing it: the scenario
// and configuration its seed generates, to be re-executed from that seed.
func DumpRun(h Harness, seed, run int64, tier, path string) {
	r := simrt.NewRand(RunSeed(seed, h.ID(), run))
	sc := h.Generate(r, tier)
	cfg := DrawConfig(r, h.Faults())
	b, err := json.Marshal(sc)
	if err != nil {
		panic(&Trouble{err.Error()})
	}
	rp := &Replay{Property: h.ID(), Seed: seed, Run: run, HarnessVersion: HarnessVersion, Race: simrt.RaceEnabled, Scenario: b, Config: toJSONCfg(cfg),
		Rerun: true, Violation: Violation{Signature: "crash", Detail: "the process died while executing this run"}, Describe: h.Describe(sc)}
	nb, _ := json.MarshalIndent(rp, "", " ")
	if err := os.WriteFile(path, nb, 0o644); err != nil {
		panic(&Trouble{err.Error()})
	}
}

// MakeReplay builds a replay record from a failing run.
func MakeReplay(h Harness, seed, run int64, sc any, cfg simrt.Config, out *simrt.Outcome, v *Violation, minimised bool) *Replay {
	b, err := json.Marshal(sc)
	if err != nil {
		panic(&Trouble{"scenario does not marshal: " + err.Error()})
	}
	return &Replay{Property: h.ID(), Seed: seed, Run: run, HarnessVersion: HarnessVersion, Race: simrt.RaceEnabled, Scenario: b, Config: toJSONCfg(cfg),
		Sched: out.Sched, Draws: out.Draws, Violation: *v, TraceHash: out.Hash, Minimised: minimised, Steps: out.Steps, OriginalSteps: out.Steps, Describe: h.Describe(sc)}
}

// WriteReplay stores a replay file and returns its path.
func WriteReplay(dir string, rp *Replay) string {
	os.MkdirAll(dir, 0o755)
	sig := fnv.New32a()
	sig.Write([]byte(rp.Violation.Signature))
	name := fmt.Sprintf("%s/%s-seed%d-run%d-%08x.json", dir, rp.Property, rp.Seed, rp.Run, sig.Sum32())
	b, _ := json.MarshalIndent(rp, "", " ")
	if err := os.WriteFile(name, b, 0o644); err != nil {
		panic(&Trouble{"cannot write replay: " + err.Error()})
	}
	return name
}

// ReplayConfig returns the configuration that re-executes a replay file.
func ReplayConfig(rp *Replay, trace bool) simrt.Config {
	cfg := fromJSONCfg(rp.Config)
	cfg.Trace = trace
	if rp.Rerun {
		return cfg
	}
	cfg.Replay = true
	cfg.ReplaySched = rp.Sched
	cfg.ReplayDraws = rp.Draws
	cfg.Trace = trace
	return cfg
}

// RunReplay re-executes a replay file and returns the violation it produces.
func RunReplay(h Harness, rp *Replay, trace bool) (*simrt.Outcome, *Violation) {
	sc, err := h.Decode(rp.Scenario)
	if err != nil {
		panic(&Trouble{"bad scenario in replay file: " + err.Error()})
	}
	out, v := h.Execute(sc, ReplayConfig(rp, trace), &Stats{})
	CheckOutcome(out)
	return out, v
}

// Minimise shrinks the scenario and the schedule while the same violation
// signature persists. Every candidate is a real re-execution.
func Minimise(h Harness, seed, run int64, sc any, cfg simrt.Config, out *simrt.Outcome, v *Violation) *Replay {
	sig := v.Signature
	origSteps := out.Steps
	origSc, origOut, v0 := sc, out, v
	deadline := time.Now().Add(20 * time.Second)
	try := func(sc any, c simrt.Config) (*simrt.Outcome, *Violation) {
		o, vv := h.Execute(sc, c, &Stats{})
		if o.Diverged != "" || o.Unsupported != "" {
			return o, nil
		}
		if vv != nil && vv.Signature == sig {
			return o, vv
		}
		return o, nil
	}
	replayCfg := func(o *simrt.Outcome) simrt.Config {
		c := cfg
		c.Replay = true
		c.ReplaySched = o.Sched
		c.ReplayDraws = o.Draws
		return c
	}
	// 1. scenario shrinking: follow the old schedule where it still applies,
	// otherwise search a few hundred fresh schedules for the same violation.
	progress := true
	for progress && time.Now().Before(deadline) {
		progress = false
		for _, cand := range h.Shrink(sc) {
			if time.Now().After(deadline) {
				break
			}
			if o, vv := try(cand, replayCfg(out)); vv != nil {
				sc, out, v, progress = cand, o, vv, true
				break
			}
			found := false
			for k := 0; k < 300; k++ {
				c := cfg
				c.Replay = false
				c.Seed = simrt.Mix(cfg.Seed, uint64(k), 77)
				if k%2 == 1 {
					c.Strategy = simrt.StratRandom
				}
				if o, vv := try(cand, c); vv != nil {
					sc, out, v, progress, found = cand, o, vv, true, true
					break
				}
			}
			if found {
				break
			}
		}
	}
	// 2. schedule simplification: remove context switches one at a time.
	improved := true
	for improved && time.Now().Before(deadline) {
		improved = false
		sched := out.Sched
		for i := len(sched) - 1; i > 0; i-- {
			if sched[i] == sched[i-1] {
				continue
			}
			cand := append([]int32(nil), sched...)
			cand[i] = cand[i-1]
			c := cfg
			c.Replay = true
			c.ReplaySched = cand
			c.ReplayDraws = out.Draws
			o, vv := try(sc, c)
			if vv != nil && switches(o.Sched) < switches(sched) {
				out, v, improved = o, vv, true
				break
			}
		}
	}
	// 3. final form: exact logs of the last failing execution, with a readable trace.
	final := replayCfg(out)
	final.Trace = true
	o2, v2 := h.Execute(sc, final, &Stats{})
	CheckOutcome(o2)
	if v2 == nil || v2.Signature != sig || o2.Hash != out.Hash {
		got := "none"
		if v2 != nil {
			got = v2.Signature
		}
		// Either the harness is nondeterministic, or the code under test carries state
		// from run to run in a package-level variable (a shared deadline heap, a
		// semaphore), so that what this run did depended on the runs before it and
		// its re-execution, which those runs and the minimisation attempts have
		// changed again, differs. The worker cannot tell; the runner can: it
		// re-executes the unminimised run in a fresh process and, failing that, the
		// whole range of runs in order, and believes only what reproduces there.
		rp := MakeReplay(h, seed, run, origSc, cfg, origOut, v0, false)
		rp.Violation.Detail += fmt.Sprintf(" [minimisation abandoned: re-executing the minimised run in this process gave %q, not %q - the run may depend on state carried over from earlier runs]", got, sig)
		return rp
	}
	rp := MakeReplay(h, seed, run, sc, cfg, o2, v2, true)
	rp.OriginalSteps = origSteps
	rp.Trace = o2.Trace
	return rp
}

func switches(s []int32) int {
	n := 0
	for i := 1; i < len(s); i++ {
		if s[i] != s[i-1] {
			n++
		}
	}
	return n
}

// RunSequential executes body as the only task of a simulation: the
// fault-free single-client configuration used by the history-only properties.
// A panic in body is recovered at the task root and reported in the outcome.
func RunSequential(cfg simrt.Config, body func()) *simrt.Outcome {
	s := simrt.New(cfg)
	s.Go(body)
	return s.Run()
}

// HashInts folds values into a hash.
func HashInts(h uint64, vals ...int) uint64 {
	if h == 0 {
		h = 1469598103934665603
	}
	for _, v := range vals {
		h ^= uint64(v)
		h *= 1099511628211
	}
	return h
}

// HashString folds a string into a hash.
func HashString(h uint64, s string) uint64 {
	if h == 0 {
		h = 1469598103934665603
	}
	for i := 0; i < len(s); i++ {
		h ^= uint64(s[i])
		h *= 1099511628211
	}
	return h
}

// SortedKeys returns the keys of a map in sorted order.
func SortedKeys[V any](m map[string]V) []string {
	ks := make([]string, 0, len(m))
	for k := range m {
		ks = append(ks, k)
	}
	sort.Strings(ks)
	return ks
}
