// Package c02 checks property C02: the AVL tree stays height-balanced after
// every Add and Remove. Single client, no faults.
package c02

import (
	"encoding/json"
	"fmt"
	"math"

	"gopkg.in/typ.v4/avl"

	"verif/harness/core"
	simrt "verif/sim/rt"
)

// Op is an insertion (V>0... K="add") or deletion of a distinct value.
type Op struct {
	K string `json:"k"` // add remove clone (continue on a clone of the tree)
	V int    `json:"v"`
}

func (o Op) String() string { return fmt.Sprintf("%s(%d)", o.K, o.V) }

// Scenario is a history over distinct values.
type Scenario struct {
	Family string `json:"family"`
	Ops    []Op   `json:"ops"`
}

// H is the harness.
type H struct{}

// ID implements core.Harness.
func (H) ID() string { return "C02" }

// Faults implements core.Harness.
func (H) Faults() core.FaultMenu {
	return core.FaultMenu{Sequential: true, MapOrder: true, MaxSteps: 200000}
}

// Decode implements core.Harness.
func (H) Decode(b []byte) (any, error) {
	var s Scenario
	err := json.Unmarshal(b, &s)
	return &s, err
}

// Describe implements core.Harness.
func (H) Describe(sc any) string {
	s := sc.(*Scenario)
	ops := s.Ops
	suffix := ""
	if len(ops) > 40 {
		ops = ops[:40]
		suffix = fmt.Sprintf(" ... (%d ops)", len(s.Ops))
	}
	return fmt.Sprintf("family=%s ops=%v%s", s.Family, ops, suffix)
}

// Generate implements core.Harness.
func (H) Generate(r *simrt.Rand, tier string) any {
	fam := []string{"ascending", "descending", "zigzag", "random", "delete-heavy", "two-child-deletions", "duplicate-keys"}[r.Intn(7)]
	s := &Scenario{Family: fam}
	max := 255
	if tier == "thorough" {
		max = 2047
	}
	n := 1 + r.Intn(32)
	if r.Intn(3) == 0 {
		n = 1 + r.Intn(max)
	}
	present := map[int]bool{}
	var vals []int
	add := func(v int) {
		if !present[v] {
			present[v] = true
			vals = append(vals, v)
			s.Ops = append(s.Ops, Op{"add", v})
		}
	}
	remove := func(i int) {
		v := vals[i]
		vals = append(vals[:i], vals[i+1:]...)
		delete(present, v)
		s.Ops = append(s.Ops, Op{"remove", v})
	}
	switch fam {
	case "duplicate-keys":
		// insertions only; op value = key*1000+seq, compared by key alone: equal
		// keys are legal in this multiset tree and the sequence number keeps the
		// shape recoverable from the traversals
		keys := 1 + r.Intn(6)
		withRemovals := r.Intn(2) == 0
		var in []int
		for i := 0; i < n; i++ {
			v := (1+r.Intn(keys))*100000 + i // key*100000+seq: distinct under ==, equal under the comparator
			s.Ops = append(s.Ops, Op{"add", v})
			in = append(in, v)
			if withRemovals && r.Intn(3) == 0 {
				// removing one of several elements that compare equal: whether the tree
				// finds it is not C02's business (the comparator is not consistent with
				// ==), that it stays balanced whatever it does is
				j := r.Intn(len(in))
				s.Ops = append(s.Ops, Op{"remove", in[j]})
				in = append(in[:j], in[j+1:]...)
			}
		}
		return s
	case "ascending":
		for i := 1; i <= n; i++ {
			add(i)
		}
	case "descending":
		for i := n; i >= 1; i-- {
			add(i)
		}
	case "zigzag":
		lo, hi := 1, n
		for lo <= hi {
			add(lo)
			lo++
			if lo <= hi {
				add(hi)
				hi--
			}
		}
	case "random":
		for i := 0; i < n; i++ {
			add(1 + r.Intn(4*n))
			if r.Intn(8) == 0 {
				s.Ops = append(s.Ops, Op{"remove", 1 + r.Intn(4*n) + 1000000*r.Intn(2)}) // mostly absent
			}
		}
	case "delete-heavy":
		for i := 0; i < n; i++ {
			add(1 + r.Intn(4*n))
			if len(vals) > 0 && r.Intn(2) == 0 {
				remove(r.Intn(len(vals)))
			}
		}
		for len(vals) > 0 && r.Intn(8) != 0 {
			remove(r.Intn(len(vals)))
		}
	case "two-child-deletions":
		for i := 1; i <= n; i++ {
			add((i * 7919) % (4*n + 1))
		}
		// delete from the middle of the value range: inner nodes with two children
		for k := 0; k < n/2 && len(vals) > 2; k++ {
			best := 0
			for i, v := range vals {
				if abs(v-2*n) < abs(vals[best]-2*n) {
					best = i
				}
			}
			remove(best)
		}
	}
	if r.Intn(4) == 0 && len(s.Ops) > 0 {
		// a clone is a tree too: continue on a clone taken at a seeded point
		at := r.Intn(len(s.Ops) + 1)
		s.Ops = append(s.Ops[:at], append([]Op{{"clone", 0}}, s.Ops[at:]...)...)
		for i := 0; i < 1+r.Intn(8); i++ {
			if len(vals) > 0 && r.Intn(2) == 0 {
				remove(r.Intn(len(vals)))
			} else {
				add(1 + r.Intn(4*n+8))
			}
		}
	}
	if r.Intn(3) == 0 {
		// interleave further insertions and deletions
		for i := 0; i < n; i++ {
			if len(vals) > 0 && r.Intn(2) == 0 {
				remove(r.Intn(len(vals)))
			} else {
				add(1 + r.Intn(4*n+8))
			}
		}
	}
	return s
}

func abs(x int) int {
	if x < 0 {
		return -x
	}
	return x
}

// Shrink implements core.Harness.
func (H) Shrink(sc any) []any {
	s := sc.(*Scenario)
	var out []any
	n := len(s.Ops)
	mk := func(ops []Op) *Scenario { return &Scenario{Family: s.Family + "(shrunk)", Ops: ops} }
	if n > 2 {
		out = append(out, mk(append([]Op(nil), s.Ops[:n/2]...)))
		out = append(out, mk(append([]Op(nil), s.Ops[:n-1]...)))
	}
	for chunk := n / 4; chunk >= 1; chunk /= 2 {
		for i := 0; i+chunk <= n && len(out) < 300; i += chunk {
			out = append(out, mk(append(append([]Op(nil), s.Ops[:i]...), s.Ops[i+chunk:]...)))
		}
	}
	return out
}

// Execute implements core.Harness.
func (H) Execute(scAny any, cfg simrt.Config, st *core.Stats) (*simrt.Outcome, *core.Violation) {
	sc := scAny.(*Scenario)
	var v *core.Violation
	var h uint64
	body := func() {
		calls := 0
		dupKeys := sc.Family == "duplicate-keys" || (len(sc.Family) > 14 && sc.Family[:14] == "duplicate-keys")
		tree := avl.New(func(a, b int) int {
			calls++
			if dupKeys {
				a, b = a/100000, b/100000
			}
			switch {
			case a < b:
				return -1
			case a > b:
				return 1
			}
			return 0
		})
		size := 0
		cloned := false
		present := map[int]bool{}
		for i, o := range sc.Ops {
			simrt.Yield()
			h = core.HashInts(h, int(o.K[0]), o.V)
			before := calls
			switch o.K {
			case "add":
				if present[o.V] {
					continue
				}
				tree.Add(o.V)
				present[o.V] = true
				size++
			case "clone":
				tree = tree.Clone()
				cloned = true
			case "remove":
				if !present[o.V] {
					// a value that is not there: Remove says so, and the tree (checked
					// below like after any call) is still balanced
					if tree.Remove(o.V) {
						v = &core.Violation{Signature: "remove-absent-succeeded", Detail: fmt.Sprintf("op %d: Remove(%d) returned true for a value that is not in the tree", i, o.V)}
						return
					}
					break
				}
				if !tree.Remove(o.V) {
					if dupKeys {
						// equal-comparing but distinct elements: the statement's comparator
						// assumption does not hold, a Remove that does not find its element
						// has changed nothing and the tree is checked as it is
						break
					}
					v = &core.Violation{Signature: "remove-failed", Detail: fmt.Sprintf("op %d: Remove(%d) returned false for a present value", i, o.V)}
					return
				}
				delete(present, o.V)
				size--
			}
			used := calls - before
			pre, in := tree.SlicePreOrder(), tree.SliceInOrder()
			if len(pre) != size || len(in) != size {
				v = &core.Violation{Signature: "size-mismatch", Detail: fmt.Sprintf("op %d %s: %d values expected, traversals have %d/%d", i, o, size, len(pre), len(in))}
				return
			}
			pos := make(map[int]int, size)
			for j, x := range in {
				if j > 0 && (in[j-1] >= x && !dupKeys || dupKeys && in[j-1]/100000 > x/100000) {
					v = &core.Violation{Signature: "inorder-not-sorted", Detail: fmt.Sprintf("op %d %s: in-order %v", i, o, in)}
					return
				}
				pos[x] = j
			}
			next := 0
			bad := ""
			depth := 0
			var build func(lo, hi, d int) int // returns height (empty = -1)
			build = func(lo, hi, d int) int {
				if lo > hi {
					return -1
				}
				if next >= len(pre) {
					bad = "pre-order too short"
					return -1
				}
				root := pre[next]
				p, ok := pos[root]
				if !ok || p < lo || p > hi {
					bad = fmt.Sprintf("pre-order and in-order are not traversals of one tree (value %d)", root)
					return -1
				}
				next++
				if d > depth {
					depth = d
				}
				hl := build(lo, p-1, d+1)
				hr := build(p+1, hi, d+1)
				if bad == "" && (hl-hr > 1 || hr-hl > 1) {
					bad = fmt.Sprintf("node %d has subtrees of height %d (left) and %d (right)", root, hl, hr)
				}
				if hl > hr {
					return hl + 1
				}
				return hr + 1
			}
			build(0, size-1, 1)
			if bad != "" {
				sig := "unbalanced:after-" + o.K
				if cloned {
					sig += "-on-clone"
				}
				if bad[0] == 'p' {
					sig = "traversals-inconsistent"
				}
				v = &core.Violation{Signature: sig, Detail: fmt.Sprintf("after op %d %s (n=%d): %s; pre-order=%v", i, o, size, bad, head(pre))}
				return
			}
			bound := 1.4405 * math.Log2(float64(size)+2)
			if size > 0 && float64(depth) > bound {
				v = &core.Violation{Signature: "depth-bound", Detail: fmt.Sprintf("after op %d %s: n=%d, deepest element at level %d > 1.4405*log2(n+2)=%.2f", i, o, size, depth, bound)}
				return
			}
			// (not for removals among equal-comparing elements: looking for the one
			// that is == may legitimately walk the whole run of them)
			if o.K != "clone" && !(dupKeys && o.K == "remove") && float64(used) > 3*bound+8 {
				v = &core.Violation{Signature: "comparisons-bound", Detail: fmt.Sprintf("op %d %s on n=%d needed %d comparator calls (> 3*%.2f+8)", i, o, size, used, bound)}
				return
			}
		}
	}
	out := core.RunSequential(cfg, body)
	out.Hash = simrt.Mix(out.Hash, h)
	out.Nontrivial = len(sc.Ops) >= 3
	if pv := core.OutcomeViolation(out); pv != nil {
		return out, pv
	}
	if out.Truncated && v == nil {
		return out, core.NoProgress(out)
	}
	return out, v
}

func head(s []int) []int {
	if len(s) > 24 {
		return s[:24]
	}
	return s
}
