// Package c09 checks property C09: KeyedMutex and KeyedRWMutex give per-key
// mutual exclusion and cross-key independence.
package c09

import (
	"encoding/json"
	"fmt"
	"strings"

	"gopkg.in/typ.v4/sync2"

	"verif/harness/core"
	simrt "verif/sim/rt"
	"verif/sim/ssync"
)

// Sec is a critical section a task tries to enter.
type Sec struct {
	Key   int    `json:"key"`
	Mode  string `json:"mode"` // lock trylock rlock tryrlock
	Inner int    `json:"inner,omitempty"`
	Stall bool   `json:"stall,omitempty"` // fault: the holder stalls forever inside
	Sub   []Sec  `json:"sub,omitempty"`   // nested sections on higher keys
}

func (s Sec) String() string {
	x := fmt.Sprintf("%s(%d)", s.Mode, s.Key)
	if s.Stall {
		x += "!stall"
	}
	if len(s.Sub) > 0 {
		x += fmt.Sprint(s.Sub)
	}
	return x
}

// Scenario is one or two phases of tasks; between phases keys may be cleared.
type Scenario struct {
	RW         bool    `json:"rw"`
	StringKeys bool    `json:"string_keys,omitempty"`
	Keys       int     `json:"keys"`
	Tasks      [][]Sec `json:"tasks"`
	Clear      []int   `json:"clear,omitempty"`
	Phase2     [][]Sec `json:"phase2,omitempty"`
	// Clearer > 0: a further task uses a key of its own (index Keys, which nobody
	// else touches, so nobody holds or awaits it), and calls ClearKey on it after
	// Clearer-1 yields, while the other tasks hold and await their keys
	Clearer int `json:"clearer,omitempty"`
}

type event struct {
	stamp int64
	kind  string // acqStart acqEnd relStart relEnd
	key   int
	mode  string
	ok    bool
}

// H is the harness.
type H struct{}

// ID implements core.Harness.
func (H) ID() string { return "C09" }

// Faults implements core.Harness.
func (H) Faults() core.FaultMenu {
	return core.FaultMenu{MapOrder: true, MaxSteps: 12000, PCTSteps: 120}
}

// Decode implements core.Harness.
func (H) Decode(b []byte) (any, error) {
	var s Scenario
	err := json.Unmarshal(b, &s)
	return &s, err
}

// Describe implements core.Harness.
func (H) Describe(sc any) string {
	s := sc.(*Scenario)
	t := "KeyedMutex"
	if s.RW {
		t = "KeyedRWMutex"
	}
	x := fmt.Sprintf("%s keys=%d tasks=%v", t, s.Keys, s.Tasks)
	if len(s.Phase2) > 0 {
		x += fmt.Sprintf(" clear=%v phase2=%v", s.Clear, s.Phase2)
	}
	if s.Clearer > 0 {
		x += fmt.Sprintf(" clearer(after %d yields)", s.Clearer-1)
	}
	return x
}

func genMode(r *simrt.Rand, rw bool) string {
	if rw {
		return []string{"lock", "trylock", "rlock", "rlock", "tryrlock"}[r.Intn(5)]
	}
	return []string{"lock", "lock", "trylock"}[r.Intn(3)]
}

var thorough bool

func genTasks(r *simrt.Rand, rw bool, keys int, nest bool) [][]Sec {
	var ts [][]Sec
	nt := 2 + r.Intn(3)
	if thorough && r.Intn(3) == 0 {
		nt = 2 + r.Intn(5)
	}
	collide := r.Intn(2) == 0
	for i := 0; i < nt; i++ {
		var prog []Sec
		for j := 0; j < 1+r.Intn(3); j++ {
			s := Sec{Key: r.Intn(keys), Mode: genMode(r, rw), Inner: r.Intn(3)}
			if j == 0 && collide {
				s.Key = 0 // first_use_collision: everybody's first call is on the same never-seen key
			}
			if nest && s.Key+1 < keys && r.Intn(2) == 0 {
				s.Sub = append(s.Sub, Sec{Key: s.Key + 1 + r.Intn(keys-s.Key-1), Mode: genMode(r, rw), Inner: r.Intn(2)})
			}
			prog = append(prog, s)
		}
		ts = append(ts, prog)
	}
	return ts
}

// Generate implements core.Harness.
func (H) Generate(r *simrt.Rand, tier string) any {
	s := &Scenario{RW: r.Intn(2) == 0, Keys: 1 + r.Intn(3), StringKeys: r.Intn(4) == 0}
	thorough = tier == "thorough"
	if r.Intn(4) == 0 {
		s.Clearer = 1 + r.Intn(12)
	}
	switch r.Intn(10) {
	case 0, 1, 2: // fault: one holder stalls forever; nobody nests
		s.Tasks = genTasks(r, s.RW, s.Keys, false)
		t := r.Intn(len(s.Tasks))
		i := r.Intn(len(s.Tasks[t]))
		s.Tasks[t][i].Stall = true
		s.Tasks[t] = s.Tasks[t][:i+1]
	case 3, 4, 5, 6:
		s.Tasks = genTasks(r, s.RW, s.Keys, true)
	default:
		s.Tasks = genTasks(r, s.RW, s.Keys, false)
		if r.Intn(2) == 0 {
			for k := 0; k < s.Keys; k++ {
				if r.Intn(2) == 0 {
					s.Clear = append(s.Clear, k)
				}
			}
			s.Phase2 = genTasks(r, s.RW, s.Keys, false)
		}
	}
	return s
}

func cloneSecs(in []Sec) []Sec {
	out := make([]Sec, len(in))
	for i, s := range in {
		out[i] = s
		out[i].Sub = cloneSecs(s.Sub)
	}
	return out
}

// Shrink implements core.Harness.
func (H) Shrink(sc any) []any {
	s := sc.(*Scenario)
	clone := func() *Scenario {
		c := &Scenario{RW: s.RW, StringKeys: s.StringKeys, Keys: s.Keys, Clear: append([]int(nil), s.Clear...), Clearer: s.Clearer}
		for _, t := range s.Tasks {
			c.Tasks = append(c.Tasks, cloneSecs(t))
		}
		for _, t := range s.Phase2 {
			c.Phase2 = append(c.Phase2, cloneSecs(t))
		}
		return c
	}
	var out []any
	if len(s.Phase2) > 0 {
		c := clone()
		c.Phase2, c.Clear = nil, nil
		out = append(out, c)
	}
	if s.Clearer > 0 {
		c := clone()
		c.Clearer = 0
		out = append(out, c)
		if s.Clearer > 1 {
			c := clone()
			c.Clearer = 1
			out = append(out, c)
		}
	}
	for i := range s.Tasks {
		c := clone()
		c.Tasks = append(c.Tasks[:i], c.Tasks[i+1:]...)
		out = append(out, c)
	}
	for i := range s.Phase2 {
		c := clone()
		c.Phase2 = append(c.Phase2[:i], c.Phase2[i+1:]...)
		out = append(out, c)
	}
	for i := range s.Tasks {
		for j := range s.Tasks[i] {
			c := clone()
			c.Tasks[i] = append(c.Tasks[i][:j], c.Tasks[i][j+1:]...)
			out = append(out, c)
			if len(s.Tasks[i][j].Sub) > 0 {
				c := clone()
				c.Tasks[i][j].Sub = nil
				out = append(out, c)
			}
			if s.Tasks[i][j].Inner > 0 {
				c := clone()
				c.Tasks[i][j].Inner = 0
				out = append(out, c)
			}
		}
	}
	return out
}

type locker interface {
	acquire(key int, mode string) bool
	release(key int, mode string)
	clear(key int)
}

type mtx struct{ km sync2.KeyedMutex[int] }

func (m *mtx) acquire(k int, mode string) bool {
	if mode == "trylock" {
		return m.km.TryLockKey(k)
	}
	m.km.LockKey(k)
	return true
}
func (m *mtx) release(k int, mode string) { m.km.UnlockKey(k) }
func (m *mtx) clear(k int)                { m.km.ClearKey(k) }

// string-keyed instantiations (the empty string is key 0)
type mtxS struct{ km sync2.KeyedMutex[string] }

func skey(k int) string {
	if k == 0 {
		return ""
	}
	return fmt.Sprint("key-", k)
}

func (m *mtxS) acquire(k int, mode string) bool {
	if mode == "trylock" {
		return m.km.TryLockKey(skey(k))
	}
	m.km.LockKey(skey(k))
	return true
}
func (m *mtxS) release(k int, mode string) { m.km.UnlockKey(skey(k)) }
func (m *mtxS) clear(k int)                { m.km.ClearKey(skey(k)) }

type rwmS struct{ km sync2.KeyedRWMutex[string] }

func (m *rwmS) acquire(k int, mode string) bool {
	switch mode {
	case "trylock":
		return m.km.TryLockKey(skey(k))
	case "rlock":
		m.km.RLockKey(skey(k))
		return true
	case "tryrlock":
		return m.km.TryRLockKey(skey(k))
	}
	m.km.LockKey(skey(k))
	return true
}
func (m *rwmS) release(k int, mode string) {
	if mode == "rlock" || mode == "tryrlock" {
		m.km.RUnlockKey(skey(k))
	} else {
		m.km.UnlockKey(skey(k))
	}
}
func (m *rwmS) clear(k int) { m.km.ClearKey(skey(k)) }

type rwm struct{ km sync2.KeyedRWMutex[int] }

func (m *rwm) acquire(k int, mode string) bool {
	switch mode {
	case "trylock":
		return m.km.TryLockKey(k)
	case "rlock":
		m.km.RLockKey(k)
		return true
	case "tryrlock":
		return m.km.TryRLockKey(k)
	}
	m.km.LockKey(k)
	return true
}
func (m *rwm) release(k int, mode string) {
	if mode == "rlock" || mode == "tryrlock" {
		m.km.RUnlockKey(k)
	} else {
		m.km.UnlockKey(k)
	}
}
func (m *rwm) clear(k int) { m.km.ClearKey(k) }

func reader(mode string) bool { return mode == "rlock" || mode == "tryrlock" }
func try(mode string) bool    { return mode == "trylock" || mode == "tryrlock" }

type run struct {
	l        locker
	writers  []int // occupancy counters (plain builds only: no detector to disturb)
	readers  []int
	witness  []int // plain shared memory guarded only by the lock under test (race builds)
	viol     string
	events   [][]event
	finished []bool
	stalled  []bool
}

func (r *run) ev(t int, kind string, key int, mode string, ok bool) {
	r.events[t] = append(r.events[t], event{simrt.Stamp(), kind, key, mode, ok})
}

func (r *run) section(t int, s Sec) {
	r.ev(t, "acqStart", s.Key, s.Mode, false)
	ok := r.l.acquire(s.Key, s.Mode)
	r.ev(t, "acqEnd", s.Key, s.Mode, ok)
	if !ok {
		return
	}
	// inside
	if simrt.RaceEnabled {
		if reader(s.Mode) {
			_ = r.witness[s.Key]
		} else {
			r.witness[s.Key]++
		}
	} else {
		if reader(s.Mode) {
			if r.writers[s.Key] != 0 && r.viol == "" {
				r.viol = fmt.Sprintf("task %d entered key %d as reader while a writer is inside", t, s.Key)
			}
			r.readers[s.Key]++
		} else {
			if (r.writers[s.Key] != 0 || r.readers[s.Key] != 0) && r.viol == "" {
				r.viol = fmt.Sprintf("task %d entered key %d as writer while %d writer(s) and %d reader(s) are inside", t, s.Key, r.writers[s.Key], r.readers[s.Key])
			}
			r.writers[s.Key]++
		}
	}
	for i := 0; i < s.Inner; i++ {
		simrt.Yield()
	}
	for _, sub := range s.Sub {
		r.section(t, sub)
	}
	if s.Stall {
		r.stalled[t] = true
		simrt.Count("fault.holder_stall", 1)
		var never chan int
		simrt.Recv(never)
	}
	if simrt.RaceEnabled {
		if !reader(s.Mode) {
			r.witness[s.Key]++
		} else {
			_ = r.witness[s.Key]
		}
	} else {
		if reader(s.Mode) {
			r.readers[s.Key]--
		} else {
			r.writers[s.Key]--
		}
	}
	r.ev(t, "relStart", s.Key, s.Mode, true)
	r.l.release(s.Key, s.Mode)
	r.ev(t, "relEnd", s.Key, s.Mode, true)
}

// Execute implements core.Harness.
func (H) Execute(scAny any, cfg simrt.Config, st *core.Stats) (*simrt.Outcome, *core.Violation) {
	sc := scAny.(*Scenario)
	nt := len(sc.Tasks) + len(sc.Phase2)
	nk := sc.Keys + 1 // one more key for the clearer
	clearerDone := sc.Clearer == 0
	clearing := false // the root task is inside the between-phase ClearKey calls
	r := &run{writers: make([]int, nk), readers: make([]int, nk), witness: make([]int, nk),
		events: make([][]event, nt), finished: make([]bool, nt), stalled: make([]bool, nt)}
	switch {
	case sc.RW && sc.StringKeys:
		r.l = &rwmS{}
	case sc.RW:
		r.l = &rwm{}
	case sc.StringKeys:
		r.l = &mtxS{}
	default:
		r.l = &mtx{}
	}
	cfg.StopWhenClientsDone = true // goroutines of the implementation itself (none on the pinned tree) do not keep a run alive
	s := simrt.New(cfg)
	s.Go(func() {
		phase := func(base int, tasks [][]Sec) {
			var wg ssync.WaitGroup
			wg.Add(len(tasks))
			for i := range tasks {
				i := i
				simrt.Go(func() {
					defer wg.Done()
					for _, sec := range tasks[i] {
						simrt.Yield()
						r.section(base+i, sec)
					}
					r.finished[base+i] = true
				})
			}
			wg.Wait()
		}
		if sc.Clearer > 0 {
			simrt.Go(func() {
				idle := sc.Keys
				if r.l.acquire(idle, "lock") {
					r.l.release(idle, "lock")
				}
				for i := 1; i < sc.Clearer; i++ {
					simrt.Yield()
				}
				simrt.Count("fault.clearkey_idle_midflight", 1)
				r.l.clear(idle)
				if r.l.acquire(idle, "trylock") {
					r.l.release(idle, "trylock")
				} else {
					r.viol = "TryLockKey of a key nobody else uses failed right after ClearKey"
				}
				clearerDone = true
			})
		}
		phase(0, sc.Tasks)
		if len(sc.Phase2) > 0 {
			// nobody holds or awaits any key here: the only situation in which the
			// statement covers ClearKey
			clearing = true
			for _, k := range sc.Clear {
				simrt.Yield()
				r.l.clear(k)
			}
			clearing = false
			phase(len(sc.Tasks), sc.Phase2)
		}
	})
	out := s.Run()
	if v := core.OutcomeViolation(out); v != nil {
		return out, v
	}
	if clearing && !out.Truncated {
		// every task of the first phase has finished, nobody holds or awaits any key,
		// and ClearKey of such a key did not return
		return out, &core.Violation{Signature: "clearkey-blocked", Detail: "ClearKey of a key that nobody holds or awaits did not return: " + strings.Join(out.StuckTasks, ", ")}
	}
	if r.viol != "" && out.Truncated {
		sig := "mutual-exclusion"
		if strings.HasPrefix(r.viol, "TryLockKey of a key nobody") {
			sig = "try-failed-while-free"
		}
		return out, &core.Violation{Signature: sig, Detail: r.viol}
	}
	if out.Truncated {
		anyStall := false
		for _, st := range r.stalled {
			anyStall = anyStall || st
		}
		if !anyStall {
			return out, core.NoProgress(out)
		}
		// One holder stalls for ever (injected). Waiters that park end the run stuck;
		// waiters of an implementation that spins (a ticket lock polling with
		// runtime.Gosched) never park, and the run ends at the step budget instead. The
		// statement does not say how to wait: judge both the same way - every
		// unfinished task must be explained by the stalled holder.
		st.Add("oracle.spinning_waiters_behind_stalled_holder", 1)
		out.Stuck = true
	}
	if r.viol != "" {
		sig := "mutual-exclusion"
		if strings.HasPrefix(r.viol, "TryLockKey of a key nobody") {
			sig = "try-failed-while-free"
		}
		return out, &core.Violation{Signature: sig, Detail: r.viol}
	}
	if !clearerDone {
		return out, &core.Violation{Signature: "cross-key-blocking", Detail: "the task that only ever touches a key of its own (LockKey, UnlockKey, ClearKey, TryLockKey) is blocked forever: " + strings.Join(out.StuckTasks, ", ")}
	}
	return out, r.check(sc, out)
}

type span struct {
	task       int
	key        int
	mode       string
	from, to   int64 // activity: acqStart .. relEnd (or acqEnd when not acquired)
	held       bool
	hfrom, hto int64 // hold: acqEnd .. relStart
	tryRet     int64
	ok         bool
	open       bool // acquire never returned
}

const inf = int64(1) << 50

func (r *run) spans() []span {
	var out []span
	for t, evs := range r.events {
		var stack []int
		for _, e := range evs {
			switch e.kind {
			case "acqStart":
				out = append(out, span{task: t, key: e.key, mode: e.mode, from: e.stamp, to: inf, hfrom: inf, hto: inf, tryRet: inf, open: true})
				stack = append(stack, len(out)-1)
			case "acqEnd":
				sp := &out[stack[len(stack)-1]]
				sp.open = false
				sp.ok = e.ok
				sp.tryRet = e.stamp
				if e.ok {
					sp.held = true
					sp.hfrom = e.stamp
				} else {
					sp.to = e.stamp
					stack = stack[:len(stack)-1]
				}
			case "relStart":
				out[stack[len(stack)-1]].hto = e.stamp
			case "relEnd":
				out[stack[len(stack)-1]].to = e.stamp
				stack = stack[:len(stack)-1]
			}
		}
	}
	return out
}

func incompatible(a, b string) bool { return !(reader(a) && reader(b)) }

func (r *run) check(sc *Scenario, out *simrt.Outcome) *core.Violation {
	sp := r.spans()
	// Try operations: never block, fail while incompatibly held throughout, succeed when free and uncontended
	for _, a := range sp {
		if !try(a.mode) {
			continue
		}
		if a.open {
			return &core.Violation{Signature: "try-blocked", Detail: fmt.Sprintf("task %d: %s(%d) never returned", a.task, a.mode, a.key)}
		}
		heldThroughout, quiet := false, true
		for _, b := range sp {
			if b.task == a.task && b.from == a.from {
				continue
			}
			if b.key != a.key {
				continue
			}
			if b.task == a.task {
				// own outer hold of the same key cannot occur: nesting is on higher keys only
				continue
			}
			// "free and uncontended": any other task that holds the key or is inside a
			// call on it during the try is contention, compatible or not (a TryRLock may
			// fail while another reader is arriving or leaving - sync.RWMutex documents
			// that a try may fail spuriously under contention)
			if !(b.to < a.from || b.from > a.tryRet) {
				quiet = false
			}
			if !incompatible(a.mode, b.mode) {
				continue
			}
			if b.held && b.hfrom <= a.from && b.hto >= a.tryRet {
				heldThroughout = true
			}
		}
		if heldThroughout && a.ok {
			return &core.Violation{Signature: "try-succeeded-while-held", Detail: fmt.Sprintf("task %d: %s(%d) returned true although the key was incompatibly held for the whole call", a.task, a.mode, a.key)}
		}
		if quiet && !a.ok {
			return &core.Violation{Signature: "try-failed-while-free", Detail: fmt.Sprintf("task %d: %s(%d) returned false although the key was free and no other task touched it during the call", a.task, a.mode, a.key)}
		}
	}
	if !out.Stuck {
		for t, f := range r.finished {
			if !f {
				return &core.Violation{Signature: "task-vanished", Detail: fmt.Sprintf("task %d did not finish although the run was not stuck", t)}
			}
		}
		return nil
	}
	// the run ended with blocked tasks: each must be explained by a stalled holder
	unfinished := map[int]bool{}
	for t, f := range r.finished {
		if !f && len(r.events[t]) > 0 || r.stalled[t] {
			unfinished[t] = true
		}
	}
	anyStall := false
	for _, s := range r.stalled {
		anyStall = anyStall || s
	}
	for t := range r.finished {
		if r.finished[t] || r.stalled[t] {
			continue
		}
		// find what t is doing
		var cur *span
		for i := range sp {
			if sp[i].task == t && sp[i].open {
				cur = &sp[i]
			}
		}
		if cur == nil {
			inRelease := false
			for i := range sp {
				if sp[i].task == t && sp[i].held && sp[i].hto != inf && sp[i].to == inf {
					inRelease = true
				}
			}
			if len(r.events[t]) == 0 && t >= len(sc.Tasks) {
				continue // phase-2 task never started because phase 1 is stuck
			}
			if inRelease {
				return &core.Violation{Signature: "unlock-blocked", Detail: fmt.Sprintf("task %d is blocked inside an unlock call", t)}
			}
			return &core.Violation{Signature: "blocked-outside-acquire", Detail: fmt.Sprintf("task %d is blocked but not inside an acquire: %s", t, strings.Join(out.StuckTasks, ", "))}
		}
		if try(cur.mode) {
			return &core.Violation{Signature: "try-blocked", Detail: fmt.Sprintf("task %d: %s(%d) blocks", t, cur.mode, cur.key)}
		}
		explained := false
		for _, b := range sp {
			if b.task != t && b.key == cur.key && b.held && b.hto == inf && incompatible(cur.mode, b.mode) && unfinished[b.task] {
				explained = true
			}
			// Go's RWMutex makes readers queue behind a waiting writer: a reader may
			// legitimately wait for a writer that itself waits for a stalled reader
			if b.task != t && b.key == cur.key && b.open && !reader(b.mode) && reader(cur.mode) && unfinished[b.task] {
				explained = true
			}
		}
		if !explained {
			why := "no stalled holder"
			if anyStall {
				why = "the stalled holder holds a different key"
			}
			return &core.Violation{Signature: "cross-key-blocking", Detail: fmt.Sprintf("task %d waits forever in %s(%d) although nobody unfinished holds key %d incompatibly (%s); blocked: %s", t, cur.mode, cur.key, cur.key, why, strings.Join(out.StuckTasks, ", "))}
		}
	}
	return nil
}
