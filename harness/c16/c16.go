// Package c16 checks property C16: Queue is FIFO and Stack is LIFO. Single
// client, no faults.
package c16

import (
	"encoding/json"
	"fmt"
	"strings"

	"gopkg.in/typ.v4/lists"

	"verif/harness/core"
	simrt "verif/sim/rt"
)

// Scenario is a history of pushes (P), pops (O), peeks (K) and lens (L).
type Scenario struct {
	Kind string `json:"kind"` // queue stack
	Ops  string `json:"ops"`
}

// H is the harness.
type H struct{}

// ID implements core.Harness.
func (H) ID() string { return "C16" }

// Faults implements core.Harness.
func (H) Faults() core.FaultMenu {
	return core.FaultMenu{Sequential: true, MapOrder: true, MaxSteps: 100000}
}

// Decode implements core.Harness.
func (H) Decode(b []byte) (any, error) {
	var s Scenario
	err := json.Unmarshal(b, &s)
	return &s, err
}

// Describe implements core.Harness.
func (H) Describe(sc any) string {
	s := sc.(*Scenario)
	return fmt.Sprintf("%s ops=%s", s.Kind, s.Ops)
}

// Generate implements core.Harness.
func (H) Generate(r *simrt.Rand, tier string) any {
	s := &Scenario{Kind: []string{"queue", "stack"}[r.Intn(2)]}
	if r.Intn(10) == 0 {
		s.Kind += "-of-empty-structs" // a zero-size element type: only counts and ok flags can be observed
	}
	n := 1 + r.Intn(40)
	if r.Intn(5) == 0 {
		n = 1 + r.Intn(300)
	}
	if tier == "thorough" && r.Intn(5) == 0 {
		n = 1 + r.Intn(3000)
	}
	bias := 30 + r.Intn(40) // share of pushes: drain-and-refill shows up with low shares
	if r.Intn(12) == 0 {
		// depth is a knob too: growth policies and block sizes only show with
		// hundreds of values inside
		n = 300 + r.Intn(1500)
		bias = 60 + r.Intn(25)
	}
	if r.Intn(8) == 0 {
		// phases: long fills and long drains (to empty, to nearly empty, by a block
		// size or one more or less) with a peek now and then - block-structured and
		// ring-shaped representations change state at such boundaries, and a mixed
		// history of single steps hardly ever lines up with them
		var sb []byte
		depth := 0
		for len(sb) < 600 {
			k := []int{1, 2, 7, 8, 9, 15, 16, 17, 31, 32, 33, 63, 64, 65, 127, 128, 129}[r.Intn(17)]
			if r.Intn(3) == 0 {
				k = 1 + r.Intn(70)
			}
			push := r.Intn(2) == 0 || depth == 0
			if !push {
				switch r.Intn(4) {
				case 0:
					k = depth // drain completely
				case 1:
					k = depth - 1 // leave one inside
				}
				if k > depth+1 {
					k = depth + 1 // one pop more than there is: the empty case
				}
			}
			for i := 0; i < k; i++ {
				if push {
					sb = append(sb, 'P')
					depth++
				} else {
					sb = append(sb, 'O')
					if depth > 0 {
						depth--
					}
				}
			}
			if r.Intn(2) == 0 {
				sb = append(sb, "KL"[r.Intn(2)])
			}
			if r.Intn(6) == 0 {
				break
			}
		}
		s.Ops = string(sb)
		return s
	}
	b := make([]byte, n)
	for i := range b {
		x := r.Intn(100)
		switch {
		case x < bias:
			b[i] = 'P'
		case x < bias+30:
			b[i] = 'O'
		case x < bias+30+(100-bias-30)/2:
			b[i] = 'K'
		default:
			b[i] = 'L'
		}
	}
	s.Ops = string(b)
	return s
}

// Shrink implements core.Harness.
func (H) Shrink(sc any) []any {
	s := sc.(*Scenario)
	var out []any
	n := len(s.Ops)
	if n > 2 {
		out = append(out, &Scenario{s.Kind, s.Ops[:n/2]}, &Scenario{s.Kind, s.Ops[n/2:]})
	}
	for i := 0; i < n && len(out) < 300; i++ {
		out = append(out, &Scenario{s.Kind, s.Ops[:i] + s.Ops[i+1:]})
	}
	return out
}

// runEmpty runs the history on Queue[struct{}] / Stack[struct{}].
func runEmpty(sc *Scenario) *core.Violation {
	var q lists.Queue[struct{}]
	var s lists.Stack[struct{}]
	queue := strings.HasPrefix(sc.Kind, "queue")
	n := 0
	for i := 0; i < len(sc.Ops); i++ {
		simrt.Yield()
		ok, had := false, false
		switch sc.Ops[i] {
		case 'P':
			if queue {
				q.Enqueue(struct{}{})
			} else {
				s.Push(struct{}{})
			}
			n++
		case 'O':
			had = true
			if queue {
				_, ok = q.Dequeue()
			} else {
				_, ok = s.Pop()
			}
			if ok != (n > 0) {
				return &core.Violation{Signature: sc.Kind + ":empty-result", Detail: fmt.Sprintf("op %d of %q: removal returned ok=%v with %d elements inside", i, sc.Ops, ok, n)}
			}
			if n > 0 {
				n--
			}
		case 'K':
			had = true
			if queue {
				_, ok = q.Peek()
			} else {
				_, ok = s.Peek()
			}
			if ok != (n > 0) {
				return &core.Violation{Signature: sc.Kind + ":empty-result", Detail: fmt.Sprintf("op %d of %q: Peek returned ok=%v with %d elements inside", i, sc.Ops, ok, n)}
			}
		}
		_ = had
		got := len(s)
		if queue {
			got = q.Len()
		}
		if got != n {
			return &core.Violation{Signature: sc.Kind + ":len-mismatch", Detail: fmt.Sprintf("op %d of %q: Len=%d want %d", i, sc.Ops, got, n)}
		}
	}
	return nil
}

// Execute implements core.Harness.
func (H) Execute(scAny any, cfg simrt.Config, st *core.Stats) (*simrt.Outcome, *core.Violation) {
	sc := scAny.(*Scenario)
	var v *core.Violation
	h := core.HashString(0, sc.Kind+sc.Ops)
	if strings.HasSuffix(sc.Kind, "-of-empty-structs") {
		body0 := func() { v = runEmpty(sc) }
		out := core.RunSequential(cfg, body0)
		out.Hash = simrt.Mix(out.Hash, h)
		out.Nontrivial = len(sc.Ops) >= 3
		if pv := core.OutcomeViolation(out); pv != nil {
			return out, pv
		}
		if out.Truncated && v == nil {
			return out, core.NoProgress(out)
		}
		return out, v
	}
	body := func() {
		var q lists.Queue[int] // zero values
		var s lists.Stack[int]
		var model []int
		next := 0
		// a second container of the same kind lives next to the first and is pushed
		// to and popped from between its calls: two values of the type share nothing
		var q2 lists.Queue[int]
		var s2 lists.Stack[int]
		var model2 []int
		other := func(i int) bool {
			if (i/3)%3 != 2 {
				val := 100000 + i
				if sc.Kind == "queue" {
					q2.Enqueue(val)
				} else {
					s2.Push(val)
				}
				model2 = append(model2, val)
				return true
			}
			var got int
			var ok bool
			if sc.Kind == "queue" {
				got, ok = q2.Dequeue()
			} else {
				got, ok = s2.Pop()
			}
			n := len(s2)
			if sc.Kind == "queue" {
				n = q2.Len()
			}
			if len(model2) == 0 {
				if ok || got != 0 || n != 0 {
					v = &core.Violation{Signature: sc.Kind + ":second-container", Detail: fmt.Sprintf("after op %d of %s %q: the second, empty container returned (%d,%v), Len=%d", i, sc.Kind, sc.Ops, got, ok, n)}
					return false
				}
				return true
			}
			idx := 0
			if sc.Kind == "stack" {
				idx = len(model2) - 1
			}
			if !ok || got != model2[idx] || n != len(model2)-1 {
				v = &core.Violation{Signature: sc.Kind + ":second-container", Detail: fmt.Sprintf("after op %d of %s %q: the second container returned (%d,%v), Len=%d; want (%d,true), Len=%d", i, sc.Kind, sc.Ops, got, ok, n, model2[idx], len(model2)-1)}
				return false
			}
			model2 = append(model2[:idx], model2[idx+1:]...)
			return true
		}
		for i := 0; i < len(sc.Ops); i++ {
			simrt.Yield()
			if i%3 == 1 && !other(i) {
				return
			}
			fail := func(sig, format string, a ...any) {
				v = &core.Violation{Signature: sc.Kind + ":" + sig, Detail: fmt.Sprintf("op %d '%c' of %s %q: ", i, sc.Ops[i], sc.Kind, sc.Ops) + fmt.Sprintf(format, a...)}
			}
			var got int
			var ok bool
			switch sc.Ops[i] {
			case 'P':
				next++
				val := next
				if next%7 == 3 {
					val = 0 // the zero value is an element like any other
				}
				if sc.Kind == "queue" {
					q.Enqueue(val)
				} else {
					s.Push(val)
				}
				model = append(model, val)
			case 'O', 'K':
				pop := sc.Ops[i] == 'O'
				if sc.Kind == "queue" {
					if pop {
						got, ok = q.Dequeue()
					} else {
						got, ok = q.Peek()
					}
				} else {
					if pop {
						got, ok = s.Pop()
					} else {
						got, ok = s.Peek()
					}
				}
				if len(model) == 0 {
					if ok || got != 0 {
						fail("empty-result", "returned (%d,%v) on an empty container", got, ok)
						return
					}
					break
				}
				idx := 0
				if sc.Kind == "stack" {
					idx = len(model) - 1
				}
				if !ok || got != model[idx] {
					fail("wrong-value", "returned (%d,%v), want (%d,true); contents %v", got, ok, model[idx], model)
					return
				}
				if pop {
					model = append(model[:idx], model[idx+1:]...)
				}
			}
			// Len where the history asks for it and after every other step: an
			// implementation that reconciles a lazily kept count inside Len must also be
			// right when Len is not called in between
			if sc.Ops[i] == 'L' || i%2 == 0 || i == len(sc.Ops)-1 {
				n := len(s)
				if sc.Kind == "queue" {
					n = q.Len()
				}
				if n != len(model) {
					fail("len-mismatch", "Len=%d want %d", n, len(model))
					return
				}
			}
		}
		// the second container still holds exactly what was left in it
		for len(model2) > 0 {
			n2 := len(model2)
			if !other(6) { // (6/3)%3 == 2: a removal
				return
			}
			if len(model2) != n2-1 {
				break
			}
		}
		// what is still inside at the end comes out in order too, down to the empty case
		for k := 0; k <= len(model); {
			var got int
			var ok bool
			if sc.Kind == "queue" {
				got, ok = q.Dequeue()
			} else {
				got, ok = s.Pop()
			}
			if len(model) == 0 {
				if ok || got != 0 {
					v = &core.Violation{Signature: sc.Kind + ":empty-result", Detail: fmt.Sprintf("final drain: returned (%d,%v) on an empty container", got, ok)}
				}
				return
			}
			idx := 0
			if sc.Kind == "stack" {
				idx = len(model) - 1
			}
			if !ok || got != model[idx] {
				v = &core.Violation{Signature: sc.Kind + ":wrong-value", Detail: fmt.Sprintf("final drain: returned (%d,%v), want (%d,true); %d values were left", got, ok, model[idx], len(model))}
				return
			}
			model = append(model[:idx], model[idx+1:]...)
		}
	}
	out := core.RunSequential(cfg, body)
	out.Hash = simrt.Mix(out.Hash, h)
	out.Nontrivial = len(sc.Ops) >= 3
	if pv := core.OutcomeViolation(out); pv != nil {
		return out, pv
	}
	if out.Truncated && v == nil {
		return out, core.NoProgress(out)
	}
	return out, v
}
