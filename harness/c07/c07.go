// Package c07 checks property C07: slices.Sorted is always sorted and is an
// exact multiset. Single client, no faults.
package c07

import (
	"encoding/json"
	"fmt"
	"sort"

	"gopkg.in/typ.v4/slices"

	"verif/harness/core"
	simrt "verif/sim/rt"
)

// Op is one call.
type Op struct {
	K string `json:"k"` // add remove removeat get index contains len
	V int    `json:"v"`
}

func (o Op) String() string { return fmt.Sprintf("%s(%d)", o.K, o.V) }

// Scenario is an initial slice and a history.
type Scenario struct {
	Ctor string `json:"ctor"` // ordered less-desc less-string
	Init []int  `json:"init"`
	U    int    `json:"universe"`
	Ops  []Op   `json:"ops"`
}

// H is the harness.
type H struct{}

// ID implements core.Harness.
func (H) ID() string { return "C07" }

// Faults implements core.Harness.
func (H) Faults() core.FaultMenu {
	return core.FaultMenu{Sequential: true, MapOrder: true, MaxSteps: 100000}
}

// Decode implements core.Harness.
func (H) Decode(b []byte) (any, error) {
	var s Scenario
	err := json.Unmarshal(b, &s)
	return &s, err
}

// Describe implements core.Harness.
func (H) Describe(sc any) string {
	s := sc.(*Scenario)
	return fmt.Sprintf("ctor=%s init=%v universe=%d ops=%v", s.Ctor, s.Init, s.U, s.Ops)
}

// Generate implements core.Harness.
func (H) Generate(r *simrt.Rand, tier string) any {
	s := &Scenario{Ctor: []string{"ordered", "less-desc", "less-string", "less-ties"}[r.Intn(4)], U: 2 + r.Intn(9)}
	for i, n := 0, r.Intn(9); i < n; i++ {
		s.Init = append(s.Init, r.Intn(s.U))
	}
	if r.Intn(8) == 0 {
		// length and spread are knobs too: a representation in chunks or runs changes
		// state at 16, 24, 32, 64 elements, and whether a value fits strictly between
		// two neighbours depends on there being room between them. Dozens to hundreds
		// of mostly distinct values, and a history in phases - fill, drain from the
		// front, from the back, from the middle, look around - whose lengths sit on
		// and next to those sizes.
		s.U = 50 + r.Intn(950)
		for i, n := 0, r.Intn(150); i < n; i++ {
			s.Init = append(s.Init, r.Intn(s.U))
		}
		for len(s.Ops) < 400 {
			k := []int{1, 7, 8, 9, 15, 16, 17, 23, 24, 25, 31, 32, 33, 48, 64, 65}[r.Intn(16)]
			if r.Intn(3) == 0 {
				k = 1 + r.Intn(40)
			}
			mode := r.Intn(7)
			base := r.Intn(s.U)
			for j := 0; j < k; j++ {
				var o Op
				switch mode {
				case 0:
					o = Op{K: "add", V: r.Intn(s.U)}
				case 1: // an ascending run
					o = Op{K: "add", V: (base + j) % s.U}
				case 2:
					o = Op{K: "removeat", V: 0}
				case 3:
					o = Op{K: "removeatrel", V: 1000}
				case 4:
					o = Op{K: "removeatrel", V: r.Intn(1001)}
				case 5:
					o = Op{K: []string{"remove", "index", "contains"}[r.Intn(3)], V: r.Intn(s.U)}
				default:
					o = Op{K: "getrel", V: []int{0, 500, 1000}[r.Intn(3)]}
				}
				if s.Ctor == "less-ties" {
					switch o.K {
					case "remove":
						o.K = "removetie"
					case "index", "contains":
						o.K = "getrel"
						o.V = 500
					}
				}
				s.Ops = append(s.Ops, o)
			}
			if r.Intn(8) == 0 {
				break
			}
		}
		return s
	}
	n := 1 + r.Intn(30)
	if r.Intn(5) == 0 {
		n = 1 + r.Intn(200)
	}
	if tier == "thorough" && r.Intn(5) == 0 {
		n = 1 + r.Intn(2000)
	}
	for i := 0; i < n; i++ {
		o := Op{K: []string{"add", "add", "add", "remove", "remove", "removeat", "get", "index", "contains", "len"}[r.Intn(10)], V: r.Intn(s.U)}
		if s.Ctor == "less-ties" && o.K == "remove" {
			// with a less function that cannot tell some values apart the statement
			// promises order and multiset only: Remove may fail to find a value that is
			// there, and may take out any element that less cannot tell from its argument
			// (NewSorted's documentation says so), but exactly one, and no other
			o.K = "removetie"
		}
		if s.Ctor == "less-ties" && (o.K == "index" || o.K == "contains") {
			// ... and nothing about positions or look-ups
			o.K = "add"
		}
		if o.K == "removeat" || o.K == "get" {
			o.V = r.Intn(14) - 2 // inside and outside the bounds
		}
		s.Ops = append(s.Ops, o)
	}
	return s
}

// Shrink implements core.Harness.
func (H) Shrink(sc any) []any {
	s := sc.(*Scenario)
	var out []any
	mk := func(init []int, ops []Op) *Scenario { return &Scenario{Ctor: s.Ctor, U: s.U, Init: init, Ops: ops} }
	n := len(s.Ops)
	if n > 2 {
		out = append(out, mk(s.Init, append([]Op(nil), s.Ops[:n/2]...)), mk(s.Init, append([]Op(nil), s.Ops[n/2:]...)))
	}
	for i := range s.Ops {
		if len(out) > 300 {
			break
		}
		out = append(out, mk(s.Init, append(append([]Op(nil), s.Ops[:i]...), s.Ops[i+1:]...)))
	}
	for i := range s.Init {
		out = append(out, mk(append(append([]int(nil), s.Init[:i]...), s.Init[i+1:]...), s.Ops))
	}
	return out
}

// Execute implements core.Harness.
func (H) Execute(scAny any, cfg simrt.Config, st *core.Stats) (*simrt.Outcome, *core.Violation) {
	sc := scAny.(*Scenario)
	var v *core.Violation
	var h uint64
	changes := 0
	body := func() {
		switch sc.Ctor {
		case "less-ties":
			v, h, changes = runTies(sc)
		case "less-desc":
			v, h, changes = run(sc, func(i int) int { return i }, func(a, b int) bool { return a > b }, false)
		case "less-string":
			v, h, changes = run(sc, func(i int) string { return fmt.Sprintf("%02d", i) }, func(a, b string) bool { return a < b }, false)
		default:
			v, h, changes = run(sc, func(i int) int { return i }, func(a, b int) bool { return a < b }, true)
		}
	}
	out := core.RunSequential(cfg, body)
	out.Hash = simrt.Mix(out.Hash, h)
	out.Nontrivial = changes >= 3
	if pv := core.OutcomeViolation(out); pv != nil {
		return out, pv
	}
	if out.Truncated && v == nil {
		return out, core.NoProgress(out)
	}
	return out, v
}

type tie struct{ K, S int }

// runTies: less compares K only. Checked: non-decreasing order under less and
// exact multiset equality after every call, bounds panics; nothing about positions.
func runTies(sc *Scenario) (*core.Violation, uint64, int) {
	less := func(a, b tie) bool { return a.K < b.K }
	var input []tie
	for i, x := range sc.Init {
		input = append(input, tie{x / 2, i})
	}
	snapshot := append([]tie(nil), input...)
	s := slices.NewSorted(input, less)
	model := map[tie]int{}
	size := 0
	for _, t := range input {
		model[t]++
		size++
	}
	var h uint64
	changes := 0
	seq := 1000
	verify := func(i int, o Op) *core.Violation {
		fail := func(sig, format string, a ...any) *core.Violation {
			return &core.Violation{Signature: sig + ":ties", Detail: fmt.Sprintf("after op %d %s (less compares keys only, init=%v): ", i, o, sc.Init) + fmt.Sprintf(format, a...)}
		}
		if s.Len() != size {
			return fail("len-mismatch", "Len()=%d want %d", s.Len(), size)
		}
		got := map[tie]int{}
		for j := 0; j < s.Len(); j++ {
			e := s.Get(j)
			got[e]++
			if j > 0 && less(e, s.Get(j-1)) {
				return fail("not-sorted", "element %d (%v) is less than its predecessor (%v)", j, e, s.Get(j-1))
			}
		}
		for k, n := range model {
			if got[k] != n {
				return fail("contents-mismatch", "value %v occurs %d times, expected %d", k, got[k], n)
			}
		}
		for j := range snapshot {
			if input[j] != snapshot[j] {
				return fail("input-aliased", "the caller's input slice changed")
			}
		}
		return nil
	}
	if v := verify(-1, Op{K: "new"}); v != nil {
		return v, h, changes
	}
	for i, o := range sc.Ops {
		simrt.Yield()
		h = core.HashInts(h, int(o.K[0])+256*int(o.K[len(o.K)-1]), o.V)
		o = relative(o, size)
		switch o.K {
		case "add":
			seq++
			e := tie{o.V / 2, seq}
			s.Add(e)
			model[e]++
			size++
			changes++
		case "removetie":
			// o.V%3: 0 = a value that is in the collection, 1 = a value that is not in
			// it but that less cannot tell from one that is, 2 = a key that is absent
			var e tie
			switch {
			case size == 0 || o.V%3 == 2:
				e = tie{1000 + o.V, 0}
			case o.V%3 == 0:
				e = s.Get((o.V / 3) % size)
			default:
				e = tie{s.Get((o.V / 3) % size).K, -1}
			}
			before := map[tie]int{}
			for j := 0; j < s.Len(); j++ {
				before[s.Get(j)]++
			}
			pos := s.Remove(e)
			if pos >= 0 {
				// NewSorted documents that "any of the equivalent elements may be the one
				// being removed" when less cannot tell them apart: which one is free, but
				// it must be exactly one, and one that less cannot tell from e
				for j := 0; j < s.Len(); j++ {
					before[s.Get(j)]--
				}
				var gone []tie
				for k, n := range before {
					for ; n > 0; n-- {
						gone = append(gone, k)
					}
					if n < 0 {
						return &core.Violation{Signature: "contents-mismatch:ties", Detail: fmt.Sprintf("op %d Remove(%v) returned %d and afterwards %v occurs more often than before", i, e, pos, k)}, h, changes
					}
				}
				if len(gone) != 1 || less(gone[0], e) || less(e, gone[0]) {
					return &core.Violation{Signature: "removed-another-value:ties", Detail: fmt.Sprintf("op %d Remove(%v) returned %d and took out %v (less compares keys only; exactly one element that less cannot tell from the argument may go)", i, e, pos, gone)}, h, changes
				}
				model[gone[0]]--
				size--
				changes++
			}
		case "removeat":
			in := o.V >= 0 && o.V < size
			var e tie
			if in {
				e = s.Get(o.V)
			}
			p := panics(func() { s.RemoveAt(o.V) })
			if p == in {
				return &core.Violation{Signature: "removeat-bounds:ties", Detail: fmt.Sprintf("op %d RemoveAt(%d) with Len %d: panicked=%v", i, o.V, size, p)}, h, changes
			}
			if in {
				model[e]--
				size--
				changes++
			}
		case "get":
			in := o.V >= 0 && o.V < size
			p := panics(func() { s.Get(o.V) })
			if p == in {
				return &core.Violation{Signature: "get-bounds:ties", Detail: fmt.Sprintf("op %d Get(%d) with Len %d: panicked=%v", i, o.V, size, p)}, h, changes
			}
		}
		if v := verify(i, o); v != nil {
			return v, h, changes
		}
	}
	return nil, h, changes
}

// relative turns a position given in thousandths of the current length (the
// operations "removeatrel" and "getrel": 0 is the first element, 1000 the last) into
// an absolute one, so that a history can drain a long slice from the back or the
// middle without knowing its length in advance.
func relative(o Op, size int) Op {
	switch o.K {
	case "removeatrel":
		o.K = "removeat"
	case "getrel":
		o.K = "get"
	default:
		return o
	}
	if size > 0 {
		o.V = o.V * (size - 1) / 1000
	} else {
		o.V = 0
	}
	return o
}

func panics(f func()) (p bool) {
	defer func() {
		if recover() != nil {
			p = true
		}
	}()
	f()
	return false
}

func run[T interface {
	comparable
	~int | ~string
}](sc *Scenario, conv func(int) T, less func(a, b T) bool, ordered bool) (*core.Violation, uint64, int) {
	// the caller's slice has spare capacity (like buf[:0] or a reused buffer): its
	// whole backing array must stay untouched
	spare := len(sc.Ops)%5 + len(sc.Init)%3
	backing := make([]T, len(sc.Init), len(sc.Init)+spare)
	for i, x := range sc.Init {
		backing[i] = conv(x)
	}
	full := backing[:cap(backing)]
	for i := len(sc.Init); i < len(full); i++ {
		full[i] = conv(97 + i)
	}
	input := backing
	snapshot := append([]T(nil), full...)
	var s slices.Sorted[T]
	if ordered {
		s = slices.NewSortedOrdered(input...)
	} else {
		s = slices.NewSorted(input, less)
	}
	model := append([]T(nil), input...)
	sort.SliceStable(model, func(i, j int) bool { return less(model[i], model[j]) })
	var h uint64
	changes := 0
	fail := func(i int, o Op, sig, format string, a ...any) *core.Violation {
		return &core.Violation{Signature: sig, Detail: fmt.Sprintf("after op %d %s (ctor=%s init=%v): ", i, o, sc.Ctor, sc.Init) + fmt.Sprintf(format, a...)}
	}
	verify := func(i int, o Op, cat string) *core.Violation {
		if s.Len() != len(model) {
			return fail(i, o, "len-mismatch:"+cat, "Len()=%d want %d", s.Len(), len(model))
		}
		for j := range model {
			if got := s.Get(j); got != model[j] {
				return fail(i, o, "contents-mismatch:"+cat, "Get(%d)=%v, expected contents %v", j, got, model)
			}
			if j > 0 && less(model[j], model[j-1]) {
				return fail(i, o, "model-bug", "model not sorted")
			}
		}
		_ = s.String() // must not panic or disturb anything; its text is promised nowhere
		for j := range snapshot {
			if full[j] != snapshot[j] {
				return fail(i, o, "input-aliased:"+cat, "the caller's backing array (length %d, capacity %d) changed: %v, was %v", len(input), cap(input), full, snapshot)
			}
		}
		return nil
	}
	if v := verify(-1, Op{K: "new"}, "new"); v != nil {
		return v, h, changes
	}
	// the input is the caller's: it overwrites it once the constructor has returned
	// (a Sorted that kept the slice instead of copying it now holds other values)
	for j := range input {
		input[j] = conv(sc.U + 7)
		snapshot[j] = input[j]
	}
	if v := verify(-1, Op{K: "new"}, "new-input-overwritten"); v != nil {
		return v, h, changes
	}
	for i, o := range sc.Ops {
		simrt.Yield()
		h = core.HashInts(h, int(o.K[0])+256*int(o.K[len(o.K)-1]), o.V)
		o = relative(o, len(model))
		val := conv(o.V)
		lb := sort.Search(len(model), func(j int) bool { return !less(model[j], val) })
		present := lb < len(model) && model[lb] == val
		cat := o.K
		switch o.K {
		case "add":
			ub := sort.Search(len(model), func(j int) bool { return less(val, model[j]) })
			got := s.Add(val)
			model = append(model, val)
			copy(model[lb+1:], model[lb:])
			model[lb] = val
			changes++
			// equal values cannot be told apart: any position inside the run of
			// values equal to the new one is "where it now sits"
			if got < lb || got > ub {
				return fail(i, o, "add-position", "Add returned %d, the value now sits at %d..%d", got, lb, ub), h, changes
			}
		case "remove":
			cat = "remove-absent"
			lo, hi := -1, -1
			if present {
				cat = "remove-present"
				ub := sort.Search(len(model), func(j int) bool { return less(val, model[j]) })
				lo, hi = lb, ub-1 // the former position of any one occurrence
			}
			got := s.Remove(val)
			if present {
				model = append(model[:lb], model[lb+1:]...)
				changes++
			}
			if got < lo || got > hi {
				return fail(i, o, "remove-result:"+cat, "Remove returned %d, want a position in %d..%d", got, lo, hi), h, changes
			}
		case "removeat":
			in := o.V >= 0 && o.V < len(model)
			p := panics(func() { s.RemoveAt(o.V) })
			if p == in {
				return fail(i, o, "removeat-bounds", "RemoveAt(%d) with Len %d: panicked=%v", o.V, len(model), p), h, changes
			}
			if in {
				model = append(model[:o.V], model[o.V+1:]...)
				changes++
			}
		case "get":
			in := o.V >= 0 && o.V < len(model)
			var got T
			p := panics(func() { got = s.Get(o.V) })
			if p == in {
				return fail(i, o, "get-bounds", "Get(%d) with Len %d: panicked=%v", o.V, len(model), p), h, changes
			}
			if in && got != model[o.V] {
				return fail(i, o, "get-value", "Get(%d)=%v want %v", o.V, got, model[o.V]), h, changes
			}
		case "index":
			want := -1
			if present {
				want = lb
			}
			if got := s.Index(val); got != want {
				return fail(i, o, "index-result", "Index(%v)=%d want %d in %v", val, got, want, model), h, changes
			}
		case "contains":
			if got := s.Contains(val); got != present {
				return fail(i, o, "contains-result", "Contains(%v)=%v want %v", val, got, present), h, changes
			}
		}
		if v := verify(i, o, cat); v != nil {
			return v, h, changes
		}
	}
	return nil, h, changes
}
