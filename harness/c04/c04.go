// Package c04 checks property C04: sync2.Map is linearizable to an ordinary
// map, its Range keeps its contract, and concurrent use is race free.
package c04

import (
	"encoding/json"
	"fmt"
	"strings"
	"sync/atomic"
	"time"

	"github.com/anishathalye/porcupine"
	"gopkg.in/typ.v4/sync2"

	"verif/harness/core"
	simrt "verif/sim/rt"
	"verif/sim/ssync"
)

// Op is one API call.
type Op struct {
	K    string `json:"k"` // load store los lad del range
	Key  int    `json:"key"`
	Val  int    `json:"val,omitempty"`
	Stop int    `json:"stop,omitempty"` // range: stop after this many callbacks (0: never)
	Mut  string `json:"mut,omitempty"`  // range: the callback itself calls "del" (Delete of the visited key) or "store" (Store to the next key)
}

func (o Op) String() string {
	switch o.K {
	case "store", "los":
		return fmt.Sprintf("%s(%d,%d)", o.K, o.Key, o.Val)
	case "range":
		x := "range"
		if o.Mut != "" {
			x += "+" + o.Mut + "-in-callback"
		}
		if o.Stop > 0 {
			return fmt.Sprintf("%s(stop@%d)", x, o.Stop)
		}
		return x
	}
	return fmt.Sprintf("%s(%d)", o.K, o.Key)
}

// Scenario is a sequential prefix followed by concurrent clients; afterwards
// a checker loads every key and ranges.
type Scenario struct {
	Keys    int    `json:"keys"`
	Types   string `json:"types,omitempty"` // "" = Map[int,int]; "string/any" = Map[string,any] (empty-string key, nil value)
	Prefix  []Op   `json:"prefix"`
	Clients [][]Op `json:"clients"`
}

// Rec is a recorded call.
type Rec struct {
	Op      Op
	Inv     int64
	Ret     int64
	Done    bool
	Val     int
	OK      bool
	Seen    [][2]int // range callbacks
	Stopped bool
}

// H is the harness.
type H struct{}

// ID implements core.Harness.
func (H) ID() string { return "C04" }

// Faults implements core.Harness.
func (H) Faults() core.FaultMenu {
	return core.FaultMenu{MapOrder: true, MaxSteps: 12000, PCTSteps: 120}
}

// Decode implements core.Harness.
func (H) Decode(b []byte) (any, error) {
	var s Scenario
	err := json.Unmarshal(b, &s)
	return &s, err
}

// Describe implements core.Harness.
func (H) Describe(sc any) string {
	s := sc.(*Scenario)
	var sb strings.Builder
	fmt.Fprintf(&sb, "Map[%s] keys=%d prefix=%v", map[string]string{"": "int,int", "string/any": "string,any"}[s.Types], s.Keys, s.Prefix)
	for i, c := range s.Clients {
		fmt.Fprintf(&sb, " c%d=%v", i, c)
	}
	return sb.String()
}

var kinds = []string{"load", "load", "store", "store", "los", "los", "lad", "del", "range"}

func genOp(r *simrt.Rand, keys int, next *int) Op {
	o := Op{K: kinds[r.Intn(len(kinds))], Key: r.Intn(keys)}
	switch o.K {
	case "store", "los":
		*next++
		o.Val = *next
		if r.Intn(12) == 0 {
			o.Val = 0 // the zero value is a value like any other
		}
	case "range":
		o.Key = 0
		if r.Intn(3) == 0 {
			o.Stop = 1 + r.Intn(2)
		}
		if r.Intn(4) == 0 {
			// Range may call any method of the map from its callback
			o.Mut = []string{"del", "store"}[r.Intn(2)]
			*next++
			o.Val = *next * 1000
		}
	}
	return o
}

// Generate implements core.Harness.
func (H) Generate(r *simrt.Rand, tier string) any {
	s := &Scenario{Keys: 1 + r.Intn(4)}
	if r.Intn(4) == 0 {
		s.Types = "string/any"
	}
	big := r.Intn(8) == 0
	if big {
		// sizes are a knob too: thresholds such as "misses >= len(dirty)" or any
		// size-dependent fast path only move with more than a handful of keys
		s.Keys = 5 + r.Intn(12)
	}
	next := 0
	val := func() int { next++; return next }
	var dead []int // keys the prefix template left deleted
	single := r.Intn(8) == 0
	// prefix: drive the read/dirty/expunged machine somewhere interesting
	switch r.Intn(4) {
	case 0: // template: promoted read map holding a deleted (then expunged) entry
		k0, k1, k2 := 0, 1%s.Keys, 2%s.Keys
		s.Prefix = append(s.Prefix, Op{K: "store", Key: k0, Val: val()}, Op{K: "store", Key: k1, Val: val()})
		for i := 0; i < 2+r.Intn(2); i++ {
			s.Prefix = append(s.Prefix, Op{K: "load", Key: k0})
		}
		s.Prefix = append(s.Prefix, Op{K: "del", Key: k0})
		if r.Intn(2) == 0 {
			s.Prefix = append(s.Prefix, Op{K: "store", Key: k2, Val: val()})
		}
		if s.Keys == 4 && r.Intn(2) == 0 {
			s.Prefix = append(s.Prefix, Op{K: "store", Key: 3, Val: val()})
		}
	case 1: // template: amended map one miss away from promotion
		s.Prefix = append(s.Prefix, Op{K: "store", Key: 0, Val: val()})
		s.Prefix = append(s.Prefix, Op{K: "range"})
		s.Prefix = append(s.Prefix, Op{K: "store", Key: (1) % s.Keys, Val: val()})
		if r.Intn(2) == 0 {
			s.Prefix = append(s.Prefix, Op{K: "store", Key: 2 % s.Keys, Val: val()})
			s.Prefix = append(s.Prefix, Op{K: "load", Key: 2 % s.Keys})
		}
	default:
		if big && !single && r.Intn(3) == 0 {
			// template: every key stored, then a share of them deleted - a map full of
			// dead entries, one or two deletions away from whatever clean-up an
			// implementation triggers by their number or share (a sweep of tombstones
			// at 8 or 16 of them or at half the slots, a rebuild, a compaction); the
			// clients then prefer to delete live keys and to store to dead ones
			s.Keys = 10 + r.Intn(15)
			for k := 0; k < s.Keys; k++ {
				s.Prefix = append(s.Prefix, Op{K: "store", Key: k, Val: val()})
			}
			cands := []int{6, 7, 8, 15, 16, s.Keys/2 - 2, s.Keys/2 - 1, s.Keys / 2}
			d := cands[r.Intn(len(cands))]
			if d >= s.Keys {
				d = s.Keys - 1
			}
			if d < 1 {
				d = 1
			}
			for _, k := range r.Perm(s.Keys)[:d] {
				s.Prefix = append(s.Prefix, Op{K: []string{"del", "lad"}[r.Intn(2)], Key: k})
				dead = append(dead, k)
			}
			break
		}
		n := r.Intn(13)
		if big {
			n = s.Keys + r.Intn(2*s.Keys)
		}
		if single {
			n = 0
		}
		for i := 0; i < n; i++ {
			s.Prefix = append(s.Prefix, genOp(r, s.Keys, &next))
		}
	}
	if single {
		// the single-goroutine half of the quantifier: one long sequence
		n := 10 + r.Intn(50)
		if tier == "thorough" {
			n = 10 + r.Intn(150)
		}
		var c []Op
		for i := 0; i < n; i++ {
			c = append(c, genOp(r, s.Keys, &next))
		}
		s.Clients = [][]Op{c}
		return s
	}
	nc := 2 + r.Intn(3)
	maxOps := 5
	if tier == "thorough" && r.Intn(3) == 0 {
		maxOps = 9
	}
	for i := 0; i < nc; i++ {
		var c []Op
		for j := 0; j < 1+r.Intn(maxOps); j++ {
			o := genOp(r, s.Keys, &next)
			if len(dead) > 0 && r.Intn(2) == 0 {
				isDead := func(k int) bool {
					for _, d := range dead {
						if d == k {
							return true
						}
					}
					return false
				}
				switch o.K {
				case "store", "los":
					// mostly one dead key, so that several clients meet on it
					o.Key = dead[0]
					if r.Intn(4) == 0 {
						o.Key = dead[r.Intn(len(dead))]
					}
				case "del", "lad":
					for try := 0; try < 8 && isDead(o.Key); try++ {
						o.Key = r.Intn(s.Keys)
					}
				}
			}
			c = append(c, o)
		}
		s.Clients = append(s.Clients, c)
	}
	return s
}

// Shrink implements core.Harness.
func (H) Shrink(sc any) []any {
	s := sc.(*Scenario)
	var out []any
	clone := func() *Scenario {
		c := &Scenario{Keys: s.Keys, Types: s.Types, Prefix: append([]Op(nil), s.Prefix...)}
		for _, cl := range s.Clients {
			c.Clients = append(c.Clients, append([]Op(nil), cl...))
		}
		return c
	}
	for i := range s.Clients {
		c := clone()
		c.Clients = append(c.Clients[:i], c.Clients[i+1:]...)
		out = append(out, c)
	}
	if len(s.Prefix) > 1 {
		c := clone()
		c.Prefix = c.Prefix[len(c.Prefix)/2:]
		out = append(out, c)
	}
	for i := range s.Clients {
		for j := range s.Clients[i] {
			c := clone()
			c.Clients[i] = append(c.Clients[i][:j], c.Clients[i][j+1:]...)
			out = append(out, c)
		}
	}
	for i := range s.Prefix {
		c := clone()
		c.Prefix = append(c.Prefix[:i], c.Prefix[i+1:]...)
		out = append(out, c)
	}
	for i := range s.Clients {
		for j, o := range s.Clients[i] {
			if o.K == "range" && o.Stop > 0 {
				c := clone()
				c.Clients[i][j].Stop = 0
				out = append(out, c)
			}
		}
	}
	return out
}

// kv is the map under test behind int keys and values, so that the same
// history can run against different type instantiations.
type kv interface {
	Load(k int) (int, bool)
	Store(k, v int)
	LoadOrStore(k, v int) (int, bool)
	LoadAndDelete(k int) (int, bool)
	Delete(k int)
	Range(f func(k, v int) bool)
}

type intMap struct{ m sync2.Map[int, int] }

func (x *intMap) Load(k int) (int, bool)           { return x.m.Load(k) }
func (x *intMap) Store(k, v int)                   { x.m.Store(k, v) }
func (x *intMap) LoadOrStore(k, v int) (int, bool) { return x.m.LoadOrStore(k, v) }
func (x *intMap) LoadAndDelete(k int) (int, bool)  { return x.m.LoadAndDelete(k) }
func (x *intMap) Delete(k int)                     { x.m.Delete(k) }
func (x *intMap) Range(f func(k, v int) bool)      { x.m.Range(f) }

// strAnyMap: string keys (the empty string included) and interface values; the
// value 0 is the nil interface, a value like any other.
type strAnyMap struct{ m sync2.Map[string, any] }

func sk(k int) string {
	if k == 0 {
		return ""
	}
	return fmt.Sprint("k", k)
}
func ks(s string) int {
	if s == "" {
		return 0
	}
	var k int
	fmt.Sscanf(s, "k%d", &k)
	return k
}
func av(v int) any {
	if v == 0 {
		return nil
	}
	return v
}
func va(a any) int {
	if a == nil {
		return 0
	}
	return a.(int)
}
func (x *strAnyMap) Load(k int) (int, bool) { a, ok := x.m.Load(sk(k)); return va(a), ok }
func (x *strAnyMap) Store(k, v int)         { x.m.Store(sk(k), av(v)) }
func (x *strAnyMap) LoadOrStore(k, v int) (int, bool) {
	a, ok := x.m.LoadOrStore(sk(k), av(v))
	return va(a), ok
}
func (x *strAnyMap) LoadAndDelete(k int) (int, bool) {
	a, ok := x.m.LoadAndDelete(sk(k))
	return va(a), ok
}
func (x *strAnyMap) Delete(k int) { x.m.Delete(sk(k)) }
func (x *strAnyMap) Range(f func(k, v int) bool) {
	x.m.Range(func(k string, v any) bool { return f(ks(k), va(v)) })
}

func do(m kv, o Op) Rec {
	r, _ := doNested(m, o, 1)
	return r
}

// doAll performs o and returns its record followed by the records of the calls
// its Range callback made.
func doAll(m kv, o Op, keys int) []Rec {
	r, nested := doNested(m, o, keys)
	return append([]Rec{r}, nested...)
}

func doNested(m kv, o Op, keys int) (Rec, []Rec) {
	var nested []Rec
	rec := Rec{Op: o}
	rec.Inv = simrt.Stamp()
	switch o.K {
	case "load":
		rec.Val, rec.OK = m.Load(o.Key)
	case "store":
		m.Store(o.Key, o.Val)
	case "los":
		rec.Val, rec.OK = m.LoadOrStore(o.Key, o.Val)
	case "lad":
		rec.Val, rec.OK = m.LoadAndDelete(o.Key)
	case "del":
		m.Delete(o.Key)
	case "range":
		n := 0
		m.Range(func(k, v int) bool {
			rec.Seen = append(rec.Seen, [2]int{k, v})
			n++
			if o.Mut != "" && k >= 0 && k < keys {
				// a mutating call from inside the callback. Nothing promises that Range may
				// be re-entered like this (the upstream sync.Map says so only in later
				// versions, this fork's doc comment does not, and sync2.Set.Range warns
				// of a deadlock): a run in which such a call never returns is not judged
				inCallback.Add(1)
				switch o.Mut {
				case "del":
					nested = append(nested, do(m, Op{K: "del", Key: k}))
				case "store":
					nested = append(nested, do(m, Op{K: "store", Key: (k + 1) % keys, Val: o.Val + n}))
				}
				inCallback.Add(-1)
			}
			if o.Stop > 0 && n >= o.Stop {
				rec.Stopped = true
				return false
			}
			return true
		})
	}
	rec.Ret = simrt.Stamp()
	rec.Done = true
	return rec, nested
}

// Execute implements core.Harness.
func (H) Execute(scAny any, cfg simrt.Config, st *core.Stats) (*simrt.Outcome, *core.Violation) {
	sc := scAny.(*Scenario)
	var m kv = &intMap{}
	if sc.Types == "string/any" {
		m = &strAnyMap{}
	}
	hist := make([][]Rec, 2+len(sc.Clients))
	inCallback.Store(0)
	cfg.StopWhenClientsDone = true // goroutines of the implementation itself (none on the pinned tree) do not keep a run alive
	s := simrt.New(cfg)
	s.Go(func() {
		for _, o := range sc.Prefix {
			simrt.Yield()
			hist[0] = append(hist[0], doAll(m, o, sc.Keys)...)
		}
		var wg ssync.WaitGroup
		wg.Add(len(sc.Clients))
		for i := range sc.Clients {
			i := i
			simrt.Go(func() {
				defer wg.Done()
				for _, o := range sc.Clients[i] {
					simrt.Yield()
					hist[1+i] = append(hist[1+i], doAll(m, o, sc.Keys)...)
				}
			})
		}
		wg.Wait()
		last := 1 + len(sc.Clients)
		for k := 0; k < sc.Keys; k++ {
			simrt.Yield()
			hist[last] = append(hist[last], do(m, Op{K: "load", Key: k}))
		}
		simrt.Yield()
		hist[last] = append(hist[last], do(m, Op{K: "range"}))
	})
	out := s.Run()
	if v := core.OutcomeViolation(out); v != nil {
		return out, v
	}
	if out.Truncated {
		return out, core.NoProgress(out)
	}
	if core.Deadlocked(out) && inCallback.Load() > 0 {
		// an implementation that holds a lock while it calls f is blocked by f's own
		// Store or Delete, and everybody else behind it: not promised not to
		st.Add("oracle.reentrant_range_call_never_returned", 1)
		return out, nil
	}
	if core.Deadlocked(out) {
		return out, &core.Violation{Signature: "deadlock", Detail: "run ended with tasks blocked forever: " + strings.Join(out.StuckTasks, ", ")}
	}
	return out, check(sc, hist, st)
}

type kstate struct {
	present bool
	val     int
}

type in struct {
	k    string
	val  int
	desc string
}

type outp struct {
	val int
	ok  bool
}

var model = porcupine.Model{
	Init: func() interface{} { return kstate{} },
	Step: func(state, input, output interface{}) (bool, interface{}) {
		s := state.(kstate)
		i := input.(in)
		o := output.(outp)
		switch i.k {
		case "load":
			if s.present {
				return o.ok && o.val == s.val, s
			}
			return !o.ok && o.val == 0, s
		case "store":
			return true, kstate{true, i.val}
		case "los":
			if s.present {
				return o.ok && o.val == s.val, s
			}
			return !o.ok && o.val == i.val, kstate{true, i.val}
		case "lad":
			if s.present {
				return o.ok && o.val == s.val, kstate{}
			}
			return !o.ok && o.val == 0, s
		case "del":
			return true, kstate{}
		case "saw": // Range reported (key, val): key held val at some instant of the call
			return s.present && s.val == i.val, s
		case "missed": // Range did not report key: it was absent at some instant of the call
			return !s.present, s
		}
		return false, s
	},
	DescribeOperation: func(input, output interface{}) string {
		i := input.(in)
		o := output.(outp)
		return fmt.Sprintf("%s -> (%d,%v)", i.desc, o.val, o.ok)
	},
}

// inCallback counts the mutating calls made from inside a Range callback that
// have not returned (one simulation runs at a time; reset by Execute).
var inCallback atomic.Int32

func mutates(k string) bool { return k == "store" || k == "los" || k == "lad" || k == "del" }

func check(sc *Scenario, hist [][]Rec, st *core.Stats) *core.Violation {
	const inf = int64(1) << 40
	perKey := make([][]porcupine.Operation, sc.Keys)
	type ival struct{ inv, ret int64 }
	mut := make([][]ival, sc.Keys)
	for _, h := range hist {
		for _, r := range h {
			if r.Inv < 0 {
				continue
			}
			if mutates(r.Op.K) && r.Op.Key >= 0 && r.Op.Key < sc.Keys {
				// a LoadOrStore that loaded and a LoadAndDelete that found nothing have
				// not touched the key: they do not excuse a Range from visiting it
				if r.Done && (r.Op.K == "los" && r.OK || r.Op.K == "lad" && !r.OK) {
					continue
				}
				ret := r.Ret
				if !r.Done {
					ret = inf
				}
				mut[r.Op.Key] = append(mut[r.Op.Key], ival{r.Inv, ret})
			}
		}
	}
	for c, h := range hist {
		for _, r := range h {
			if r.Inv < 0 || !r.Done {
				continue
			}
			call, ret := 2*r.Inv, 2*r.Ret+1
			if r.Op.K != "range" {
				perKey[r.Op.Key] = append(perKey[r.Op.Key], porcupine.Operation{ClientId: c, Input: in{r.Op.K, r.Op.Val, r.Op.String()}, Call: call, Output: outp{r.Val, r.OK}, Return: ret})
				continue
			}
			seen := map[int]bool{}
			for _, kv := range r.Seen {
				k, v := kv[0], kv[1]
				if k < 0 || k >= sc.Keys {
					return &core.Violation{Signature: "range:invented-key", Detail: fmt.Sprintf("Range reported key %d which was never used", k)}
				}
				if seen[k] {
					return &core.Violation{Signature: "range:key-twice", Detail: fmt.Sprintf("Range called its function twice for key %d: %v", k, r.Seen)}
				}
				seen[k] = true
				perKey[k] = append(perKey[k], porcupine.Operation{ClientId: c, Input: in{"saw", v, fmt.Sprintf("range saw (%d,%d)", k, v)}, Call: call, Output: outp{}, Return: ret})
			}
			if r.Stopped {
				if r.Op.Stop > 0 && len(r.Seen) > r.Op.Stop {
					return &core.Violation{Signature: "range:continued-after-stop", Detail: fmt.Sprintf("Range called its function %d times although it returned false at call %d", len(r.Seen), r.Op.Stop)}
				}
				continue
			}
			for k := 0; k < sc.Keys; k++ {
				if seen[k] {
					continue
				}
				touched := false
				for _, iv := range mut[k] {
					if !(iv.ret < r.Inv || iv.inv > r.Ret) {
						touched = true
					}
				}
				if touched {
					continue
				}
				perKey[k] = append(perKey[k], porcupine.Operation{ClientId: c, Input: in{"missed", 0, fmt.Sprintf("range did not report key %d", k)}, Call: call, Output: outp{}, Return: ret})
			}
		}
	}
	for k, ops := range perKey {
		if len(ops) == 0 {
			continue
		}
		res, info := porcupine.CheckOperationsVerbose(model, ops, 10*time.Second)
		switch res {
		case porcupine.Unknown:
			st.Add("porcupine.unknown", 1)
		case porcupine.Illegal:
			_ = info
			return &core.Violation{Signature: "not-linearizable", Detail: fmt.Sprintf("history of key %d is not linearizable to a map: %s", k, describe(ops))}
		}
		st.Add("porcupine.checked_histories", 1)
		st.Add("porcupine.operations", int64(len(ops)))
	}
	return nil
}

func describe(ops []porcupine.Operation) string {
	var sb strings.Builder
	for _, o := range ops {
		fmt.Fprintf(&sb, "[c%d %d..%d %s] ", o.ClientId, o.Call, o.Return, model.DescribeOperation(o.Input, o.Output))
	}
	return sb.String()
}
