// Package c18 checks property C18: AtomicValue is an atomic register and Pool
// never hands one item to two users; both race free.
package c18

import (
	"encoding/json"
	"fmt"
	"math"
	"strings"
	"time"

	"github.com/anishathalye/porcupine"
	"gopkg.in/typ.v4/sync2"

	"verif/harness/core"
	simrt "verif/sim/rt"
	"verif/sim/ssync"
)

// Op is one call.
type Op struct {
	K   string `json:"k"` // AtomicValue: load store swap cas; Pool: get put(use)
	V   int    `json:"v,omitempty"`
	Old int    `json:"old,omitempty"`
	Use int    `json:"use,omitempty"` // pool: yields while holding
	// feq: the register holds float64 (set when the history is checked): values
	// 0 and 1 are +0 and -0, equal under == but not identical, and 3 is NaN, equal
	// to nothing
	feq bool
}

func (o Op) String() string {
	switch o.K {
	case "store", "swap":
		return fmt.Sprintf("%s(%d)", o.K, o.V)
	case "cas":
		return fmt.Sprintf("cas(%d->%d)", o.Old, o.V)
	case "getput":
		return fmt.Sprintf("get/use%d/put", o.Use)
	}
	return o.K
}

// Scenario is either a register or a pool workload.
type Scenario struct {
	Kind    string `json:"kind"` // "int" "string" "struct" (AtomicValue) or "pool"
	WithNew bool   `json:"with_new,omitempty"`
	Preput  int    `json:"preput,omitempty"` // pool: tokens put before the clients start
	Clients [][]Op `json:"clients"`
}

// H is the harness.
type H struct{}

// ID implements core.Harness.
func (H) ID() string { return "C18" }

// Faults implements core.Harness.
func (H) Faults() core.FaultMenu { return core.FaultMenu{Pool: true, MaxSteps: 8000, PCTSteps: 60} }

// Decode implements core.Harness.
func (H) Decode(b []byte) (any, error) {
	var s Scenario
	err := json.Unmarshal(b, &s)
	return &s, err
}

// Describe implements core.Harness.
func (H) Describe(sc any) string {
	s := sc.(*Scenario)
	var sb strings.Builder
	if s.Kind == "pool" || s.Kind == "poolval" {
		fmt.Fprintf(&sb, "Pool[%s] new=%v preput=%d", map[string]string{"pool": "*token", "poolval": "struct value"}[s.Kind], s.WithNew, s.Preput)
	} else {
		fmt.Fprintf(&sb, "AtomicValue[%s]", s.Kind)
	}
	for i, c := range s.Clients {
		fmt.Fprintf(&sb, " c%d=%v", i, c)
	}
	return sb.String()
}

// Generate implements core.Harness.
func (H) Generate(r *simrt.Rand, tier string) any {
	s := &Scenario{}
	if r.Intn(5) < 2 {
		s.Kind = "pool"
		if r.Intn(3) == 0 {
			s.Kind = "poolval" // items are values, not pointers
		}
		s.WithNew = r.Intn(4) != 0
		s.Preput = r.Intn(3)
		cycles := 3
		if r.Intn(6) == 0 {
			// batching or chunking inside a pool only shows with tens of idle items
			s.Preput = 8 + r.Intn(40)
			cycles = 12
		}
		minCycles := 1
		if r.Intn(24) == 0 {
			// a pool with a bounded front end (a ring, a free list with a cap) behaves
			// differently once that is full and its positions come round again: hundreds
			// of idle items, and enough Get/Put cycles to go round once
			s.Preput = 100 + r.Intn(200)
			cycles = 25
			minCycles = 35
		}
		for i := 0; i < 2+r.Intn(3); i++ {
			var c []Op
			for j := 0; j < minCycles+r.Intn(cycles); j++ {
				c = append(c, Op{K: "getput", Use: r.Intn(3)})
			}
			s.Clients = append(s.Clients, c)
		}
		return s
	}
	s.Kind = []string{"int", "string", "struct", "iface", "float"}[r.Intn(5)]
	next := 0
	var stored []int
	dup := r.Intn(4) == 0 // values from a tiny set: equal values written by different calls
	for i := 0; i < 2+r.Intn(3); i++ {
		var c []Op
		for j := 0; j < 1+r.Intn(5); j++ {
			o := Op{K: []string{"load", "load", "store", "swap", "cas", "cas"}[r.Intn(6)]}
			switch o.K {
			case "store", "swap":
				next++
				o.V = next
				if dup {
					o.V = 1 + r.Intn(2)
					if s.Kind != "iface" && r.Intn(3) == 0 {
						o.V = 0 // the zero value of T is a value like any other (a nil interface may not be stored)
					}
				}
				stored = append(stored, o.V)
			case "cas":
				next++
				o.V = next
				if dup {
					o.V = 1 + r.Intn(2)
				}
				if len(stored) > 0 && r.Intn(4) != 0 {
					o.Old = stored[r.Intn(len(stored))]
				} else {
					o.Old = 0 // the zero value: never equal to a stored value
				}
				stored = append(stored, o.V)
			}
			c = append(c, o)
		}
		s.Clients = append(s.Clients, c)
	}
	return s
}

// Shrink implements core.Harness.
func (H) Shrink(sc any) []any {
	s := sc.(*Scenario)
	clone := func() *Scenario {
		c := &Scenario{Kind: s.Kind, WithNew: s.WithNew, Preput: s.Preput}
		for _, cl := range s.Clients {
			c.Clients = append(c.Clients, append([]Op(nil), cl...))
		}
		return c
	}
	var out []any
	for i := range s.Clients {
		c := clone()
		c.Clients = append(c.Clients[:i], c.Clients[i+1:]...)
		out = append(out, c)
	}
	for i := range s.Clients {
		for j := range s.Clients[i] {
			c := clone()
			c.Clients[i] = append(c.Clients[i][:j], c.Clients[i][j+1:]...)
			out = append(out, c)
		}
	}
	if s.Preput > 0 {
		c := clone()
		c.Preput--
		out = append(out, c)
	}
	return out
}

type rec struct {
	op       Op
	inv, ret int64
	val      int
	ok       bool
}

type st3 struct {
	A int
	B string
}

type register interface {
	do(o Op) (int, bool)
}

type regOf[T comparable] struct {
	v    sync2.AtomicValue[T]
	to   func(int) T
	from func(T) int
}

func (r *regOf[T]) do(o Op) (int, bool) {
	switch o.K {
	case "load":
		return r.from(r.v.Load()), true
	case "store":
		r.v.Store(r.to(o.V))
		return 0, true
	case "swap":
		return r.from(r.v.Swap(r.to(o.V))), true
	case "cas":
		return 0, r.v.CompareAndSwap(r.to(o.Old), r.to(o.V))
	}
	panic("bad op")
}

// ifacePtrs: the values of the interface-typed register are *int (atomic.Value
// wants one concrete type); value 1 is the typed nil pointer, which is a value
// like any other and must not be mistaken for "empty".
var ifacePtrs = func() []*int {
	out := make([]*int, 4096)
	for i := range out {
		if i != 1 {
			v := i
			out[i] = &v
		}
	}
	return out
}()

func newRegister(kind string) register {
	switch kind {
	case "iface":
		return &regOf[any]{to: func(i int) any {
			if i == 0 {
				return nil // only ever passed as CompareAndSwap's old: never equal to a stored value
			}
			return ifacePtrs[i%len(ifacePtrs)]
		}, from: func(x any) int {
			if x == nil {
				return 0
			}
			p := x.(*int)
			if p == nil {
				return 1
			}
			return *p
		}}
	case "float":
		// 0 -> +0 (the zero value), 1 -> -0 (== +0, other bits), 2 -> 1.5, 3 -> NaN (!= itself)
		return &regOf[float64]{to: func(i int) float64 {
			switch i {
			case 0:
				return 0
			case 1:
				return math.Copysign(0, -1)
			case 2:
				return 1.5
			case 3:
				return math.NaN()
			}
			return float64(i)
		}, from: func(x float64) int {
			switch {
			case x != x:
				return 3
			case x == 0 && math.Signbit(x):
				return 1
			case x == 1.5:
				return 2
			}
			return int(x)
		}}
	case "string":
		return &regOf[string]{to: func(i int) string {
			if i == 0 {
				return ""
			}
			return fmt.Sprint("v", i)
		}, from: func(s string) int {
			if s == "" {
				return 0
			}
			var n int
			fmt.Sscanf(s, "v%d", &n)
			return n
		}}
	case "struct":
		return &regOf[st3]{to: func(i int) st3 {
			if i == 0 {
				return st3{}
			}
			return st3{i, "x"}
		}, from: func(s st3) int { return s.A }}
	}
	return &regOf[int]{to: func(i int) int { return i }, from: func(i int) int { return i }}
}

type token struct {
	id    int
	owner int // plain: 0 when nobody uses the token
}

// Execute implements core.Harness.
func (H) Execute(scAny any, cfg simrt.Config, st *core.Stats) (*simrt.Outcome, *core.Violation) {
	sc := scAny.(*Scenario)
	if sc.Kind == "pool" {
		return execPool(sc, cfg, st)
	}
	if sc.Kind == "poolval" {
		return execPoolVal(sc, cfg, st)
	}
	reg := newRegister(sc.Kind)
	hist := make([][]rec, len(sc.Clients)+1)
	cfg.StopWhenClientsDone = true // goroutines of the implementation itself (none on the pinned tree) do not keep a run alive
	s := simrt.New(cfg)
	s.Go(func() {
		var wg ssync.WaitGroup
		wg.Add(len(sc.Clients))
		for i := range sc.Clients {
			i := i
			simrt.Go(func() {
				defer wg.Done()
				for _, o := range sc.Clients[i] {
					simrt.Yield()
					r := rec{op: o, inv: simrt.Stamp()}
					r.val, r.ok = reg.do(o)
					r.ret = simrt.Stamp()
					hist[i] = append(hist[i], r)
				}
			})
		}
		wg.Wait()
		simrt.Yield()
		r := rec{op: Op{K: "load"}, inv: simrt.Stamp()}
		r.val, r.ok = reg.do(r.op)
		r.ret = simrt.Stamp()
		hist[len(sc.Clients)] = append(hist[len(sc.Clients)], r)
	})
	out := s.Run()
	if v := core.OutcomeViolation(out); v != nil {
		return out, v
	}
	if out.Truncated {
		return out, core.NoProgress(out)
	}
	if core.Deadlocked(out) {
		return out, &core.Violation{Signature: "deadlock", Detail: fmt.Sprint(out.StuckTasks)}
	}
	var ops []porcupine.Operation
	for c, h := range hist {
		for _, r := range h {
			in := r.op
			in.feq = sc.Kind == "float"
			ops = append(ops, porcupine.Operation{ClientId: c, Input: in, Call: 2 * r.inv, Output: [2]int{r.val, b2i(r.ok)}, Return: 2*r.ret + 1})
		}
	}
	res := porcupine.CheckOperationsTimeout(regModel, ops, 10*time.Second)
	st.Add("porcupine.checked_histories", 1)
	st.Add("porcupine.operations", int64(len(ops)))
	if res == porcupine.Unknown {
		st.Add("porcupine.unknown", 1)
	}
	if res == porcupine.Illegal {
		var sb strings.Builder
		for _, o := range ops {
			fmt.Fprintf(&sb, "[c%d %d..%d %s -> %v] ", o.ClientId, o.Call, o.Return, o.Input, o.Output)
		}
		return out, &core.Violation{Signature: "not-linearizable", Detail: "history is not that of one atomic register: " + sb.String()}
	}
	return out, nil
}

func b2i(b bool) int {
	if b {
		return 1
	}
	return 0
}

type rstate struct {
	set bool
	val int
}

var regModel = porcupine.Model{
	Init: func() interface{} { return rstate{} },
	Step: func(state, input, output interface{}) (bool, interface{}) {
		s := state.(rstate)
		o := input.(Op)
		res := output.([2]int)
		switch o.K {
		case "load":
			return res[0] == s.val, s // zero before the first store
		case "store":
			return true, rstate{true, o.V}
		case "swap":
			return res[0] == s.val, rstate{true, o.V}
		case "cas":
			if !s.set {
				// the statement starts "once a value has been stored": unconstrained before
				if res[1] == 1 {
					return true, rstate{true, o.V}
				}
				return true, s
			}
			eq := s.val == o.Old
			if o.feq {
				// == on float64: +0 and -0 are equal, NaN equals nothing
				eq = (s.val == o.Old || (s.val <= 1 && o.Old <= 1)) && s.val != 3 && o.Old != 3
			}
			if eq {
				return res[1] == 1, rstate{true, o.V}
			}
			return res[1] == 0, s
		}
		return false, s
	},
}

func execPool(sc *Scenario, cfg simrt.Config, st *core.Stats) (*simrt.Outcome, *core.Violation) {
	var pool sync2.Pool[*token]
	// ledger (plain builds only; under the race detector the owner field is the witness)
	const (
		held   = 1
		pooled = 2
	)
	ledger := map[int]int{}
	viol := ""
	if sc.WithNew {
		// a fresh token has id 0; the task that receives it numbers it from its own
		// id space, so the harness shares no counter between tasks
		pool.New = func() *token { return &token{} }
	}
	cfg.StopWhenClientsDone = true // goroutines of the implementation itself (none on the pinned tree) do not keep a run alive
	s := simrt.New(cfg)
	s.Go(func() {
		for i := 0; i < sc.Preput; i++ {
			t := &token{id: 1 + i}
			if !simrt.RaceEnabled {
				ledger[t.id] = pooled
			}
			pool.Put(t)
		}
		var wg ssync.WaitGroup
		wg.Add(len(sc.Clients))
		for i := range sc.Clients {
			i := i
			me := i + 1
			simrt.Go(func() {
				defer wg.Done()
				local := 0
				for _, o := range sc.Clients[i] {
					simrt.Yield()
					t := pool.Get()
					simrt.Stamp() // a call has returned: progress, for the no-progress rule
					if t == nil {
						if sc.WithNew && viol == "" && !simrt.RaceEnabled {
							viol = "Get returned nil although New is set"
						}
						continue
					}
					fresh := t.id == 0
					if fresh {
						local++
						t.id = me*1000 + local
					}
					if !simrt.RaceEnabled {
						switch {
						case fresh:
						case ledger[t.id] == pooled:
						case viol == "":
							viol = fmt.Sprintf("task %d: Get returned token %d which is neither fresh from New nor in the pool (ledger state %d: 1=held by a user, 0=never put)", me, t.id, ledger[t.id])
						}
						ledger[t.id] = held
					}
					if t.owner != 0 && viol == "" && !simrt.RaceEnabled {
						viol = fmt.Sprintf("task %d: Get returned token %d while task %d is still using it", me, t.id, t.owner)
					}
					t.owner = me
					for k := 0; k < o.Use; k++ {
						simrt.Yield()
					}
					if t.owner != me && viol == "" && !simrt.RaceEnabled {
						viol = fmt.Sprintf("task %d: token %d changed owner to %d while in use", me, t.id, t.owner)
					}
					t.owner = 0
					if !simrt.RaceEnabled {
						ledger[t.id] = pooled
					}
					pool.Put(t)
					simrt.Stamp()
				}
			})
		}
		wg.Wait()
	})
	out := s.Run()
	if v := core.OutcomeViolation(out); v != nil {
		return out, v
	}
	if out.Truncated {
		return out, core.NoProgress(out)
	}
	if core.Deadlocked(out) {
		return out, &core.Violation{Signature: "deadlock", Detail: fmt.Sprint(out.StuckTasks)}
	}
	if viol != "" {
		return out, &core.Violation{Signature: "pool-double-handout", Detail: viol}
	}
	return out, nil
}

type tokVal struct {
	ID  int
	Pad [6]int // all equal to ID: a torn copy shows
}

func mkTok(id int) tokVal {
	t := tokVal{ID: id}
	for i := range t.Pad {
		t.Pad[i] = id
	}
	return t
}

// execPoolVal: the pooled items are struct values. An item is identified by its
// ID; "held by two users" means the same ID handed out twice without a Put in
// between, and a value that was never Put nor made by New is an invented item.
func execPoolVal(sc *Scenario, cfg simrt.Config, st *core.Stats) (*simrt.Outcome, *core.Violation) {
	var pool sync2.Pool[tokVal]
	const (
		held   = 1
		pooled = 2
	)
	ledger := map[int]int{}
	viol := ""
	if sc.WithNew {
		pool.New = func() tokVal { return tokVal{} }
	}
	cfg.StopWhenClientsDone = true // goroutines of the implementation itself (none on the pinned tree) do not keep a run alive
	s := simrt.New(cfg)
	s.Go(func() {
		for i := 0; i < sc.Preput; i++ {
			if !simrt.RaceEnabled {
				ledger[1+i] = pooled
			}
			pool.Put(mkTok(1 + i))
		}
		var wg ssync.WaitGroup
		wg.Add(len(sc.Clients))
		for i := range sc.Clients {
			i := i
			me := i + 1
			simrt.Go(func() {
				defer wg.Done()
				local := 0
				for _, o := range sc.Clients[i] {
					simrt.Yield()
					t := pool.Get()
					simrt.Stamp() // a call has returned: progress, for the no-progress rule
					for _, p := range t.Pad {
						if p != t.ID && viol == "" && !simrt.RaceEnabled {
							viol = fmt.Sprintf("task %d: Get returned a torn value %+v", me, t)
						}
					}
					if t.ID == 0 {
						if !sc.WithNew {
							continue // the zero value: New is nil
						}
						local++
						t = mkTok(me*1000 + local)
					} else if !simrt.RaceEnabled {
						if ledger[t.ID] != pooled && viol == "" {
							viol = fmt.Sprintf("task %d: Get returned item %d which is not in the pool (ledger state %d: 1=held by a user, 0=never put)", me, t.ID, ledger[t.ID])
						}
					}
					if !simrt.RaceEnabled {
						ledger[t.ID] = held
					}
					for k := 0; k < o.Use; k++ {
						simrt.Yield()
					}
					if !simrt.RaceEnabled {
						ledger[t.ID] = pooled
					}
					pool.Put(t)
					simrt.Stamp()
				}
			})
		}
		wg.Wait()
	})
	out := s.Run()
	if v := core.OutcomeViolation(out); v != nil {
		return out, v
	}
	if out.Truncated {
		return out, core.NoProgress(out)
	}
	if core.Deadlocked(out) {
		return out, &core.Violation{Signature: "deadlock", Detail: fmt.Sprint(out.StuckTasks)}
	}
	if viol != "" {
		return out, &core.Violation{Signature: "pool-double-handout", Detail: viol}
	}
	return out, nil
}

var _ = json.Marshal
