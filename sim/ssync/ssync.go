// Package ssync stands in for package sync in the rewritten copy of the code
// under test. Outside a simulation every type behaves exactly like its
// namesake (it wraps it). Inside one, blocking and wake-up are decided by the
// simulator's model and the real primitive is only entered when it cannot
// block, so values, panics and happens-before edges remain Go's own.
package ssync

import (
	"sync"
	"unsafe"

	simrt "verif/sim/rt"
	"verif/sim/satomic"
)

// Locker is sync.Locker.
type Locker = sync.Locker

// Mutex replaces sync.Mutex.
type Mutex struct {
	mu sync.Mutex
}

// Lock locks m.
func (m *Mutex) Lock() {
	if _, sim := simrt.Point(simrt.OpMutexLock, unsafe.Pointer(m), 0); sim {
		if !m.mu.TryLock() {
			panic("simrt: model divergence: Mutex.Lock granted but held")
		}
		return
	}
	if simrt.Aborting() {
		m.mu.TryLock()
		return
	}
	m.mu.Lock()
}

// TryLock tries to lock m.
func (m *Mutex) TryLock() bool {
	if ok, sim := simrt.Point(simrt.OpMutexTryLock, unsafe.Pointer(m), 0); sim {
		if !ok {
			return false
		}
		if !m.mu.TryLock() {
			panic("simrt: model divergence: Mutex.TryLock granted but held")
		}
		return true
	}
	return m.mu.TryLock()
}

// Unlock unlocks m.
func (m *Mutex) Unlock() {
	if _, sim := simrt.Point(simrt.OpMutexUnlock, unsafe.Pointer(m), 0); sim {
		m.mu.Unlock()
		return
	}
	if simrt.Aborting() {
		m.mu.TryLock()
	}
	m.mu.Unlock()
}

// RWMutex replaces sync.RWMutex.
type RWMutex struct {
	rw sync.RWMutex
}

// Lock locks rw for writing.
func (rw *RWMutex) Lock() {
	if _, sim := simrt.Point(simrt.OpWLock, unsafe.Pointer(rw), 0); sim {
		if !rw.rw.TryLock() {
			panic("simrt: model divergence: RWMutex.Lock granted but held")
		}
		return
	}
	if simrt.Aborting() {
		rw.rw.TryLock()
		return
	}
	rw.rw.Lock()
}

// TryLock tries to lock rw for writing.
func (rw *RWMutex) TryLock() bool {
	if ok, sim := simrt.Point(simrt.OpTryWLock, unsafe.Pointer(rw), 0); sim {
		if !ok {
			return false
		}
		if !rw.rw.TryLock() {
			panic("simrt: model divergence: RWMutex.TryLock granted but held")
		}
		return true
	}
	return rw.rw.TryLock()
}

// Unlock unlocks rw for writing.
func (rw *RWMutex) Unlock() {
	if _, sim := simrt.Point(simrt.OpWUnlock, unsafe.Pointer(rw), 0); sim {
		rw.rw.Unlock()
		return
	}
	if simrt.Aborting() {
		if rw.rw.TryLock() {
			rw.rw.Unlock()
			return
		}
	}
	rw.rw.Unlock()
}

// RLock locks rw for reading.
func (rw *RWMutex) RLock() {
	if _, sim := simrt.Point(simrt.OpRLock, unsafe.Pointer(rw), 0); sim {
		if !rw.rw.TryRLock() {
			panic("simrt: model divergence: RWMutex.RLock granted but write-held")
		}
		return
	}
	if simrt.Aborting() {
		rw.rw.TryRLock()
		return
	}
	rw.rw.RLock()
}

// TryRLock tries to lock rw for reading.
func (rw *RWMutex) TryRLock() bool {
	if ok, sim := simrt.Point(simrt.OpTryRLock, unsafe.Pointer(rw), 0); sim {
		if !ok {
			return false
		}
		if !rw.rw.TryRLock() {
			panic("simrt: model divergence: RWMutex.TryRLock granted but write-held")
		}
		return true
	}
	return rw.rw.TryRLock()
}

// RUnlock undoes a single RLock call.
func (rw *RWMutex) RUnlock() {
	if _, sim := simrt.Point(simrt.OpRUnlock, unsafe.Pointer(rw), 0); sim {
		rw.rw.RUnlock()
		return
	}
	if simrt.Aborting() {
		if rw.rw.TryLock() {
			rw.rw.Unlock()
			return
		}
	}
	rw.rw.RUnlock()
}

// RLocker returns a Locker that calls RLock and RUnlock.
func (rw *RWMutex) RLocker() Locker { return (*rlocker)(rw) }

type rlocker RWMutex

func (r *rlocker) Lock()   { (*RWMutex)(r).RLock() }
func (r *rlocker) Unlock() { (*RWMutex)(r).RUnlock() }

// WaitGroup replaces sync.WaitGroup.
type WaitGroup struct {
	wg sync.WaitGroup
}

// Add adds delta to the counter.
func (wg *WaitGroup) Add(delta int) {
	simrt.Point(simrt.OpWGAdd, unsafe.Pointer(wg), int64(delta))
	wg.wg.Add(delta) // panics genuinely on a negative counter
}

// Done decrements the counter.
func (wg *WaitGroup) Done() { wg.Add(-1) }

// Wait blocks until the counter is zero.
func (wg *WaitGroup) Wait() {
	if simrt.Aborting() {
		return
	}
	simrt.Point(simrt.OpWGWait, unsafe.Pointer(wg), 0)
	wg.wg.Wait()
}

// Once replaces sync.Once. It is the standard algorithm written over the
// simulated mutex and atomic, so callers can be interleaved inside it.
type Once struct {
	done satomic.Uint32
	m    Mutex
}

// Do calls f if and only if Do is being called for the first time for o.
func (o *Once) Do(f func()) {
	if o.done.Load() == 0 {
		o.doSlow(f)
	}
}

func (o *Once) doSlow(f func()) {
	o.m.Lock()
	defer o.m.Unlock()
	if o.done.Load() == 0 {
		defer o.done.Store(1)
		f()
	}
}

// OnceFunc is sync.OnceFunc.
func OnceFunc(f func()) func() {
	var once Once
	var valid bool
	var p any
	g := func() {
		defer func() {
			p = recover()
			if !valid {
				panic(p)
			}
		}()
		f()
		f = nil
		valid = true
	}
	return func() {
		once.Do(g)
		if !valid {
			panic(p)
		}
	}
}

// OnceValue is sync.OnceValue.
func OnceValue[T any](f func() T) func() T {
	var once Once
	var valid bool
	var p any
	var result T
	g := func() {
		defer func() {
			p = recover()
			if !valid {
				panic(p)
			}
		}()
		result = f()
		f = nil
		valid = true
	}
	return func() T {
		once.Do(g)
		if !valid {
			panic(p)
		}
		return result
	}
}

// OnceValues is sync.OnceValues.
func OnceValues[T1, T2 any](f func() (T1, T2)) func() (T1, T2) {
	var once Once
	var valid bool
	var p any
	var r1 T1
	var r2 T2
	g := func() {
		defer func() {
			p = recover()
			if !valid {
				panic(p)
			}
		}()
		r1, r2 = f()
		f = nil
		valid = true
	}
	return func() (T1, T2) {
		once.Do(g)
		if !valid {
			panic(p)
		}
		return r1, r2
	}
}

// Pool replaces sync.Pool. Inside a simulation it is a stub whose legal
// freedoms (return nothing, forget a Put, return any pooled item) are
// scheduler draws, i.e. injected faults.
type Pool struct {
	New func() any
	p   sync.Pool
}

// Get selects an arbitrary item from the Pool, removes it and returns it.
func (p *Pool) Get() any {
	if it, ok, sim := simrt.PoolGet(unsafe.Pointer(p)); sim {
		if ok {
			return it
		}
		if p.New != nil {
			return p.New()
		}
		return nil
	}
	if p.p.New == nil && p.New != nil {
		p.p.New = func() any { return p.New() }
	}
	return p.p.Get()
}

// Put adds x to the pool.
func (p *Pool) Put(x any) {
	if x == nil {
		return
	}
	if simrt.PoolPut(unsafe.Pointer(p), x) {
		return
	}
	p.p.Put(x)
}

// Cond replaces sync.Cond.
type Cond struct {
	L Locker
	c *sync.Cond
	o sync.Once
}

// NewCond returns a new Cond with Locker l.
func NewCond(l Locker) *Cond { return &Cond{L: l} }

func (c *Cond) real() *sync.Cond {
	c.o.Do(func() { c.c = sync.NewCond(c.L) })
	return c.c
}

// Wait atomically unlocks c.L and suspends the goroutine.
func (c *Cond) Wait() {
	if simrt.Active() && !simrt.Aborting() {
		// as in the runtime: join the wait queue first, then unlock, then sleep - a
		// notification that arrives in between is not lost
		simrt.CondAdd(unsafe.Pointer(c))
		c.L.Unlock()
		simrt.Point(simrt.OpCondWait, unsafe.Pointer(c), 0)
		c.L.Lock()
		return
	}
	if simrt.Aborting() {
		return
	}
	c.real().Wait()
}

// Signal wakes one goroutine waiting on c.
func (c *Cond) Signal() {
	if _, sim := simrt.Point(simrt.OpCondSignal, unsafe.Pointer(c), 0); sim {
		return
	}
	c.real().Signal()
}

// Broadcast wakes all goroutines waiting on c.
func (c *Cond) Broadcast() {
	if _, sim := simrt.Point(simrt.OpCondBroadcast, unsafe.Pointer(c), 0); sim {
		return
	}
	c.real().Broadcast()
}

// Map replaces sync.Map: every method is a scheduling point followed by the
// real, already linearizable, operation.
type Map struct {
	m sync.Map
}

func (m *Map) pt() { simrt.Point(simrt.OpAtomic, unsafe.Pointer(m), 0) }

func (m *Map) Load(key any) (any, bool) { m.pt(); return m.m.Load(key) }
func (m *Map) Store(key, value any)     { m.pt(); m.m.Store(simrt.Key(key), value) }
func (m *Map) LoadOrStore(key, value any) (any, bool) {
	m.pt()
	return m.m.LoadOrStore(simrt.Key(key), value)
}
func (m *Map) LoadAndDelete(key any) (any, bool) { m.pt(); return m.m.LoadAndDelete(key) }
func (m *Map) Delete(key any)                    { m.pt(); m.m.Delete(key) }
func (m *Map) Swap(key, value any) (any, bool)   { m.pt(); return m.m.Swap(simrt.Key(key), value) }
func (m *Map) CompareAndSwap(key, old, new any) bool {
	m.pt()
	return m.m.CompareAndSwap(key, old, new)
}
func (m *Map) CompareAndDelete(key, old any) bool { m.pt(); return m.m.CompareAndDelete(key, old) }
func (m *Map) Clear()                             { m.pt(); m.m.Clear() }

// Range visits the keys present when it starts, in an order the scheduler draws
// (keys that are pointers or channels in insertion order first, see simrt.Key), each
// with the value it holds when its turn comes; a key deleted meanwhile is skipped.
// That is one of the behaviours sync.Map.Range allows. Every callback is preceded
// by a scheduling point.
func (m *Map) Range(f func(key, value any) bool) {
	m.pt()
	if simrt.Active() && !simrt.Aborting() {
		snap := map[any]any{}
		m.m.Range(func(k, v any) bool { snap[k] = v; return true })
		for _, k := range simrt.MapOrder(snap) {
			m.pt()
			v, ok := m.m.Load(k)
			if !ok {
				continue
			}
			if !f(k, v) {
				break
			}
		}
		return
	}
	m.m.Range(f)
}
