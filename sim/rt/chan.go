package simrt

import (
	"fmt"
	"reflect"
	"sort"
	"unsafe"
)

// chanKey returns the identity of a channel value (its runtime pointer).
func chanKey[C any](ch C) unsafe.Pointer {
	return *(*unsafe.Pointer)(unsafe.Pointer(&ch))
}

// ChanKey is the identity under which Config.OnSend reports ch.
func ChanKey[C any](ch C) unsafe.Pointer { return chanKey(ch) }

func realSendNB[C ~chan V | ~chan<- V, V any](ch C, v V) {
	select {
	case ch <- v:
	default:
		diverge("send the model called ready would block")
	}
}

func realRecvNB[C ~chan V | ~<-chan V, V any](ch C) (V, bool) {
	select {
	case v, ok := <-ch:
		return v, ok
	default:
		diverge("receive the model called ready would block")
	}
	var z V
	return z, false
}

// Send is `ch <- v`.
func Send[C ~chan V | ~chan<- V, V any](ch C, v V) {
	t := current()
	if t == nil {
		ch <- v
		return
	}
	if t.aborting {
		return
	}
	key := chanKey(ch)
	req := request{kind: OpSend, obj: key, chlen: len(ch), chcap: cap(ch), box: &v}
	if cap(ch) > 0 {
		req.put = func() { realSendNB(ch, v) }
	}
	r := t.call(req)
	switch r.how {
	case howReal:
		realSendNB(ch, v) // panics genuinely when the channel is closed
	case howGive:
		raceAcquire(key)
		*(r.box.(*V)) = v
		raceReleaseMerge(key)
	case howDone:
		raceAcquire(key)
	default:
		diverge(fmt.Sprintf("send: unexpected completion %d", r.how))
	}
	if h := t.sim.cfg.OnSend; h != nil {
		sent(t, h, key, v, r)
	}
}

// sent reports a completed send to the observer.
func sent(t *task, h func(unsafe.Pointer, any, int64), key unsafe.Pointer, v any, r resume) {
	step := r.n // howDone: stamped by wake, at the step of whoever took the value
	if r.how != howDone {
		step = t.call(request{kind: regStamp}).n
	}
	h(key, v, step)
}

// Recv2 is `v, ok := <-ch`.
func Recv2[C ~chan V | ~<-chan V, V any](ch C) (V, bool) {
	t := current()
	if t == nil {
		v, ok := <-ch
		return v, ok
	}
	var slot V
	if t.aborting {
		return slot, false
	}
	key := chanKey(ch)
	r := t.call(request{kind: OpRecv, obj: key, chlen: len(ch), chcap: cap(ch), box: &slot})
	switch r.how {
	case howReal:
		v, ok := realRecvNB(ch)
		if r.put != nil {
			// a sender was parked on the full buffer: the runtime moves its value
			// into the slot this receive freed, before anyone else can.
			raceAcquire(key)
			r.put()
			raceReleaseMerge(key)
		}
		return v, ok
	case howTake:
		raceAcquire(key)
		v := *(r.box.(*V))
		raceReleaseMerge(key)
		return v, true
	case howDone:
		raceAcquire(key)
		return slot, true
	default:
		diverge(fmt.Sprintf("recv: unexpected completion %d", r.how))
	}
	return slot, false
}

// Recv is `<-ch`.
func Recv[C ~chan V | ~<-chan V, V any](ch C) V {
	v, _ := Recv2(ch)
	return v
}

// Close is `close(ch)`.
func Close[C ~chan V | ~chan<- V, V any](ch C) {
	t := current()
	if t == nil {
		close(ch)
		return
	}
	if t.aborting {
		return
	}
	t.call(request{kind: OpClose, obj: chanKey(ch), chlen: len(ch), chcap: cap(ch)})
	close(ch)
}

// MarkClosed tells the model that ch was closed outside the simulation (by
// harness set-up code, before any simulated operation touched it).
func MarkClosed[C ~chan V | ~chan<- V, V any](ch C) {
	t := current()
	if t == nil || t.aborting {
		return
	}
	t.call(request{kind: regMarkClosed, obj: chanKey(ch), chlen: len(ch), chcap: cap(ch)})
}

// Select is the rewritten form of a select statement.
type Select struct {
	t     *task
	cases []selCaseReq
	real  []func()
	sentv []func() any
	give  []func(any)
	take  []func(any)
	done  []func()
	deflt bool
	plain []reflect.SelectCase // outside a simulation
	post  []func(reflect.Value, bool)
}

// NewSelect starts a select with n communication cases.
func NewSelect(n int, hasDefault bool) *Select {
	s := &Select{t: current(), deflt: hasDefault}
	if s.t != nil {
		s.cases = make([]selCaseReq, n)
		s.real = make([]func(), n)
		if s.t.sim.cfg.OnSend != nil {
			s.sentv = make([]func() any, n)
		}
		s.give = make([]func(any), n)
		s.take = make([]func(any), n)
		s.done = make([]func(), n)
	} else {
		s.plain = make([]reflect.SelectCase, n)
		s.post = make([]func(reflect.Value, bool), n)
	}
	return s
}

// SelSend registers case i as `case ch <- v`.
func SelSend[C ~chan V | ~chan<- V, V any](s *Select, i int, ch C, v V) {
	if s.t == nil {
		s.plain[i] = reflect.SelectCase{Dir: reflect.SelectSend, Chan: reflect.ValueOf(ch), Send: reflect.ValueOf(&v).Elem()}
		if chanKey(ch) == nil {
			s.plain[i] = reflect.SelectCase{Dir: reflect.SelectSend}
		}
		return
	}
	key := chanKey(ch)
	c := selCaseReq{send: true, key: key, chlen: len(ch), chcap: cap(ch), box: &v}
	if cap(ch) > 0 {
		c.put = func() { realSendNB(ch, v) }
	}
	s.cases[i] = c
	s.real[i] = func() { realSendNB(ch, v) }
	s.give[i] = func(dst any) { *(dst.(*V)) = v }
	if s.sentv != nil {
		s.sentv[i] = func() any { return v }
	}
}

// RecvCase holds the result of a receive case.
type RecvCase[V any] struct {
	val V
	ok  bool
}

// Result returns the received value and whether the channel was open.
func (c *RecvCase[V]) Result() (V, bool) { return c.val, c.ok }

// Value returns the received value.
func (c *RecvCase[V]) Value() V { return c.val }

// SelRecv registers case i as `case v, ok := <-ch`.
func SelRecv[C ~chan V | ~<-chan V, V any](s *Select, i int, ch C) *RecvCase[V] {
	rc := &RecvCase[V]{}
	if s.t == nil {
		s.plain[i] = reflect.SelectCase{Dir: reflect.SelectRecv, Chan: reflect.ValueOf(ch)}
		if chanKey(ch) == nil {
			s.plain[i] = reflect.SelectCase{Dir: reflect.SelectRecv}
		}
		s.post[i] = func(v reflect.Value, ok bool) {
			if ok {
				reflect.ValueOf(&rc.val).Elem().Set(v)
			}
			rc.ok = ok
		}
		return rc
	}
	key := chanKey(ch)
	s.cases[i] = selCaseReq{key: key, chlen: len(ch), chcap: cap(ch), box: &rc.val}
	s.real[i] = func() { rc.val, rc.ok = realRecvNB(ch) }
	s.take[i] = func(src any) { rc.val = *(src.(*V)); rc.ok = true }
	s.done[i] = func() { rc.ok = true }
	return rc
}

// Wait blocks until a case fires and returns its index, or -1 for default.
func (s *Select) Wait() int {
	t := s.t
	if t == nil {
		cases := s.plain
		if s.deflt {
			cases = append(cases[:len(cases):len(cases)], reflect.SelectCase{Dir: reflect.SelectDefault})
		}
		i, v, ok := reflect.Select(cases)
		if s.deflt && i == len(cases)-1 {
			return -1
		}
		if s.post[i] != nil {
			s.post[i](v, ok)
		}
		return i
	}
	if t.aborting {
		return -1
	}
	r := t.call(request{kind: OpSelect, cases: s.cases, deflt: s.deflt})
	if r.how == howDefault {
		return -1
	}
	i := r.idx
	key := s.cases[i].key
	switch r.how {
	case howReal:
		s.real[i]()
		if r.put != nil {
			raceAcquire(key)
			r.put()
			raceReleaseMerge(key)
		}
	case howGive:
		raceAcquire(key)
		s.give[i](r.box)
		raceReleaseMerge(key)
	case howTake:
		raceAcquire(key)
		s.take[i](r.box)
		raceReleaseMerge(key)
	case howDone:
		raceAcquire(key)
		if s.done[i] != nil {
			s.done[i]()
		}
	default:
		diverge(fmt.Sprintf("select: unexpected completion %d", r.how))
	}
	if s.sentv != nil && s.sentv[i] != nil {
		sent(t, t.sim.cfg.OnSend, key, s.sentv[i](), r)
	}
	return i
}

// MapOrder returns the keys of m in the order a rewritten `range m` visits
// them: Go leaves the order unspecified, so inside a simulation it is a
// canonical order permuted by a scheduler draw (replayable); outside, Go's own.
func MapOrder[M ~map[K]V, K comparable, V any](m M) []K {
	keys := make([]K, 0, len(m))
	for k := range m {
		keys = append(keys, k)
	}
	t := current()
	if t == nil || t.aborting || len(keys) < 2 {
		return keys
	}
	if ids := keyOrdinals(t, keys); ids != nil {
		// keys with identity only (pointers, channels): canonical order = order of
		// insertion, known from the simrt.Key calls the rewriter put at every m[k] = v
		idx := make([]int, len(keys))
		for i := range idx {
			idx[i] = i
		}
		sort.Slice(idx, func(a, b int) bool { return ids[idx[a]] < ids[idx[b]] })
		sorted := make([]K, len(keys))
		for i, j := range idx {
			sorted[i] = keys[j]
		}
		keys = sorted
	} else {
		sort.Slice(keys, func(i, j int) bool { return lessAny(keys[i], keys[j]) })
	}
	if !t.sim.cfg.MapShuffle {
		return keys
	}
	seed := uint64(t.call(request{kind: regDraw, n: 0}).n)
	var r Rand
	r.Seed(seed)
	moved := false
	for i := len(keys) - 1; i > 0; i-- {
		j := r.Intn(i + 1)
		if i != j {
			moved = true
		}
		keys[i], keys[j] = keys[j], keys[i]
	}
	if moved {
		t.call(request{kind: regCount, str: "fault.map_order", n: 1})
	}
	return keys
}

// identityOf returns the address behind a key whose value has identity only, or nil.
func identityOf(k any) unsafe.Pointer {
	switch k.(type) {
	case int, string, int64, int32, uint64, uint32, uint8, float64, bool:
		return nil
	}
	rv := reflect.ValueOf(k)
	switch rv.Kind() {
	case reflect.Pointer, reflect.Chan, reflect.UnsafePointer:
		return rv.UnsafePointer()
	}
	return nil
}

// Key is wrapped by the rewriter around k in every `m[k] = v` (and map literal)
// whose key type may hold a pointer or a channel. It gives such a key an ordinal
// the first time it is inserted into any map - program order, hence the same in
// every execution of a seed - so that MapOrder can put these keys in an order that
// does not depend on addresses. It returns k.
func Key[K comparable](k K) K {
	t := current()
	if t == nil || t.aborting {
		return k
	}
	if p := identityOf(k); p != nil {
		t.call(request{kind: regKeyOrd, obj: p})
		return k
	}
	switch any(k).(type) {
	case int, string, int64, int32, uint64, uint32, uint8, float64, bool:
		return k
	}
	if rv := reflect.ValueOf(k); rv.IsValid() && (rv.Kind() == reflect.Struct || rv.Kind() == reflect.Array) {
		canon(rv, 0) // numbers the pointers and channels inside a composite key, in insertion order
	}
	return k
}

// keyOrdinals returns the ordinals of the keys when they have identity only, nil
// when they are ordinary values. A key never seen by Key (inserted outside the
// rewritten code) gets its ordinal now; two of those in one call would be numbered
// in Go's own random iteration order, which is counted as a probe because it can
// make a replay diverge.
func keyOrdinals[K comparable](t *task, keys []K) []int64 {
	if len(keys) == 0 || identityOf(keys[0]) == nil {
		return nil
	}
	ids := make([]int64, len(keys))
	fresh := 0
	for i, k := range keys {
		p := identityOf(k)
		if p == nil {
			return nil
		}
		rep := t.call(request{kind: regKeyOrd, obj: p})
		ids[i] = rep.n
		if rep.ok {
			fresh++
		}
	}
	if fresh > 1 {
		t.call(request{kind: regCount, str: "probe.map_keys_first_seen_during_iteration", n: int64(fresh)})
	}
	return ids
}

func lessAny(a, b any) bool {
	switch x := a.(type) {
	case int:
		return x < b.(int)
	case string:
		return x < b.(string)
	case int64:
		return x < b.(int64)
	case int32:
		return x < b.(int32)
	case uint64:
		return x < b.(uint64)
	case uint32:
		return x < b.(uint32)
	case uint8:
		return x < b.(uint8)
	case float64:
		return x < b.(float64)
	case bool:
		return !x && b.(bool)
	}
	va, vb := reflect.ValueOf(a), reflect.ValueOf(b)
	switch va.Kind() {
	case reflect.Int, reflect.Int8, reflect.Int16, reflect.Int32, reflect.Int64:
		return va.Int() < vb.Int()
	case reflect.Uint, reflect.Uint8, reflect.Uint16, reflect.Uint32, reflect.Uint64, reflect.Uintptr:
		return va.Uint() < vb.Uint()
	case reflect.Float32, reflect.Float64:
		return va.Float() < vb.Float()
	case reflect.String:
		return va.String() < vb.String()
	}
	return canon(va, 0) < canon(vb, 0)
}

// canon renders a map key of composite type as a string that is the same in every
// execution of a seed: what fmt would print, except that a pointer, channel or
// unsafe pointer inside it appears as its insertion ordinal (see Key) instead of
// its address. It only has to be deterministic and injective enough to order keys.
func canon(v reflect.Value, depth int) string {
	if !v.IsValid() {
		return "nil"
	}
	if depth > 4 {
		return v.Type().String()
	}
	switch v.Kind() {
	case reflect.Pointer, reflect.Chan, reflect.UnsafePointer:
		if v.IsNil() {
			return "#nil"
		}
		p := v.UnsafePointer()
		if t := current(); t != nil && !t.aborting {
			return fmt.Sprintf("#%d", t.call(request{kind: regKeyOrd, obj: p}).n)
		}
		return "#?"
	case reflect.Struct:
		out := v.Type().String() + "{"
		for i := 0; i < v.NumField(); i++ {
			out += canon(v.Field(i), depth+1) + ","
		}
		return out + "}"
	case reflect.Array:
		out := "["
		for i := 0; i < v.Len(); i++ {
			out += canon(v.Index(i), depth+1) + ","
		}
		return out + "]"
	case reflect.Interface:
		if v.IsNil() {
			return "<nil>"
		}
		return v.Elem().Type().String() + ":" + canon(v.Elem(), depth+1)
	case reflect.Int, reflect.Int8, reflect.Int16, reflect.Int32, reflect.Int64:
		return fmt.Sprintf("%020d", v.Int()+(1<<62))
	case reflect.Uint, reflect.Uint8, reflect.Uint16, reflect.Uint32, reflect.Uint64, reflect.Uintptr:
		return fmt.Sprintf("%020d", v.Uint())
	case reflect.String:
		return fmt.Sprintf("%q", v.String())
	case reflect.Bool, reflect.Float32, reflect.Float64, reflect.Complex64, reflect.Complex128:
		return fmt.Sprint(v)
	}
	return v.Type().String()
}
