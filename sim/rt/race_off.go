//go:build !race

package simrt

import "unsafe"

// RaceEnabled reports whether the binary was built with -race.
const RaceEnabled = false

func raceDisable()                      {}
func raceEnable()                       {}
func raceAcquire(p unsafe.Pointer)      {}
func raceReleaseMerge(p unsafe.Pointer) {}
