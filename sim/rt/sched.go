// Package simrt is the deterministic simulation runtime: a cooperative,
// seeded scheduler under which real goroutines run real library code one at a
// time. Every synchronisation operation of the code under test is announced
// to the scheduler, which decides - from one PRNG or from a replay log - who
// proceeds, which select case fires, when timers fire, in which order a map
// is iterated, and so on.
//
// Ownership rule that keeps the race detector usable inside the simulation:
// scheduler state is touched by the scheduler goroutine only; tasks talk to it
// through by-value messages over gate channels whose synchronisation is hidden
// from the race detector (RaceDisable/RaceEnable), so the only happens-before
// edges the detector sees are the ones the program under test creates.
package simrt

import (
	"fmt"
	"runtime"
	"sort"
	"strings"
	"sync"
	"time"
	"unsafe"
)

// OpKind identifies a simulated operation.
type OpKind uint8

// Operation kinds. Kinds below regFirst consume a scheduling step; the others
// are registrations answered at once.
const (
	OpStart OpKind = iota
	OpYield
	OpAtomic
	OpMutexLock
	OpMutexTryLock
	OpMutexUnlock
	OpRLock
	OpTryRLock
	OpRUnlock
	OpWLock    // announce: becomes a pending writer
	opWLockAcq // acquire once readers are gone
	OpTryWLock
	OpWUnlock
	OpWGAdd
	OpWGWait
	OpSend
	OpRecv
	OpClose
	OpSelect
	OpSpawn
	OpSleep
	OpPoolGet
	OpPoolPut
	OpCondWait
	OpCondSignal
	OpCondBroadcast
	opWake
	OpDone
	OpGosched // runtime.Gosched in the code under test: a step at which the caller offers to be descheduled

	regFirst
	regParked
	regTimerNew
	regTimerStop
	regTimerReset
	regNow
	regDraw
	regNote
	regCount
	regStamp
	regMarkClosed
	regLiveChildren
	regCondAdd
	regKeyOrd
)

var opNames = [...]string{
	OpStart: "start", OpYield: "yield", OpAtomic: "atomic", OpMutexLock: "mu.Lock", OpMutexTryLock: "mu.TryLock",
	OpMutexUnlock: "mu.Unlock", OpRLock: "rw.RLock", OpTryRLock: "rw.TryRLock", OpRUnlock: "rw.RUnlock",
	OpWLock: "rw.Lock(announce)", opWLockAcq: "rw.Lock(acquire)", OpTryWLock: "rw.TryLock", OpWUnlock: "rw.Unlock",
	OpWGAdd: "wg.Add", OpWGWait: "wg.Wait", OpSend: "chan.send", OpRecv: "chan.recv", OpClose: "chan.close",
	OpSelect: "select", OpSpawn: "go", OpSleep: "sleep", OpPoolGet: "pool.Get", OpPoolPut: "pool.Put",
	OpCondWait: "cond.Wait", OpCondSignal: "cond.Signal", OpCondBroadcast: "cond.Broadcast", opWake: "wake", OpDone: "done", OpGosched: "gosched",
	regFirst: "", regParked: "parked", regTimerNew: "timer.new", regTimerStop: "timer.stop", regTimerReset: "timer.reset",
	regNow: "now", regDraw: "draw", regNote: "note", regCount: "count", regStamp: "stamp", regMarkClosed: "mark-closed", regLiveChildren: "live-children", regCondAdd: "cond-add", regKeyOrd: "key-ordinal",
}

func (k OpKind) String() string {
	if int(k) < len(opNames) {
		return opNames[k]
	}
	return fmt.Sprintf("op%d", int(k))
}

// how a channel operation completes, told to the task by the scheduler.
const (
	howNone    uint8 = iota
	howPark          // nothing ready: publish a release edge and report parked
	howReal          // perform the real (non-blocking by construction) operation
	howGive          // sender: write the value into the parked receiver's box
	howTake          // receiver: read the value from the parked sender's box
	howDone          // a partner already moved the value
	howDefault       // select: default case
)

// request travels by value from a task to the scheduler.
type request struct {
	kind   OpKind
	sub    uint8
	obj    unsafe.Pointer
	n      int64
	chlen  int
	chcap  int
	box    any
	put    func()
	cases  []selCaseReq
	deflt  bool
	child  *task
	gate   chan resume
	item   any
	tch    chan time.Time
	fn     func()
	str    string
	str2   string
	frames string
}

type selCaseReq struct {
	send  bool
	key   unsafe.Pointer
	chlen int
	chcap int
	box   any
	put   func()
}

// resume travels by value from the scheduler to a task.
type resume struct {
	abort bool
	how   uint8
	ok    bool
	idx   int
	n     int64
	box   any
	put   func()
	item  any
}

// task is the task-side record; only the task itself (and its creator, before
// the fork) touches it.
type task struct {
	sim      *Sim
	gate     chan resume
	aborting bool
}

// cur is the task currently allowed to run. Written by the scheduler, read by
// whichever task runs; exactly one task runs at a time, so there is no real
// concurrency on it, and the accessors are excluded from race instrumentation.
var cur *task

//go:norace
func current() *task { return cur }

//go:norace
func setCur(t *task) { cur = t }

// Active reports whether the caller runs inside a simulation.
func Active() bool { return current() != nil }

type taskState uint8

const (
	stPending   taskState = iota // has announced an operation, awaiting its turn
	stParked                     // asleep in a wait queue until served
	stWoken                      // served; will continue when chosen
	stTimerWait                  // AfterFunc body waiting for its timer
	stDone
)

// stask is the scheduler-side record of a task.
type stask struct {
	id          int
	tk          *task // opaque: never dereferenced by the scheduler
	gate        chan resume
	state       taskState
	req         request
	reply       resume
	prio        int
	spawnSite   string
	parkedOn    string
	waits       []*waiter
	until       int64
	steps       int
	parent      *stask
	spawnStep   int
	frozenUntil int // fault task_freeze: not scheduled before this step although enabled
}

type waiter struct {
	t      *stask
	ch     *chanModel
	send   bool
	box    any
	put    func()
	selIdx int
	gone   bool
}

type chanModel struct {
	id     int
	key    unsafe.Pointer
	cap    int
	len    int
	closed bool
	recvq  []*waiter
	sendq  []*waiter
}

type objKind uint8

const (
	objMutex objKind = iota + 1
	objRW
	objWG
	objPool
	objCond
	objAtomic
	objChan
)

type object struct {
	id      int
	kind    objKind
	locked  bool  // mutex
	readers int   // rwmutex
	writer  bool  // rwmutex
	pending int   // rwmutex: announced writers
	count   int64 // waitgroup
	items   []any // pool
	condq   []*condTicket
}

// condTicket is one Wait on a condition variable. As in the runtime, the waiter
// joins the queue BEFORE it releases the lock (regCondAdd), so a Signal or
// Broadcast issued between its Unlock and its going to sleep is not lost: it marks
// the ticket, and the waiter then does not sleep at all.
type condTicket struct {
	t         *stask
	signalled bool
	parked    bool
}

type stimer struct {
	id     int
	when   int64
	seq    uint64
	ch     chan time.Time
	cm     *chanModel
	active bool
	fnTask *stask
	period int64 // ticker: re-armed after every tick
	ticks  int
}

// PanicInfo describes a panic recovered at a task root.
type PanicInfo struct {
	Task      int    `json:"task"`
	Step      int    `json:"step"`
	Msg       string `json:"msg"`
	Frames    string `json:"frames"`
	SpawnSite string `json:"spawn_site"`
}

// AliveTask describes a task that had not finished when the run ended.
type AliveTask struct {
	ID        int
	SpawnSite string
	Op        string
	ParkedOn  string
}

// Outcome is what a run produced.
type Outcome struct {
	Steps          int
	Truncated      bool
	Stuck          bool
	StuckTasks     []string
	Alive          []AliveTask // tasks that had not finished when the run ended
	Panics         []PanicInfo
	Fatal          string // model-foreseen unrecoverable runtime error
	Unsupported    string
	Diverged       string // model/real disagreement: harness trouble, never a violation
	Hash           uint64
	Sched          []int32
	Draws          []int64
	Counts         map[string]int64
	SimNanos       int64
	Trace          []string
	ReplayMiss     int
	Preempts       int
	PreemptsInCall int
	// LastProgress is the last step at which something observable happened: a
	// harness stamp (every call's invocation and return), a value accepted by or
	// taken from a channel, a task finishing.
	LastProgress int
	// ClientsAlive counts the unfinished tasks that the harness started (root tasks
	// and tasks spawned from harness code). Tasks spawned by the code under test that
	// are still parked at the end - a pump or janitor goroutine of the implementation -
	// are in Alive but not here: they are not callers waiting for anything.
	ClientsAlive int
	Nontrivial   bool   // set by harnesses whose notion of a non-trivial case is not a preemption
	OpsHash      uint64 // set by sequential harnesses: hash of the operation history
}

// Strategy selects how the next task is chosen.
type Strategy uint8

// Strategies.
const (
	StratRandom Strategy = iota
	StratSticky
	StratPCT
	StratRoundRobin // deterministic, no preemption: fault-free baseline
	// StratPOS is partial-order sampling (Yuan, Yang, Gu: CAV 2018): every pending
	// operation has a random priority, the highest enabled one runs, and after an
	// operation on object o has run, every other task whose pending operation is on
	// o gets a fresh priority (as does the task that ran, for its next operation).
	// Orders of operations that conflict are thereby sampled far more evenly than a
	// random walk does, while independent operations are not permuted needlessly.
	StratPOS
)

func (st Strategy) String() string {
	switch st {
	case StratRandom:
		return "random-walk"
	case StratSticky:
		return "sticky-random"
	case StratPCT:
		return "pct"
	case StratRoundRobin:
		return "round-robin"
	case StratPOS:
		return "partial-order-sampling"
	}
	return "?"
}

// Config configures one run.
type Config struct {
	Seed        uint64
	MaxSteps    int
	Strategy    Strategy
	StickyQ     float64 // probability of staying on the current task
	PCTDepth    int
	PCTSteps    int     // estimate of run length for change points
	StallProb   float64 // probability per step of firing the next timer while tasks are runnable
	MapShuffle  bool    // permute map iteration order
	Trace       bool
	StopOnPanic bool
	PoolMiss    float64
	PoolDrop    float64
	PoolReorder bool
	// Replay: if non-nil the run follows these logs instead of the PRNG.
	ReplaySched []int32
	ReplayDraws []int64
	Replay      bool
	// OnSend, if set, observes every completed channel send of a simulated task
	// (plain sends and select send cases; a send on a closed channel panics and is
	// not reported): the channel's identity, the value and the step at which the
	// value was accepted by the channel - into its buffer or by a receiver, which
	// for a sender that was parked is the receiver's step, not the later one at
	// which the sender runs again. It is called on the sending task's goroutine,
	// possibly from several tasks (one at a time): what it writes must be fenced
	// for the race detector by the caller. It must not block or make steps.
	OnSend func(ch unsafe.Pointer, v any, step int64)
	// StopWhenClientsDone ends the run as soon as every task the harness started has
	// finished, even if tasks spawned by the code under test could still run (a
	// janitor that sleeps in a loop would otherwise keep the run going until the
	// step budget and be misreported as no-progress). For workloads whose oracle
	// does not depend on what library goroutines do after the last call returned.
	StopWhenClientsDone bool
	// FreezeGap > 0 injects the fault "stalled goroutine": about every FreezeGap
	// steps (drawn) one enabled task is taken off the processor for up to FreezeMax
	// steps (drawn) although it could run - what the operating system does to a
	// thread whenever it likes. The strategies above are fair to a waiter that polls;
	// this brings back, in bounded doses, the schedules in which somebody makes no
	// progress at all for a long time (a waiter runs out of spins while the action it
	// waits for is descheduled). A frozen task thaws early when nothing else can run.
	FreezeGap int
	FreezeMax int
}

// Sim is one simulated execution.
type Sim struct {
	cfg        Config
	rng        Rand
	reqCh      chan request
	tasks      []*stask
	last       *stask
	objs       map[unsafe.Pointer]*object
	chans      map[unsafe.Pointer]*chanModel
	nobj       int
	step       int
	now        int64
	timers     []*stimer
	tseq       uint64
	ntimer     int
	out        Outcome
	hash       uint64
	wg         sync.WaitGroup
	roots      []rootTask
	stop       bool
	pctCP      []int
	lowPrio    int
	schedPos   int
	drawPos    int
	runLen     int
	nLib       int // tasks spawned by the code under test
	grace      int
	keyOrd     map[unsafe.Pointer]int64 // insertion ordinals of map keys that have identity only
	nextFreeze int                      // step at which the next task is frozen (FreezeGap > 0)
	enBuf      []*stask
	frBuf      []*stask
}

type rootTask struct {
	tk *task
}

// New creates a simulation.
func New(cfg Config) *Sim {
	if cfg.MaxSteps == 0 {
		cfg.MaxSteps = 5000
	}
	s := &Sim{cfg: cfg, reqCh: make(chan request, 1), objs: map[unsafe.Pointer]*object{}, chans: map[unsafe.Pointer]*chanModel{}}
	s.rng.Seed(cfg.Seed)
	s.hash = 1469598103934665603
	s.out.Counts = map[string]int64{}
	s.lowPrio = -1
	if cfg.Strategy == StratPCT && !cfg.Replay {
		n := cfg.PCTSteps
		if n <= 0 {
			n = 100
		}
		for i := 1; i < cfg.PCTDepth; i++ {
			s.pctCP = append(s.pctCP, 1+s.rng.Intn(n))
		}
	}
	return s
}

// Go registers a root task; call before Run, from the goroutine that calls Run.
func (s *Sim) Go(fn func()) {
	t := &task{sim: s, gate: make(chan resume, 1)}
	s.roots = append(s.roots, rootTask{t})
	s.wg.Add(1)
	go t.main(fn)
}

func (s *Sim) mix(vals ...uint64) {
	h := s.hash
	for _, v := range vals {
		h ^= v
		h *= 1099511628211
	}
	s.hash = h
}

func (s *Sim) count(name string, n int64) { s.out.Counts[name] += n }

// drawN returns a scheduler draw in [0,n).
func (s *Sim) drawN(n int) int {
	var v int
	if s.cfg.Replay {
		if s.drawPos < len(s.cfg.ReplayDraws) {
			v = int(s.cfg.ReplayDraws[s.drawPos])
			s.drawPos++
			if v < 0 || v >= n {
				v = 0
				s.out.ReplayMiss++
			}
		} else {
			v = 0
		}
	} else {
		v = s.rng.Intn(n)
	}
	s.out.Draws = append(s.out.Draws, int64(v))
	s.mix(0xD, uint64(v))
	return v
}

func (s *Sim) draw64() uint64 {
	var v uint64
	if s.cfg.Replay {
		if s.drawPos < len(s.cfg.ReplayDraws) {
			v = uint64(s.cfg.ReplayDraws[s.drawPos])
			s.drawPos++
		}
	} else {
		v = s.rng.Uint64() >> 1
	}
	s.out.Draws = append(s.out.Draws, int64(v))
	s.mix(0xD, v)
	return v
}

func (s *Sim) drawBool(p float64) bool {
	if p <= 0 {
		return false
	}
	const scale = 1 << 20
	return s.drawN(scale) < int(p*scale)
}

func (s *Sim) newSTask(tk *task, gate chan resume, site string) *stask {
	t := &stask{id: len(s.tasks), tk: tk, gate: gate, spawnSite: site}
	t.req = request{kind: OpStart}
	if s.cfg.Strategy == StratPCT || s.cfg.Strategy == StratPOS {
		if s.cfg.Replay {
			t.prio = 0
		} else {
			t.prio = 1 + s.rng.Intn(1<<20)
		}
	}
	s.tasks = append(s.tasks, t)
	if !isClientSite(site) {
		s.nLib++
	}
	return t
}

func isClientSite(site string) bool { return site == "root" || strings.HasPrefix(site, "verif/") }

// clientsDone reports whether every task started by the harness has finished.
func (s *Sim) clientsDone() bool {
	for _, t := range s.tasks {
		if t.state != stDone && isClientSite(t.spawnSite) {
			return false
		}
	}
	return true
}

func (s *Sim) obj(p unsafe.Pointer, k objKind) *object {
	o := s.objs[p]
	if o == nil {
		s.nobj++
		o = &object{id: s.nobj, kind: k}
		s.objs[p] = o
	}
	return o
}

func (s *Sim) chanOf(key unsafe.Pointer, clen, ccap int) *chanModel {
	if key == nil {
		return nil
	}
	c := s.chans[key]
	if c == nil {
		s.nobj++
		c = &chanModel{id: s.nobj, key: key, cap: ccap, len: clen}
		s.chans[key] = c
	}
	return c
}

func (s *Sim) enabledOp(t *stask) bool {
	switch t.state {
	case stWoken:
		return true
	case stParked, stDone, stTimerWait:
		return false
	}
	r := &t.req
	switch r.kind {
	case OpMutexLock:
		return !s.obj(r.obj, objMutex).locked
	case OpRLock:
		o := s.obj(r.obj, objRW)
		return !o.writer && o.pending == 0
	case opWLockAcq:
		o := s.obj(r.obj, objRW)
		return !o.writer && o.readers == 0
	case OpWGWait:
		return s.obj(r.obj, objWG).count == 0
	case OpSleep:
		return s.now >= t.until
	}
	return true
}

func (s *Sim) enabled() []*stask {
	en := s.enBuf[:0]
	for _, t := range s.tasks {
		if s.enabledOp(t) {
			en = append(en, t)
		}
	}
	s.enBuf = en
	return en
}

func (s *Sim) pick(en []*stask) *stask {
	var chosen *stask
	lastEnabled := false
	for _, t := range en {
		if t == s.last {
			lastEnabled = true
		}
	}
	if s.cfg.Replay {
		if s.schedPos < len(s.cfg.ReplaySched) {
			want := int(s.cfg.ReplaySched[s.schedPos])
			for _, t := range en {
				if t.id == want {
					chosen = t
				}
			}
			if chosen == nil {
				s.out.ReplayMiss++
			}
		}
		s.schedPos++
		if chosen == nil {
			if lastEnabled && !(s.last.req.kind == OpGosched && len(en) > 1) {
				chosen = s.last
			} else {
				chosen = en[0]
				for i, t := range en { // a task that offers to be descheduled is: take the next one
					if t == s.last {
						chosen = en[(i+1)%len(en)]
					}
				}
			}
		}
	} else {
		switch s.cfg.Strategy {
		case StratRandom:
			chosen = en[s.rng.Intn(len(en))]
		case StratSticky:
			if lastEnabled && s.last.req.kind != OpGosched && s.rng.Float64() < s.cfg.StickyQ {
				chosen = s.last
			} else {
				chosen = en[s.rng.Intn(len(en))]
			}
		case StratPCT:
			for _, t := range en {
				if chosen == nil || t.prio > chosen.prio {
					chosen = t
				}
			}
			for _, cp := range s.pctCP {
				if cp == s.step {
					chosen.prio = s.lowPrio
					s.lowPrio--
				}
			}
			s.yieldPriority(chosen, len(en))
		case StratRoundRobin:
			if lastEnabled {
				chosen = s.last
			} else {
				chosen = en[0]
			}
		case StratPOS:
			for _, t := range en {
				if chosen == nil || t.prio > chosen.prio {
					chosen = t
				}
			}
			if o := chosen.req.obj; o != nil {
				for _, t := range s.tasks {
					if t != chosen && t.state != stDone && t.req.obj == o {
						t.prio = 1 + s.rng.Intn(1<<20)
					}
				}
			}
			chosen.prio = 1 + s.rng.Intn(1<<20)
			s.yieldPriority(chosen, len(en))
		}
	}
	if lastEnabled && chosen != s.last {
		s.out.Preempts++
		if s.last.state == stPending && s.last.req.kind != OpYield && s.last.req.kind != OpStart {
			s.out.PreemptsInCall++
		}
	}
	s.out.Sched = append(s.out.Sched, int32(chosen.id))
	return chosen
}

// freeze implements Config.FreezeGap: it may freeze one of the enabled tasks and
// returns the enabled tasks that are not frozen (all of them when every one is).
func (s *Sim) freeze(en []*stask) []*stask {
	if s.nextFreeze == 0 {
		s.nextFreeze = s.step + 1 + s.drawN(2*s.cfg.FreezeGap)
	}
	if s.step >= s.nextFreeze && len(en) > 1 {
		v := en[s.drawN(len(en))]
		max := s.cfg.FreezeMax
		if max < 1 {
			max = 1
		}
		v.frozenUntil = s.step + 1 + s.drawN(max)
		s.nextFreeze = s.step + 1 + s.drawN(2*s.cfg.FreezeGap)
		s.count("fault.task_freeze", 1)
		s.trace("t%d is taken off the processor until step %d", v.id, v.frozenUntil)
	}
	out := s.frBuf[:0]
	for _, t := range en {
		if t.frozenUntil <= s.step {
			out = append(out, t)
		}
	}
	s.frBuf = out
	if len(out) == 0 {
		return en
	}
	return out
}

// yieldPriority keeps the priority-based strategies (PCT, partial-order sampling)
// fair to code that waits by spinning. Both assume tasks that terminate when run
// alone; one that polls (runtime.Gosched in a loop, or re-reading an atomic) does
// not, and a waiter that happens to hold the highest priority would starve the
// task it is waiting for into a false no-progress report. So a task gives its
// priority up when it says so (Gosched) and after 100 consecutive steps taken
// while others could have run: it then runs again only when nobody else can, or,
// under partial-order sampling, after another task's conflicting operation has
// redrawn its priority.
func (s *Sim) yieldPriority(chosen *stask, enabled int) {
	if chosen == s.last {
		s.runLen++
	} else {
		s.runLen = 0
	}
	if enabled > 1 && (chosen.req.kind == OpGosched || s.runLen >= 100) {
		chosen.prio = s.lowPrio
		s.lowPrio--
		s.runLen = 0
	}
}

func (s *Sim) trace(format string, a ...any) {
	if s.cfg.Trace {
		s.out.Trace = append(s.out.Trace, fmt.Sprintf("%4d t=%dns ", s.step, s.now)+fmt.Sprintf(format, a...))
	}
}

// Run executes the simulation to completion and returns the outcome. It must
// be called on the goroutine that created the Sim and its root tasks.
func (s *Sim) Run() *Outcome {
	for _, r := range s.roots {
		s.newSTask(r.tk, r.tk.gate, "root")
	}
	for !s.stop {
		if s.step >= s.cfg.MaxSteps {
			s.out.Truncated = true
			break
		}
		daemonsOnly := s.cfg.StopWhenClientsDone && s.nLib > 0 && s.clientsDone()
		if daemonsOnly {
			// every caller has returned: goroutines of the implementation itself may
			// finish what they are doing (2000 steps of grace), but the run does not
			// wait for their timers or for a loop that never ends
			s.grace++
		}
		en := s.enabled()
		if daemonsOnly && (len(en) == 0 || s.grace > 2000) {
			for _, t := range s.tasks {
				if t.state != stDone {
					s.count("probe.run_ended_with_library_goroutines_alive", 1)
					break
				}
			}
			break
		}
		if len(en) == 0 {
			if !s.advanceClock() {
				break
			}
			continue
		}
		if s.cfg.StallProb > 0 && s.pendingTimer() && s.drawBool(s.cfg.StallProb) {
			s.count("fault.stall", 1)
			s.advanceClock()
			continue
		}
		if s.cfg.FreezeGap > 0 {
			en = s.freeze(en)
		}
		t := s.pick(en)
		s.exec(t)
	}
	// classify the end state
	alive := 0
	for _, t := range s.tasks {
		if t.state != stDone {
			alive++
		}
	}
	if alive > 0 && !s.out.Truncated && !s.stop {
		s.out.Stuck = true
		for _, t := range s.tasks {
			if t.state != stDone {
				s.out.StuckTasks = append(s.out.StuckTasks, fmt.Sprintf("t%d:%s:%s", t.id, t.req.kind, t.parkedOn))
			}
		}
	}
	for _, t := range s.tasks {
		if t.state != stDone {
			s.out.Alive = append(s.out.Alive, AliveTask{t.id, t.spawnSite, t.req.kind.String(), t.parkedOn})
			if isClientSite(t.spawnSite) {
				s.out.ClientsAlive++
			}
		}
	}
	// unwind whatever is left
	for _, t := range s.tasks {
		if t.state != stDone {
			s.abort(t)
		}
	}
	setCur(nil)
	s.wg.Wait()
	s.resetLocks()
	s.out.Steps = s.step
	s.out.Hash = s.hash
	s.out.SimNanos = s.now
	return &s.out
}

// resetLocks returns every mutex and read-write mutex this run touched to its
// unlocked state. A task that was unwound between a Lock and a non-deferred Unlock
// leaves the real primitive held; when it lives in a package-level variable of the
// code under test the next run of the same process would meet a lock that its
// fresh model believes free (reported as model divergence, exit 2). All tasks have
// been joined, so nobody uses the primitives any more. ssync.Mutex and
// ssync.RWMutex are structs whose first and only field is the real primitive.
func (s *Sim) resetLocks() {
	if len(s.out.Alive) == 0 {
		return // every task ran to completion: whatever is still locked was left locked by the program itself
	}
	for p, o := range s.objs {
		switch o.kind {
		case objMutex:
			*(*sync.Mutex)(p) = sync.Mutex{}
		case objRW:
			*(*sync.RWMutex)(p) = sync.RWMutex{}
		}
	}
}

func (s *Sim) abort(t *stask) {
	setCur(t.tk)
	raceDisable()
	t.gate <- resume{abort: true}
	for {
		req := <-s.reqCh
		if req.kind == OpDone {
			break
		}
		// a deferred call reached a wrapper that still talks to us: tell it again
		t.gate <- resume{abort: true}
	}
	raceEnable()
	t.state = stDone
}

// resumeTask lets t run until its next step-consuming announcement.
func (s *Sim) resumeTask(t *stask, r resume) {
	s.last = t
	setCur(t.tk)
	for {
		raceDisable()
		t.gate <- r
		req := <-s.reqCh
		raceEnable()
		if req.kind > regFirst {
			if req.kind == regParked {
				// the task has published its release edge and is now asleep
				return
			}
			r = s.register(t, &req)
			continue
		}
		if req.kind == OpDone {
			t.state = stDone
			t.req = request{kind: OpDone}
			s.out.LastProgress = s.step
			if req.str != "" {
				if strings.HasPrefix(req.str, unsupportedPrefix) {
					s.out.Unsupported = req.str
					s.stop = true
				} else if strings.HasPrefix(req.str, divergedPrefix) {
					s.out.Diverged = req.str
					s.stop = true
				} else {
					s.out.Panics = append(s.out.Panics, PanicInfo{Task: t.id, Step: s.step, Msg: req.str, Frames: req.frames, SpawnSite: t.spawnSite})
					s.trace("t%d PANIC %s in %s", t.id, req.str, req.frames)
					if s.cfg.StopOnPanic {
						s.stop = true
					}
				}
			}
			return
		}
		if req.kind == OpSpawn {
			c := s.newSTask(req.child, req.gate, req.str)
			c.parent = t
			c.spawnStep = s.step
			s.trace("t%d spawns t%d (%s)", t.id, c.id, req.str)
		}
		if req.kind == OpSelect {
			req.cases = cloneCases(req.cases)
		}
		if req.kind == OpSleep {
			t.until = s.now + req.n
		}
		t.req = req
		t.state = stPending
		return
	}
}

//go:norace
func cloneCases(in []selCaseReq) []selCaseReq {
	out := make([]selCaseReq, len(in))
	for i := range in {
		out[i] = in[i]
	}
	return out
}

func (s *Sim) fatal(msg string) {
	s.out.Fatal = msg
	s.stop = true
	s.trace("FATAL %s", msg)
}

// exec performs one scheduling step for t.
func (s *Sim) exec(t *stask) {
	s.step++
	t.steps++
	r := &t.req
	if t.state == stWoken {
		s.mix(uint64(t.id), uint64(opWake))
		s.trace("t%d wakes (%s)", t.id, r.kind)
		t.state = stPending
		rep := t.reply
		t.reply = resume{}
		s.resumeTask(t, rep)
		return
	}
	var rep resume
	oid := 0
	switch r.kind {
	case OpYield:
		// only harnesses yield (before every call they make, and when a simulated
		// peer pauses): the harness is alive and getting on with its scenario
		s.out.LastProgress = s.step
	case OpStart, OpSpawn, OpSleep:
	case OpGosched:
		s.count("probe.gosched", 1)
	case OpAtomic:
		oid = s.obj(r.obj, objAtomic).id
	case OpMutexLock:
		o := s.obj(r.obj, objMutex)
		oid = o.id
		o.locked = true
	case OpMutexTryLock:
		o := s.obj(r.obj, objMutex)
		oid = o.id
		if !o.locked {
			o.locked = true
			rep.ok = true
		} else {
			s.count("probe.trylock_failed", 1)
		}
	case OpMutexUnlock:
		o := s.obj(r.obj, objMutex)
		oid = o.id
		if !o.locked {
			s.fatal("fatal error: sync: unlock of unlocked mutex")
			return
		}
		o.locked = false
		if s.someoneWants(t, r.obj, OpMutexLock) {
			s.count("probe.unlock_with_waiter", 1)
		}
	case OpRLock:
		o := s.obj(r.obj, objRW)
		oid = o.id
		o.readers++
	case OpTryRLock:
		o := s.obj(r.obj, objRW)
		oid = o.id
		if !o.writer && o.pending == 0 {
			o.readers++
			rep.ok = true
		} else {
			s.count("probe.tryrlock_failed", 1)
		}
	case OpRUnlock:
		o := s.obj(r.obj, objRW)
		oid = o.id
		if o.readers == 0 {
			s.fatal("fatal error: sync: RUnlock of unlocked RWMutex")
			return
		}
		o.readers--
	case OpWLock:
		o := s.obj(r.obj, objRW)
		oid = o.id
		o.pending++
		if o.readers > 0 {
			s.count("probe.writer_waits_for_readers", 1)
		} else if o.writer {
			s.count("probe.writer_waits_for_writer", 1)
		}
		s.mix(uint64(t.id), uint64(r.kind), uint64(oid))
		s.trace("t%d %s #%d", t.id, r.kind, oid)
		r.kind = opWLockAcq
		s.last = t
		return
	case opWLockAcq:
		o := s.obj(r.obj, objRW)
		oid = o.id
		o.pending--
		o.writer = true
	case OpTryWLock:
		o := s.obj(r.obj, objRW)
		oid = o.id
		if !o.writer && o.readers == 0 && o.pending == 0 {
			o.writer = true
			rep.ok = true
		} else {
			s.count("probe.trywlock_failed", 1)
		}
	case OpWUnlock:
		o := s.obj(r.obj, objRW)
		oid = o.id
		if !o.writer {
			s.fatal("fatal error: sync: Unlock of unlocked RWMutex")
			return
		}
		o.writer = false
	case OpWGAdd:
		o := s.obj(r.obj, objWG)
		oid = o.id
		o.count += r.n
		if o.count < 0 {
			o.count = 0 // the real Add panics; keep the model sane
		}
	case OpWGWait:
		oid = s.obj(r.obj, objWG).id
	case OpPoolGet:
		o := s.obj(r.obj, objPool)
		oid = o.id
		rep = s.poolGet(o, r.sub)
	case OpPoolPut:
		o := s.obj(r.obj, objPool)
		oid = o.id
		s.poolPut(o, r.item, r.sub)
	case OpCondWait:
		o := s.obj(r.obj, objCond)
		oid = o.id
		var tk *condTicket
		for i, c := range o.condq {
			if c.t == t {
				tk = c
				if c.signalled { // notified between our Unlock and now: do not sleep
					o.condq = append(o.condq[:i:i], o.condq[i+1:]...)
				}
				break
			}
		}
		if tk == nil { // Wait without the registration step (not produced by ssync)
			tk = &condTicket{t: t}
			o.condq = append(o.condq, tk)
		}
		if tk.signalled {
			s.count("probe.cond_notified_before_sleeping", 1)
			break
		}
		tk.parked = true
		s.mix(uint64(t.id), uint64(r.kind), uint64(oid))
		s.trace("t%d %s #%d parks", t.id, r.kind, oid)
		t.parkedOn = fmt.Sprintf("cond#%d", oid)
		s.park(t)
		return
	case OpCondSignal:
		o := s.obj(r.obj, objCond)
		oid = o.id
		for i, c := range o.condq {
			if c.signalled {
				continue
			}
			c.signalled = true
			if c.parked {
				o.condq = append(o.condq[:i:i], o.condq[i+1:]...)
				c.t.state = stWoken
				c.t.reply = resume{how: howDone}
			}
			break
		}
	case OpCondBroadcast:
		o := s.obj(r.obj, objCond)
		oid = o.id
		var keep []*condTicket
		for _, c := range o.condq {
			c.signalled = true
			if c.parked {
				c.t.state = stWoken
				c.t.reply = resume{how: howDone}
			} else {
				keep = append(keep, c) // consumed when its task reaches the Wait step
			}
		}
		o.condq = keep
	case OpSend, OpRecv:
		c := s.chanOf(r.obj, r.chlen, r.chcap)
		if c != nil {
			oid = c.id
		}
		var ready bool
		if r.kind == OpSend {
			ready, rep = s.trySend(c)
		} else {
			ready, rep = s.tryRecv(c)
		}
		if !ready {
			if r.kind == OpSend {
				s.count("probe.send_parked", 1)
			} else {
				s.count("probe.recv_parked", 1)
			}
			s.mix(uint64(t.id), uint64(r.kind), uint64(oid), 1)
			s.trace("t%d %s #%d parks", t.id, r.kind, oid)
			if c != nil {
				w := &waiter{t: t, ch: c, send: r.kind == OpSend, box: r.box, put: r.put, selIdx: -1}
				t.waits = append(t.waits[:0], w)
				if w.send {
					c.sendq = append(c.sendq, w)
				} else {
					c.recvq = append(c.recvq, w)
				}
				t.parkedOn = fmt.Sprintf("chan#%d", oid)
			} else {
				t.parkedOn = "nil-chan"
			}
			s.park(t)
			return
		}
	case OpClose:
		c := s.chanOf(r.obj, r.chlen, r.chcap)
		rep.how = howReal
		if c != nil {
			oid = c.id
			if !c.closed {
				c.closed = true
				parked := len(c.recvq) + len(c.sendq)
				if len(c.sendq) > 0 {
					s.count("fault.close_with_parked_sender", 1)
				}
				if parked > 0 {
					s.count("fault.close_midop", 1)
				}
				for len(c.recvq) > 0 {
					s.wake(c.recvq[0], resume{how: howReal})
				}
				for len(c.sendq) > 0 {
					s.wake(c.sendq[0], resume{how: howReal})
				}
			}
		}
	case OpSelect:
		var ready []int
		for i := range r.cases {
			cs := &r.cases[i]
			c := s.chanOf(cs.key, cs.chlen, cs.chcap)
			if c == nil {
				continue
			}
			if cs.send {
				if c.closed || len(c.recvq) > 0 || c.len < c.cap {
					ready = append(ready, i)
				}
			} else {
				if c.len > 0 || c.closed || len(c.sendq) > 0 {
					ready = append(ready, i)
				}
			}
		}
		if len(ready) == 0 {
			if r.deflt {
				s.count("probe.select_default_taken", 1)
				rep = resume{how: howDefault, idx: -1}
				break
			}
			s.count("probe.select_parked", 1)
			s.mix(uint64(t.id), uint64(r.kind), 0, 1)
			s.trace("t%d select parks", t.id)
			t.waits = t.waits[:0]
			t.parkedOn = "select("
			for i := range r.cases {
				cs := &r.cases[i]
				c := s.chanOf(cs.key, cs.chlen, cs.chcap)
				if c == nil {
					continue
				}
				w := &waiter{t: t, ch: c, send: cs.send, box: cs.box, put: cs.put, selIdx: i}
				t.waits = append(t.waits, w)
				if w.send {
					c.sendq = append(c.sendq, w)
				} else {
					c.recvq = append(c.recvq, w)
				}
				if w.send {
					t.parkedOn += fmt.Sprintf("send:chan#%d ", c.id)
				} else {
					t.parkedOn += fmt.Sprintf("chan#%d ", c.id)
				}
			}
			t.parkedOn += ")"
			s.park(t)
			return
		}
		pick := ready[0]
		if len(ready) > 1 {
			s.count("fault.select_multi_ready", 1)
			pick = ready[s.drawN(len(ready))]
		}
		cs := &r.cases[pick]
		c := s.chanOf(cs.key, cs.chlen, cs.chcap)
		oid = c.id
		if cs.send {
			_, rep = s.trySend(c)
		} else {
			_, rep = s.tryRecv(c)
		}
		rep.idx = pick
	}
	s.mix(uint64(t.id), uint64(r.kind), uint64(oid))
	s.trace("t%d %s #%d", t.id, r.kind, oid)
	s.resumeTask(t, rep)
}

// someoneWants reports whether a task other than t is waiting to perform an
// operation of the given kind on obj (probes only).
func (s *Sim) someoneWants(t *stask, obj unsafe.Pointer, kind OpKind) bool {
	for _, u := range s.tasks {
		if u != t && u.state == stPending && u.req.kind == kind && u.req.obj == obj {
			return true
		}
	}
	return false
}

// park puts t to sleep: the task publishes its release edge first (it runs
// just long enough to do that), then stays blocked on its gate.
func (s *Sim) park(t *stask) {
	t.state = stParked
	s.last = t
	if RaceEnabled {
		s.resumeTask(t, resume{how: howPark})
		if t.state == stDone { // aborted/panicked while parking cannot happen, but stay safe
			return
		}
		t.state = stParked
	}
}

// wake marks the owner of w as served and removes all its queue entries.
func (s *Sim) wake(w *waiter, rep resume) {
	t := w.t
	rep.idx = w.selIdx
	for _, x := range t.waits {
		x.gone = true
		c := x.ch
		if x.send {
			c.sendq = removeWaiter(c.sendq, x)
		} else {
			c.recvq = removeWaiter(c.recvq, x)
		}
	}
	t.waits = t.waits[:0]
	t.state = stWoken
	rep.n = int64(s.step)
	t.reply = rep
	t.parkedOn = ""
}

func removeWaiter(q []*waiter, w *waiter) []*waiter {
	for i, x := range q {
		if x == w {
			copy(q[i:], q[i+1:])
			q[len(q)-1] = nil
			return q[:len(q)-1]
		}
	}
	return q
}

func (s *Sim) trySend(c *chanModel) (bool, resume) {
	if c == nil {
		return false, resume{}
	}
	if c.closed {
		return true, resume{how: howReal}
	}
	if len(c.recvq) > 0 {
		s.out.LastProgress = s.step
		s.count("probe.send_meets_parked_receiver", 1)
		w := c.recvq[0]
		box := w.box
		s.wake(w, resume{how: howDone, ok: true})
		return true, resume{how: howGive, box: box}
	}
	if c.len < c.cap {
		s.out.LastProgress = s.step
		c.len++
		return true, resume{how: howReal}
	}
	return false, resume{}
}

func (s *Sim) tryRecv(c *chanModel) (bool, resume) {
	if c == nil {
		return false, resume{}
	}
	if c.len > 0 {
		s.out.LastProgress = s.step
		c.len--
		rep := resume{how: howReal}
		if len(c.sendq) > 0 {
			s.count("probe.recv_admits_parked_sender", 1)
			w := c.sendq[0]
			rep.put = w.put
			c.len++
			s.wake(w, resume{how: howDone, ok: true})
		}
		return true, rep
	}
	if c.closed {
		return true, resume{how: howReal}
	}
	if len(c.sendq) > 0 {
		s.out.LastProgress = s.step
		s.count("probe.recv_meets_parked_sender", 1)
		w := c.sendq[0]
		box := w.box
		s.wake(w, resume{how: howDone, ok: true})
		return true, resume{how: howTake, box: box}
	}
	return false, resume{}
}

// register answers a non-step registration from the running task.
func (s *Sim) register(t *stask, r *request) resume {
	switch r.kind {
	case regNow:
		return resume{n: s.now}
	case regDraw:
		if r.n <= 0 {
			return resume{n: int64(s.draw64())}
		}
		return resume{n: int64(s.drawN(int(r.n)))}
	case regNote:
		s.trace("t%d note: %s", t.id, r.str)
		return resume{}
	case regCount:
		s.count(r.str, r.n)
		return resume{}
	case regStamp:
		s.out.LastProgress = s.step // harnesses stamp the invocation and the return of every call
		return resume{n: int64(s.step)}
	case regLiveChildren:
		// children of t spawned since step r.n that have not finished; with
		// r.sub == 1 only those that still have a channel send ahead of them or
		// under way (not yet started, or announced/parked in a send or a select)
		n := 0
		for _, c := range s.tasks {
			if c.parent != t || c.state == stDone || int64(c.spawnStep) < r.n {
				continue
			}
			if r.sub == 1 {
				k := c.req.kind
				if !(k == OpStart || k == OpSend || k == OpSelect) {
					continue
				}
			}
			n++
		}
		return resume{n: int64(n)}
	case regMarkClosed:
		if c := s.chanOf(r.obj, r.chlen, r.chcap); c != nil {
			c.closed = true
		}
		return resume{}
	case regKeyOrd:
		if s.keyOrd == nil {
			s.keyOrd = map[unsafe.Pointer]int64{}
		}
		n, seen := s.keyOrd[r.obj]
		if !seen {
			n = int64(len(s.keyOrd) + 1)
			s.keyOrd[r.obj] = n
		}
		return resume{n: n, ok: !seen}
	case regCondAdd:
		o := s.obj(r.obj, objCond)
		o.condq = append(o.condq, &condTicket{t: t})
		return resume{}
	case regTimerNew:
		s.ntimer++
		tm := &stimer{id: s.ntimer, when: s.now + r.n, ch: r.tch, active: true}
		if r.sub == 1 {
			tm.period = r.n
		}
		s.tseq++
		tm.seq = s.tseq
		if r.tch != nil {
			tm.cm = s.chanOf(r.obj, 0, 1)
		}
		if r.child != nil {
			c := s.newSTask(r.child, r.gate, "time.AfterFunc")
			c.state = stTimerWait
			tm.fnTask = c
		}
		s.timers = append(s.timers, tm)
		s.count("timer.armed", 1)
		s.trace("t%d arms timer %d for +%dns", t.id, tm.id, r.n)
		return resume{idx: tm.id}
	case regTimerStop, regTimerReset:
		var rep resume
		for _, tm := range s.timers {
			if tm.id == r.chlen {
				rep.ok = tm.active
				if r.kind == regTimerStop {
					tm.active = false
				} else {
					tm.active = true
					if tm.period > 0 {
						tm.period = r.n
					}
					tm.when = s.now + r.n
					s.tseq++
					tm.seq = s.tseq
				}
			}
		}
		return rep
	}
	return resume{}
}

func (s *Sim) pendingTimer() bool {
	for _, tm := range s.timers {
		if tm.active {
			return true
		}
	}
	for _, t := range s.tasks {
		if t.state == stPending && t.req.kind == OpSleep && t.until > s.now {
			return true
		}
	}
	return false
}

// advanceClock jumps to the earliest deadline and fires it. It reports false
// when there is nothing to wait for.
func (s *Sim) advanceClock() bool {
	var best *stimer
	for _, tm := range s.timers {
		if tm.active && (best == nil || tm.when < best.when || (tm.when == best.when && tm.seq < best.seq)) {
			best = tm
		}
	}
	var sleeper *stask
	for _, t := range s.tasks {
		if t.state == stPending && t.req.kind == OpSleep && t.until > s.now {
			if sleeper == nil || t.until < sleeper.until {
				sleeper = t
			}
		}
	}
	if best == nil && sleeper == nil {
		return false
	}
	if best != nil {
		// several timers due at the same instant (virtual time makes that common: every
		// sender of a publish arms its timeout at the same moment): which fires first
		// is a draw, not creation order
		var same []*stimer
		for _, tm := range s.timers {
			if tm.active && tm.when == best.when {
				same = append(same, tm)
			}
		}
		if len(same) > 1 {
			sort.Slice(same, func(i, j int) bool { return same[i].seq < same[j].seq })
			best = same[s.drawN(len(same))]
			s.count("fault.timer_tie", 1)
		}
	}
	sleeperFirst := sleeper != nil && (best == nil || sleeper.until <= best.when)
	if sleeperFirst && best != nil && sleeper.until == best.when && s.drawN(2) == 1 {
		// a sleeper and a timer due at the same instant: either may be served first
		sleeperFirst = false
		s.count("fault.timer_tie", 1)
	}
	if sleeperFirst {
		s.now = sleeper.until
		s.mix(0x7, uint64(s.now))
		s.trace("clock -> %dns (sleeper t%d)", s.now, sleeper.id)
		return true
	}
	if best.when > s.now {
		s.now = best.when
	}
	best.active = false
	if best.period > 0 {
		// a ticker ticks for as long as somebody can be interested, but a run is finite:
		// after 256 ticks it falls silent (counted), like a ticker that was stopped
		best.ticks++
		if best.ticks < 256 {
			best.active = true
			best.when += best.period
			s.tseq++
			best.seq = s.tseq
		} else {
			s.count("probe.ticker_silenced_after_256_ticks", 1)
		}
	}
	s.mix(0x7, uint64(s.now), uint64(best.id))
	s.count("fault.timer_fire", 1)
	s.trace("clock -> %dns, timer %d fires", s.now, best.id)
	if best.fnTask != nil {
		best.fnTask.state = stPending
		best.fnTask.req = request{kind: OpStart}
		return true
	}
	if best.ch != nil {
		raceDisable()
		select {
		case best.ch <- time.Unix(0, s.now):
			if best.cm.len < best.cm.cap {
				best.cm.len++
			}
		default:
		}
		raceEnable()
		if best.cm.len > 0 && len(best.cm.recvq) > 0 {
			w := best.cm.recvq[0]
			best.cm.len--
			// was the waiting select also able to proceed on another case? no: it was parked.
			s.count("probe.timer_wakes_parked_task", 1)
			s.wake(w, resume{how: howReal})
		} else {
			s.count("probe.timer_fires_before_its_reader_arrives", 1)
		}
	}
	return true
}

func (s *Sim) poolGet(o *object, mode uint8) resume {
	if len(o.items) == 0 {
		return resume{ok: false}
	}
	// fault: a sync.Pool may legally return nothing even when items were put
	if s.drawBool(s.cfg.PoolMiss) {
		s.count("fault.pool_miss", 1)
		return resume{ok: false}
	}
	i := len(o.items) - 1
	if len(o.items) > 1 && s.cfg.PoolReorder {
		j := s.drawN(len(o.items))
		if j != i {
			s.count("fault.pool_reorder", 1)
		}
		i = j
	}
	it := o.items[i]
	o.items = append(o.items[:i], o.items[i+1:]...)
	return resume{ok: true, item: it}
}

func (s *Sim) poolPut(o *object, item any, mode uint8) {
	if s.drawBool(s.cfg.PoolDrop) {
		s.count("fault.pool_drop", 1)
		return
	}
	o.items = append(o.items, item)
}

const (
	unsupportedPrefix = "simrt: unsupported: "
	divergedPrefix    = "simrt: model divergence: "
)

// ---- task side ----

func (t *task) main(fn func()) {
	defer t.sim.wg.Done()
	raceDisable()
	r := <-t.gate
	raceEnable()
	if r.abort {
		t.aborting = true
		t.finish("", "")
		return
	}
	defer func() {
		if t.aborting {
			t.finish("", "")
			return
		}
		if p := recover(); p != nil {
			msg := fmt.Sprint(p)
			if e, ok := p.(error); ok {
				msg = e.Error()
			}
			t.finish("panic: "+msg, frames(2, 8))
			return
		}
		t.finish("", "")
	}()
	fn()
}

func (t *task) finish(msg, fr string) {
	req := request{kind: OpDone, str: msg, frames: fr}
	if strings.HasPrefix(msg, "panic: "+unsupportedPrefix) || strings.HasPrefix(msg, "panic: "+divergedPrefix) {
		req.str = strings.TrimPrefix(msg, "panic: ")
	}
	raceDisable()
	t.sim.reqCh <- req
	raceEnable()
}

// frames returns the innermost non-runtime, non-simulator function names.
func frames(skip, max int) string {
	pc := make([]uintptr, 32)
	n := runtime.Callers(skip, pc)
	fr := runtime.CallersFrames(pc[:n])
	var out []string
	for {
		f, more := fr.Next()
		name := f.Function
		if name != "" && !strings.HasPrefix(name, "runtime.") && !strings.HasPrefix(name, "verif/sim/") {
			out = append(out, shortFunc(name))
		}
		if !more || len(out) >= max {
			break
		}
	}
	return strings.Join(out, " < ")
}

func shortFunc(name string) string {
	// strip type-parameter noise: chans.(*PubSub[...]).Pub -> chans.(*PubSub).Pub
	for {
		i := strings.Index(name, "[")
		if i < 0 {
			break
		}
		depth := 0
		j := i
		for ; j < len(name); j++ {
			if name[j] == '[' {
				depth++
			} else if name[j] == ']' {
				depth--
				if depth == 0 {
					break
				}
			}
		}
		if j >= len(name) {
			break
		}
		name = name[:i] + name[j+1:]
	}
	name = strings.TrimPrefix(name, "gopkg.in/typ.v4/")
	name = strings.TrimPrefix(name, "gopkg.in/")
	return name
}

// call announces an operation and blocks until the scheduler lets the task go on.
func (t *task) call(req request) resume {
	raceDisable()
	t.sim.reqCh <- req
	r := <-t.gate
	raceEnable()
	for r.how == howPark && !r.abort {
		// about to sleep in a wait queue: publish what happened before, as the
		// runtime does when it parks a goroutine on a channel or condition.
		if req.obj != nil {
			raceReleaseMerge(req.obj)
		}
		for i := range req.cases {
			if req.cases[i].key != nil {
				raceReleaseMerge(req.cases[i].key)
			}
		}
		raceDisable()
		t.sim.reqCh <- request{kind: regParked}
		r = <-t.gate
		raceEnable()
	}
	if r.abort {
		t.aborting = true
		runtime.Goexit()
	}
	return r
}

// Go starts fn as a new simulated task (or a plain goroutine outside a
// simulation). site names the spawning function for diagnostics.
func Go(fn func()) {
	t := current()
	if t == nil {
		go fn()
		return
	}
	if t.aborting {
		return
	}
	c := &task{sim: t.sim, gate: make(chan resume, 1)}
	t.sim.wgAdd()
	go c.main(fn)
	t.call(request{kind: OpSpawn, child: c, gate: c.gate, str: frames(3, 1)})
}

func (s *Sim) wgAdd() { s.wg.Add(1) }

// CondAdd puts the current task on the wait queue of the condition variable at
// obj. sync.Cond.Wait does this before it unlocks; ssync.Cond.Wait calls it at the
// same place.
func CondAdd(obj unsafe.Pointer) {
	t := current()
	if t == nil || t.aborting {
		return
	}
	t.call(request{kind: regCondAdd, obj: obj})
}

// Gosched stands in for runtime.Gosched in the rewritten code under test: one
// step at which the strategies prefer to run somebody else.
func Gosched() {
	t := current()
	if t == nil {
		runtime.Gosched()
		return
	}
	if t.aborting {
		return
	}
	t.call(request{kind: OpGosched})
}

// Yield is a pure scheduling point.
func Yield() {
	t := current()
	if t == nil || t.aborting {
		return
	}
	t.call(request{kind: OpYield})
}

// Point announces a simulated operation of the given kind on obj and returns
// the scheduler's verdict (meaningful for Try operations).
func Point(kind OpKind, obj unsafe.Pointer, n int64) (ok bool, active bool) {
	t := current()
	if t == nil || t.aborting {
		return false, false
	}
	r := t.call(request{kind: kind, obj: obj, n: n})
	return r.ok, true
}

// Aborting reports whether the current task is being unwound at the end of a run.
func Aborting() bool {
	t := current()
	return t != nil && t.aborting
}

// Draw returns a scheduler-owned draw in [0,n) (n<=0: 63 random bits).
func Draw(n int) int64 {
	t := current()
	if t == nil || t.aborting {
		return 0
	}
	return t.call(request{kind: regDraw, n: int64(n)}).n
}

// LiveChildrenSince returns how many tasks spawned by the current task at or
// after the given step stamp have not finished.
func LiveChildrenSince(stamp int64) int {
	t := current()
	if t == nil || t.aborting {
		return 0
	}
	return int(t.call(request{kind: regLiveChildren, n: stamp}).n)
}

// UnfinishedSendersSince is LiveChildrenSince restricted to children that have
// not started yet or are in (or about to enter) a channel send or a select.
func UnfinishedSendersSince(stamp int64) int {
	t := current()
	if t == nil || t.aborting {
		return 0
	}
	return int(t.call(request{kind: regLiveChildren, n: stamp, sub: 1}).n)
}

// Stamp returns the current global step number.
func Stamp() int64 {
	t := current()
	if t == nil || t.aborting {
		return 0
	}
	return t.call(request{kind: regStamp}).n
}

// Note adds a line to the trace.
func Note(s string) {
	t := current()
	if t == nil || t.aborting {
		return
	}
	if !t.sim.cfg.Trace {
		return
	}
	t.call(request{kind: regNote, str: s})
}

// Count bumps a named counter in the run's outcome.
func Count(name string, n int64) {
	t := current()
	if t == nil || t.aborting {
		return
	}
	t.call(request{kind: regCount, str: name, n: n})
}

// NowNanos returns virtual time.
func NowNanos() int64 {
	t := current()
	if t == nil || t.aborting {
		return 0
	}
	return t.call(request{kind: regNow}).n
}

// Sleep blocks the task for d of virtual time.
func Sleep(d time.Duration) {
	t := current()
	if t == nil {
		time.Sleep(d)
		return
	}
	if t.aborting {
		return
	}
	t.call(request{kind: OpSleep, n: int64(d)})
}

// Unsupported aborts the run as a harness problem (exit 2), never a violation.
func Unsupported(what string) {
	panic(unsupportedPrefix + what)
}

func diverge(what string) {
	panic(divergedPrefix + what)
}

// PoolGet asks the pool stub for an item.
func PoolGet(obj unsafe.Pointer) (any, bool, bool) {
	t := current()
	if t == nil || t.aborting {
		return nil, false, false
	}
	r := t.call(request{kind: OpPoolGet, obj: obj})
	if r.ok {
		raceAcquire(obj)
	}
	return r.item, r.ok, true
}

// PoolPut hands an item to the pool stub.
func PoolPut(obj unsafe.Pointer, item any) bool {
	t := current()
	if t == nil || t.aborting {
		return false
	}
	raceReleaseMerge(obj)
	t.call(request{kind: OpPoolPut, obj: obj, item: item})
	return true
}

// TimerNew arms a virtual timer that will send on ch (capacity 1).
func TimerNew(_ unsafe.Pointer, ch chan time.Time, d time.Duration) int {
	t := current()
	r := t.call(request{kind: regTimerNew, obj: chanKey(ch), tch: ch, n: int64(d)})
	return r.idx
}

// TickerNew arms a virtual ticker that sends on ch (capacity 1) every d; a tick
// that finds the channel full is dropped, as in the runtime.
func TickerNew(ch chan time.Time, d time.Duration) int {
	t := current()
	r := t.call(request{kind: regTimerNew, obj: chanKey(ch), tch: ch, n: int64(d), sub: 1})
	return r.idx
}

// TimerFunc arms a virtual timer that runs f as a new task when it fires.
func TimerFunc(d time.Duration, f func()) int {
	t := current()
	c := &task{sim: t.sim, gate: make(chan resume, 1)}
	t.sim.wgAdd()
	go c.main(f)
	r := t.call(request{kind: regTimerNew, child: c, gate: c.gate, n: int64(d)})
	return r.idx
}

// TimerStop stops a virtual timer and reports whether it was still armed.
func TimerStop(id int) bool {
	t := current()
	if t == nil || t.aborting {
		return false
	}
	return t.call(request{kind: regTimerStop, chlen: id}).ok
}

// TimerReset re-arms a virtual timer.
func TimerReset(id int, d time.Duration) bool {
	t := current()
	if t == nil || t.aborting {
		return false
	}
	return t.call(request{kind: regTimerReset, chlen: id, n: int64(d)}).ok
}
