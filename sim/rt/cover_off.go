//go:build race

package simrt

// CoverHits is unused in race builds.
var CoverHits [1]uint32

// Cover is a no-op in race builds.
func Cover(i int) {}
