package simrt

// Rand is a small self-contained PRNG (splitmix64 seeding, xoshiro256**), so
// that one integer decides a run identically on every Go version.
type Rand struct{ s [4]uint64 }

func splitmix(x *uint64) uint64 {
	*x += 0x9e3779b97f4a7c15
	z := *x
	z = (z ^ (z >> 30)) * 0xbf58476d1ce4e5b9
	z = (z ^ (z >> 27)) * 0x94d049bb133111eb
	return z ^ (z >> 31)
}

// Seed initialises the generator.
func (r *Rand) Seed(seed uint64) {
	x := seed
	for i := range r.s {
		r.s[i] = splitmix(&x)
	}
}

// NewRand returns a seeded generator.
func NewRand(seed uint64) *Rand { r := &Rand{}; r.Seed(seed); return r }

func rotl(x uint64, k uint) uint64 { return (x << k) | (x >> (64 - k)) }

// Uint64 returns 64 random bits.
func (r *Rand) Uint64() uint64 {
	s := &r.s
	res := rotl(s[1]*5, 7) * 9
	t := s[1] << 17
	s[2] ^= s[0]
	s[3] ^= s[1]
	s[1] ^= s[2]
	s[0] ^= s[3]
	s[2] ^= t
	s[3] = rotl(s[3], 45)
	return res
}

// Intn returns a value in [0,n).
func (r *Rand) Intn(n int) int {
	if n <= 1 {
		return 0
	}
	return int(r.Uint64() % uint64(n))
}

// Float64 returns a value in [0,1).
func (r *Rand) Float64() float64 { return float64(r.Uint64()>>11) / (1 << 53) }

// Bool returns true with probability p.
func (r *Rand) Bool(p float64) bool { return r.Float64() < p }

// Mix derives a new seed from parts.
func Mix(parts ...uint64) uint64 {
	x := uint64(0x243f6a8885a308d3)
	for _, p := range parts {
		x ^= p
		_ = splitmix(&x)
		x = splitmix(&x)
	}
	return x
}

// Perm returns a pseudo-random permutation of 0..n-1.
func (r *Rand) Perm(n int) []int {
	p := make([]int, n)
	for i := range p {
		j := r.Intn(i + 1)
		p[i] = p[j]
		p[j] = i
	}
	return p
}
