//go:build !race

package simrt

// CoverHits counts executions of the basic blocks simgen numbered in the
// rewritten copy. Plain builds only: exactly one task runs at a time, so the
// unsynchronised increment is safe, but the race detector would report it (and
// an atomic one would add happens-before edges between tasks).
var CoverHits [8192]uint32

// Cover records one execution of block i.
func Cover(i int) {
	if i >= 0 && i < len(CoverHits) {
		CoverHits[i]++
	}
}
