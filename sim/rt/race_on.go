//go:build race

package simrt

import (
	"runtime"
	"unsafe"
)

// RaceEnabled reports whether the binary was built with -race.
const RaceEnabled = true

func raceDisable()                      { runtime.RaceDisable() }
func raceEnable()                       { runtime.RaceEnable() }
func raceAcquire(p unsafe.Pointer)      { runtime.RaceAcquire(p) }
func raceReleaseMerge(p unsafe.Pointer) { runtime.RaceReleaseMerge(p) }
