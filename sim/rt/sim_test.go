package simrt_test

import (
	"fmt"
	"sync"
	"testing"
	"time"
	"unsafe"

	simrt "verif/sim/rt"
	"verif/sim/satomic"
	"verif/sim/srand"
	"verif/sim/ssync"
	"verif/sim/stime"
)

func runScenario(seed uint64, strat simrt.Strategy) *simrt.Outcome {
	s := simrt.New(simrt.Config{Seed: seed, Strategy: strat, StickyQ: 0.7, PCTDepth: 3, PCTSteps: 60, StallProb: 0.02, StopOnPanic: true})
	var mu ssync.Mutex
	var rw ssync.RWMutex
	counter := 0
	ch := make(chan int)
	bch := make(chan int, 2)
	got := []int{}
	done := make(chan struct{})
	for i := 0; i < 3; i++ {
		i := i
		s.Go(func() {
			for j := 0; j < 3; j++ {
				mu.Lock()
				counter++
				mu.Unlock()
				rw.RLock()
				_ = len(got)
				rw.RUnlock()
			}
			simrt.Send(ch, i)
			simrt.Send(bch, 10+i)
		})
	}
	s.Go(func() {
		for j := 0; j < 3; j++ {
			v := simrt.Recv(ch)
			rw.Lock()
			got = append(got, v)
			rw.Unlock()
		}
		for j := 0; j < 3; j++ {
			v, ok := simrt.Recv2(bch)
			if !ok {
				panic("closed?")
			}
			got = append(got, v)
		}
		simrt.Close(done)
	})
	s.Go(func() {
		tm := stime.NewTimer(5 * time.Second)
		sel := simrt.NewSelect(2, false)
		c0 := simrt.SelRecv(sel, 0, done)
		c1 := simrt.SelRecv(sel, 1, tm.C)
		switch sel.Wait() {
		case 0:
			_, ok := c0.Result()
			if ok {
				panic("done should be closed")
			}
			tm.Stop()
		case 1:
			_ = c1
			simrt.Recv(done)
		}
	})
	o := s.Run()
	if counter != 9 || len(got) != 6 {
		panic(fmt.Sprint("bad result ", counter, got, o.Stuck, o.StuckTasks, o.Panics))
	}
	return o
}

func TestBasic(t *testing.T) {
	for _, st := range []simrt.Strategy{simrt.StratRandom, simrt.StratSticky, simrt.StratPCT, simrt.StratRoundRobin} {
		hashes := map[uint64]bool{}
		for seed := uint64(0); seed < 300; seed++ {
			o := runScenario(seed, st)
			if o.Stuck || o.Truncated || len(o.Panics) > 0 || o.Diverged != "" {
				t.Fatalf("seed %d: %+v", seed, o)
			}
			o2 := runScenario(seed, st)
			if o.Hash != o2.Hash || o.Steps != o2.Steps {
				t.Fatalf("seed %d nondeterministic", seed)
			}
			hashes[o.Hash] = true
			// replay
		}
		t.Logf("strategy %d: %d distinct interleavings", st, len(hashes))
	}
}

func TestCloseWakesSender(t *testing.T) {
	if simrt.RaceEnabled {
		t.Skip("send racing close is a genuine race report")
	}
	panics := 0
	for seed := uint64(0); seed < 200; seed++ {
		s := simrt.New(simrt.Config{Seed: seed, StopOnPanic: true})
		ch := make(chan int)
		s.Go(func() { simrt.Send(ch, 1) })
		s.Go(func() { simrt.Close(ch) })
		o := s.Run()
		if len(o.Panics) == 1 {
			if o.Panics[0].Msg != "panic: send on closed channel" {
				t.Fatalf("msg %q", o.Panics[0].Msg)
			}
			panics++
		}
	}
	if panics != 200 {
		t.Fatalf("panics=%d", panics)
	}
}

func TestStuck(t *testing.T) {
	s := simrt.New(simrt.Config{Seed: 1})
	ch := make(chan int)
	s.Go(func() { simrt.Recv(ch) })
	o := s.Run()
	if !o.Stuck {
		t.Fatal("expected stuck")
	}
}

func TestBufferedFIFOWithParkedSenders(t *testing.T) {
	for seed := uint64(0); seed < 300; seed++ {
		s := simrt.New(simrt.Config{Seed: seed})
		ch := make(chan int, 1)
		var got []int
		s.Go(func() {
			simrt.Send(ch, 1)
			simrt.Send(ch, 2)
			simrt.Send(ch, 3)
		})
		s.Go(func() {
			for i := 0; i < 3; i++ {
				got = append(got, simrt.Recv(ch))
			}
		})
		o := s.Run()
		if fmt.Sprint(got) != "[1 2 3]" || o.Stuck {
			t.Fatalf("seed %d got %v", seed, got)
		}
	}
}

// OnSend reports the step at which the channel accepted the value: for a sender
// that had to park that is the receiver's step, before the sender runs again.
func TestOnSendStep(t *testing.T) {
	for seed := uint64(1); seed <= 200; seed++ {
		type rec struct {
			v    int
			step int64
		}
		var mu sync.Mutex
		var log []rec
		cfg := simrt.Config{Seed: seed, Strategy: simrt.Strategy(seed % 4), StickyQ: 0.5, PCTDepth: 3, PCTSteps: 40, StopOnPanic: true}
		cfg.OnSend = func(_ unsafe.Pointer, v any, step int64) {
			mu.Lock()
			log = append(log, rec{v.(int), step})
			mu.Unlock()
		}
		s := simrt.New(cfg)
		un := make(chan int)
		buf := make(chan int, 1)
		var before, after, recvAt [4]int64
		s.Go(func() {
			before[0] = simrt.Stamp()
			simrt.Send(un, 1)
			after[0] = simrt.Stamp()
			before[1] = simrt.Stamp()
			simrt.Send(buf, 2)
			after[1] = simrt.Stamp()
			before[2] = simrt.Stamp()
			simrt.Send(buf, 3) // parks unless the receiver was quick
			after[2] = simrt.Stamp()
			sel := simrt.NewSelect(1, false)
			before[3] = simrt.Stamp()
			simrt.SelSend(sel, 0, un, 4)
			sel.Wait()
			after[3] = simrt.Stamp()
		})
		s.Go(func() {
			simrt.Yield()
			for i, c := range []chan int{un, buf, buf, un} {
				simrt.Recv(c)
				recvAt[i] = simrt.Stamp()
			}
		})
		out := s.Run()
		if out.Stuck || len(out.Panics) > 0 || len(log) != 4 {
			t.Fatalf("seed %d: stuck=%v panics=%v log=%v", seed, out.Stuck, out.Panics, log)
		}
		for i, r := range log {
			if r.v != i+1 {
				t.Fatalf("seed %d: order %v", seed, log)
			}
			if r.step < before[i] || r.step > after[i] {
				t.Fatalf("seed %d: send %d accepted at step %d outside the call [%d,%d]", seed, r.v, r.step, before[i], after[i])
			}
			// unbuffered: accepted exactly when received
			if (i == 0 || i == 3) && r.step != recvAt[i] && r.step > recvAt[i] {
				t.Fatalf("seed %d: unbuffered send %d accepted at %d, received at %d", seed, r.v, r.step, recvAt[i])
			}
			if r.step > recvAt[i] {
				t.Fatalf("seed %d: send %d accepted at %d after it was received at %d", seed, r.v, r.step, recvAt[i])
			}
		}
	}
}

// A notification issued between a waiter's Unlock and its going to sleep must not
// be lost: sync.Cond.Wait joins the wait queue before it unlocks. (A model that
// enqueued only at the sleep step reported a correct Cond-based readers-writer
// gate as deadlocked.)
func TestCondNoLostWakeup(t *testing.T) {
	for _, strat := range []simrt.Strategy{simrt.StratRandom, simrt.StratSticky, simrt.StratPCT, simrt.StratPOS} {
		for seed := uint64(1); seed <= 3000; seed++ {
			s := simrt.New(simrt.Config{Seed: seed, Strategy: strat, StickyQ: 0.7, PCTDepth: 3, PCTSteps: 30, StopOnPanic: true})
			var mu ssync.Mutex
			cond := ssync.NewCond(&mu)
			ready := 0
			for i := 0; i < 2; i++ {
				s.Go(func() {
					mu.Lock()
					for ready == 0 {
						cond.Wait()
					}
					ready--
					mu.Unlock()
				})
			}
			s.Go(func() {
				mu.Lock()
				ready++
				cond.Signal()
				mu.Unlock()
				mu.Lock()
				ready++
				cond.Broadcast()
				mu.Unlock()
			})
			out := s.Run()
			if out.Stuck || len(out.Panics) > 0 || out.Truncated {
				t.Fatalf("strategy %v seed %d: stuck=%v %v panics=%v", strat, seed, out.Stuck, out.StuckTasks, out.Panics)
			}
		}
	}
}

// Signal wakes exactly one waiter: with two waiters and one Signal one of them
// stays asleep.
func TestCondSignalWakesOne(t *testing.T) {
	for seed := uint64(1); seed <= 500; seed++ {
		s := simrt.New(simrt.Config{Seed: seed, Strategy: simrt.StratRandom, StopOnPanic: true})
		var mu ssync.Mutex
		cond := ssync.NewCond(&mu)
		woken := 0
		waiting := 0
		for i := 0; i < 2; i++ {
			s.Go(func() {
				mu.Lock()
				waiting++
				cond.Wait()
				woken++
				mu.Unlock()
			})
		}
		s.Go(func() {
			for {
				mu.Lock()
				w := waiting
				mu.Unlock()
				if w == 2 {
					break
				}
				simrt.Gosched()
			}
			mu.Lock()
			cond.Signal()
			mu.Unlock()
		})
		out := s.Run()
		if !out.Stuck || woken != 1 {
			t.Fatalf("seed %d: stuck=%v woken=%d (want a stuck end with exactly one waiter woken)", seed, out.Stuck, woken)
		}
	}
}

// A ticket lock whose waiters poll with Gosched (or just poll) must make progress
// under every strategy: the priority-based ones yield a spinner's priority.
func TestSpinWaitIsNotStarved(t *testing.T) {
	for _, polite := range []bool{true, false} {
		for _, strat := range []simrt.Strategy{simrt.StratRandom, simrt.StratSticky, simrt.StratPCT, simrt.StratPOS} {
			for seed := uint64(1); seed <= 400; seed++ {
				s := simrt.New(simrt.Config{Seed: seed, Strategy: strat, StickyQ: 0.95, PCTDepth: 3, PCTSteps: 60, MaxSteps: 20000, StopOnPanic: true})
				var next, serving satomic.Uint64
				inside := 0
				for i := 0; i < 3; i++ {
					s.Go(func() {
						for k := 0; k < 2; k++ {
							my := next.Add(1) - 1
							for serving.Load() != my {
								if polite {
									simrt.Gosched()
								}
							}
							inside++
							if inside != 1 {
								panic("two holders")
							}
							inside--
							serving.Add(1)
						}
					})
				}
				out := s.Run()
				if out.Stuck || out.Truncated || len(out.Panics) > 0 {
					t.Fatalf("polite=%v strategy %v seed %d: stuck=%v truncated=%v panics=%v after %d steps", polite, strat, seed, out.Stuck, out.Truncated, out.Panics, out.Steps)
				}
			}
		}
	}
}

// math/rand's global functions are scheduler draws inside a simulation: equal
// seeds give equal values, and the values are in the decision log.
func TestGlobalRandIsAReplayableDraw(t *testing.T) {
	run := func(seed uint64) ([]int, *simrt.Outcome) {
		s := simrt.New(simrt.Config{Seed: seed, Strategy: simrt.StratRandom})
		var got []int
		s.Go(func() {
			for i := 0; i < 5; i++ {
				got = append(got, srand.Intn(1000))
			}
			srand.Shuffle(4, func(i, j int) {})
		})
		return got, s.Run()
	}
	a, oa := run(7)
	b, ob := run(7)
	c, _ := run(8)
	if fmt.Sprint(a) != fmt.Sprint(b) || oa.Hash != ob.Hash {
		t.Fatalf("same seed, different values: %v %v", a, b)
	}
	if fmt.Sprint(a) == fmt.Sprint(c) {
		t.Fatalf("different seeds, same values: %v", a)
	}
	if len(oa.Draws) < 5 {
		t.Fatalf("draws not logged: %v", oa.Draws)
	}
}

// A ticker ticks on the virtual clock, drops ticks nobody takes, and stops.
func TestTicker(t *testing.T) {
	s := simrt.New(simrt.Config{Seed: 3, Strategy: simrt.StratRandom})
	n := 0
	var last time.Time
	s.Go(func() {
		tk := stime.NewTicker(10 * time.Millisecond)
		for n < 5 {
			now := simrt.Recv(tk.C)
			if n > 0 && now.Sub(last) < 10*time.Millisecond {
				panic("ticks closer together than the period")
			}
			last = now
			n++
		}
		tk.Stop()
	})
	out := s.Run()
	if n != 5 || out.Stuck || len(out.Panics) > 0 || out.SimNanos < int64(50*time.Millisecond) {
		t.Fatalf("n=%d stuck=%v panics=%v simulated=%v", n, out.Stuck, out.Panics, time.Duration(out.SimNanos))
	}
}

// Real sync.RWMutex: a pending writer excludes new readers (so a recursive read
// lock can deadlock), TryRLock fails while a writer waits, TryLock fails while
// readers are inside. The model must be able to produce exactly those outcomes.
func TestRWMutexWriterPreference(t *testing.T) {
	sawDeadlock, sawFinish := false, false
	for seed := uint64(1); seed <= 400; seed++ {
		s := simrt.New(simrt.Config{Seed: seed, Strategy: simrt.StratRandom})
		var rw ssync.RWMutex
		s.Go(func() {
			rw.RLock()
			simrt.Yield()
			rw.RLock() // recursive read lock: deadlocks iff a writer announced itself in between
			rw.RUnlock()
			rw.RUnlock()
		})
		s.Go(func() {
			rw.Lock()
			rw.Unlock()
		})
		out := s.Run()
		if out.Stuck {
			sawDeadlock = true
		} else {
			sawFinish = true
		}
	}
	if !sawDeadlock || !sawFinish {
		t.Fatalf("recursive RLock with a concurrent writer: deadlock seen=%v, completion seen=%v (both are possible in Go)", sawDeadlock, sawFinish)
	}
	// Try* against the real primitive in the same situations
	var real sync.RWMutex
	real.RLock()
	if real.TryLock() {
		t.Fatal("real TryLock succeeded with a reader inside")
	}
	s := simrt.New(simrt.Config{Seed: 1, Strategy: simrt.StratRoundRobin})
	var rw ssync.RWMutex
	okW, okR := true, false
	s.Go(func() {
		rw.RLock()
		okW = rw.TryLock()
		okR = rw.TryRLock()
		rw.RUnlock()
		rw.RUnlock()
	})
	if out := s.Run(); out.Stuck || okW || !okR {
		t.Fatalf("with a reader inside: TryLock=%v (want false) TryRLock=%v (want true) stuck=%v", okW, okR, out.Stuck)
	}
}

// Timer.Stop and Reset report what the runtime reports: true while the timer is
// pending, false once it has fired or was stopped.
func TestTimerStopReset(t *testing.T) {
	s := simrt.New(simrt.Config{Seed: 1, Strategy: simrt.StratRoundRobin})
	var r []bool
	s.Go(func() {
		tm := stime.NewTimer(time.Second)
		r = append(r, tm.Stop())                  // pending: true
		r = append(r, tm.Stop())                  // already stopped: false
		r = append(r, tm.Reset(time.Millisecond)) // was stopped: false
		stime.Sleep(10 * time.Millisecond)
		r = append(r, tm.Stop()) // fired: false
		select {
		case <-tm.C:
			r = append(r, true) // the tick is in the channel
		default:
			r = append(r, false)
		}
	})
	s.Run()
	if fmt.Sprint(r) != "[true false false false true]" {
		t.Fatalf("got %v", r)
	}
}

// outcomes runs body under many seeds and strategies and returns how often each
// outcome string was seen ("stuck" for a run that ended with tasks blocked).
func outcomes(t *testing.T, n int, body func(s *simrt.Sim, result *string)) map[string]int {
	t.Helper()
	seen := map[string]int{}
	for _, strat := range []simrt.Strategy{simrt.StratRandom, simrt.StratSticky, simrt.StratPCT, simrt.StratPOS} {
		for seed := uint64(1); seed <= uint64(n); seed++ {
			s := simrt.New(simrt.Config{Seed: seed, Strategy: strat, StickyQ: 0.7, PCTDepth: 3, PCTSteps: 20, StopOnPanic: false})
			var res string
			body(s, &res)
			out := s.Run()
			switch {
			case len(out.Panics) > 0:
				seen["panic:"+out.Panics[0].Msg]++
			case out.Stuck:
				seen["stuck"]++
			default:
				seen[res]++
			}
		}
	}
	return seen
}

func wantOutcomes(t *testing.T, name string, got map[string]int, want ...string) {
	t.Helper()
	w := map[string]bool{}
	for _, x := range want {
		w[x] = true
		if got[x] == 0 {
			t.Errorf("%s: outcome %q is possible in Go but was never produced (got %v)", name, x, got)
		}
	}
	for x := range got {
		if !w[x] {
			t.Errorf("%s: outcome %q was produced but is impossible in Go (got %v)", name, x, got)
		}
	}
}

// Litmus programs: small concurrent programs whose sets of possible outcomes under
// the Go runtime are known; the simulator must produce exactly those sets.
func TestLitmus(t *testing.T) {
	// mutex barging: after Unlock the same goroutine may take the lock again before a
	// goroutine that was already waiting
	wantOutcomes(t, "barging", outcomes(t, 300, func(s *simrt.Sim, res *string) {
		var mu ssync.Mutex
		order := ""
		s.Go(func() {
			mu.Lock()
			simrt.Yield()
			mu.Unlock()
			mu.Lock()
			order += "A"
			mu.Unlock()
			*res = order
		})
		s.Go(func() {
			mu.Lock()
			order += "B"
			mu.Unlock()
			*res = order
		})
	}), "AB", "BA") // "AB" is the barging order: A relocked although B was waiting
	// WaitGroup: Wait returns only after both Done calls
	wantOutcomes(t, "waitgroup", outcomes(t, 200, func(s *simrt.Sim, res *string) {
		var wg ssync.WaitGroup
		n := 0
		s.Go(func() {
			wg.Add(2) // inside the simulation: the model only knows what it has seen
			for i := 0; i < 2; i++ {
				simrt.Go(func() { simrt.Yield(); n++; wg.Done() })
			}
			wg.Wait()
			*res = fmt.Sprint(n)
		})
	}), "2")
	// select with a ready send and a ready receive: either, never both
	wantOutcomes(t, "select-two-ready", outcomes(t, 200, func(s *simrt.Sim, res *string) {
		in := make(chan int, 1)
		out := make(chan int, 1)
		in <- 7
		s.Go(func() {
			sel := simrt.NewSelect(2, false)
			c0 := simrt.SelRecv(sel, 0, in)
			simrt.SelSend(sel, 1, out, 9)
			switch sel.Wait() {
			case 0:
				v, _ := c0.Result()
				*res = fmt.Sprint("recv", v, len(out))
			case 1:
				*res = fmt.Sprint("send", len(in), len(out))
			}
		})
	}), "recv7 0", "send1 1")
	// close wakes every parked receiver with (zero,false); a parked sender panics
	wantOutcomes(t, "close-wakes-receivers", outcomes(t, 200, func(s *simrt.Sim, res *string) {
		ch := make(chan int)
		got := 0
		var wg ssync.WaitGroup
		s.Go(func() {
			wg.Add(2)
			for i := 0; i < 2; i++ {
				simrt.Go(func() {
					if v, ok := simrt.Recv2(ch); !ok && v == 0 {
						got++
					}
					wg.Done()
				})
			}
			simrt.Yield()
			simrt.Close(ch)
			wg.Wait()
			*res = fmt.Sprint(got)
		})
	}), "2")
	wantOutcomes(t, "close-with-parked-sender", outcomes(t, 200, func(s *simrt.Sim, res *string) {
		ch := make(chan int)
		s.Go(func() { simrt.Send(ch, 1); *res = "sent" })
		s.Go(func() { simrt.Yield(); simrt.Close(ch) })
	}), "panic:panic: send on closed channel")
	// Once: a panicking function counts as the one invocation
	wantOutcomes(t, "once-panic-counts", outcomes(t, 100, func(s *simrt.Sim, res *string) {
		var once ssync.Once
		calls := 0
		s.Go(func() {
			func() {
				defer func() { recover() }()
				once.Do(func() { calls++; panic("boom") })
			}()
			once.Do(func() { calls++ })
			*res = fmt.Sprint(calls)
		})
	}), "1")
	// a timer against a peer: either the value or the timeout, and if the timeout
	// won the value is still in the channel
	wantOutcomes(t, "timer-vs-peer", outcomes(t, 300, func(s *simrt.Sim, res *string) {
		ch := make(chan int, 1)
		s.Go(func() {
			tm := stime.NewTimer(time.Millisecond)
			sel := simrt.NewSelect(2, false)
			c0 := simrt.SelRecv(sel, 0, ch)
			simrt.SelRecv(sel, 1, tm.C)
			switch sel.Wait() {
			case 0:
				v, _ := c0.Result()
				*res = fmt.Sprint("value", v)
			case 1:
				*res = "timeout"
			}
		})
		s.Go(func() { stime.Sleep(time.Millisecond); simrt.Send(ch, 5) })
	}), "value5", "timeout")
}

// Map keys that are (or contain) channels or pointers are ordered by when they were
// inserted, never by address: the same seed gives the same iteration order although
// every execution allocates its channels somewhere else.
func TestMapOrderOverIdentityKeys(t *testing.T) {
	type ck struct {
		ch chan int
		id int
	}
	run := func(seed uint64) string {
		s := simrt.New(simrt.Config{Seed: seed, Strategy: simrt.StratRandom, MapShuffle: true})
		got := ""
		var keep [][]byte
		s.Go(func() {
			plain := map[chan int]int{}
			comp := map[ck]int{}
			for i := 0; i < 6; i++ {
				keep = append(keep, make([]byte, 1+int(seed%7)*64)) // move the allocator around
				c := make(chan int)
				plain[simrt.Key(c)] = i
				comp[simrt.Key(ck{c, i % 2})] = i
			}
			for _, k := range simrt.MapOrder(plain) {
				got += fmt.Sprint(plain[k])
			}
			got += "/"
			for _, k := range simrt.MapOrder(comp) {
				got += fmt.Sprint(comp[k])
			}
		})
		s.Run()
		_ = keep
		return got
	}
	a, b := run(11), run(11)
	if a != b || len(a) != 13 {
		t.Fatalf("same seed, different orders: %q %q", a, b)
	}
	if c := run(12); c == a {
		t.Logf("seeds 11 and 12 happen to give the same order %q", a)
	}
}
