// Package srand stands in for math/rand in the rewritten copy of the code under
// test. The package-level functions of math/rand draw from a global source that Go
// seeds at random: a library that uses them (a randomised back-off, treap
// priorities, slices.Shuffle) would make equal seeds give different runs. Inside a
// simulation they draw from the scheduler instead (each call is a scheduler-owned
// draw, recorded in the replay file); outside they are math/rand's. Explicit
// generators (rand.New(rand.NewSource(n))) are deterministic already and are passed
// through.
package srand

import (
	"math/rand"

	simrt "verif/sim/rt"
)

type (
	Rand     = rand.Rand
	Source   = rand.Source
	Source64 = rand.Source64
	Zipf     = rand.Zipf
)

func New(src Source) *Rand                             { return rand.New(src) }
func NewSource(seed int64) Source                      { return rand.NewSource(seed) }
func NewZipf(r *Rand, s, v float64, imax uint64) *Zipf { return rand.NewZipf(r, s, v, imax) }

// simSource is a rand.Source64 whose values are scheduler draws.
type simSource struct{}

func (simSource) Int63() int64    { return simrt.Draw(0) }
func (simSource) Uint64() uint64  { return uint64(simrt.Draw(0))<<1 ^ uint64(simrt.Draw(2)) }
func (simSource) Seed(seed int64) {}

func active() bool { return simrt.Active() && !simrt.Aborting() }

// g returns a generator over scheduler draws inside a simulation, nil outside.
func g() *rand.Rand {
	if active() {
		return rand.New(simSource{})
	}
	return nil
}

func Seed(seed int64) {
	if !active() {
		rand.Seed(seed) //nolint:staticcheck // pass-through of the API under substitution
	}
}
func Int63() int64 {
	if r := g(); r != nil {
		return r.Int63()
	}
	return rand.Int63()
}
func Uint32() uint32 {
	if r := g(); r != nil {
		return r.Uint32()
	}
	return rand.Uint32()
}
func Uint64() uint64 {
	if r := g(); r != nil {
		return r.Uint64()
	}
	return rand.Uint64()
}
func Int31() int32 {
	if r := g(); r != nil {
		return r.Int31()
	}
	return rand.Int31()
}
func Int() int {
	if r := g(); r != nil {
		return r.Int()
	}
	return rand.Int()
}
func Int63n(n int64) int64 {
	if r := g(); r != nil {
		return r.Int63n(n)
	}
	return rand.Int63n(n)
}
func Int31n(n int32) int32 {
	if r := g(); r != nil {
		return r.Int31n(n)
	}
	return rand.Int31n(n)
}
func Intn(n int) int {
	if r := g(); r != nil {
		return r.Intn(n)
	}
	return rand.Intn(n)
}
func Float64() float64 {
	if r := g(); r != nil {
		return r.Float64()
	}
	return rand.Float64()
}
func Float32() float32 {
	if r := g(); r != nil {
		return r.Float32()
	}
	return rand.Float32()
}
func Perm(n int) []int {
	if r := g(); r != nil {
		return r.Perm(n)
	}
	return rand.Perm(n)
}
func Shuffle(n int, swap func(i, j int)) {
	if r := g(); r != nil {
		r.Shuffle(n, swap)
		return
	}
	rand.Shuffle(n, swap)
}
func Read(p []byte) (n int, err error) {
	if r := g(); r != nil {
		return r.Read(p)
	}
	return rand.Read(p) //nolint:staticcheck
}
func NormFloat64() float64 {
	if r := g(); r != nil {
		return r.NormFloat64()
	}
	return rand.NormFloat64()
}
func ExpFloat64() float64 {
	if r := g(); r != nil {
		return r.ExpFloat64()
	}
	return rand.ExpFloat64()
}
