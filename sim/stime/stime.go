// Package stime stands in for package time in the rewritten copy of the code
// under test. Types and constants are the real ones; what reads or waits for
// the clock (Now, Sleep, timers) uses the simulator's virtual clock inside a
// simulation and the real clock outside.
package stime

import (
	"time"
	"unsafe"

	simrt "verif/sim/rt"
)

type (
	Duration   = time.Duration
	Time       = time.Time
	Month      = time.Month
	Weekday    = time.Weekday
	Location   = time.Location
	ParseError = time.ParseError
)

const (
	Nanosecond  = time.Nanosecond
	Microsecond = time.Microsecond
	Millisecond = time.Millisecond
	Second      = time.Second
	Minute      = time.Minute
	Hour        = time.Hour

	Layout      = time.Layout
	ANSIC       = time.ANSIC
	UnixDate    = time.UnixDate
	RubyDate    = time.RubyDate
	RFC822      = time.RFC822
	RFC822Z     = time.RFC822Z
	RFC850      = time.RFC850
	RFC1123     = time.RFC1123
	RFC1123Z    = time.RFC1123Z
	RFC3339     = time.RFC3339
	RFC3339Nano = time.RFC3339Nano
	Kitchen     = time.Kitchen
	Stamp       = time.Stamp
	StampMilli  = time.StampMilli
	StampMicro  = time.StampMicro
	StampNano   = time.StampNano
	DateTime    = time.DateTime
	DateOnly    = time.DateOnly
	TimeOnly    = time.TimeOnly

	January   = time.January
	February  = time.February
	March     = time.March
	April     = time.April
	May       = time.May
	June      = time.June
	July      = time.July
	August    = time.August
	September = time.September
	October   = time.October
	November  = time.November
	December  = time.December

	Sunday    = time.Sunday
	Monday    = time.Monday
	Tuesday   = time.Tuesday
	Wednesday = time.Wednesday
	Thursday  = time.Thursday
	Friday    = time.Friday
	Saturday  = time.Saturday
)

var (
	UTC   = time.UTC
	Local = time.Local

	Parse           = time.Parse
	ParseInLocation = time.ParseInLocation
	ParseDuration   = time.ParseDuration
	Unix            = time.Unix
	UnixMilli       = time.UnixMilli
	UnixMicro       = time.UnixMicro
	Date            = time.Date
	LoadLocation    = time.LoadLocation
	FixedZone       = time.FixedZone
)

// epoch of the virtual clock.
var epoch = time.Unix(1_600_000_000, 0)

// Now returns the (virtual) current time.
func Now() Time {
	if simrt.Active() {
		return epoch.Add(time.Duration(simrt.NowNanos()))
	}
	return time.Now()
}

// Since returns the time elapsed since t.
func Since(t Time) Duration { return Now().Sub(t) }

// Until returns the duration until t.
func Until(t Time) Duration { return t.Sub(Now()) }

// Sleep pauses the current goroutine.
func Sleep(d Duration) { simrt.Sleep(d) }

// Timer replaces time.Timer.
type Timer struct {
	C    <-chan Time
	real *time.Timer
	id   int
	sim  bool
}

// NewTimer creates a Timer that sends the time on C after d.
func NewTimer(d Duration) *Timer {
	if simrt.Active() && !simrt.Aborting() {
		ch := make(chan Time, 1)
		id := simrt.TimerNew(unsafe.Pointer(&ch), ch, d)
		return &Timer{C: ch, id: id, sim: true}
	}
	rt := time.NewTimer(d)
	return &Timer{C: rt.C, real: rt}
}

// AfterFunc runs f in its own goroutine after d.
func AfterFunc(d Duration, f func()) *Timer {
	if simrt.Active() && !simrt.Aborting() {
		id := simrt.TimerFunc(d, f)
		return &Timer{id: id, sim: true}
	}
	return &Timer{real: time.AfterFunc(d, f)}
}

// Stop prevents the Timer from firing.
func (t *Timer) Stop() bool {
	if t.sim {
		// Stop is a separate instant from whatever preceded it: the clock may
		// advance, and the timer fire, in between
		simrt.Yield()
		return simrt.TimerStop(t.id)
	}
	return t.real.Stop()
}

// Reset changes the timer to expire after d.
func (t *Timer) Reset(d Duration) bool {
	if t.sim {
		simrt.Yield()
		return simrt.TimerReset(t.id, d)
	}
	return t.real.Reset(d)
}

// After waits for the duration to elapse and then sends the time.
func After(d Duration) <-chan Time { return NewTimer(d).C }

// Ticker replaces time.Ticker.
type Ticker struct {
	C    <-chan Time
	real *time.Ticker
	id   int
	sim  bool
}

// NewTicker returns a new Ticker.
func NewTicker(d Duration) *Ticker {
	if d <= 0 {
		panic("non-positive interval for NewTicker")
	}
	if simrt.Active() && !simrt.Aborting() {
		ch := make(chan Time, 1)
		return &Ticker{C: ch, id: simrt.TickerNew(ch, d), sim: true}
	}
	rt := time.NewTicker(d)
	return &Ticker{C: rt.C, real: rt}
}

// Stop turns off the ticker.
func (t *Ticker) Stop() {
	if t.sim {
		simrt.Yield()
		simrt.TimerStop(t.id)
		return
	}
	t.real.Stop()
}

// Reset changes the ticker's period.
func (t *Ticker) Reset(d Duration) {
	if d <= 0 {
		panic("non-positive interval for Ticker.Reset")
	}
	if t.sim {
		simrt.Yield()
		simrt.TimerReset(t.id, d)
		return
	}
	t.real.Reset(d)
}

// Tick is time.Tick.
func Tick(d Duration) <-chan Time {
	if d <= 0 {
		return nil
	}
	return NewTicker(d).C
}
