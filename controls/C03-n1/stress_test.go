package sync2_test

// Model-based check of property C03 (set algebra in both Set implementations).
// Drop this file into the sync2 directory of the module and run
//   go test -race -run TestC03Stress ./sync2

import (
	"fmt"
	"math/rand"
	"sort"
	"strings"
	"sync"
	"testing"

	"gopkg.in/typ.v4/maps"
	"gopkg.in/typ.v4/sets"
	"gopkg.in/typ.v4/sync2"
)

const c03Universe = 12

type c03Model map[int]bool

func (m c03Model) sorted() []int {
	out := make([]int, 0, len(m))
	for v := range m {
		out = append(out, v)
	}
	sort.Ints(out)
	return out
}

func c03RandomModel(rng *rand.Rand) c03Model {
	m := c03Model{}
	density := rng.Intn(4) // 0 gives many empty sets
	for v := 0; v < c03Universe; v++ {
		if rng.Intn(4) < density {
			m[v] = true
		}
	}
	return m
}

// c03Build returns a set with exactly the members of want. The route taken to
// get there is random: members are added, removed, re-added, and the set is
// read (Has misses, Range, Len) along the way, which for the concurrent set
// decides what sits in its read map, its dirty map and as deleted entries.
func c03Build(t *testing.T, rng *rand.Rand, concurrent bool, want c03Model) sets.Set[int] {
	t.Helper()
	var s sets.Set[int]
	switch {
	case concurrent && rng.Intn(3) == 0:
		s = sync2.NewSetFromSlice(want.sorted())
	case concurrent:
		s = &sync2.Set[int]{}
	case rng.Intn(3) == 0:
		s = maps.NewSetFromSlice(want.sorted())
	default:
		s = make(maps.Set[int])
	}
	cur := c03Model{}
	s.Range(func(v int) bool { cur[v] = true; return true })
	steps := rng.Intn(40)
	for i := 0; i < steps; i++ {
		v := rng.Intn(c03Universe + 4) // a few values outside the universe too
		switch rng.Intn(7) {
		case 0, 1:
			if got := s.Add(v); got != !cur[v] {
				t.Fatalf("history Add(%d)=%v with member=%v", v, got, cur[v])
			}
			cur[v] = true
		case 2, 3:
			if got := s.Remove(v); got != cur[v] {
				t.Fatalf("history Remove(%d)=%v with member=%v", v, got, cur[v])
			}
			delete(cur, v)
		case 4:
			if got := s.Has(v); got != cur[v] {
				t.Fatalf("history Has(%d)=%v with member=%v", v, got, cur[v])
			}
		case 5:
			n := 0
			s.Range(func(int) bool { n++; return true })
			if n != len(cur) {
				t.Fatalf("history Range saw %d, want %d", n, len(cur))
			}
		case 6:
			if got := s.Len(); got != len(cur) {
				t.Fatalf("history Len=%d, want %d", got, len(cur))
			}
		}
	}
	// Fix up to the wanted membership, in random order.
	for _, v := range rng.Perm(c03Universe + 4) {
		switch {
		case want[v] && !cur[v]:
			if !s.Add(v) {
				t.Fatalf("fixup Add(%d) reported no change", v)
			}
		case !want[v] && cur[v]:
			if !s.Remove(v) {
				t.Fatalf("fixup Remove(%d) reported no change", v)
			}
		}
	}
	c03Check(t, "built", s, want)
	return s
}

// c03Check compares every observer of s against the model.
func c03Check(t *testing.T, what string, s sets.Set[int], want c03Model) {
	t.Helper()
	if got := s.Len(); got != len(want) {
		t.Fatalf("%s: Len=%d want %d (%v)", what, got, len(want), want.sorted())
	}
	for v := -1; v < c03Universe+5; v++ {
		if got := s.Has(v); got != want[v] {
			t.Fatalf("%s: Has(%d)=%v want %v", what, v, got, want[v])
		}
	}
	sl := s.Slice()
	sort.Ints(sl)
	if fmt.Sprint(sl) != fmt.Sprint(want.sorted()) {
		t.Fatalf("%s: Slice=%v want %v", what, sl, want.sorted())
	}
	var ranged []int
	s.Range(func(v int) bool { ranged = append(ranged, v); return true })
	sort.Ints(ranged)
	if fmt.Sprint(ranged) != fmt.Sprint(want.sorted()) {
		t.Fatalf("%s: Range=%v want %v", what, ranged, want.sorted())
	}
	// Range stops as soon as the callback says so.
	for stopAfter := 1; stopAfter <= len(want); stopAfter++ {
		calls := 0
		s.Range(func(int) bool { calls++; return calls < stopAfter })
		if calls != stopAfter {
			t.Fatalf("%s: Range made %d calls, callback stopped at %d", what, calls, stopAfter)
		}
	}
	str := s.String()
	if !strings.HasPrefix(str, "{") || !strings.HasSuffix(str, "}") {
		t.Fatalf("%s: String=%q", what, str)
	}
	fields := strings.Fields(str[1 : len(str)-1])
	var parsed []int
	for _, f := range fields {
		var v int
		if _, err := fmt.Sscan(f, &v); err != nil {
			t.Fatalf("%s: String=%q: %v", what, str, err)
		}
		parsed = append(parsed, v)
	}
	sort.Ints(parsed)
	if fmt.Sprint(parsed) != fmt.Sprint(want.sorted()) {
		t.Fatalf("%s: String=%q want members %v", what, str, want.sorted())
	}
	wantStr := "{" + strings.Join(fields, " ") + "}"
	if str != wantStr {
		t.Fatalf("%s: String=%q is not single-space separated", what, str)
	}
}

func c03SameImpl(a, b sets.Set[int]) bool {
	return fmt.Sprintf("%T", a) == fmt.Sprintf("%T", b)
}

func TestC03Stress(t *testing.T) {
	rng := rand.New(rand.NewSource(3))
	for iter := 0; iter < 400; iter++ {
		ma, mb := c03RandomModel(rng), c03RandomModel(rng)
		if rng.Intn(10) == 0 {
			mb = c03Model{}
			for v := range ma {
				mb[v] = true
			}
		}
		for pairing := 0; pairing < 4; pairing++ {
			a := c03Build(t, rng, pairing&1 != 0, ma)
			b := c03Build(t, rng, pairing&2 != 0, mb)
			c03Algebra(t, rng, a, b, ma, mb)
		}
		// A paired with itself.
		for _, concurrent := range []bool{false, true} {
			a := c03Build(t, rng, concurrent, ma)
			c03Algebra(t, rng, a, a, ma, ma)
			if got := a.AddSet(a); got != 0 {
				t.Fatalf("A.AddSet(A)=%d", got)
			}
			c03Check(t, "A after A.AddSet(A)", a, ma)
			if got := a.RemoveSet(a); got != len(ma) {
				t.Fatalf("A.RemoveSet(A)=%d want %d", got, len(ma))
			}
			c03Check(t, "A after A.RemoveSet(A)", a, c03Model{})
		}
	}
}

func c03Algebra(t *testing.T, rng *rand.Rand, a, b sets.Set[int], ma, mb c03Model) {
	t.Helper()
	union, inter, diff, sym := c03Model{}, c03Model{}, c03Model{}, c03Model{}
	for v := range ma {
		union[v] = true
		if mb[v] {
			inter[v] = true
		} else {
			diff[v] = true
			sym[v] = true
		}
	}
	for v := range mb {
		union[v] = true
		if !ma[v] {
			sym[v] = true
		}
	}
	ops := []struct {
		name string
		run  func() sets.Set[int]
		want c03Model
	}{
		{"Union", func() sets.Set[int] { return a.Union(b) }, union},
		{"Intersect", func() sets.Set[int] { return a.Intersect(b) }, inter},
		{"SetDiff", func() sets.Set[int] { return a.SetDiff(b) }, diff},
		{"SymDiff", func() sets.Set[int] { return a.SymDiff(b) }, sym},
		{"Clone", func() sets.Set[int] { return a.Clone() }, ma},
	}
	for _, op := range ops {
		r := op.run()
		what := fmt.Sprintf("%T.%s(%T) A=%v B=%v", a, op.name, b, ma.sorted(), mb.sorted())
		c03Check(t, what+" result", r, op.want)
		c03Check(t, what+" A afterwards", a, ma)
		c03Check(t, what+" B afterwards", b, mb)
		if !c03SameImpl(r, a) {
			t.Fatalf("%s: result is a %T", what, r)
		}
		// No shared state, result -> operands.
		for v := 0; v < c03Universe; v++ {
			if rng.Intn(2) == 0 {
				r.Add(v)
			} else {
				r.Remove(v)
			}
		}
		c03Check(t, what+" A after mutating result", a, ma)
		c03Check(t, what+" B after mutating result", b, mb)
		// No shared state, operands -> result.
		r2 := op.run()
		a.Add(100)
		b.Add(101)
		for v := range ma {
			a.Remove(v)
		}
		for v := range mb {
			b.Remove(v)
		}
		c03Check(t, what+" result after mutating operands", r2, op.want)
		a.Remove(100)
		b.Remove(101)
		a.Remove(101) // a and b may be the same set
		b.Remove(100)
		for v := range ma {
			a.Add(v)
		}
		for v := range mb {
			b.Add(v)
		}
		c03Check(t, what+" A restored", a, ma)
		c03Check(t, what+" B restored", b, mb)
	}

	// AddSet / RemoveSet counts, on a clone so a stays put.
	c := a.Clone()
	if got, want := c.AddSet(b), len(union)-len(ma); got != want {
		t.Fatalf("%T.AddSet(%T)=%d want %d A=%v B=%v", a, b, got, want, ma.sorted(), mb.sorted())
	}
	c03Check(t, "after AddSet", c, union)
	c03Check(t, "AddSet argument", b, mb)
	if got := c.AddSet(b); got != 0 {
		t.Fatalf("second AddSet=%d", got)
	}
	c = a.Clone()
	if got, want := c.RemoveSet(b), len(inter); got != want {
		t.Fatalf("%T.RemoveSet(%T)=%d want %d A=%v B=%v", a, b, got, want, ma.sorted(), mb.sorted())
	}
	c03Check(t, "after RemoveSet", c, diff)
	c03Check(t, "RemoveSet argument", b, mb)
	if got := c.RemoveSet(b); got != 0 {
		t.Fatalf("second RemoveSet=%d", got)
	}

	// Cartesian product: exactly |A|*|B| distinct pairs, all from A x B.
	prod := sets.CartesianProduct(a, b)
	if len(prod) != len(ma)*len(mb) {
		t.Fatalf("CartesianProduct has %d pairs want %d", len(prod), len(ma)*len(mb))
	}
	seen := map[sets.Product[int, int]]bool{}
	for _, p := range prod {
		if seen[p] || !ma[p.A] || !mb[p.B] {
			t.Fatalf("CartesianProduct pair %v duplicate or foreign", p)
		}
		seen[p] = true
	}
	c03Check(t, "A after product", a, ma)
	c03Check(t, "B after product", b, mb)
}

func TestC03Constructors(t *testing.T) {
	rng := rand.New(rand.NewSource(33))
	for iter := 0; iter < 300; iter++ {
		n := rng.Intn(20)
		slice := make([]int, n)
		keyed := map[int]int{}
		want := c03Model{}
		wantVals := c03Model{}
		for i := range slice {
			slice[i] = rng.Intn(c03Universe)
			want[slice[i]] = true
		}
		for v := range want {
			keyed[v] = rng.Intn(4)
			wantVals[keyed[v]] = true
		}
		c03Check(t, "maps.NewSetFromSlice", maps.NewSetFromSlice(slice), want)
		c03Check(t, "sync2.NewSetFromSlice", sync2.NewSetFromSlice(slice), want)
		c03Check(t, "maps.NewSetFromKeys", maps.NewSetFromKeys(keyed), want)
		c03Check(t, "sync2.NewSetFromKeys", sync2.NewSetFromKeys(keyed), want)
		c03Check(t, "maps.NewSetFromValues", maps.NewSetFromValues(keyed), wantVals)
		c03Check(t, "sync2.NewSetFromValues", sync2.NewSetFromValues(keyed), wantVals)
		// The constructor result does not share state with its input.
		s := maps.NewSetFromSlice(slice)
		for i := range slice {
			slice[i] = 999
		}
		c03Check(t, "maps.NewSetFromSlice after input changed", s, want)
	}
}

// TestC03ConcurrentUse hammers one concurrent set from several goroutines
// (for the race detector) and checks the final membership and that the
// true-results of Add and Remove per value balance out.
func TestC03ConcurrentUse(t *testing.T) {
	var s sync2.Set[int]
	const workers, rounds, values = 8, 400, 16
	var wg sync.WaitGroup
	added := make([][values]int, workers)
	removed := make([][values]int, workers)
	for w := 0; w < workers; w++ {
		wg.Add(1)
		go func(w int) {
			defer wg.Done()
			rng := rand.New(rand.NewSource(int64(w)))
			other := maps.NewSetFromSlice([]int{1, 3, 5, 7})
			for i := 0; i < rounds; i++ {
				v := rng.Intn(values)
				switch rng.Intn(8) {
				case 0, 1:
					if s.Add(v) {
						added[w][v]++
					}
				case 2, 3:
					if s.Remove(v) {
						removed[w][v]++
					}
				case 4:
					s.Has(v)
				case 5:
					seen := map[int]bool{}
					s.Range(func(x int) bool {
						if seen[x] {
							t.Errorf("Range visited %d twice", x)
						}
						seen[x] = true
						return true
					})
				case 6:
					if n := s.Len(); n < 0 || n > values {
						t.Errorf("Len=%d", n)
					}
					_ = s.String()
					_ = s.Slice()
				case 7:
					r := s.Union(other)
					for _, x := range []int{1, 3, 5, 7} {
						if !r.Has(x) {
							t.Errorf("Union lost %d", x)
						}
					}
					_ = s.Intersect(other)
					_ = s.SetDiff(other)
					_ = s.SymDiff(other)
					_ = s.Clone()
				}
			}
		}(w)
	}
	wg.Wait()
	for v := 0; v < values; v++ {
		a, r := 0, 0
		for w := 0; w < workers; w++ {
			a += added[w][v]
			r += removed[w][v]
		}
		want := 0
		if s.Has(v) {
			want = 1
		}
		if a-r != want {
			t.Fatalf("value %d: %d successful adds, %d successful removes, member=%v", v, a, r, s.Has(v))
		}
	}
	n := 0
	s.Range(func(int) bool { n++; return true })
	if n != s.Len() {
		t.Fatalf("Range saw %d, Len=%d", n, s.Len())
	}
}
