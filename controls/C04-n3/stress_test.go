// Stress tests for the re-implemented sync2.Map (negative control, change 3).

package sync2_test

import (
	"fmt"
	"math"
	"math/rand"
	"sync"
	"sync/atomic"
	"testing"
	"time"

	"gopkg.in/typ.v4/sync2"
)

// ---------------------------------------------------------------------------
// Sequential: random histories against a plain map.

func TestStress3SequentialModel(t *testing.T) {
	for seed := int64(1); seed <= 60; seed++ {
		r := rand.New(rand.NewSource(seed))
		var m sync2.Map[int, int]
		model := map[int]int{}
		keys := 1 + r.Intn(40)
		steps := 200 + r.Intn(3000)
		for i := 0; i < steps; i++ {
			k, v := r.Intn(keys), r.Int()
			switch op := r.Intn(11); {
			case op < 2:
				got, ok := m.Load(k)
				want, wok := model[k]
				if got != want || ok != wok {
					t.Fatalf("seed %d step %d: Load(%d) = %d,%v want %d,%v", seed, i, k, got, ok, want, wok)
				}
			case op < 4:
				m.Store(k, v)
				model[k] = v
			case op < 6:
				got, loaded := m.LoadOrStore(k, v)
				want, wok := model[k]
				if !wok {
					model[k], want = v, v
				}
				if got != want || loaded != wok {
					t.Fatalf("seed %d step %d: LoadOrStore(%d) = %d,%v want %d,%v", seed, i, k, got, loaded, want, wok)
				}
			case op < 8:
				got, loaded := m.LoadAndDelete(k)
				want, wok := model[k]
				delete(model, k)
				if got != want || loaded != wok {
					t.Fatalf("seed %d step %d: LoadAndDelete(%d) = %d,%v want %d,%v", seed, i, k, got, loaded, want, wok)
				}
			case op < 10:
				m.Delete(k)
				delete(model, k)
			default:
				seen := map[int]int{}
				limit := -1
				if r.Intn(3) == 0 {
					limit = r.Intn(keys + 1)
				}
				calls := 0
				m.Range(func(k, v int) bool {
					if _, dup := seen[k]; dup {
						t.Fatalf("seed %d step %d: Range visited %d twice", seed, i, k)
					}
					seen[k] = v
					calls++
					return calls != limit
				})
				for k, v := range seen {
					if w, ok := model[k]; !ok || w != v {
						t.Fatalf("seed %d step %d: Range saw %d=%d, model has %d,%v", seed, i, k, v, w, ok)
					}
				}
				if limit < 0 || calls < limit {
					if len(seen) != len(model) {
						t.Fatalf("seed %d step %d: Range saw %d keys, model has %d", seed, i, len(seen), len(model))
					}
				}
			}
		}
	}
}

// Range with a function that itself uses the map (it must not deadlock and
// the final content must be what a plain map would hold).
func TestStress3RangeReentrant(t *testing.T) {
	var m sync2.Map[int, int]
	for i := 0; i < 100; i++ {
		m.Store(i, i)
	}
	visited := 0
	m.Range(func(k, v int) bool {
		if k%1000 != v {
			t.Fatalf("Range saw %d=%d", k, v)
		}
		if k >= 1000 {
			return true // added by this very call; visiting it is allowed
		}
		visited++
		m.Delete(k)
		m.Store(k+1000, v)
		m.LoadOrStore(k+2000, v)
		if _, ok := m.Load(k); ok {
			t.Fatalf("key %d still there after Delete inside Range", k)
		}
		m.Range(func(int, int) bool { return false })
		return true
	})
	if visited != 100 {
		t.Fatalf("visited %d of the 100 keys present before Range", visited)
	}
	n := 0
	m.Range(func(k, v int) bool {
		n++
		if k < 1000 || k%1000 != v {
			t.Fatalf("unexpected %d=%d", k, v)
		}
		return true
	})
	if n != 200 {
		t.Fatalf("%d keys left, want 200", n)
	}
}

// ---------------------------------------------------------------------------
// Concurrent: small histories checked for linearizability by exhaustive search.

type linOp3 struct {
	kind     int // 0 Load, 1 Store, 2 LoadOrStore, 3 LoadAndDelete, 4 Delete
	key, arg int
	val      int
	ok       bool
	inv, ret int64
}

func (o linOp3) String() string {
	name := [...]string{"Load", "Store", "LoadOrStore", "LoadAndDelete", "Delete"}[o.kind]
	return fmt.Sprintf("[%d,%d] %s(k%d, %d) = %d,%v", o.inv, o.ret, name, o.key, o.arg, o.val, o.ok)
}

// linStep3 applies o to state if its recorded result is what a plain map gives.
func linStep3(state map[int]int, o linOp3) (undo func(), legal bool) {
	old, had := state[o.key]
	restore := func() {
		if had {
			state[o.key] = old
		} else {
			delete(state, o.key)
		}
	}
	switch o.kind {
	case 0:
		return restore, o.ok == had && o.val == old
	case 1:
		state[o.key] = o.arg
		return restore, true
	case 2:
		if had {
			return restore, o.ok && o.val == old
		}
		state[o.key] = o.arg
		return restore, !o.ok && o.val == o.arg
	case 3:
		delete(state, o.key)
		return restore, o.ok == had && o.val == old
	default:
		delete(state, o.key)
		return restore, true
	}
}

// linearizable3 searches for an order of ops that respects real time and the
// map semantics, ending in a state that agrees with final.
func linearizable3(ops []linOp3, done []bool, left int, state, final map[int]int) bool {
	if left == 0 {
		if len(state) != len(final) {
			return false
		}
		for k, v := range state {
			if w, ok := final[k]; !ok || w != v {
				return false
			}
		}
		return true
	}
	minRet := int64(1 << 62)
	for i, o := range ops {
		if !done[i] && o.ret < minRet {
			minRet = o.ret
		}
	}
	for i, o := range ops {
		if done[i] || o.inv > minRet {
			continue
		}
		undo, legal := linStep3(state, o)
		if legal {
			done[i] = true
			if linearizable3(ops, done, left-1, state, final) {
				return true
			}
			done[i] = false
		}
		undo()
	}
	return false
}

func TestStress3LinearizableHistories(t *testing.T) {
	deadline := time.Now().Add(8 * time.Second)
	rounds := 0
	for seed := int64(1); time.Now().Before(deadline) && rounds < 40000; seed++ {
		rounds++
		r := rand.New(rand.NewSource(seed))
		var m sync2.Map[int, int]
		// A prefix run by one goroutine drives the map into some internal state.
		pre := map[int]int{}
		if seed%2 == 0 {
			for i, n := 0, r.Intn(50); i < n; i++ {
				k := r.Intn(14)
				if r.Intn(2) == 0 {
					m.Delete(k)
					delete(pre, k)
				} else {
					m.Store(k, -i-1)
					pre[k] = -i - 1
				}
			}
		} else {
			// Some keys stored, then most of them deleted again: a map that is
			// about to tidy up does so in the middle of the concurrent part.
			n := 5 + r.Intn(8)
			for k := 0; k < n; k++ {
				m.Store(k, -k-1)
				pre[k] = -k - 1
			}
			for k, gone := n-1, 4+r.Intn(5); k >= 0 && gone > 0; k, gone = k-1, gone-1 {
				m.Delete(k)
				delete(pre, k)
			}
		}
		workers := 2 + r.Intn(3)
		perWorker := 2 + r.Intn(3)
		plans := make([][]linOp3, workers)
		for w := range plans {
			for j := 0; j < perWorker; j++ {
				plans[w] = append(plans[w], linOp3{kind: r.Intn(5), key: r.Intn(2), arg: w*100 + j + 1})
			}
		}
		var clock int64
		var wg sync.WaitGroup
		start := make(chan struct{})
		for w := range plans {
			wg.Add(1)
			go func(plan []linOp3) {
				defer wg.Done()
				<-start
				for j := range plan {
					o := &plan[j]
					o.inv = atomic.AddInt64(&clock, 1)
					switch o.kind {
					case 0:
						o.val, o.ok = m.Load(o.key)
					case 1:
						m.Store(o.key, o.arg)
					case 2:
						o.val, o.ok = m.LoadOrStore(o.key, o.arg)
					case 3:
						o.val, o.ok = m.LoadAndDelete(o.key)
					case 4:
						m.Delete(o.key)
					}
					o.ret = atomic.AddInt64(&clock, 1)
				}
			}(plans[w])
		}
		close(start)
		wg.Wait()

		final := map[int]int{}
		m.Range(func(k, v int) bool { final[k] = v; return true })
		var ops []linOp3
		for _, p := range plans {
			ops = append(ops, p...)
		}
		state := map[int]int{}
		for k, v := range pre {
			state[k] = v
		}
		if !linearizable3(ops, make([]bool, len(ops)), len(ops), state, final) {
			t.Fatalf("seed %d: history is not linearizable3\nbefore: %v\nafter: %v\nops: %v", seed, pre, final, ops)
		}
	}
	t.Logf("%d histories checked", rounds)
}

// ---------------------------------------------------------------------------
// Concurrent: every goroutine owns some keys and checks them against its own
// plain map, while all of them churn shared keys and some run Range.

func TestStress3OwnersChurnAndRange(t *testing.T) {
	// Many keys, few removals of slots.
	t.Run("wide", func(t *testing.T) { stressOwners3(t, 6, 24, 64, 16, 4*time.Second) })
	// Few keys: about half of them are absent at any time, so whatever the map
	// does to get rid of deleted keys happens all the time.
	t.Run("narrow", func(t *testing.T) { stressOwners3(t, 4, 4, 2, 2, 4*time.Second) })
}

func stressOwners3(t *testing.T, owners, ownKeys, stable, churn int, d time.Duration) {
	const (
		ownBase    = 0
		stableBase = 1_000_000
		churnBase  = 2_000_000
	)
	var m sync2.Map[int, int]
	for i := 0; i < stable; i++ {
		m.Store(stableBase+i, -i)
	}
	// Values of churn keys encode the key: value%churn == key-churnBase.
	stop := make(chan struct{})
	var wg sync.WaitGroup
	fail := make(chan string, 64)
	report := func(format string, args ...any) {
		select {
		case fail <- fmt.Sprintf(format, args...):
		default:
		}
	}

	for g := 0; g < owners; g++ {
		wg.Add(1)
		go func(g int) {
			defer wg.Done()
			r := rand.New(rand.NewSource(int64(g) + 1))
			model := map[int]int{}
			for n := 0; ; n++ {
				select {
				case <-stop:
					return
				default:
				}
				if r.Intn(4) == 0 {
					c := r.Intn(churn)
					k, v := churnBase+c, r.Intn(1<<20)*churn+c
					switch r.Intn(4) {
					case 0:
						m.Store(k, v)
					case 1:
						m.Delete(k)
					case 2:
						if got, _ := m.LoadOrStore(k, v); got%churn != c {
							report("LoadOrStore(churn %d) = %d", c, got)
						}
					default:
						if got, ok := m.LoadAndDelete(k); ok && got%churn != c {
							report("LoadAndDelete(churn %d) = %d", c, got)
						}
					}
					continue
				}
				k, v := ownBase+g*ownKeys+r.Intn(ownKeys), n
				want, had := model[k]
				switch r.Intn(6) {
				case 0:
					if got, ok := m.Load(k); ok != had || got != want {
						report("owner %d: Load(%d) = %d,%v want %d,%v", g, k, got, ok, want, had)
					}
				case 1:
					m.Store(k, v)
					model[k] = v
				case 2:
					got, loaded := m.LoadOrStore(k, v)
					if !had {
						model[k], want = v, v
					}
					if loaded != had || got != want {
						report("owner %d: LoadOrStore(%d) = %d,%v want %d,%v", g, k, got, loaded, want, had)
					}
				case 3:
					got, loaded := m.LoadAndDelete(k)
					delete(model, k)
					if loaded != had || got != want {
						report("owner %d: LoadAndDelete(%d) = %d,%v want %d,%v", g, k, got, loaded, want, had)
					}
				default:
					m.Delete(k)
					delete(model, k)
				}
			}
		}(g)
	}

	for g := 0; g < 2; g++ {
		wg.Add(1)
		go func() {
			defer wg.Done()
			for {
				select {
				case <-stop:
					return
				default:
				}
				seen := map[int]bool{}
				nStable := 0
				m.Range(func(k, v int) bool {
					if seen[k] {
						report("Range visited %d twice", k)
					}
					seen[k] = true
					switch {
					case k >= churnBase:
						if v%churn != k-churnBase {
							report("Range saw churn key %d with %d", k-churnBase, v)
						}
					case k >= stableBase:
						nStable++
						if v != -(k - stableBase) {
							report("Range saw stable key %d with %d", k, v)
						}
					}
					return true
				})
				if nStable != stable {
					report("Range visited %d of %d untouched keys", nStable, stable)
				}
			}
		}()
	}

	timer := time.NewTimer(d)
	select {
	case msg := <-fail:
		close(stop)
		wg.Wait()
		t.Fatal(msg)
	case <-timer.C:
	}
	close(stop)
	wg.Wait()
	select {
	case msg := <-fail:
		t.Fatal(msg)
	default:
	}
}

// ---------------------------------------------------------------------------
// Concurrent: exactly one winner per round for LoadOrStore and LoadAndDelete.

func TestStress3SingleWinner(t *testing.T) {
	const workers = 4
	var m sync2.Map[string, int]
	for round := 0; round < 3000; round++ {
		key := fmt.Sprint("k", round%7)
		var wg sync.WaitGroup
		var stored, same int32
		results := make([]int, workers)
		for w := 0; w < workers; w++ {
			wg.Add(1)
			go func(w int) {
				defer wg.Done()
				got, loaded := m.LoadOrStore(key, round*workers+w)
				results[w] = got
				if !loaded {
					atomic.AddInt32(&stored, 1)
					if got != round*workers+w {
						atomic.AddInt32(&same, 1)
					}
				}
			}(w)
		}
		wg.Wait()
		if stored != 1 || same != 0 {
			t.Fatalf("round %d: %d goroutines stored (want 1), %d got a foreign value back", round, stored, same)
		}
		for _, got := range results {
			if got != results[0] {
				t.Fatalf("round %d: LoadOrStore results differ: %v", round, results)
			}
		}
		if got, ok := m.Load(key); !ok || got != results[0] {
			t.Fatalf("round %d: Load = %d,%v want %d", round, got, ok, results[0])
		}
		var deleted int32
		for w := 0; w < workers; w++ {
			wg.Add(1)
			go func() {
				defer wg.Done()
				if got, loaded := m.LoadAndDelete(key); loaded {
					atomic.AddInt32(&deleted, 1)
					if got != results[0] {
						t.Errorf("round %d: LoadAndDelete = %d want %d", round, got, results[0])
					}
				}
			}()
		}
		wg.Wait()
		if deleted != 1 {
			t.Fatalf("round %d: %d goroutines deleted the key, want 1", round, deleted)
		}
		if got, ok := m.Load(key); ok {
			t.Fatalf("round %d: key resurrected with %d", round, got)
		}
	}
}

// ---------------------------------------------------------------------------
// Concurrent: one writer per key stores increasing numbers; readers and Range
// must never see a number go backwards or one that was not written yet.

func TestStress3MonotoneValues(t *testing.T) {
	const keys = 8
	var m sync2.Map[int, int64]
	var written [keys]int64 // highest number handed to Store so far, per key
	stop := make(chan struct{})
	var wg sync.WaitGroup
	for k := 0; k < keys; k++ {
		wg.Add(1)
		go func(k int) {
			defer wg.Done()
			for n := int64(1); ; n++ {
				select {
				case <-stop:
					return
				default:
				}
				atomic.StoreInt64(&written[k], n)
				m.Store(k, n)
				if n%5 == 0 {
					// Delete and put back, through a different path each time.
					if got, ok := m.LoadAndDelete(k); !ok || got != n {
						t.Errorf("LoadAndDelete(%d) = %d,%v want %d", k, got, ok, n)
						return
					}
					if got, loaded := m.LoadOrStore(k, n); loaded || got != n {
						t.Errorf("LoadOrStore(%d) = %d,%v want %d,false", k, got, loaded, n)
						return
					}
				}
			}
		}(k)
	}
	for g := 0; g < 3; g++ {
		wg.Add(1)
		go func(g int) {
			defer wg.Done()
			var floor [keys]int64
			check := func(k int, v, before int64) bool {
				after := atomic.LoadInt64(&written[k])
				if v < floor[k] || v > after || v < before-1 {
					t.Errorf("key %d: saw %d; seen earlier %d, written before %d, after %d", k, v, floor[k], before, after)
					return false
				}
				floor[k] = v
				return true
			}
			for i := 0; ; i++ {
				select {
				case <-stop:
					return
				default:
				}
				if g == 0 {
					var before [keys]int64
					for k := range before {
						before[k] = atomic.LoadInt64(&written[k])
					}
					good := true
					m.Range(func(k int, v int64) bool {
						good = check(k, v, before[k])
						return good
					})
					if !good {
						return
					}
					continue
				}
				k := i % keys
				before := atomic.LoadInt64(&written[k])
				if v, ok := m.Load(k); ok && !check(k, v, before) {
					return
				}
			}
		}(g)
	}
	time.Sleep(4 * time.Second)
	close(stop)
	wg.Wait()
}

// ---------------------------------------------------------------------------
// NaN keys behave as in a plain map: every Store adds an entry that no lookup
// finds again, and Range shows them all.

func TestStress3NaNKeys(t *testing.T) {
	var m sync2.Map[float64, int]
	plain := map[float64]int{}
	nan := math.NaN()
	for i := 0; i < 40; i++ {
		m.Store(nan, i)
		plain[nan] = i
		if got, loaded := m.LoadOrStore(nan, -i); loaded || got != -i {
			t.Fatalf("LoadOrStore(NaN) = %d,%v", got, loaded)
		}
		plain[nan] = -i
		if _, ok := m.Load(nan); ok {
			t.Fatal("Load(NaN) found something")
		}
		if _, ok := m.LoadAndDelete(nan); ok {
			t.Fatal("LoadAndDelete(NaN) found something")
		}
		m.Store(float64(i), i)
		plain[float64(i)] = i
		m.Delete(float64(i / 2))
		delete(plain, float64(i/2))
	}
	n, sum := 0, 0
	m.Range(func(k float64, v int) bool { n++; sum += v; return true })
	wantSum := 0
	for _, v := range plain {
		wantSum += v
	}
	if n != len(plain) || sum != wantSum {
		t.Fatalf("Range saw %d entries summing to %d, a plain map has %d summing to %d", n, sum, len(plain), wantSum)
	}
}
