// Stress test for the re-implemented sync2.Set (interned ids + atomic bitmap).
package sync2_test

import (
	"math/rand"
	"sort"
	"sync"
	"sync/atomic"
	"testing"

	"gopkg.in/typ.v4/sets"
	"gopkg.in/typ.v4/sync2"
)

// ---- sequential: random histories against a plain map ----

func TestStressSet_SequentialModel(t *testing.T) {
	for seed := int64(1); seed <= 30; seed++ {
		rng := rand.New(rand.NewSource(seed))
		universe := []int{3, 9, 40, 700, 5000}[rng.Intn(5)]
		var s sync2.Set[int]
		model := map[int]struct{}{}
		for step := 0; step < 6000; step++ {
			v := rng.Intn(universe)
			switch op := rng.Intn(100); {
			case op < 35:
				_, had := model[v]
				model[v] = struct{}{}
				if got := s.Add(v); got == had {
					t.Fatalf("seed %d step %d: Add(%d)=%v, model had=%v", seed, step, v, got, had)
				}
			case op < 65:
				_, had := model[v]
				delete(model, v)
				if got := s.Remove(v); got != had {
					t.Fatalf("seed %d step %d: Remove(%d)=%v, model had=%v", seed, step, v, got, had)
				}
			case op < 85:
				_, had := model[v]
				if got := s.Has(v); got != had {
					t.Fatalf("seed %d step %d: Has(%d)=%v, want %v", seed, step, v, got, had)
				}
			case op < 90:
				if got := s.Len(); got != len(model) {
					t.Fatalf("seed %d step %d: Len=%d, want %d", seed, step, got, len(model))
				}
			case op < 93:
				other, want := randomBatch(rng, universe), 0
				other.Range(func(x int) bool {
					if _, had := model[x]; !had {
						want++
						model[x] = struct{}{}
					}
					return true
				})
				if got := s.AddSet(other); got != want {
					t.Fatalf("seed %d step %d: AddSet=%d, want %d", seed, step, got, want)
				}
			case op < 96:
				other, want := randomBatch(rng, universe), 0
				other.Range(func(x int) bool {
					if _, had := model[x]; had {
						want++
						delete(model, x)
					}
					return true
				})
				if got := s.RemoveSet(other); got != want {
					t.Fatalf("seed %d step %d: RemoveSet=%d, want %d", seed, step, got, want)
				}
			case op < 98:
				checkSameElements(t, s.Slice(), model)
				checkSameElements(t, s.Clone().Slice(), model)
			default:
				var seen []int
				s.Range(func(x int) bool { seen = append(seen, x); return true })
				checkSameElements(t, seen, model)
			}
		}
		checkSameElements(t, s.Slice(), model)
		if s.Len() != len(model) {
			t.Fatalf("seed %d: final Len=%d, want %d", seed, s.Len(), len(model))
		}
	}
}

func randomBatch(rng *rand.Rand, universe int) sets.Set[int] {
	var b sync2.Set[int]
	for i, n := 0, rng.Intn(12); i < n; i++ {
		b.Add(rng.Intn(universe))
	}
	return &b
}

func checkSameElements(t *testing.T, got []int, model map[int]struct{}) {
	t.Helper()
	if len(got) != len(model) {
		t.Fatalf("got %d elements, want %d", len(got), len(model))
	}
	seen := map[int]struct{}{}
	for _, v := range got {
		if _, ok := model[v]; !ok {
			t.Fatalf("unexpected element %d", v)
		}
		if _, dup := seen[v]; dup {
			t.Fatalf("duplicate element %d", v)
		}
		seen[v] = struct{}{}
	}
}

// Self-referential and re-entrant uses must neither deadlock nor miscount.
func TestStressSet_Reentrant(t *testing.T) {
	var s sync2.Set[int]
	for i := 0; i < 100; i++ {
		s.Add(i)
	}
	if n := s.AddSet(&s); n != 0 {
		t.Fatalf("AddSet(self)=%d", n)
	}
	s.Range(func(v int) bool {
		if !s.Has(v) {
			t.Fatalf("Has(%d) false inside Range", v)
		}
		_ = s.Len()
		return true
	})
	if got := s.Intersect(&s).Len(); got != 100 {
		t.Fatalf("self intersect has %d", got)
	}
	if got := s.SymDiff(&s).Len(); got != 0 {
		t.Fatalf("self symdiff has %d", got)
	}
	if n := s.RemoveSet(&s); n != 100 || s.Len() != 0 {
		t.Fatalf("RemoveSet(self)=%d, Len=%d", n, s.Len())
	}
	var calls int
	s.AddSet(sync2.NewSetFromSlice([]int{1, 2, 3}))
	s.Range(func(int) bool { calls++; return false })
	if calls != 1 {
		t.Fatalf("Range did not stop: %d calls", calls)
	}
}

// ---- concurrent: per-value linearizability of Add/Remove/Has ----

type histOp struct {
	kind     int8 // 0 Add, 1 Remove, 2 Has
	ok       bool
	inv, res int64
}

// step applies op to the abstract state "is the value a member" and reports
// whether the observed result is possible in that state.
func (o histOp) step(member bool) (bool, bool) {
	switch o.kind {
	case 0:
		return true, o.ok == !member
	case 1:
		return false, o.ok == member
	default:
		return member, o.ok == member
	}
}

// linearizable decides (Wing & Gong search with memoisation) whether the ops
// on one value, starting from "absent", have a sequential explanation that
// respects real time order.
func linearizable(ops []histOp) bool {
	sort.Slice(ops, func(i, j int) bool { return ops[i].inv < ops[j].inv })
	n := len(ops)
	done := make([]bool, n)
	failed := map[string]struct{}{}
	var rec func(base int, member bool) bool
	rec = func(base int, member bool) bool {
		for base < n && done[base] {
			base++
		}
		if base == n {
			return true
		}
		key := make([]byte, 0, 32)
		for x := base; x > 0; x >>= 8 {
			key = append(key, byte(x))
		}
		key = append(key, '|')
		if member {
			key = append(key, 'm')
		}
		minRes := int64(1) << 62
		hi := base
		for i := base; i < n && ops[i].inv < minRes; i++ {
			hi = i
			if !done[i] && ops[i].res < minRes {
				minRes = ops[i].res
			}
		}
		for i := base; i <= hi; i++ {
			if done[i] {
				key = append(key, '1')
			} else {
				key = append(key, '0')
			}
		}
		if _, bad := failed[string(key)]; bad {
			return false
		}
		for i := base; i <= hi && ops[i].inv < minRes; i++ {
			if done[i] {
				continue
			}
			next, legal := ops[i].step(member)
			if !legal {
				continue
			}
			done[i] = true
			if rec(base, next) {
				return true
			}
			done[i] = false
		}
		failed[string(key)] = struct{}{}
		return false
	}
	return rec(0, false)
}

func TestStressSet_CheckerSelfTest(t *testing.T) {
	good := []histOp{{0, true, 1, 4}, {0, false, 2, 6}, {1, true, 3, 5}, {2, false, 7, 8}}
	if !linearizable(good) {
		t.Fatal("checker rejects a linearizable history")
	}
	twoAdds := []histOp{{0, true, 1, 4}, {0, true, 2, 3}}
	if linearizable(twoAdds) {
		t.Fatal("checker accepts two overlapping successful Adds")
	}
	stale := []histOp{{0, true, 1, 2}, {2, false, 3, 4}}
	if linearizable(stale) {
		t.Fatal("checker accepts a Has that misses a stable member")
	}
}

func TestStressSet_ConcurrentLinearizable(t *testing.T) {
	rounds := 40
	if testing.Short() {
		rounds = 8
	}
	for round := 0; round < rounds; round++ {
		goroutines := 2 + round%7 // 2..8
		universe := 1 + round%4   // 1..4 contended values
		perG := 1500
		var s sync2.Set[int]
		var clock int64
		hist := make([][][]histOp, goroutines) // [goroutine][value]
		var wg sync.WaitGroup
		start := make(chan struct{})
		for g := 0; g < goroutines; g++ {
			hist[g] = make([][]histOp, universe)
			wg.Add(1)
			go func(g int) {
				defer wg.Done()
				rng := rand.New(rand.NewSource(int64(round*100 + g)))
				<-start
				for i := 0; i < perG; i++ {
					v := rng.Intn(universe)
					o := histOp{kind: int8(rng.Intn(3))}
					single := rng.Intn(4) == 0
					o.inv = atomic.AddInt64(&clock, 1)
					switch {
					case o.kind == 0 && single:
						o.ok = s.AddSet(sync2.NewSetFromSlice([]int{v})) == 1
					case o.kind == 0:
						o.ok = s.Add(v)
					case o.kind == 1 && single:
						o.ok = s.RemoveSet(sync2.NewSetFromSlice([]int{v})) == 1
					case o.kind == 1:
						o.ok = s.Remove(v)
					default:
						o.ok = s.Has(v)
					}
					o.res = atomic.AddInt64(&clock, 1)
					hist[g][v] = append(hist[g][v], o)
					if i%16 == 0 {
						// Private values: nobody else touches them, so every
						// call must succeed. They also make the table grow
						// and shrink.
						p := 1000 + g*100000 + i
						if !s.Add(p) || !s.Has(p) || s.Add(p) || !s.Remove(p) || s.Has(p) || s.Remove(p) {
							t.Errorf("private value %d misbehaved", p)
							return
						}
					}
					if i%64 == 0 {
						if n := s.Len(); n < 0 || n > universe+goroutines {
							t.Errorf("Len=%d out of range", n)
						}
					}
				}
			}(g)
		}
		close(start)
		wg.Wait()
		for v := 0; v < universe; v++ {
			var ops []histOp
			net := 0
			for g := range hist {
				for _, o := range hist[g][v] {
					ops = append(ops, o)
					if o.ok && o.kind == 0 {
						net++
					} else if o.ok && o.kind == 1 {
						net--
					}
				}
			}
			member := s.Has(v)
			if net != 0 && net != 1 || (net == 1) != member {
				t.Fatalf("round %d value %d: successful adds-removes=%d, member=%v", round, v, net, member)
			}
			// The final Has is part of the history too.
			end := atomic.AddInt64(&clock, 2)
			ops = append(ops, histOp{kind: 2, ok: member, inv: end - 1, res: end})
			if !linearizable(ops) {
				t.Fatalf("round %d value %d: history of %d ops is not linearizable", round, v, len(ops))
			}
		}
	}
}

// Multi-element AddSet/RemoveSet: the returned counts must add up exactly
// like individual Adds/Removes; stable members are never missed, values never
// added are never reported, snapshots have no duplicates.
func TestStressSet_ConcurrentBatchesAndSnapshots(t *testing.T) {
	const (
		stableLo, stableHi = 100, 140 // added up front, never removed
		churnLo, churnHi   = 0, 24    // added and removed by everybody
		neverLo, neverHi   = 200, 210 // never added
	)
	for round := 0; round < 12; round++ {
		goroutines := 2 + round%7
		var s sync2.Set[int]
		for v := stableLo; v < stableHi; v++ {
			s.Add(v)
		}
		var added, removed int64
		var wg sync.WaitGroup
		for g := 0; g < goroutines; g++ {
			wg.Add(1)
			go func(g int) {
				defer wg.Done()
				rng := rand.New(rand.NewSource(int64(round*1000 + g)))
				for i := 0; i < 1200; i++ {
					switch rng.Intn(8) {
					case 0, 1:
						batch := make([]int, 1+rng.Intn(6))
						for j := range batch {
							batch[j] = churnLo + rng.Intn(churnHi-churnLo)
						}
						n := s.AddSet(sync2.NewSetFromSlice(batch))
						if n < 0 || n > len(batch) {
							t.Errorf("AddSet=%d for %d values", n, len(batch))
						}
						atomic.AddInt64(&added, int64(n))
					case 2, 3:
						batch := make([]int, 1+rng.Intn(6))
						for j := range batch {
							batch[j] = churnLo + rng.Intn(churnHi-churnLo)
						}
						// never-added values in a RemoveSet must not count.
						batch = append(batch, neverLo+rng.Intn(neverHi-neverLo))
						n := s.RemoveSet(sync2.NewSetFromSlice(batch))
						if n < 0 || n > len(batch)-1 {
							t.Errorf("RemoveSet=%d for %d values", n, len(batch)-1)
						}
						atomic.AddInt64(&removed, int64(n))
					case 4:
						if s.Add(churnLo + rng.Intn(churnHi-churnLo)) {
							atomic.AddInt64(&added, 1)
						}
					case 5:
						if s.Remove(churnLo + rng.Intn(churnHi-churnLo)) {
							atomic.AddInt64(&removed, 1)
						}
					case 6:
						if v := stableLo + rng.Intn(stableHi-stableLo); !s.Has(v) {
							t.Errorf("Has misses stable member %d", v)
						}
						if v := neverLo + rng.Intn(neverHi-neverLo); s.Has(v) {
							t.Errorf("Has reports %d which was never added", v)
						}
						if s.Add(stableLo + rng.Intn(stableHi-stableLo)) {
							t.Errorf("Add of a stable member succeeded")
						}
						n := s.Len()
						if n < stableHi-stableLo || n > stableHi-stableLo+churnHi-churnLo {
							t.Errorf("Len=%d out of range", n)
						}
					default:
						var snap []int
						switch rng.Intn(3) {
						case 0:
							snap = s.Slice()
						case 1:
							s.Range(func(v int) bool { snap = append(snap, v); return true })
						default:
							snap = s.Clone().Slice()
						}
						seen := map[int]bool{}
						stable := 0
						for _, v := range snap {
							if seen[v] {
								t.Errorf("snapshot has %d twice", v)
							}
							seen[v] = true
							if v >= neverLo && v < neverHi {
								t.Errorf("snapshot has %d which was never added", v)
							}
							if v >= stableLo && v < stableHi {
								stable++
							}
						}
						if stable != stableHi-stableLo {
							t.Errorf("snapshot has %d of %d stable members", stable, stableHi-stableLo)
						}
					}
				}
			}(g)
		}
		wg.Wait()
		churn := 0
		for v := churnLo; v < churnHi; v++ {
			if s.Has(v) {
				churn++
			}
		}
		if got := added - removed; got != int64(churn) {
			t.Fatalf("round %d: adds-removes=%d but %d churn values are members", round, got, churn)
		}
		if got, want := s.Len(), churn+stableHi-stableLo; got != want {
			t.Fatalf("round %d: Len=%d, want %d", round, got, want)
		}
	}
}
