//go:build go1.21

// (The build line lifts this file to language version 1.21, above the module's
// 1.18, so that interface types can be used as the key type of a Map.)

// Stress test for property C04: sync2.Map is linearizable to an ordinary map,
// sequentially and concurrently, and Range keeps its three clauses.
//
// Run with: go test -race -vet=off -count=1 -run 'TestC04' ./sync2

package sync2_test

import (
	"fmt"
	"math"
	"math/rand"
	"runtime"
	"sort"
	"strings"
	"sync"
	"sync/atomic"
	"testing"
	"time"
	"unsafe"

	"gopkg.in/typ.v4/sync2"
)

// ---------------------------------------------------------------------------
// Sequential: random call sequences against a plain map[K]V, for several key
// types. Long sequences over few keys drive whatever internal state machine
// the implementation has (promotion, re-creation, shard tables, ...).
// ---------------------------------------------------------------------------

func c04SeqModel[K comparable, V any](t *testing.T, name string, keys []K, vals []V, steps int, seed int64) {
	t.Helper()
	r := rand.New(rand.NewSource(seed))
	var m sync2.Map[K, V]
	model := map[K]V{}
	var zero V
	for i := 0; i < steps; i++ {
		k := keys[r.Intn(len(keys))]
		v := vals[r.Intn(len(vals))]
		switch op := r.Intn(12); {
		case op < 3:
			got, ok := m.Load(k)
			want, wok := model[k]
			if ok != wok || any(got) != any(want) {
				t.Fatalf("%s step %d: Load(%v) = %v,%v want %v,%v", name, i, k, got, ok, want, wok)
			}
		case op < 5:
			m.Store(k, v)
			model[k] = v
		case op < 7:
			got, loaded := m.LoadOrStore(k, v)
			want, wok := model[k]
			if !wok {
				want = v
				model[k] = v
			}
			if loaded != wok || any(got) != any(want) {
				t.Fatalf("%s step %d: LoadOrStore(%v,%v) = %v,%v want %v,%v", name, i, k, v, got, loaded, want, wok)
			}
		case op < 9:
			got, loaded := m.LoadAndDelete(k)
			want, wok := model[k]
			if !wok {
				want = zero
			}
			delete(model, k)
			if loaded != wok || any(got) != any(want) {
				t.Fatalf("%s step %d: LoadAndDelete(%v) = %v,%v want %v,%v", name, i, k, got, loaded, want, wok)
			}
		case op < 10:
			m.Delete(k)
			delete(model, k)
		default:
			seen := map[K]V{}
			m.Range(func(k K, v V) bool {
				if _, dup := seen[k]; dup {
					t.Fatalf("%s step %d: Range visited %v twice", name, i, k)
				}
				seen[k] = v
				return true
			})
			if len(seen) != len(model) {
				t.Fatalf("%s step %d: Range saw %v want %v", name, i, seen, model)
			}
			for k, v := range model {
				if sv, ok := seen[k]; !ok || any(sv) != any(v) {
					t.Fatalf("%s step %d: Range saw %v want %v", name, i, seen, model)
				}
			}
		}
	}
}

type c04Struct struct {
	A int
	B string
}

type c04Named string

type c04Iface struct{ X any }

// c04Blank has a blank field, which == ignores; c04Full has the same layout
// with the field named, so that the test can fill it.
type c04Blank struct {
	A int
	_ int
	b string
	c any
}

type c04Full struct {
	A int
	X int
	b string
	c any
}

func c04MakeBlank(a, blank int, b string, c any) c04Blank {
	f := c04Full{a, blank, b, c}
	return *(*c04Blank)(unsafe.Pointer(&f))
}

func TestC04SequentialModel(t *testing.T) {
	ints := []int{-3, -1, 0, 1, 2, 3, 4, 5, 6, 7, 8, 1 << 40}
	strs := []string{"", "a", "b", "c", "d", "e", "f", "g", "h"}
	vals := []string{"", "x", "y", "z", "w"}
	p1, p2, p3 := new(int), new(int), new(int)
	ch1, ch2 := make(chan int), make(chan int)
	for seed := int64(1); seed <= 30; seed++ {
		c04SeqModel(t, "int", ints, vals, 1500, seed)
		c04SeqModel(t, "string", strs, vals, 1500, seed)
		c04SeqModel(t, "named", []c04Named{"", "a", "b", "c", "d"}, vals, 600, seed)
		c04SeqModel(t, "uint8", []uint8{0, 1, 2, 3, 4, 5, 255}, []int{0, 1, 2}, 600, seed)
		c04SeqModel(t, "bool", []bool{false, true}, []int{0, 1, 2}, 300, seed)
		// +0 and -0 are one key of an ordinary map.
		c04SeqModel(t, "float", []float64{0, math.Copysign(0, -1), 1, -1, 0.5, math.Inf(1)}, vals, 900, seed)
		c04SeqModel(t, "complex", []complex128{0, complex(math.Copysign(0, -1), 0), 1i, 2}, vals, 600, seed)
		c04SeqModel(t, "struct", []c04Struct{{}, {1, "a"}, {1, "b"}, {2, "a"}}, vals, 600, seed)
		c04SeqModel(t, "array", [][2]float64{{0, 0}, {math.Copysign(0, -1), 0}, {1, 2}}, vals, 600, seed)
		c04SeqModel(t, "ptr", []*int{nil, p1, p2, p3}, vals, 600, seed)
		c04SeqModel(t, "chan", []chan int{nil, ch1, ch2}, vals, 400, seed)
		// Interface keys: nil, and equal-looking values of different dynamic types.
		var ifaces []c04Iface
		for _, x := range []any{nil, 1, int64(1), "1", c04Named("1"), 1.0, float32(1), true, p1,
			c04Struct{1, "a"}, [1]int{1}, 0.0, math.Copysign(0, -1)} {
			ifaces = append(ifaces, c04Iface{x})
		}
		c04SeqModel(t, "iface", ifaces, vals, 1500, seed)
		// Keys that differ only in what == ignores are one key.
		c04SeqModel(t, "blank", []c04Blank{c04MakeBlank(1, 0, "x", 0.0), c04MakeBlank(1, 7, "x", math.Copysign(0, -1)),
			c04MakeBlank(1, 9, "x", nil), c04MakeBlank(2, 3, "y", p1), c04MakeBlank(2, 4, "y", p1), {}}, vals, 900, seed)
		c04SeqModel(t, "any", []any{nil, 1, int64(1), "1", c04Named("1"), 1.0, float32(1), true, p1,
			c04Struct{1, "a"}, [1]int{1}, 0.0, math.Copysign(0, -1), error(nil), fmt.Stringer(nil)}, vals, 1500, seed)
		// Interface values, among them the nil interface.
		c04SeqModel(t, "anyval", strs, []any{nil, 1, "1", error(nil), p1}, 900, seed)
	}
}

// ---------------------------------------------------------------------------
// Concurrent: small histories by 2..4 goroutines on a few keys, each checked
// for linearizability against map[string]int by exhaustive search (Wing & Gong
// with memoisation).
// ---------------------------------------------------------------------------

const (
	c04Load = iota
	c04Store
	c04LoadOrStore
	c04LoadAndDelete
	c04Delete
)

type c04Op struct {
	kind     int
	key      string
	arg      int
	inv, ret int64 // logical clock at invocation and at return
	val      int
	ok       bool
}

func (o *c04Op) String() string {
	n := [...]string{"Load", "Store", "LoadOrStore", "LoadAndDelete", "Delete"}[o.kind]
	return fmt.Sprintf("[%d,%d] %s(%s,%d)=%d,%v", o.inv, o.ret, n, o.key, o.arg, o.val, o.ok)
}

func c04Run(m *sync2.Map[string, int], o *c04Op, clock *atomic.Int64) {
	o.inv = clock.Add(1)
	switch o.kind {
	case c04Load:
		o.val, o.ok = m.Load(o.key)
	case c04Store:
		m.Store(o.key, o.arg)
	case c04LoadOrStore:
		o.val, o.ok = m.LoadOrStore(o.key, o.arg)
	case c04LoadAndDelete:
		o.val, o.ok = m.LoadAndDelete(o.key)
	case c04Delete:
		m.Delete(o.key)
	}
	o.ret = clock.Add(1)
}

// c04Step applies o to the model if the model would return what o returned.
// It reports whether it did, and how to undo it.
func c04Step(model map[string]int, o *c04Op) (ok bool, undo func()) {
	old, had := model[o.key]
	restore := func() {
		if had {
			model[o.key] = old
		} else {
			delete(model, o.key)
		}
	}
	switch o.kind {
	case c04Load:
		return o.ok == had && o.val == old, restore
	case c04Store:
		model[o.key] = o.arg
		return true, restore
	case c04LoadOrStore:
		if had {
			return o.ok && o.val == old, restore
		}
		model[o.key] = o.arg
		return !o.ok && o.val == o.arg, restore
	case c04LoadAndDelete:
		delete(model, o.key)
		return o.ok == had && o.val == old, restore
	default:
		delete(model, o.key)
		return true, restore
	}
}

func c04ModelKey(mask uint32, model map[string]int) string {
	ks := make([]string, 0, len(model))
	for k, v := range model {
		ks = append(ks, fmt.Sprintf("%s=%d", k, v))
	}
	sort.Strings(ks)
	return fmt.Sprintf("%x|%s", mask, strings.Join(ks, ","))
}

// c04Linearizable reports whether ops has a linearization starting from model.
func c04Linearizable(ops []*c04Op, model map[string]int) bool {
	full := uint32(1)<<len(ops) - 1
	dead := map[string]bool{}
	var dfs func(mask uint32) bool
	dfs = func(mask uint32) bool {
		if mask == full {
			return true
		}
		mk := c04ModelKey(mask, model)
		if dead[mk] {
			return false
		}
		// The earliest return among the pending calls: a call invoked after it
		// cannot be linearized next.
		minRet := int64(math.MaxInt64)
		for i, o := range ops {
			if mask&(1<<i) == 0 && o.ret < minRet {
				minRet = o.ret
			}
		}
		for i, o := range ops {
			if mask&(1<<i) != 0 || o.inv > minRet {
				continue
			}
			ok, undo := c04Step(model, o)
			if ok && dfs(mask|1<<i) {
				undo()
				return true
			}
			undo()
		}
		dead[mk] = true
		return false
	}
	return dfs(0)
}

func TestC04CheckerRejectsBadHistories(t *testing.T) {
	// A value lost: Store returned before Load was invoked, Load misses.
	lost := []*c04Op{
		{kind: c04Store, key: "a", arg: 1, inv: 1, ret: 2},
		{kind: c04Load, key: "a", inv: 3, ret: 4},
	}
	// A value resurrected: deleted, then seen again.
	resurrected := []*c04Op{
		{kind: c04Store, key: "a", arg: 1, inv: 1, ret: 2},
		{kind: c04LoadAndDelete, key: "a", inv: 3, ret: 4, val: 1, ok: true},
		{kind: c04Load, key: "a", inv: 5, ret: 6, val: 1, ok: true},
	}
	// Two overlapping LoadOrStore calls both believe they stored.
	twoWinners := []*c04Op{
		{kind: c04LoadOrStore, key: "a", arg: 1, inv: 1, ret: 4, val: 1},
		{kind: c04LoadOrStore, key: "a", arg: 2, inv: 2, ret: 3, val: 2},
	}
	for i, h := range [][]*c04Op{lost, resurrected, twoWinners} {
		if c04Linearizable(h, map[string]int{}) {
			t.Errorf("bad history %d accepted", i)
		}
	}
	good := []*c04Op{
		{kind: c04Store, key: "a", arg: 1, inv: 1, ret: 4},
		{kind: c04Load, key: "a", inv: 2, ret: 3},
		{kind: c04Load, key: "a", inv: 5, ret: 6, val: 1, ok: true},
	}
	if !c04Linearizable(good, map[string]int{}) {
		t.Errorf("good history rejected")
	}
}

func TestC04ConcurrentLinearizable(t *testing.T) {
	rounds := 6000
	if testing.Short() {
		rounds = 500
	}
	r := rand.New(rand.NewSource(4))
	keys := []string{"a", "b", "c"}
	for round := 0; round < rounds; round++ {
		var m sync2.Map[string, int]
		model := map[string]int{}
		// A sequential prefix puts the map in some interesting internal state.
		for i, n := 0, r.Intn(12); i < n; i++ {
			o := &c04Op{kind: r.Intn(5), key: keys[r.Intn(len(keys))], arg: 100 + i}
			var clock atomic.Int64
			c04Run(&m, o, &clock)
			if ok, _ := c04Step(model, o); !ok {
				t.Fatalf("round %d: sequential prefix: %v on %v", round, o, model)
			}
			if r.Intn(4) == 0 {
				m.Range(func(string, int) bool { return true })
			}
		}
		g := 2 + r.Intn(3)
		nkeys := 1 + r.Intn(2)
		per := make([][]*c04Op, g)
		var all []*c04Op
		for i := range per {
			for j, n := 0, 2+r.Intn(3); j < n; j++ {
				o := &c04Op{kind: r.Intn(5), key: keys[r.Intn(nkeys)], arg: 1 + len(all)}
				per[i] = append(per[i], o)
				all = append(all, o)
			}
		}
		var clock atomic.Int64
		var wg sync.WaitGroup
		start := make(chan struct{})
		yield := r.Intn(2) == 0
		for i := range per {
			wg.Add(1)
			go func(ops []*c04Op) {
				defer wg.Done()
				<-start
				for _, o := range ops {
					c04Run(&m, o, &clock)
					if yield {
						runtime.Gosched()
					}
				}
			}(per[i])
		}
		close(start)
		wg.Wait()
		if !c04Linearizable(all, model) {
			sort.Slice(all, func(i, j int) bool { return all[i].inv < all[j].inv })
			t.Fatalf("round %d: not linearizable from %v:\n%v", round, model, all)
		}
		// And the final state is reachable too: read it back sequentially.
		var tail []*c04Op
		for _, k := range keys {
			o := &c04Op{kind: c04Load, key: k}
			c04Run(&m, o, &clock)
			tail = append(tail, o)
		}
		if !c04Linearizable(append(all, tail...), model) {
			t.Fatalf("round %d: final state %v not explained by %v from %v", round, tail, all, model)
		}
	}
}

// ---------------------------------------------------------------------------
// Range under concurrent writers.
//
// Keys 0..stable-1 are stored once and never touched again: every Range must
// visit each exactly once. Every other key k has one writer that stores the
// versions 1, 2, 3, ... (value = k*c04Mul + version) and now and then deletes
// the key; the writer publishes the version it is about to write (started) and
// the one it has finished writing (done). A Range that sees version v of k must
// have  done-before-Range <= v <= started-after-Range: anything else is a value
// the key did not hold at any moment during the call.
// ---------------------------------------------------------------------------

const c04Mul = 1 << 32

func TestC04RangeClauses(t *testing.T) {
	const stable, volatile = 64, 24
	var m sync2.Map[int, int]
	for k := 0; k < stable; k++ {
		m.Store(k, k*c04Mul)
	}
	var started, done [volatile]atomic.Int64
	stop := make(chan struct{})
	var wg sync.WaitGroup
	for w := 0; w < volatile; w++ {
		wg.Add(1)
		go func(w int) {
			defer wg.Done()
			k := stable + w
			r := rand.New(rand.NewSource(int64(w)))
			for v := int64(1); ; v++ {
				select {
				case <-stop:
					return
				default:
				}
				started[w].Store(v)
				switch r.Intn(3) {
				case 0:
					m.Store(k, k*c04Mul+int(v))
				case 1:
					if _, loaded := m.LoadOrStore(k, k*c04Mul+int(v)); loaded {
						m.Store(k, k*c04Mul+int(v))
					}
				default:
					m.Delete(k)
					m.Store(k, k*c04Mul+int(v))
				}
				done[w].Store(v)
				if r.Intn(8) == 0 {
					runtime.Gosched()
				}
			}
		}(w)
	}
	iters := 1500
	if testing.Short() {
		iters = 100
	}
	for it := 0; it < iters; it++ {
		var lo [volatile]int64
		for w := range lo {
			lo[w] = done[w].Load()
		}
		type kv struct{ k, v int }
		var got []kv
		m.Range(func(k, v int) bool {
			got = append(got, kv{k, v})
			return true
		})
		seen := map[int]bool{}
		for _, e := range got {
			if seen[e.k] {
				t.Fatalf("Range visited key %d twice", e.k)
			}
			seen[e.k] = true
			if e.v/c04Mul != e.k {
				t.Fatalf("Range: key %d with value %d of another key", e.k, e.v)
			}
			if e.k >= stable {
				w, ver := e.k-stable, int64(e.v%c04Mul)
				if hi := started[w].Load(); ver < lo[w] || ver > hi {
					t.Fatalf("Range: key %d version %d outside [%d,%d]", e.k, ver, lo[w], hi)
				}
			} else if e.v != e.k*c04Mul {
				t.Fatalf("Range: stable key %d has value %d", e.k, e.v)
			}
		}
		for k := 0; k < stable; k++ {
			if !seen[k] {
				t.Fatalf("Range missed the untouched key %d", k)
			}
		}
	}
	close(stop)
	wg.Wait()
}

// Every stored token is taken by exactly one LoadAndDelete: nothing lost,
// nothing handed out twice, nothing resurrected.
func TestC04TokensConserved(t *testing.T) {
	const producers, consumers, perProducer, nkeys = 4, 4, 1500, 8
	var m sync2.Map[string, int]
	var taken [producers*perProducer + 1]atomic.Int32
	var wg, pwg sync.WaitGroup
	var producing atomic.Bool
	producing.Store(true)
	for p := 0; p < producers; p++ {
		wg.Add(1)
		pwg.Add(1)
		go func(p int) {
			defer wg.Done()
			defer pwg.Done()
			for i := 0; i < perProducer; i++ {
				token := p*perProducer + i + 1
				key := fmt.Sprint("k", (p+i)%nkeys)
				// Put the token in an empty slot; never overwrite another token.
				for {
					if _, loaded := m.LoadOrStore(key, token); !loaded {
						break
					}
					runtime.Gosched()
				}
			}
		}(p)
	}
	for c := 0; c < consumers; c++ {
		wg.Add(1)
		go func(c int) {
			defer wg.Done()
			for i := 0; ; i++ {
				last := !producing.Load()
				found := false
				for k := 0; k < nkeys; k++ {
					if v, ok := m.LoadAndDelete(fmt.Sprint("k", (k+c)%nkeys)); ok {
						found = true
						if n := taken[v].Add(1); n != 1 {
							t.Errorf("token %d taken %d times", v, n)
						}
					} else if v != 0 {
						t.Errorf("LoadAndDelete miss returned %d", v)
					}
				}
				if last && !found {
					return
				}
			}
		}(c)
	}
	pwg.Wait()
	producing.Store(false)
	wg.Wait()
	for tok := 1; tok < len(taken); tok++ {
		if taken[tok].Load() != 1 {
			t.Fatalf("token %d taken %d times", tok, taken[tok].Load())
		}
	}
	m.Range(func(k string, v int) bool {
		t.Errorf("left over %s=%d", k, v)
		return true
	})
}

// Of many simultaneous LoadOrStore calls on an absent key exactly one stores,
// and all of them return the stored value; of many simultaneous LoadAndDelete
// calls on a present key exactly one gets it.
func TestC04OneWinner(t *testing.T) {
	const g = 4
	rounds := 3000
	if testing.Short() {
		rounds = 300
	}
	var m sync2.Map[int, int]
	for round := 0; round < rounds; round++ {
		var actual [g]int
		var stored, deleted [g]bool
		var wg sync.WaitGroup
		start := make(chan struct{})
		for i := 0; i < g; i++ {
			wg.Add(1)
			go func(i int) {
				defer wg.Done()
				<-start
				v, loaded := m.LoadOrStore(round, round*g+i)
				actual[i], stored[i] = v, !loaded
			}(i)
		}
		close(start)
		wg.Wait()
		winners := 0
		for i := 0; i < g; i++ {
			if stored[i] {
				winners++
				if actual[i] != round*g+i {
					t.Fatalf("round %d: storer %d got %d back", round, i, actual[i])
				}
			}
			if actual[i] != actual[0] {
				t.Fatalf("round %d: LoadOrStore results differ: %v", round, actual)
			}
		}
		if v, ok := m.Load(round); winners != 1 || !ok || v != actual[0] {
			t.Fatalf("round %d: %d winners, Load = %d,%v, results %v", round, winners, v, ok, actual)
		}
		start = make(chan struct{})
		for i := 0; i < g; i++ {
			wg.Add(1)
			go func(i int) {
				defer wg.Done()
				<-start
				v, loaded := m.LoadAndDelete(round)
				deleted[i] = loaded
				if loaded && v != actual[0] {
					t.Errorf("round %d: LoadAndDelete = %d want %d", round, v, actual[0])
				}
			}(i)
		}
		close(start)
		wg.Wait()
		n := 0
		for _, d := range deleted {
			if d {
				n++
			}
		}
		if _, ok := m.Load(round); n != 1 || ok {
			t.Fatalf("round %d: %d deleters, still present %v", round, n, ok)
		}
	}
}

// The function given to Range may itself use the map, including the very key
// it is called with, and may start another Range.
func TestC04RangeReentrant(t *testing.T) {
	var m sync2.Map[int, int]
	const n = 64
	for i := 0; i < n; i++ {
		m.Store(i, i)
	}
	finished := make(chan struct{})
	go func() {
		defer close(finished)
		calls := 0
		m.Range(func(k, v int) bool {
			calls++
			if got, ok := m.Load(k); !ok || got != v {
				t.Errorf("Load(%d) inside Range = %d,%v", k, got, ok)
			}
			if k >= n {
				return true // a key added below; Range may or may not come by it
			}
			m.Store(k, v+1000)
			m.Store(k+n, v) // a new key, perhaps next to k
			if got, loaded := m.LoadOrStore(k, -1); !loaded || got != v+1000 {
				t.Errorf("LoadOrStore(%d) inside Range = %d,%v", k, got, loaded)
			}
			if k%2 == 0 {
				if got, loaded := m.LoadAndDelete(k); !loaded || got != v+1000 {
					t.Errorf("LoadAndDelete(%d) inside Range = %d,%v", k, got, loaded)
				}
			}
			inner := 0
			m.Range(func(int, int) bool { inner++; return inner < 3 })
			return true
		})
		if calls < n || calls > 2*n {
			t.Errorf("Range called f %d times", calls)
		}
	}()
	select {
	case <-finished:
	case <-time.After(20 * time.Second):
		t.Fatal("Range with a re-entrant function did not finish")
	}
	for i := 0; i < n; i++ {
		got, ok := m.Load(i)
		if i%2 == 0 && ok || i%2 == 1 && (!ok || got != i+1000) {
			t.Fatalf("after Range: Load(%d) = %d,%v", i, got, ok)
		}
		if got, ok := m.Load(i + n); !ok || got != i {
			t.Fatalf("after Range: Load(%d) = %d,%v", i+n, got, ok)
		}
	}
	// Stopping early stops.
	calls := 0
	m.Range(func(int, int) bool { calls++; return false })
	if calls != 1 {
		t.Fatalf("Range went on after false: %d calls", calls)
	}
}

// Each goroutine owns some keys and checks every result on them against its
// own private map, while all of them share one Map and Range runs alongside.
func TestC04OwnersAgreeWithModel(t *testing.T) {
	const owners, keysPer = 4, 6
	steps := 20000
	if testing.Short() {
		steps = 2000
	}
	var m sync2.Map[string, int]
	var wg sync.WaitGroup
	stop := make(chan struct{})
	for o := 0; o < owners; o++ {
		wg.Add(1)
		go func(o int) {
			defer wg.Done()
			r := rand.New(rand.NewSource(int64(o)))
			model := map[string]int{}
			for i := 0; i < steps; i++ {
				k := fmt.Sprintf("o%d/%d", o, r.Intn(keysPer))
				op := &c04Op{kind: r.Intn(5), key: k, arg: i + 1}
				var clock atomic.Int64
				c04Run(&m, op, &clock)
				if ok, _ := c04Step(model, op); !ok {
					t.Errorf("owner %d step %d: %v on %v", o, i, op, model)
					return
				}
			}
		}(o)
	}
	var rwg sync.WaitGroup
	rwg.Add(1)
	go func() {
		defer rwg.Done()
		for {
			select {
			case <-stop:
				return
			default:
			}
			seen := map[string]bool{}
			m.Range(func(k string, v int) bool {
				if seen[k] || v <= 0 {
					t.Errorf("Range: %s=%d seen before: %v", k, v, seen[k])
				}
				seen[k] = true
				return true
			})
		}
	}()
	wg.Wait()
	close(stop)
	rwg.Wait()
}

// The zero Map works, nil interface values are values like any other, and the
// types built on Map still behave.
func TestC04ZeroValueAndFriends(t *testing.T) {
	var m sync2.Map[string, error]
	if v, ok := m.Load("x"); ok || v != nil {
		t.Fatalf("Load on the zero Map = %v,%v", v, ok)
	}
	if v, ok := m.LoadAndDelete("x"); ok || v != nil {
		t.Fatalf("LoadAndDelete on the zero Map = %v,%v", v, ok)
	}
	m.Delete("x")
	m.Range(func(string, error) bool { t.Fatal("Range on the zero Map called f"); return true })
	m.Store("nil", nil)
	if v, ok := m.Load("nil"); !ok || v != nil {
		t.Fatalf("Load of a stored nil = %v,%v", v, ok)
	}
	if v, loaded := m.LoadOrStore("nil", fmt.Errorf("e")); !loaded || v != nil {
		t.Fatalf("LoadOrStore over a stored nil = %v,%v", v, loaded)
	}
	n := 0
	m.Range(func(k string, v error) bool { n++; return k == "nil" && v == nil })
	if v, loaded := m.LoadAndDelete("nil"); n != 1 || !loaded || v != nil {
		t.Fatalf("Range calls %d, LoadAndDelete of a stored nil = %v,%v", n, v, loaded)
	}

	var set sync2.Set[int]
	var km sync2.KeyedMutex[int]
	var wg sync.WaitGroup
	counts := make([]int, 8)
	for g := 0; g < 4; g++ {
		wg.Add(1)
		go func(g int) {
			defer wg.Done()
			for i := 0; i < 2000; i++ {
				k := i % len(counts)
				km.LockKey(k)
				counts[k]++
				km.UnlockKey(k)
				set.Add(g*10000 + i)
			}
		}(g)
	}
	wg.Wait()
	for k, c := range counts {
		if c != 1000 {
			t.Fatalf("KeyedMutex: counts[%d] = %d", k, c)
		}
	}
	if set.Len() != 8000 {
		t.Fatalf("Set.Len = %d", set.Len())
	}
}
