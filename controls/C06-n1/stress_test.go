package lists

// Differential stress test for property C06 (List part): every sequence of
// operations on lists.List[int] must behave exactly like container/list,
// including zero-value lists, removed/foreign handles, handles that went stale
// through Init, and PushBackList/PushFrontList of a list onto itself.

import (
	stdlist "container/list"
	"math/rand"
	"testing"
)

type c06lWorld struct {
	t    *testing.T
	mine []*List[int]
	std  []*stdlist.List
	hm   []*Element[int]
	hs   []*stdlist.Element
	mIdx map[*Element[int]]int
	sIdx map[*stdlist.Element]int
	log  []string
}

func c06lValEq(m int, s any) bool {
	if s == nil {
		return m == 0
	}
	return s.(int) == m
}

func (w *c06lWorld) reg(m *Element[int], s *stdlist.Element) {
	w.mIdx[m] = len(w.hm)
	w.sIdx[s] = len(w.hs)
	w.hm = append(w.hm, m)
	w.hs = append(w.hs, s)
}

// same reports whether the two element results denote the same handle,
// registering the pair if both are so far unknown.
func (w *c06lWorld) same(what string, m *Element[int], s *stdlist.Element) bool {
	if (m == nil) != (s == nil) {
		w.t.Errorf("%s: nil mismatch mine=%v std=%v\nlog=%v", what, m == nil, s == nil, w.log)
		return false
	}
	if m == nil {
		return true
	}
	im, okm := w.mIdx[m]
	is, oks := w.sIdx[s]
	if okm != oks || (okm && im != is) {
		w.t.Errorf("%s: handle mismatch mine=%d(%v) std=%d(%v)\nlog=%v", what, im, okm, is, oks, w.log)
		return false
	}
	if !okm {
		w.reg(m, s)
	}
	if !c06lValEq(m.Value, s.Value) {
		w.t.Errorf("%s: value mismatch mine=%v std=%v\nlog=%v", what, m.Value, s.Value, w.log)
		return false
	}
	return true
}

func (w *c06lWorld) compareAll() bool {
	const limit = 2000
	for k := range w.mine {
		lm, ls := w.mine[k], w.std[k]
		if lm.Len() != ls.Len() {
			w.t.Errorf("list %d: Len mine=%d std=%d\nlog=%v", k, lm.Len(), ls.Len(), w.log)
			return false
		}
		em, es := lm.Front(), ls.Front()
		for i := 0; i < limit; i++ {
			if !w.same("forward", em, es) {
				return false
			}
			if em == nil {
				break
			}
			em, es = em.Next(), es.Next()
		}
		em, es = lm.Back(), ls.Back()
		for i := 0; i < limit; i++ {
			if !w.same("backward", em, es) {
				return false
			}
			if em == nil {
				break
			}
			em, es = em.Prev(), es.Prev()
		}
	}
	for i := 0; i < len(w.hm); i++ {
		if !w.same("handle.Next", w.hm[i].Next(), w.hs[i].Next()) {
			return false
		}
		if !w.same("handle.Prev", w.hm[i].Prev(), w.hs[i].Prev()) {
			return false
		}
		if !c06lValEq(w.hm[i].Value, w.hs[i].Value) {
			w.t.Errorf("handle %d value mismatch", i)
			return false
		}
	}
	return true
}

func c06lTry(f func()) (panicked bool) {
	defer func() {
		if recover() != nil {
			panicked = true
		}
	}()
	f()
	return false
}

func c06lRun(t *testing.T, seed int64, ops int, initRate int) bool {
	rng := rand.New(rand.NewSource(seed))
	w := &c06lWorld{t: t, mIdx: map[*Element[int]]int{}, sIdx: map[*stdlist.Element]int{}}
	// list 0 and 2 are zero values, list 1 is made by New.
	w.mine = []*List[int]{new(List[int]), New[int](), {}}
	w.std = []*stdlist.List{new(stdlist.List), stdlist.New(), {}}
	next := 1
	for step := 0; step < ops; step++ {
		k := rng.Intn(len(w.mine))
		lm, ls := w.mine[k], w.std[k]
		pick := func() int {
			if len(w.hm) == 0 {
				return -1
			}
			return rng.Intn(len(w.hm))
		}
		op := rng.Intn(16)
		var pm, ps bool
		name := ""
		switch op {
		case 0, 1:
			v := next
			next++
			name = "PushFront"
			var m *Element[int]
			var s *stdlist.Element
			pm = c06lTry(func() { m = lm.PushFront(v) })
			ps = c06lTry(func() { s = ls.PushFront(v) })
			if !pm && !ps && !w.same(name, m, s) {
				return false
			}
		case 2, 3:
			v := next
			next++
			name = "PushBack"
			var m *Element[int]
			var s *stdlist.Element
			pm = c06lTry(func() { m = lm.PushBack(v) })
			ps = c06lTry(func() { s = ls.PushBack(v) })
			if !pm && !ps && !w.same(name, m, s) {
				return false
			}
		case 4, 5:
			h := pick()
			if h < 0 {
				continue
			}
			v := next
			next++
			var m *Element[int]
			var s *stdlist.Element
			if op == 4 {
				name = "InsertBefore"
				pm = c06lTry(func() { m = lm.InsertBefore(v, w.hm[h]) })
				ps = c06lTry(func() { s = ls.InsertBefore(v, w.hs[h]) })
			} else {
				name = "InsertAfter"
				pm = c06lTry(func() { m = lm.InsertAfter(v, w.hm[h]) })
				ps = c06lTry(func() { s = ls.InsertAfter(v, w.hs[h]) })
			}
			if !pm && !ps && !w.same(name, m, s) {
				return false
			}
		case 6, 7:
			h := pick()
			if h < 0 {
				continue
			}
			name = "Remove"
			var m int
			var s any
			pm = c06lTry(func() { m = lm.Remove(w.hm[h]) })
			ps = c06lTry(func() { s = ls.Remove(w.hs[h]) })
			if !pm && !ps && !c06lValEq(m, s) {
				t.Errorf("Remove returned mine=%v std=%v\nlog=%v", m, s, w.log)
				return false
			}
		case 8:
			h := pick()
			if h < 0 {
				continue
			}
			name = "MoveToFront"
			pm = c06lTry(func() { lm.MoveToFront(w.hm[h]) })
			ps = c06lTry(func() { ls.MoveToFront(w.hs[h]) })
		case 9:
			h := pick()
			if h < 0 {
				continue
			}
			name = "MoveToBack"
			pm = c06lTry(func() { lm.MoveToBack(w.hm[h]) })
			ps = c06lTry(func() { ls.MoveToBack(w.hs[h]) })
		case 10, 11:
			h, g := pick(), pick()
			if h < 0 {
				continue
			}
			if op == 10 {
				name = "MoveBefore"
				pm = c06lTry(func() { lm.MoveBefore(w.hm[h], w.hm[g]) })
				ps = c06lTry(func() { ls.MoveBefore(w.hs[h], w.hs[g]) })
			} else {
				name = "MoveAfter"
				pm = c06lTry(func() { lm.MoveAfter(w.hm[h], w.hm[g]) })
				ps = c06lTry(func() { ls.MoveAfter(w.hs[h], w.hs[g]) })
			}
		case 12, 13:
			o := rng.Intn(len(w.mine))
			if rng.Intn(2) == 0 {
				o = k // onto itself
			}
			if w.std[o].Len() > 300 {
				continue
			}
			if op == 12 {
				name = "PushBackList"
				pm = c06lTry(func() { lm.PushBackList(w.mine[o]) })
				ps = c06lTry(func() { ls.PushBackList(w.std[o]) })
			} else {
				name = "PushFrontList"
				pm = c06lTry(func() { lm.PushFrontList(w.mine[o]) })
				ps = c06lTry(func() { ls.PushFrontList(w.std[o]) })
			}
		case 14:
			if rng.Intn(100) >= initRate {
				continue
			}
			name = "Init"
			var m *List[int]
			var s *stdlist.List
			pm = c06lTry(func() { m = lm.Init() })
			ps = c06lTry(func() { s = ls.Init() })
			if m != lm || s != ls {
				t.Errorf("Init did not return its receiver")
				return false
			}
		case 15:
			name = "Front/Back"
			if !w.same("Front", lm.Front(), ls.Front()) || !w.same("Back", lm.Back(), ls.Back()) {
				return false
			}
		}
		w.log = append(w.log, name)
		if pm != ps {
			t.Errorf("seed %d step %d %s: panic mismatch mine=%v std=%v\nlog=%v", seed, step, name, pm, ps, w.log)
			return false
		}
		if !w.compareAll() {
			t.Errorf("seed %d step %d after %s", seed, step, name)
			return false
		}
	}
	return true
}

func TestC06ListDifferential(t *testing.T) {
	for seed := int64(1); seed <= 1500; seed++ {
		if !c06lRun(t, seed, 80, 0) { // never re-Init: only live/removed/foreign handles
			return
		}
	}
	for seed := int64(5001); seed <= 6500; seed++ {
		if !c06lRun(t, seed, 80, 60) { // Init on populated lists, stale handles reused
			return
		}
	}
}

func TestC06ListSelfPush(t *testing.T) {
	l := New[int]()
	s := stdlist.New()
	for i := 1; i <= 5; i++ {
		l.PushBack(i)
		s.PushBack(i)
	}
	for round := 0; round < 4; round++ {
		if round%2 == 0 {
			l.PushBackList(l)
			s.PushBackList(s)
		} else {
			l.PushFrontList(l)
			s.PushFrontList(s)
		}
		if l.Len() != s.Len() {
			t.Fatalf("Len %d vs %d", l.Len(), s.Len())
		}
		em, es := l.Front(), s.Front()
		for em != nil && es != nil {
			if em.Value != es.Value.(int) {
				t.Fatalf("value %d vs %v", em.Value, es.Value)
			}
			em, es = em.Next(), es.Next()
		}
		if em != nil || es != nil {
			t.Fatalf("forward length differs")
		}
		em, es = l.Back(), s.Back()
		for em != nil && es != nil {
			if em.Value != es.Value.(int) {
				t.Fatalf("value %d vs %v", em.Value, es.Value)
			}
			em, es = em.Prev(), es.Prev()
		}
		if em != nil || es != nil {
			t.Fatalf("backward length differs")
		}
	}
	var z List[int]
	var zs stdlist.List
	z.PushBackList(&z)
	zs.PushBackList(&zs)
	z.PushFrontList(l)
	zs.PushFrontList(s)
	if z.Len() != zs.Len() || z.Front().Value != zs.Front().Value.(int) || z.Back().Value != zs.Back().Value.(int) {
		t.Fatalf("zero-value target differs")
	}
}

// Methods that only compare the element's list with the receiver do not panic
// on a nil *List in container/list; the fork has to agree, panic or not.
func TestC06ListNilReceiver(t *testing.T) {
	var nm *List[int]
	var ns *stdlist.List
	lm, ls := New[int](), stdlist.New()
	am, as := lm.PushBack(1), ls.PushBack(1)
	bm, bs := lm.PushBack(2), ls.PushBack(2)
	rm, rs := lm.PushBack(3), ls.PushBack(3)
	rm2, rs2 := lm.PushBack(4), ls.PushBack(4)
	lm.Remove(rm)
	ls.Remove(rs)
	lm.Remove(rm2)
	ls.Remove(rs2)
	type pair struct {
		name string
		m, s func() any
	}
	cases := []pair{
		{"Remove live", func() any { return nm.Remove(am) }, func() any { return ns.Remove(as) }},
		{"Remove removed", func() any { return nm.Remove(rm) }, func() any { return ns.Remove(rs) }},
		{"InsertBefore live", func() any { return nm.InsertBefore(9, am) == nil }, func() any { return ns.InsertBefore(9, as) == nil }},
		{"InsertAfter live", func() any { return nm.InsertAfter(9, am) == nil }, func() any { return ns.InsertAfter(9, as) == nil }},
		{"InsertBefore removed", func() any { return nm.InsertBefore(9, rm) == nil }, func() any { return ns.InsertBefore(9, rs) == nil }},
		{"InsertAfter removed", func() any { return nm.InsertAfter(9, rm) == nil }, func() any { return ns.InsertAfter(9, rs) == nil }},
		{"MoveToFront live", func() any { nm.MoveToFront(bm); return nil }, func() any { ns.MoveToFront(bs); return nil }},
		{"MoveToBack live", func() any { nm.MoveToBack(am); return nil }, func() any { ns.MoveToBack(as); return nil }},
		{"MoveToFront removed", func() any { nm.MoveToFront(rm); return nil }, func() any { ns.MoveToFront(rs); return nil }},
		{"MoveBefore live", func() any { nm.MoveBefore(bm, am); return nil }, func() any { ns.MoveBefore(bs, as); return nil }},
		{"MoveAfter live", func() any { nm.MoveAfter(am, bm); return nil }, func() any { ns.MoveAfter(as, bs); return nil }},
		{"MoveBefore removed", func() any { nm.MoveBefore(rm, rm2); return nil }, func() any { ns.MoveBefore(rs, rs2); return nil }},
		{"MoveAfter removed", func() any { nm.MoveAfter(rm, rm2); return nil }, func() any { ns.MoveAfter(rs, rs2); return nil }},
		{"Len", func() any { return nm.Len() }, func() any { return ns.Len() }},
		{"PushBack", func() any { return nm.PushBack(1) == nil }, func() any { return ns.PushBack(1) == nil }},
	}
	for _, c := range cases {
		var vm, vs any
		pm := c06lTry(func() { vm = c.m() })
		ps := c06lTry(func() { vs = c.s() })
		if pm != ps {
			t.Errorf("%s: panic mine=%v std=%v", c.name, pm, ps)
		}
		if !pm && !ps && vm != vs {
			t.Errorf("%s: result mine=%v std=%v", c.name, vm, vs)
		}
		// the populated list must be untouched
		if lm.Len() != 2 || lm.Front() != am || lm.Back() != bm || am.Next() != bm || bm.Prev() != am || am.Prev() != nil || bm.Next() != nil {
			t.Fatalf("%s: bystander list modified", c.name)
		}
		if ls.Len() != 2 || ls.Front() != as || ls.Back() != bs {
			t.Fatalf("%s: std bystander list modified", c.name)
		}
	}
}
