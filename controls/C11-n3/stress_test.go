package maps_test

import (
	"math/rand"
	"sync"
	"testing"

	"gopkg.in/typ.v4/maps"
)

// s3Model is the obvious reference: two plain maps kept in step eagerly.
type s3Model struct {
	fwd map[int]string
	rev map[string]int
}

func newS3Model() *s3Model {
	return &s3Model{fwd: map[int]string{}, rev: map[string]int{}}
}

func (m *s3Model) add(k int, v string) {
	if ov, ok := m.fwd[k]; ok {
		delete(m.rev, ov)
	}
	if ok2, ok := m.rev[v]; ok {
		delete(m.fwd, ok2)
	}
	m.fwd[k] = v
	m.rev[v] = k
}

func (m *s3Model) removeForward(k int) {
	if v, ok := m.fwd[k]; ok {
		delete(m.fwd, k)
		delete(m.rev, v)
	}
}

func (m *s3Model) removeReverse(v string) {
	if k, ok := m.rev[v]; ok {
		delete(m.fwd, k)
		delete(m.rev, v)
	}
}

func (m *s3Model) clear() {
	m.fwd = map[int]string{}
	m.rev = map[string]int{}
}

func (m *s3Model) clone() *s3Model {
	c := newS3Model()
	for k, v := range m.fwd {
		c.fwd[k] = v
		c.rev[v] = k
	}
	return c
}

func s3Val(i int) string { return string(rune('a' + i)) }

// s3Check compares every observable of b with the model over the universe
// (plus one key and one value outside of it).
func s3Check(t *testing.T, tag string, b *maps.Bimap[int, string], m *s3Model, nk, nv int) {
	t.Helper()
	if b.Len() != len(m.fwd) || len(m.fwd) != len(m.rev) {
		t.Fatalf("%s: Len=%d model=%d/%d", tag, b.Len(), len(m.fwd), len(m.rev))
	}
	for k := -1; k <= nk; k++ {
		want, wantOK := m.fwd[k]
		got, ok := b.GetForward(k)
		if ok != wantOK || got != want {
			t.Fatalf("%s: GetForward(%d)=(%q,%v) want (%q,%v)", tag, k, got, ok, want, wantOK)
		}
		if b.ContainsForward(k) != wantOK {
			t.Fatalf("%s: ContainsForward(%d)=%v", tag, k, !wantOK)
		}
		if ok {
			back, backOK := b.GetReverse(got)
			if !backOK || back != k {
				t.Fatalf("%s: GetForward(%d)=%q but GetReverse(%q)=(%d,%v)", tag, k, got, got, back, backOK)
			}
		}
	}
	for i := -1; i <= nv; i++ {
		v := s3Val(i)
		want, wantOK := m.rev[v]
		got, ok := b.GetReverse(v)
		if ok != wantOK || got != want {
			t.Fatalf("%s: GetReverse(%q)=(%d,%v) want (%d,%v)", tag, v, got, ok, want, wantOK)
		}
		if b.ContainsReverse(v) != wantOK {
			t.Fatalf("%s: ContainsReverse(%q)=%v", tag, v, !wantOK)
		}
		if ok {
			back, backOK := b.GetForward(got)
			if !backOK || back != v {
				t.Fatalf("%s: GetReverse(%q)=%d but GetForward(%d)=(%q,%v)", tag, v, got, got, back, backOK)
			}
		}
	}
	seen := map[int]string{}
	b.Range(func(k int, v string) bool {
		if _, dup := seen[k]; dup {
			t.Fatalf("%s: Range visited key %d twice", tag, k)
		}
		seen[k] = v
		return true
	})
	if len(seen) != len(m.fwd) {
		t.Fatalf("%s: Range visited %d pairs, want %d", tag, len(seen), len(m.fwd))
	}
	for k, v := range seen {
		if m.fwd[k] != v {
			t.Fatalf("%s: Range visited (%d,%q), model has %q", tag, k, v, m.fwd[k])
		}
	}
}

type s3Inst struct {
	b *maps.Bimap[int, string]
	m *s3Model
}

// s3RangeRemoving runs a Range whose callback removes pairs, and checks that
// every visited pair was present at the moment of the visit, that nothing is
// visited twice and that every pair that was never removed was visited.
func s3RangeRemoving(t *testing.T, rng *rand.Rand, in s3Inst, nk, nv int) {
	t.Helper()
	visited := map[int]bool{}
	removed := map[int]bool{}
	before := in.m.clone()
	in.b.Range(func(k int, v string) bool {
		if visited[k] {
			t.Fatalf("removing Range visited key %d twice", k)
		}
		visited[k] = true
		if cur, ok := in.m.fwd[k]; !ok || cur != v {
			t.Fatalf("removing Range visited (%d,%q) which is not present (model %q,%v)", k, v, cur, ok)
		}
		switch rng.Intn(4) {
		case 0:
			in.b.RemoveForward(k)
			in.m.removeForward(k)
			removed[k] = true
		case 1:
			in.b.RemoveReverse(v)
			in.m.removeReverse(v)
			removed[k] = true
		case 2:
			ok := rng.Intn(nk)
			if _, has := in.m.fwd[ok]; has {
				removed[ok] = true
			}
			in.b.RemoveForward(ok)
			in.m.removeForward(ok)
		case 3:
			ov := s3Val(rng.Intn(nv))
			if key, has := in.m.rev[ov]; has {
				removed[key] = true
			}
			in.b.RemoveReverse(ov)
			in.m.removeReverse(ov)
		}
		return true
	})
	for k := range before.fwd {
		if !removed[k] && !visited[k] {
			t.Fatalf("removing Range skipped key %d which was never removed", k)
		}
	}
}

func s3History(t *testing.T, seed int64, nk, nv, steps int) {
	rng := rand.New(rand.NewSource(seed))
	var zero maps.Bimap[int, string]
	insts := []s3Inst{{&zero, newS3Model()}}
	cur := 0
	for step := 0; step < steps; step++ {
		in := insts[cur]
		switch op := rng.Intn(100); {
		case op < 45:
			k, v := rng.Intn(nk), s3Val(rng.Intn(nv))
			in.b.Add(k, v)
			in.m.add(k, v)
		case op < 60:
			k := rng.Intn(nk)
			in.b.RemoveForward(k)
			in.m.removeForward(k)
		case op < 75:
			v := s3Val(rng.Intn(nv))
			in.b.RemoveReverse(v)
			in.m.removeReverse(v)
		case op < 78:
			in.b.Clear()
			in.m.clear()
		case op < 84:
			c := in.b.Clone()
			insts = append(insts, s3Inst{&c, in.m.clone()})
			if len(insts) > 4 {
				insts = insts[1:]
			}
		case op < 90:
			cur = rng.Intn(len(insts))
		case op < 95:
			s3RangeRemoving(t, rng, in, nk, nv)
		default:
			limit, n := rng.Intn(3), 0
			in.b.Range(func(int, string) bool { n++; return n <= limit })
			want := limit + 1
			if len(in.m.fwd) < want {
				want = len(in.m.fwd)
			}
			if n != want {
				t.Fatalf("Range with early stop made %d calls, want %d", n, want)
			}
		}
		if cur >= len(insts) {
			cur = len(insts) - 1
		}
		// Every instance is checked, not only the one that was touched:
		// this is what catches a clone that is not independent.
		for i, other := range insts {
			s3Check(t, "inst"+s3Val(i), other.b, other.m, nk, nv)
		}
	}
}

func TestStress3SmallUniverses(t *testing.T) {
	for seed := int64(0); seed < 300; seed++ {
		nk, nv := 1+int(seed%4), 1+int(seed/4%4)
		s3History(t, seed, nk, nv, 250)
	}
}

func TestStress3WideUniverse(t *testing.T) {
	// Wide enough for the lazy reverse index to collect leftovers and sweep.
	for seed := int64(1000); seed < 1010; seed++ {
		s3History(t, seed, 24, 26, 1500)
	}
}

// TestStress3Churn rebinds keys to ever new values and removes through the
// key, which is what leaves stale reverse entries behind; values come back
// later under other keys, so a stale entry that is trusted by mistake shows.
func TestStress3Churn(t *testing.T) {
	rng := rand.New(rand.NewSource(33))
	var b maps.Bimap[int, int]
	fwd, rev := map[int]int{}, map[int]int{}
	const nk, nv = 40, 400
	for step := 0; step < 60000; step++ {
		switch rng.Intn(10) {
		case 0, 1, 2, 3, 4:
			k, v := rng.Intn(nk), rng.Intn(nv)
			b.Add(k, v)
			if ov, ok := fwd[k]; ok {
				delete(rev, ov)
			}
			if okey, ok := rev[v]; ok {
				delete(fwd, okey)
			}
			fwd[k], rev[v] = v, k
		case 5, 6, 7:
			k := rng.Intn(nk)
			b.RemoveForward(k)
			if v, ok := fwd[k]; ok {
				delete(fwd, k)
				delete(rev, v)
			}
		case 8:
			v := rng.Intn(nv)
			b.RemoveReverse(v)
			if k, ok := rev[v]; ok {
				delete(fwd, k)
				delete(rev, v)
			}
		case 9:
			v := rng.Intn(nv)
			k, ok := b.GetReverse(v)
			wk, wok := rev[v]
			if ok != wok || k != wk {
				t.Fatalf("step %d: GetReverse(%d)=(%d,%v) want (%d,%v)", step, v, k, ok, wk, wok)
			}
		}
		if b.Len() != len(fwd) {
			t.Fatalf("step %d: Len=%d want %d", step, b.Len(), len(fwd))
		}
		if step%97 == 0 {
			for v := 0; v < nv; v++ {
				k, ok := b.GetReverse(v)
				wk, wok := rev[v]
				if ok != wok || k != wk || b.ContainsReverse(v) != wok {
					t.Fatalf("step %d: GetReverse(%d)=(%d,%v) want (%d,%v)", step, v, k, ok, wk, wok)
				}
			}
			for k := 0; k < nk; k++ {
				v, ok := b.GetForward(k)
				wv, wok := fwd[k]
				if ok != wok || v != wv {
					t.Fatalf("step %d: GetForward(%d)=(%d,%v) want (%d,%v)", step, k, v, ok, wv, wok)
				}
			}
		}
	}
}

// TestStress3ConcurrentReaders: a bimap that nobody writes to may be read
// and cloned from many goroutines at once (meaningful under -race).
func TestStress3ConcurrentReaders(t *testing.T) {
	var b maps.Bimap[int, int]
	for i := 0; i < 200; i++ {
		b.Add(i%50, i)
	}
	for k := 0; k < 50; k += 3 {
		b.RemoveForward(k)
	}
	want := b.Len()
	var wg sync.WaitGroup
	for g := 0; g < 8; g++ {
		wg.Add(1)
		go func(g int) {
			defer wg.Done()
			for i := 0; i < 2000; i++ {
				k := (i + g) % 50
				if v, ok := b.GetForward(k); ok {
					if back, ok2 := b.GetReverse(v); !ok2 || back != k {
						t.Errorf("GetReverse(%d)=(%d,%v) want %d", v, back, ok2, k)
						return
					}
				}
				if _, ok := b.GetReverse(i % 200); ok != b.ContainsReverse(i%200) {
					t.Errorf("ContainsReverse disagrees with GetReverse")
					return
				}
				if i%100 == 0 {
					c := b.Clone()
					c.Add(1000+g, 1000+g)
					c.RemoveForward(k)
					n := 0
					b.Range(func(int, int) bool { n++; return true })
					if n != want || b.Len() != want {
						t.Errorf("Range saw %d pairs, Len=%d, want %d", n, b.Len(), want)
						return
					}
				}
			}
		}(g)
	}
	wg.Wait()
}
