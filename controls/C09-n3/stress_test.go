// Stress test for change 3 (baton-passing keyed locks). Uses only the
// exported API, so it is valid for any correct implementation.
package sync2_test

import (
	"math/rand"
	"sync"
	"sync/atomic"
	"testing"
	"time"

	"gopkg.in/typ.v4/sync2"
)

const s3Timeout = 20 * time.Second

func s3Wait(t *testing.T, what string, wg *sync.WaitGroup) {
	t.Helper()
	done := make(chan struct{})
	go func() { wg.Wait(); close(done) }()
	select {
	case <-done:
	case <-time.After(s3Timeout):
		t.Fatalf("%s: timed out (deadlock or lost wake-up)", what)
	}
}

// s3Within runs f and fails when it does not return promptly.
func s3Within(t *testing.T, what string, f func()) {
	t.Helper()
	done := make(chan struct{})
	go func() { f(); close(done) }()
	select {
	case <-done:
	case <-time.After(s3Timeout):
		t.Fatalf("%s: blocked", what)
	}
}

type s3Cell struct {
	inside  int32 // goroutines in the exclusive section
	readers int32 // goroutines in the shared section
	plain   int   // deliberately non-atomic: the race detector checks exclusion
	_       [40]byte
}

func TestStress3MutexExclusion(t *testing.T) {
	const keys, workers, iters = 3, 8, 3000
	var km sync2.KeyedMutex[int]
	cells := make([]s3Cell, keys)
	var acquired [keys]int64
	var bad int32
	var wg sync.WaitGroup
	for w := 0; w < workers; w++ {
		wg.Add(1)
		go func(seed int64) {
			defer wg.Done()
			r := rand.New(rand.NewSource(seed))
			for i := 0; i < iters; i++ {
				k := r.Intn(keys)
				if r.Intn(3) == 0 {
					if !km.TryLockKey(k) {
						continue
					}
				} else {
					km.LockKey(k)
				}
				c := &cells[k]
				if atomic.AddInt32(&c.inside, 1) != 1 {
					atomic.StoreInt32(&bad, 1)
				}
				c.plain++
				if r.Intn(8) == 0 {
					time.Sleep(time.Microsecond)
				}
				atomic.AddInt64(&acquired[k], 1)
				atomic.AddInt32(&c.inside, -1)
				km.UnlockKey(k)
			}
		}(int64(w) + 1)
	}
	s3Wait(t, "mutex exclusion", &wg)
	if bad != 0 {
		t.Fatal("two goroutines were inside the same key")
	}
	for k := range cells {
		if int64(cells[k].plain) != acquired[k] {
			t.Fatalf("key %d: counter %d, acquisitions %d", k, cells[k].plain, acquired[k])
		}
		if !km.TryLockKey(k) {
			t.Fatalf("key %d not free at the end", k)
		}
		km.UnlockKey(k)
	}
}

func TestStress3RWExclusion(t *testing.T) {
	const keys, workers, iters = 3, 8, 3000
	var km sync2.KeyedRWMutex[string]
	names := []string{"a", "b", "c"}
	cells := make([]s3Cell, keys)
	var writes [keys]int64
	var bad int32
	var sawShared int32
	var wg sync.WaitGroup
	for w := 0; w < workers; w++ {
		wg.Add(1)
		go func(seed int64) {
			defer wg.Done()
			r := rand.New(rand.NewSource(seed))
			for i := 0; i < iters; i++ {
				k := r.Intn(keys)
				c := &cells[k]
				op := r.Intn(10)
				switch {
				case op < 3: // writer, op 2 through TryLockKey
					if op < 2 {
						km.LockKey(names[k])
					} else if !km.TryLockKey(names[k]) {
						continue
					}
					if atomic.AddInt32(&c.inside, 1) != 1 || atomic.LoadInt32(&c.readers) != 0 {
						atomic.StoreInt32(&bad, 1)
					}
					c.plain++
					atomic.AddInt64(&writes[k], 1)
					atomic.AddInt32(&c.inside, -1)
					km.UnlockKey(names[k])
				default: // reader, op 8 and 9 through TryRLockKey
					if op < 8 {
						km.RLockKey(names[k])
					} else if !km.TryRLockKey(names[k]) {
						continue
					}
					if atomic.AddInt32(&c.readers, 1) > 1 {
						atomic.StoreInt32(&sawShared, 1)
					}
					if atomic.LoadInt32(&c.inside) != 0 {
						atomic.StoreInt32(&bad, 1)
					}
					_ = c.plain // plain read: races with a writer if exclusion is broken
					if r.Intn(8) == 0 {
						time.Sleep(time.Microsecond)
					}
					atomic.AddInt32(&c.readers, -1)
					km.RUnlockKey(names[k])
				}
			}
		}(int64(w) + 100)
	}
	s3Wait(t, "rw exclusion", &wg)
	if bad != 0 {
		t.Fatal("writer overlapped with a writer or a reader")
	}
	for k := range cells {
		if int64(cells[k].plain) != writes[k] {
			t.Fatalf("key %d: counter %d, writes %d", k, cells[k].plain, writes[k])
		}
	}
	_ = sawShared // sharing is timing dependent; checked deterministically below
}

// Try* semantics and cross-key independence, checked deterministically.
func TestStress3TryAndIndependence(t *testing.T) {
	var km sync2.KeyedMutex[int]
	var rw sync2.KeyedRWMutex[int]

	// Free, never-seen keys: Try* must succeed and hold the lock.
	if !km.TryLockKey(1) || km.TryLockKey(1) {
		t.Fatal("KeyedMutex: TryLockKey on fresh key / on held key")
	}
	if !rw.TryLockKey(1) || rw.TryLockKey(1) || rw.TryRLockKey(1) {
		t.Fatal("KeyedRWMutex: Try* on fresh key / on write-held key")
	}
	if !rw.TryRLockKey(2) || !rw.TryRLockKey(2) || rw.TryLockKey(2) {
		t.Fatal("KeyedRWMutex: readers must share and exclude a writer")
	}

	// Queue up waiters behind key 1 of both locks (and a writer behind the
	// readers of key 2), then use other keys: nothing may block or fail.
	var wg sync.WaitGroup
	for i := 0; i < 4; i++ {
		wg.Add(3)
		go func() { defer wg.Done(); km.LockKey(1); km.UnlockKey(1) }()
		go func() { defer wg.Done(); rw.LockKey(1); rw.UnlockKey(1) }()
		go func() { defer wg.Done(); rw.RLockKey(1); rw.RUnlockKey(1) }()
	}
	wg.Add(1)
	go func() { defer wg.Done(); rw.LockKey(2); rw.UnlockKey(2) }()
	time.Sleep(20 * time.Millisecond) // let them park
	s3Within(t, "other keys while key 1 is held and awaited", func() {
		for k := 10; k < 40; k++ {
			km.LockKey(k)
			if km.TryLockKey(k) {
				t.Error("TryLockKey succeeded on held key")
			}
			km.UnlockKey(k)
			if !km.TryLockKey(k) {
				t.Error("TryLockKey failed on free key")
			}
			km.UnlockKey(k)
			rw.RLockKey(k)
			if !rw.TryRLockKey(k) {
				t.Error("TryRLockKey failed next to a reader, no writer around")
			}
			rw.RUnlockKey(k)
			rw.RUnlockKey(k)
			if !rw.TryLockKey(k) {
				t.Error("rw TryLockKey failed on free key")
			}
			rw.UnlockKey(k)
			rw.LockKey(k)
			rw.UnlockKey(k)
		}
		// Try* on the contended keys returns (false) without blocking.
		if km.TryLockKey(1) || rw.TryLockKey(1) || rw.TryRLockKey(1) || rw.TryLockKey(2) {
			t.Error("Try* succeeded on incompatibly held key")
		}
	})
	km.UnlockKey(1)
	rw.UnlockKey(1)
	rw.RUnlockKey(2)
	rw.RUnlockKey(2)
	s3Wait(t, "waiters after release", &wg)
	for _, k := range []int{1, 2} {
		if !rw.TryLockKey(k) {
			t.Fatalf("rw key %d not free after all waiters passed", k)
		}
		rw.UnlockKey(k)
	}
	if !km.TryLockKey(1) {
		t.Fatal("key 1 not free after all waiters passed")
	}
	km.UnlockKey(1)
}

// Readers really share: n readers are inside at the same time.
func TestStress3ReadersShare(t *testing.T) {
	var rw sync2.KeyedRWMutex[string]
	const n = 6
	var in, out sync.WaitGroup
	in.Add(n)
	out.Add(n)
	release := make(chan struct{})
	for i := 0; i < n; i++ {
		go func() {
			defer out.Done()
			rw.RLockKey("k")
			in.Done()
			<-release
			rw.RUnlockKey("k")
		}()
	}
	s3Wait(t, "all readers inside together", &in)
	close(release)
	s3Wait(t, "readers leave", &out)
	rw.LockKey("k")
	rw.UnlockKey("k")
}

// Many rounds of the very first, simultaneous use of never-seen keys, on
// zero-value lockers, with ClearKey of idle keys in between.
func TestStress3FreshKeysAndClear(t *testing.T) {
	const rounds, g = 400, 4
	type key struct {
		round int
		name  string
	}
	var km sync2.KeyedMutex[key]
	var rw sync2.KeyedRWMutex[key]
	for round := 0; round < rounds; round++ {
		k := key{round, "x"}
		other := key{round, "y"}
		var inside, rinside int32
		var plain, rwPlain int
		var bad int32
		start := make(chan struct{})
		var wg sync.WaitGroup
		for i := 0; i < g; i++ {
			wg.Add(1)
			go func(i int) {
				defer wg.Done()
				<-start
				if i%2 == 0 || km.TryLockKey(k) {
					if i%2 == 0 {
						km.LockKey(k)
					}
					if atomic.AddInt32(&inside, 1) != 1 {
						atomic.StoreInt32(&bad, 1)
					}
					plain++
					atomic.AddInt32(&inside, -1)
					km.UnlockKey(k)
				}
				// a different key is always immediately available to its only user
				if i == 0 {
					if !km.TryLockKey(other) {
						atomic.StoreInt32(&bad, 2)
					} else {
						km.UnlockKey(other)
					}
				}
				if i == 0 {
					rw.LockKey(k)
					if atomic.AddInt32(&rinside, 100) != 100 {
						atomic.StoreInt32(&bad, 3)
					}
					rwPlain++
					atomic.AddInt32(&rinside, -100)
					rw.UnlockKey(k)
				} else {
					rw.RLockKey(k)
					if atomic.AddInt32(&rinside, 1) >= 100 {
						atomic.StoreInt32(&bad, 4)
					}
					_ = rwPlain
					atomic.AddInt32(&rinside, -1)
					rw.RUnlockKey(k)
				}
			}(i)
		}
		close(start)
		s3Wait(t, "fresh key round", &wg)
		if bad != 0 {
			t.Fatalf("round %d: violation %d", round, bad)
		}
		if plain < g/2 || rwPlain != 1 {
			t.Fatalf("round %d: plain=%d rwPlain=%d", round, plain, rwPlain)
		}
		// Idle keys: clearing them must leave them usable as fresh keys.
		if round%2 == 0 {
			km.ClearKey(k)
			rw.ClearKey(k)
			km.ClearKey(key{round, "never used"})
			rw.ClearKey(key{round, "never used"})
		}
		if !km.TryLockKey(k) || !rw.TryLockKey(k) {
			t.Fatalf("round %d: key not free after the round", round)
		}
		km.UnlockKey(k)
		rw.UnlockKey(k)
		if !rw.TryRLockKey(k) {
			t.Fatalf("round %d: TryRLockKey on free key", round)
		}
		rw.RUnlockKey(k)
	}
}
