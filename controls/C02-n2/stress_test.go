package avl

import (
	"math"
	"math/rand"
	"sort"
	"testing"
)

// checkNode verifies cached heights, AVL balance and (non-strict) BST order
// and returns the real height and node count of the subtree.
func checkNode(t *testing.T, n *node[int], lo, hi *int) (h, cnt int) {
	t.Helper()
	if n == nil {
		return -1, 0
	}
	if lo != nil && n.value < *lo {
		t.Fatalf("BST order violated: %d < lower bound %d", n.value, *lo)
	}
	if hi != nil && n.value > *hi {
		t.Fatalf("BST order violated: %d > upper bound %d", n.value, *hi)
	}
	lh, lc := checkNode(t, n.left, lo, &n.value)
	rh, rc := checkNode(t, n.right, &n.value, hi)
	if d := lh - rh; d < -1 || d > 1 {
		t.Fatalf("node %d unbalanced: left height %d, right height %d", n.value, lh, rh)
	}
	h = 1 + imax(lh, rh)
	if n.height != h {
		t.Fatalf("node %d cached height %d, real height %d", n.value, n.height, h)
	}
	return h, lc + rc + 1
}

// rebuild reconstructs the shape of a tree with distinct values from its
// pre-order and in-order traversals and returns its height (levels) and
// whether it is AVL balanced.
func rebuild(pre, in []int) (levels int, ok bool) {
	if len(pre) == 0 {
		return 0, true
	}
	root := pre[0]
	i := 0
	for in[i] != root {
		i++
	}
	ll, lok := rebuild(pre[1:1+i], in[:i])
	rl, rok := rebuild(pre[1+i:], in[i+1:])
	d := ll - rl
	return 1 + imax(ll, rl), lok && rok && d >= -1 && d <= 1
}

func checkTree(t *testing.T, tree *Tree[int], model []int, distinct bool) {
	t.Helper()
	h, cnt := checkNode(t, tree.root, nil, nil)
	if cnt != len(model) || tree.Len() != len(model) {
		t.Fatalf("count: nodes=%d Len=%d model=%d", cnt, tree.Len(), len(model))
	}
	in := tree.SliceInOrder()
	want := append([]int(nil), model...)
	sort.Ints(want)
	if len(in) != len(want) {
		t.Fatalf("in-order length %d, want %d", len(in), len(want))
	}
	for i := range in {
		if in[i] != want[i] {
			t.Fatalf("in-order[%d]=%d want %d", i, in[i], want[i])
		}
	}
	n := len(model)
	if n > 0 {
		bound := 1.4405 * math.Log2(float64(n+2))
		if float64(h+1) > bound {
			t.Fatalf("n=%d: %d levels exceeds %.3f", n, h+1, bound)
		}
	}
	pre := tree.SlicePreOrder()
	post := tree.SlicePostOrder()
	if len(pre) != n || len(post) != n {
		t.Fatalf("pre/post lengths %d/%d, want %d", len(pre), len(post), n)
	}
	if distinct {
		levels, ok := rebuild(pre, in)
		if !ok {
			t.Fatalf("tree rebuilt from traversals is not AVL balanced: pre=%v", pre)
		}
		if levels != h+1 {
			t.Fatalf("rebuilt levels %d, real %d", levels, h+1)
		}
	}
}

func TestStressSortedInput(t *testing.T) {
	for _, n := range []int{1, 2, 3, 7, 8, 100, 1000} {
		asc := NewOrdered[int]()
		desc := NewOrdered[int]()
		var model []int
		for i := 0; i < n; i++ {
			asc.Add(i)
			desc.Add(n - 1 - i)
			model = append(model, i)
			checkTree(t, &asc, model, true)
		}
		checkTree(t, &desc, model, true)
		// remove ascending from one, descending from the other
		for i := 0; i < n; i++ {
			if !asc.Remove(i) {
				t.Fatalf("Remove(%d) = false", i)
			}
			if asc.Contains(i) {
				t.Fatalf("Contains(%d) after removal", i)
			}
			if asc.Remove(i) {
				t.Fatalf("second Remove(%d) = true", i)
			}
			checkTree(t, &asc, model[i+1:], true)
			if !desc.Remove(n - 1 - i) {
				t.Fatalf("Remove(%d) = false", n-1-i)
			}
			checkTree(t, &desc, model[:n-1-i], true)
		}
	}
}

func TestStressRandomInterleaving(t *testing.T) {
	for seed := int64(1); seed <= 60; seed++ {
		rng := rand.New(rand.NewSource(seed))
		distinct := seed%2 == 0
		keyRange := 12 + rng.Intn(200)
		tree := NewOrdered[int]()
		var model []int
		present := map[int]int{}
		for op := 0; op < 1500; op++ {
			v := rng.Intn(keyRange)
			if rng.Intn(100) < 55 {
				if distinct && present[v] > 0 {
					continue
				}
				tree.Add(v)
				model = append(model, v)
				present[v]++
				if !tree.Contains(v) {
					t.Fatalf("seed %d: Contains(%d)=false after Add", seed, v)
				}
			} else {
				got := tree.Remove(v)
				if got != (present[v] > 0) {
					t.Fatalf("seed %d: Remove(%d)=%v, present %d times", seed, v, got, present[v])
				}
				if got {
					present[v]--
					for i, m := range model {
						if m == v {
							model = append(model[:i:i], model[i+1:]...)
							break
						}
					}
				}
				if tree.Contains(v) != (present[v] > 0) {
					t.Fatalf("seed %d: Contains(%d) wrong after Remove", seed, v)
				}
			}
			checkTree(t, &tree, model, distinct)
		}
		clone := tree.Clone()
		checkTree(t, &clone, model, distinct)
		if len(model) > 0 {
			clone.Remove(model[0])
			checkTree(t, &tree, model, distinct)
		}
		// drain in random order
		rng.Shuffle(len(model), func(i, j int) { model[i], model[j] = model[j], model[i] })
		for len(model) > 0 {
			if !tree.Remove(model[0]) {
				t.Fatalf("seed %d: drain Remove(%d)=false", seed, model[0])
			}
			model = model[1:]
			checkTree(t, &tree, model, distinct)
		}
		if tree.root != nil {
			t.Fatalf("seed %d: root not nil after drain", seed)
		}
	}
}

// All permutations of small sizes, every insertion order, then every
// deletion order prefix.
func TestStressExhaustiveSmall(t *testing.T) {
	var permute func(a []int, k int, f func([]int))
	permute = func(a []int, k int, f func([]int)) {
		if k == len(a) {
			f(a)
			return
		}
		for i := k; i < len(a); i++ {
			a[k], a[i] = a[i], a[k]
			permute(a, k+1, f)
			a[k], a[i] = a[i], a[k]
		}
	}
	for n := 1; n <= 5; n++ {
		vals := make([]int, n)
		for i := range vals {
			vals[i] = i
		}
		permute(vals, 0, func(ins []int) {
			insOrder := append([]int(nil), ins...)
			del := append([]int(nil), vals...)
			sort.Ints(del)
			permute(del, 0, func(delOrder []int) {
				tree := NewOrdered[int]()
				var model []int
				for _, v := range insOrder {
					tree.Add(v)
					model = append(model, v)
					checkTree(t, &tree, model, true)
				}
				remaining := map[int]bool{}
				for _, v := range insOrder {
					remaining[v] = true
				}
				for _, v := range delOrder {
					if !tree.Remove(v) {
						t.Fatalf("Remove(%d)=false", v)
					}
					delete(remaining, v)
					model = model[:0]
					for k := range remaining {
						model = append(model, k)
					}
					checkTree(t, &tree, model, true)
				}
			})
		})
	}
}

// Duplicates only: many equal values, custom comparator on a struct key.
func TestStressDuplicates(t *testing.T) {
	tree := NewOrdered[int]()
	var model []int
	for i := 0; i < 300; i++ {
		tree.Add(i % 3)
		model = append(model, i%3)
		checkTree(t, &tree, model, false)
	}
	for i := 0; i < 300; i++ {
		if !tree.Remove(i % 3) {
			t.Fatalf("Remove(%d)=false at %d", i%3, i)
		}
		model = model[1:]
		checkTree(t, &tree, model, false)
	}
}

func imax(a, b int) int {
	if a > b {
		return a
	}
	return b
}

// buildRange builds a balanced tree holding lo..hi-1 through the public API.
func buildRange(lo, hi int) *node[int] {
	tree := NewOrdered[int]()
	for i := lo; i < hi; i++ {
		tree.Add(i)
	}
	return tree.root
}

// join of two trees of every combination of sizes, i.e. every combination of
// heights and both "left much taller" and "right much taller".
func TestStressJoinAllSizes(t *testing.T) {
	sizes := []int{0, 1, 2, 3, 4, 5, 6, 7, 8, 12, 15, 16, 31, 33, 64, 100, 127, 128, 500}
	for _, ls := range sizes {
		for _, rs := range sizes {
			left := buildRange(0, ls)
			right := buildRange(ls+1, ls+1+rs)
			hl, hr := height(left), height(right)
			root := join(left, &node[int]{value: ls, left: left, height: 77}, right)
			tree := Tree[int]{compare: func(a, b int) int { return a - b }, root: root, count: ls + rs + 1}
			model := make([]int, ls+rs+1)
			for i := range model {
				model[i] = i
			}
			checkTree(t, &tree, model, true)
			hm := imax(hl, hr)
			if root.height != hm && root.height != hm+1 {
				t.Fatalf("join of heights %d and %d has height %d", hl, hr, root.height)
			}
		}
	}
}

// split at every position of trees of several sizes, then merge back.
func TestStressSplitMerge(t *testing.T) {
	cmp := func(a, b int) int { return a - b }
	for _, n := range []int{0, 1, 2, 3, 7, 10, 33, 100, 257} {
		for at := -1; at <= 2*n; at++ {
			// tree holds the even numbers 0,2,..,2n-2
			tree := NewOrdered[int]()
			for i := 0; i < n; i++ {
				tree.Add(2 * i)
			}
			before, after := tree.root.split(at, cmp)
			var mb, ma []int
			for i := 0; i < n; i++ {
				if 2*i <= at {
					mb = append(mb, 2*i)
				} else {
					ma = append(ma, 2*i)
				}
			}
			tb := Tree[int]{compare: cmp, root: before, count: len(mb)}
			ta := Tree[int]{compare: cmp, root: after, count: len(ma)}
			checkTree(t, &tb, mb, true)
			checkTree(t, &ta, ma, true)
			whole := Tree[int]{compare: cmp, root: merge(before, after), count: n}
			checkTree(t, &whole, append(mb, ma...), true)
		}
	}
}

// Clone has the same layout, shares no nodes, and is independent.
func TestStressCloneLayout(t *testing.T) {
	rng := rand.New(rand.NewSource(99))
	tree := NewOrdered[int]()
	var model []int
	for i := 0; i < 400; i++ {
		v := rng.Intn(1000)
		tree.Add(v)
		model = append(model, v)
	}
	clone := tree.Clone()
	checkTree(t, &clone, model, false)
	a, b := tree.SlicePreOrder(), clone.SlicePreOrder()
	for i := range a {
		if a[i] != b[i] {
			t.Fatalf("pre-order differs at %d", i)
		}
	}
	seen := map[*node[int]]bool{}
	var mark func(n *node[int])
	mark = func(n *node[int]) {
		if n != nil {
			seen[n] = true
			mark(n.left)
			mark(n.right)
		}
	}
	mark(tree.root)
	var probe func(n *node[int])
	probe = func(n *node[int]) {
		if n != nil {
			if seen[n] {
				t.Fatalf("clone shares node %d", n.value)
			}
			probe(n.left)
			probe(n.right)
		}
	}
	probe(clone.root)
	for _, v := range model {
		clone.Remove(v)
	}
	if clone.Len() != 0 {
		t.Fatalf("clone not drained")
	}
	checkTree(t, &tree, model, false)
	empty := NewOrdered[int]()
	ec := empty.Clone()
	ec.Add(1)
	if empty.Len() != 0 || ec.Len() != 1 {
		t.Fatalf("clone of empty tree is not independent")
	}
}
