// Stress test for the treap re-implementation of slices.Sorted (change 4).
package slices

import (
	"fmt"
	"math"
	"math/rand"
	"sort"
	"testing"
)

// model4 is the reference: a plain slice kept sorted by lower-bound insertion.
type model4 struct{ vals []int }

func (m *model4) lower(v int) int { return sort.SearchInts(m.vals, v) }
func (m *model4) add(v int) int {
	i := m.lower(v)
	m.vals = append(m.vals, 0)
	copy(m.vals[i+1:], m.vals[i:])
	m.vals[i] = v
	return i
}
func (m *model4) index(v int) int {
	i := m.lower(v)
	if i < len(m.vals) && m.vals[i] == v {
		return i
	}
	return -1
}
func (m *model4) removeAt(i int) { m.vals = append(m.vals[:i], m.vals[i+1:]...) }

func mustPanic4(t *testing.T, what string, f func()) {
	t.Helper()
	defer func() {
		if recover() == nil {
			t.Fatalf("%s: expected a panic", what)
		}
	}()
	f()
}

func checkAll4(t *testing.T, s *Sorted[int], m *model4, step int) {
	t.Helper()
	checkTree4(t, s)
	if s.Len() != len(m.vals) {
		t.Fatalf("step %d: Len=%d want %d", step, s.Len(), len(m.vals))
	}
	for i, want := range m.vals {
		if got := s.Get(i); got != want {
			t.Fatalf("step %d: Get(%d)=%d want %d", step, i, got, want)
		}
	}
	if got, want := s.String(), fmt.Sprint(m.vals); len(m.vals) > 0 && got != want {
		t.Fatalf("step %d: String=%s want %s", step, got, want)
	}
	if len(m.vals) == 0 && s.String() != "[]" {
		t.Fatalf("step %d: String=%s want []", step, s.String())
	}
}

func runHistory4(t *testing.T, rng *rand.Rand, initial, steps, span int, bias float64) {
	input := make([]int, initial)
	for i := range input {
		input[i] = rng.Intn(span)
	}
	keep := append([]int(nil), input...)
	var s Sorted[int]
	if rng.Intn(2) == 0 {
		s = NewSortedOrdered(input...)
	} else {
		s = NewSorted(input, func(a, b int) bool { return a < b })
	}
	m := &model4{vals: append([]int(nil), input...)}
	sort.Ints(m.vals)
	checkAll4(t, &s, m, -1)
	for step := 0; step < steps; step++ {
		v := rng.Intn(span+2) - 1
		switch r := rng.Float64(); {
		case r < bias:
			if got, want := s.Add(v), m.add(v); got != want {
				t.Fatalf("step %d: Add(%d)=%d want %d", step, v, got, want)
			}
		case r < bias+(1-bias)*0.5:
			want := m.index(v)
			if got := s.Remove(v); got != want {
				t.Fatalf("step %d: Remove(%d)=%d want %d", step, v, got, want)
			}
			if want >= 0 {
				m.removeAt(want)
			}
		case r < bias+(1-bias)*0.8:
			if len(m.vals) > 0 {
				i := rng.Intn(len(m.vals))
				s.RemoveAt(i)
				m.removeAt(i)
			}
		default:
			n := len(m.vals)
			mustPanic4(t, "Get(-1)", func() { s.Get(-1) })
			mustPanic4(t, "Get(n)", func() { s.Get(n) })
			mustPanic4(t, "RemoveAt(-1)", func() { s.RemoveAt(-1) })
			mustPanic4(t, "RemoveAt(n)", func() { s.RemoveAt(n + rng.Intn(3)) })
		}
		q := rng.Intn(span+2) - 1
		if got, want := s.Index(q), m.index(q); got != want {
			t.Fatalf("step %d: Index(%d)=%d want %d", step, q, got, want)
		}
		if got, want := s.Contains(q), m.index(q) != -1; got != want {
			t.Fatalf("step %d: Contains(%d)=%v want %v", step, q, got, want)
		}
		if step%17 == 0 || step == steps-1 {
			checkAll4(t, &s, m, step)
		}
	}
	for i := range keep {
		if input[i] != keep[i] {
			t.Fatalf("input slice was modified at %d", i)
		}
	}
}

func TestStress4_RandomHistories(t *testing.T) {
	rng := rand.New(rand.NewSource(3))
	for round := 0; round < 300; round++ {
		initial := []int{0, 1, 5, 24, 25, 32, 33, 100, 500}[rng.Intn(9)]
		span := []int{3, 10, 100, 100000}[rng.Intn(4)]
		bias := []float64{0.2, 0.5, 0.8}[rng.Intn(3)]
		runHistory4(t, rng, initial, 400, span, bias)
	}
}

func TestStress4_GrowThenDrain(t *testing.T) {
	rng := rand.New(rand.NewSource(33))
	runHistory4(t, rng, 0, 6000, 50, 0.9)
	runHistory4(t, rng, 3000, 8000, 1000, 0.1)
	// Monotone insertions exercise the append and front paths.
	s := NewSortedOrdered[int]()
	for i := 0; i < 2000; i++ {
		if got := s.Add(i); got != i {
			t.Fatalf("ascending Add(%d)=%d", i, got)
		}
	}
	for i := -1; i >= -2000; i-- {
		if got := s.Add(i); got != 0 {
			t.Fatalf("descending Add(%d)=%d", i, got)
		}
	}
	for i := 0; i < 4000; i++ {
		if got := s.Get(i); got != i-2000 {
			t.Fatalf("Get(%d)=%d", i, got)
		}
	}
	for s.Len() > 0 {
		i := rng.Intn(s.Len())
		v := s.Get(i)
		if got := s.Remove(v); got != i {
			t.Fatalf("Remove(%d)=%d want %d", v, got, i)
		}
	}
}

type tie4 struct{ key, id int }

// With a less that cannot tell some different values apart only the order
// and the multiset are pinned down, plus: a Remove that reports a position
// took out a value equal to the argument from exactly there, and one that
// reports -1 changed nothing.
func TestStress4_Ties(t *testing.T) {
	rng := rand.New(rand.NewSource(333))
	less := func(a, b tie4) bool { return a.key < b.key }
	for round := 0; round < 200; round++ {
		input := make([]tie4, rng.Intn(80))
		for i := range input {
			input[i] = tie4{rng.Intn(6), rng.Intn(4)}
		}
		keep := append([]tie4(nil), input...)
		s := NewSorted(input, less)
		bag := map[tie4]int{}
		total := len(input)
		for _, v := range input {
			bag[v]++
		}
		for step := 0; step < 300; step++ {
			v := tie4{rng.Intn(6), rng.Intn(4)}
			switch rng.Intn(4) {
			case 0, 1:
				i := s.Add(v)
				if s.Get(i) != v {
					t.Fatalf("Add returned %d but %v is there", i, s.Get(i))
				}
				bag[v]++
				total++
			case 2:
				before := s.Len()
				idx := s.Index(v)
				if s.Contains(v) != (idx != -1) {
					t.Fatalf("Contains disagrees with Index")
				}
				if idx != -1 && s.Get(idx) != v {
					t.Fatalf("Index(%v)=%d holds %v", v, idx, s.Get(idx))
				}
				i := s.Remove(v)
				if i == -1 {
					if s.Len() != before {
						t.Fatalf("Remove=-1 changed the length")
					}
				} else {
					if i != idx || bag[v] == 0 || s.Len() != before-1 {
						t.Fatalf("Remove(%v)=%d idx=%d bag=%d", v, i, idx, bag[v])
					}
					bag[v]--
					total--
				}
			case 3:
				if s.Len() > 0 {
					i := rng.Intn(s.Len())
					bag[s.Get(i)]--
					total--
					s.RemoveAt(i)
				}
			}
			if s.Len() != total {
				t.Fatalf("Len=%d want %d", s.Len(), total)
			}
			checkTree4(t, &s)
			seen := map[tie4]int{}
			for i := 0; i < s.Len(); i++ {
				if i > 0 && less(s.Get(i), s.Get(i-1)) {
					t.Fatalf("out of order at %d: %v", i, s)
				}
				seen[s.Get(i)]++
			}
			for k, n := range bag {
				if seen[k] != n {
					t.Fatalf("multiset differs for %v: %d want %d", k, seen[k], n)
				}
			}
		}
		for i := range keep {
			if input[i] != keep[i] {
				t.Fatalf("input slice was modified")
			}
		}
	}
}

func TestStress4_NaNAndCorners(t *testing.T) {
	rng := rand.New(rand.NewSource(3333))
	s := NewSortedOrdered(2, math.NaN(), 1)
	nans, others := 1, 2
	for step := 0; step < 3000; step++ {
		switch rng.Intn(5) {
		case 0:
			s.Add(math.NaN())
			nans++
		case 1, 2:
			s.Add(float64(rng.Intn(20)))
			others++
		case 3:
			if s.Remove(float64(rng.Intn(20))) != -1 {
				others--
			}
		case 4:
			if s.Remove(math.NaN()) != -1 {
				t.Fatalf("NaN is never equal to anything")
			}
		}
		gotNaN := 0
		for i := 0; i < s.Len(); i++ {
			if v := s.Get(i); v != v {
				gotNaN++
			}
			if i > 0 && s.Get(i) < s.Get(i-1) {
				t.Fatalf("neighbours out of order at %d", i)
			}
		}
		if gotNaN != nans || s.Len() != nans+others {
			t.Fatalf("lost or gained values: %d/%d NaN, len %d want %d", gotNaN, nans, s.Len(), nans+others)
		}
	}

	var nilSorted *Sorted[int]
	if nilSorted.Len() != 0 {
		t.Fatalf("nil Len")
	}
	mustPanic4(t, "nil Add", func() { nilSorted.Add(1) })
	mustPanic4(t, "nil Get", func() { nilSorted.Get(0) })
	mustPanic4(t, "nil RemoveAt", func() { nilSorted.RemoveAt(0) })
	var zero Sorted[int]
	if zero.Len() != 0 || zero.String() != "[]" {
		t.Fatalf("zero value: %d %s", zero.Len(), zero.String())
	}
	mustPanic4(t, "zero Add", func() { zero.Add(1) })
	mustPanic4(t, "zero Index", func() { zero.Index(1) })
	mustPanic4(t, "zero Get", func() { zero.Get(0) })
}

// checkTree4 verifies the shape of the tree behind a Sorted: subtree sizes,
// heap order of the priorities, that no node is reachable twice, and that
// every node of the arena is either in the tree or on the free list.
func checkTree4[T comparable](t *testing.T, s *Sorted[T]) {
	t.Helper()
	seen := map[int]bool{}
	maxDepth := 0
	var walk func(x, depth int) int
	walk = func(x, depth int) int {
		if x == 0 {
			return 0
		}
		if x < 0 || x >= len(s.nodes) || seen[x] {
			t.Fatalf("node %d out of range or reached twice", x)
		}
		seen[x] = true
		if depth > maxDepth {
			maxDepth = depth
		}
		n := s.nodes[x]
		for _, child := range []int{n.left, n.right} {
			if child != 0 && s.nodes[child].prio > n.prio {
				t.Fatalf("child %d has a higher priority than its parent %d", child, x)
			}
		}
		size := walk(n.left, depth+1) + 1 + walk(n.right, depth+1)
		if n.size != size {
			t.Fatalf("node %d: size=%d but the subtree has %d nodes", x, n.size, size)
		}
		return size
	}
	total := walk(s.root, 1)
	if total != s.Len() {
		t.Fatalf("Len=%d but %d nodes are reachable", s.Len(), total)
	}
	if total > 64 && maxDepth > 12*bitLen4(total) {
		t.Fatalf("tree is %d deep for %d values", maxDepth, total)
	}
	free := 0
	var zero T
	for x := s.free; x != 0; x = s.nodes[x].left {
		if seen[x] {
			t.Fatalf("node %d is in the tree and on the free list, or the free list loops", x)
		}
		seen[x] = true
		free++
		if s.nodes[x].value != zero {
			t.Fatalf("released node %d still holds %v", x, s.nodes[x].value)
		}
	}
	if len(s.nodes) > 0 && total+free+1 != len(s.nodes) {
		t.Fatalf("arena of %d holds %d used and %d free nodes", len(s.nodes), total, free)
	}
}

func bitLen4(n int) int {
	bits := 0
	for ; n > 0; n >>= 1 {
		bits++
	}
	return bits
}

func TestStress4_TreeShape(t *testing.T) {
	rng := rand.New(rand.NewSource(4))
	s := NewSortedOrdered[int]()
	checkTree4(t, &s)
	for step := 0; step < 30000; step++ {
		grow := (step/5000)%2 == 0
		switch {
		case rng.Intn(10) < 7 == grow:
			// Sorted runs are the classic way to unbalance a tree.
			s.Add(step)
		case s.Len() > 0 && rng.Intn(2) == 0:
			s.RemoveAt(rng.Intn(s.Len()))
		case s.Len() > 0:
			s.Remove(s.Get(rng.Intn(s.Len())))
		}
		if step%250 == 0 {
			checkTree4(t, &s)
		}
	}
	for s.Len() > 0 {
		s.RemoveAt(0)
	}
	checkTree4(t, &s)
	if s.root != 0 || s.String() != "[]" {
		t.Fatalf("not empty: root=%d %s", s.root, s.String())
	}
}

// A Sorted that got its less function but no arena (which the exported API
// cannot produce) still sets up the arena by itself.
func TestStress4_NoArena(t *testing.T) {
	s := Sorted[int]{less: func(a, b int) bool { return a < b }}
	for _, v := range []int{5, 1, 3, 1} {
		s.Add(v)
	}
	checkTree4(t, &s)
	if s.String() != "[1 1 3 5]" || s.Index(1) != 0 || s.Remove(3) != 2 || s.String() != "[1 1 5]" {
		t.Fatalf("unexpected contents %s", s.String())
	}
	checkTree4(t, &s)
}
