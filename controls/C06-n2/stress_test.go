package lists

// Differential stress test for property C06 (Ring part): every sequence of
// Next/Prev/Move/Link/Unlink/Len/Do on lists.Ring[int] must behave exactly
// like container/ring, for any counts and any pair of rings (same ring,
// different rings, nil, zero-value one-element rings).

import (
	stdring "container/ring"
	"math"
	"math/rand"
	"testing"
)

type c06rWorld struct {
	t    *testing.T
	hm   []*Ring[int]
	hs   []*stdring.Ring
	mIdx map[*Ring[int]]int
	sIdx map[*stdring.Ring]int
	log  []string
}

func (w *c06rWorld) reg(m *Ring[int], s *stdring.Ring) {
	id := len(w.hm) + 1
	m.Value = id
	s.Value = id
	w.mIdx[m] = len(w.hm)
	w.sIdx[s] = len(w.hs)
	w.hm = append(w.hm, m)
	w.hs = append(w.hs, s)
}

func (w *c06rWorld) same(what string, m *Ring[int], s *stdring.Ring) bool {
	if (m == nil) != (s == nil) {
		w.t.Errorf("%s: nil mismatch mine=%v std=%v\nlog=%v", what, m == nil, s == nil, w.log)
		return false
	}
	if m == nil {
		return true
	}
	im, okm := w.mIdx[m]
	is, oks := w.sIdx[s]
	if !okm || !oks || im != is {
		w.t.Errorf("%s: node mismatch mine=%d(%v) std=%d(%v)\nlog=%v", what, im, okm, is, oks, w.log)
		return false
	}
	return true
}

func (w *c06rWorld) addRing(n int) {
	m := NewRing[int](n)
	s := stdring.New(n)
	if (m == nil) != (s == nil) {
		w.t.Fatalf("NewRing(%d) nil mismatch", n)
	}
	if m == nil {
		return
	}
	if m.Len() != s.Len() || m.Len() != n {
		w.t.Fatalf("NewRing(%d).Len() = %d, std %d", n, m.Len(), s.Len())
	}
	pm, ps := m, s
	for i := 0; i < n; i++ {
		w.reg(pm, ps)
		pm, ps = pm.Next(), ps.Next()
	}
	if pm != m || ps != s {
		w.t.Fatalf("NewRing(%d) is not a cycle of n", n)
	}
}

func (w *c06rWorld) compareAll(withLen bool) bool {
	for i := range w.hm {
		m, s := w.hm[i], w.hs[i]
		if !w.same("Next", m.Next(), s.Next()) || !w.same("Prev", m.Prev(), s.Prev()) {
			return false
		}
		if m.Value != s.Value.(int) {
			w.t.Errorf("value changed")
			return false
		}
		if withLen {
			if m.Len() != s.Len() {
				w.t.Errorf("node %d Len mine=%d std=%d\nlog=%v", i, m.Len(), s.Len(), w.log)
				return false
			}
			var vm, vs []int
			m.Do(func(v int) { vm = append(vm, v) })
			s.Do(func(v any) { vs = append(vs, v.(int)) })
			if len(vm) != len(vs) {
				w.t.Errorf("Do length differs")
				return false
			}
			for j := range vm {
				if vm[j] != vs[j] {
					w.t.Errorf("Do order differs at %d: %v vs %v\nlog=%v", j, vm, vs, w.log)
					return false
				}
			}
		}
	}
	return true
}

func c06rCount(rng *rand.Rand) int {
	switch rng.Intn(6) {
	case 0:
		return rng.Intn(5) - 2
	case 1:
		return rng.Intn(41) - 20
	case 2:
		return rng.Intn(2001) - 1000
	case 3:
		return 30000 + rng.Intn(1000)
	case 4:
		return -30000 - rng.Intn(1000)
	default:
		return rng.Intn(12)
	}
}

func c06rRun(t *testing.T, seed int64, ops int) bool {
	rng := rand.New(rand.NewSource(seed))
	w := &c06rWorld{t: t, mIdx: map[*Ring[int]]int{}, sIdx: map[*stdring.Ring]int{}}
	for i := 0; i < 5; i++ {
		w.addRing(rng.Intn(8) - 1) // includes -1 and 0 => nil
	}
	// zero-value one-element rings, not yet initialised
	for i := 0; i < 3; i++ {
		w.reg(new(Ring[int]), new(stdring.Ring))
	}
	pick := func() int { return rng.Intn(len(w.hm)) }
	for step := 0; step < ops; step++ {
		h := pick()
		m, s := w.hm[h], w.hs[h]
		name := ""
		ok := true
		switch rng.Intn(8) {
		case 0:
			name = "Next"
			ok = w.same(name, m.Next(), s.Next())
		case 1:
			name = "Prev"
			ok = w.same(name, m.Prev(), s.Prev())
		case 2, 3:
			n := c06rCount(rng)
			name = "Move"
			ok = w.same(name, m.Move(n), s.Move(n))
		case 4, 5:
			name = "Link"
			if rng.Intn(10) == 0 {
				ok = w.same("Link(nil)", m.Link(nil), s.Link(nil))
			} else {
				g := pick()
				ok = w.same(name, m.Link(w.hm[g]), s.Link(w.hs[g]))
			}
		case 6:
			n := c06rCount(rng)
			name = "Unlink"
			ok = w.same(name, m.Unlink(n), s.Unlink(n))
		case 7:
			name = "Len"
			if m.Len() != s.Len() {
				t.Errorf("Len mine=%d std=%d\nlog=%v", m.Len(), s.Len(), w.log)
				ok = false
			}
		}
		w.log = append(w.log, name)
		if !ok || !w.compareAll(step%8 == 0 || step == ops-1) {
			t.Errorf("seed %d step %d after %s on node %d", seed, step, name, h)
			return false
		}
	}
	return true
}

func TestC06RingDifferential(t *testing.T) {
	for seed := int64(1); seed <= 1500; seed++ {
		if !c06rRun(t, seed, 80) {
			return
		}
	}
}

func TestC06RingEdgeCounts(t *testing.T) {
	var nm *Ring[int]
	var ns *stdring.Ring
	if nm.Len() != ns.Len() {
		t.Fatalf("nil Len")
	}
	nm.Do(func(int) { t.Fatalf("Do on nil ring called f") })
	if NewRing[int](0) != nil || NewRing[int](-3) != nil {
		t.Fatalf("NewRing(<=0) != nil")
	}
	// zero-value ring: every method first turns it into a one-element ring
	for _, n := range []int{0, 1, -1, 7, -7, math.MaxInt, math.MinInt} {
		var z Ring[int]
		if z.Move(n) != &z {
			t.Fatalf("zero ring Move(%d) != r", n)
		}
		if z.Next() != &z || z.Prev() != &z || z.Len() != 1 {
			t.Fatalf("zero ring is not a one-element ring after Move")
		}
	}
	for _, size := range []int{1, 2, 3, 5, 8} {
		r := NewRing[int](size)
		s := stdring.New(size)
		nodes := make([]*Ring[int], size)
		idx := map[*Ring[int]]int{}
		for i, p := 0, r; i < size; i, p = i+1, p.Next() {
			p.Value = i
			nodes[i] = p
			idx[p] = i
		}
		for i, p := 0, s; i < size; i, p = i+1, p.Next() {
			p.Value = i
		}
		for n := -3 * size; n <= 3*size; n++ {
			if got, want := r.Move(n).Value, s.Move(n).Value.(int); got != want {
				t.Fatalf("size %d Move(%d) = %d, want %d", size, n, got, want)
			}
		}
		// Counts far too large to walk: the result is fixed by modular
		// arithmetic on the ring length.
		mod := func(a int) int { return ((a % size) + size) % size }
		for _, n := range []int{math.MaxInt, math.MaxInt - 1, math.MinInt, math.MinInt + 1, 1 << 40, -(1 << 40)} {
			want := mod(mod(n))
			if got := idx[r.Move(n)]; got != want {
				t.Fatalf("size %d Move(%d) = node %d, want %d", size, n, got, want)
			}
			if got := idx[nodes[size-1].Move(n)]; got != mod(size-1+mod(n)) {
				t.Fatalf("size %d last.Move(%d) = node %d, want %d", size, n, got, mod(size-1+mod(n)))
			}
		}
		if r.Len() != size {
			t.Fatalf("ring modified by Move")
		}
	}
}
