package sync2_test

import (
	"sync"
	"sync/atomic"
	"testing"

	"gopkg.in/typ.v4/sync2"
)

// CAS increments from many goroutines must not lose updates, and every
// intermediate value must be the outcome of exactly one successful CAS.
func TestStress2AtomicValueCASCounter(t *testing.T) {
	const workers, rounds = 8, 2000
	var v sync2.AtomicValue[int]
	if v.Load() != 0 {
		t.Fatal("want zero value before first store")
	}
	if v.CompareAndSwap(0, 1) {
		t.Fatal("CAS on a never-stored AtomicValue[int] must fail, as in sync/atomic.Value")
	}
	v.Store(0)
	won := make([]int32, workers*rounds)
	var wg sync.WaitGroup
	for w := 0; w < workers; w++ {
		wg.Add(1)
		go func() {
			defer wg.Done()
			for i := 0; i < rounds; i++ {
				for {
					cur := v.Load()
					if v.CompareAndSwap(cur, cur+1) {
						atomic.AddInt32(&won[cur], 1)
						break
					}
				}
			}
		}()
	}
	wg.Wait()
	if got := v.Load(); got != workers*rounds {
		t.Fatalf("got %d, want %d", got, workers*rounds)
	}
	for i, n := range won {
		if n != 1 {
			t.Fatalf("value %d was replaced %d times", i, n)
		}
	}
	if v.CompareAndSwap(-1, 7) {
		t.Fatal("CAS with wrong old succeeded")
	}
	if !v.CompareAndSwap(workers*rounds, 7) || v.Load() != 7 {
		t.Fatal("CAS with right old failed")
	}
}

// Every stored value is returned by exactly one later Swap (or is the final
// value), and the initial zero value is returned exactly once.
func TestStress2AtomicValueSwapChain(t *testing.T) {
	const workers, rounds = 8, 2000
	var v sync2.AtomicValue[int]
	seen := make([]int32, workers*rounds+1)
	var wg sync.WaitGroup
	for w := 0; w < workers; w++ {
		wg.Add(1)
		go func(w int) {
			defer wg.Done()
			for i := 0; i < rounds; i++ {
				old := v.Swap(w*rounds + i + 1)
				atomic.AddInt32(&seen[old], 1)
			}
		}(w)
	}
	wg.Wait()
	seen[v.Load()]++
	for i, n := range seen {
		if n != 1 {
			t.Fatalf("value %d seen %d times", i, n)
		}
	}
}

// A reader concurrent with one writer storing 1,2,3,... must never see the
// register go backwards, and struct values must never be torn.
func TestStress2AtomicValueMonotonicNoTearing(t *testing.T) {
	type pair struct{ a, b, c, d int }
	const rounds = 20000
	var v sync2.AtomicValue[pair]
	var wg sync.WaitGroup
	done := make(chan struct{})
	for r := 0; r < 4; r++ {
		wg.Add(1)
		go func() {
			defer wg.Done()
			last := 0
			for {
				p := v.Load()
				if p.a != p.b || p.b != p.c || p.c != p.d {
					t.Errorf("torn read %+v", p)
					return
				}
				if p.a < last {
					t.Errorf("went backwards: %d after %d", p.a, last)
					return
				}
				last = p.a
				select {
				case <-done:
					return
				default:
				}
			}
		}()
	}
	for i := 1; i <= rounds; i++ {
		v.Store(pair{i, i, i, i})
	}
	close(done)
	wg.Wait()
	if got := v.Load(); got.a != rounds {
		t.Fatalf("got %+v", got)
	}
}

func TestAtomicValueNilPanics2(t *testing.T) {
	mustPanic := func(name string, f func()) {
		t.Helper()
		defer func() {
			if recover() == nil {
				t.Errorf("%s: want panic", name)
			}
		}()
		f()
	}
	var v sync2.AtomicValue[error]
	mustPanic("Store", func() { v.Store(nil) })
	mustPanic("Swap", func() { v.Swap(nil) })
	mustPanic("CompareAndSwap", func() { v.CompareAndSwap(nil, nil) })
	if v.Load() != nil {
		t.Fatal("want nil")
	}
	// typed nil pointers are fine
	var p sync2.AtomicValue[*int]
	p.Store(nil)
	if p.Swap(new(int)) != nil {
		t.Fatal("want nil pointer back")
	}
}

type token2 struct {
	inUse int32
	fresh bool
}

func stressPool2(t *testing.T, p *sync2.Pool[*token2], withNew bool) {
	const workers, rounds = 8, 5000
	var wg sync.WaitGroup
	for w := 0; w < workers; w++ {
		wg.Add(1)
		go func() {
			defer wg.Done()
			held := make([]*token2, 0, 4)
			for i := 0; i < rounds; i++ {
				x := p.Get()
				if x == nil {
					if withNew {
						t.Error("Get returned nil although New is set")
						return
					}
					// zero value because New is nil: make our own item
					x = &token2{}
				}
				if !atomic.CompareAndSwapInt32(&x.inUse, 0, 1) {
					t.Error("item handed to two users at once")
					return
				}
				held = append(held, x)
				if len(held) == cap(held) || i%3 == 0 {
					for _, h := range held {
						atomic.StoreInt32(&h.inUse, 0)
						p.Put(h)
					}
					held = held[:0]
				}
			}
		}()
	}
	wg.Wait()
}

func TestStress2PoolWithNew(t *testing.T) {
	p := &sync2.Pool[*token2]{New: func() *token2 { return &token2{fresh: true} }}
	stressPool2(t, p, true)
}

func TestStress2PoolWithoutNew(t *testing.T) {
	p := &sync2.Pool[*token2]{}
	stressPool2(t, p, false)
}

// Put more than any implementation is likely to keep, then drain: every item
// that comes back is either one we put (once) or a fresh one.
func TestPoolDrainNoDuplicates2(t *testing.T) {
	p := &sync2.Pool[*token2]{New: func() *token2 { return &token2{fresh: true} }}
	const n = 5000
	put := make(map[*token2]bool, n)
	for i := 0; i < n; i++ {
		x := &token2{}
		put[x] = true
		p.Put(x)
	}
	got := make(map[*token2]bool, n)
	for i := 0; i < 2*n; i++ {
		x := p.Get()
		if x.fresh {
			continue
		}
		if !put[x] {
			t.Fatal("Get returned an item that was neither Put nor made by New")
		}
		if got[x] {
			t.Fatal("Get returned the same item twice without a Put in between")
		}
		got[x] = true
	}
}

// Without New, Get hands out either an idle item (exactly once per Put) or the
// zero value.
func TestPoolWithoutNewRecycles2(t *testing.T) {
	p := &sync2.Pool[*token2]{}
	if p.Get() != nil {
		t.Fatal("empty pool without New must give the zero value")
	}
	a, b := &token2{}, &token2{}
	p.Put(a)
	p.Put(b)
	seen := map[*token2]int{}
	for i := 0; i < 50; i++ {
		if x := p.Get(); x != nil {
			seen[x]++
		}
	}
	for x, n := range seen {
		if x != a && x != b {
			t.Fatal("unknown item")
		}
		if n != 1 {
			t.Fatalf("item handed out %d times after one Put", n)
		}
	}
}

// CAS on an interface typed register: before the first store only a nil old
// value matches.
func TestAtomicValueInterfaceCAS2(t *testing.T) {
	var v sync2.AtomicValue[any]
	if v.CompareAndSwap(1, 2) {
		t.Fatal("CAS(1,2) on empty register must fail")
	}
	if !v.CompareAndSwap(nil, 1) || v.Load() != 1 {
		t.Fatal("CAS(nil,1) on empty register must succeed")
	}
	if v.CompareAndSwap(nil, 3) {
		t.Fatal("CAS(nil,3) on non-empty register must fail")
	}
	if !v.CompareAndSwap(1, 2) || v.Load() != 2 {
		t.Fatal("CAS(1,2) must succeed")
	}
}
