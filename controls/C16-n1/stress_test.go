package lists_test

import (
	"math/rand"
	"testing"

	"gopkg.in/typ.v4/lists"
)

// Model-based check of C16: random interleavings of every operation are
// compared, step by step, against a plain slice model.

func TestC16QueueModel(t *testing.T) {
	for seed := int64(0); seed < 300; seed++ {
		rng := rand.New(rand.NewSource(seed))
		var q lists.Queue[int]
		var model []int
		next := 1
		// bias drifts so that the queue repeatedly grows large and drains.
		steps := 200 + rng.Intn(3000)
		for i := 0; i < steps; i++ {
			bias := 3 + 2*((i/400)%2) // 3 => mostly dequeue, 5 => mostly enqueue
			switch op := rng.Intn(10); {
			case op < bias:
				q.Enqueue(next)
				model = append(model, next)
				next++
			case op < 8:
				got, ok := q.Dequeue()
				if len(model) == 0 {
					if ok || got != 0 {
						t.Fatalf("seed %d step %d: Dequeue on empty = %d,%t", seed, i, got, ok)
					}
				} else {
					if !ok || got != model[0] {
						t.Fatalf("seed %d step %d: Dequeue = %d,%t want %d,true", seed, i, got, ok, model[0])
					}
					model = model[1:]
				}
			default:
				got, ok := q.Peek()
				if len(model) == 0 {
					if ok || got != 0 {
						t.Fatalf("seed %d step %d: Peek on empty = %d,%t", seed, i, got, ok)
					}
				} else if !ok || got != model[0] {
					t.Fatalf("seed %d step %d: Peek = %d,%t want %d,true", seed, i, got, ok, model[0])
				}
			}
			if q.Len() != len(model) {
				t.Fatalf("seed %d step %d: Len = %d want %d", seed, i, q.Len(), len(model))
			}
		}
		// drain, then check it is still empty and usable
		for len(model) > 0 {
			got, ok := q.Dequeue()
			if !ok || got != model[0] {
				t.Fatalf("seed %d drain: Dequeue = %d,%t want %d,true", seed, got, ok, model[0])
			}
			model = model[1:]
		}
		for k := 0; k < 3; k++ {
			if got, ok := q.Dequeue(); ok || got != 0 || q.Len() != 0 {
				t.Fatalf("seed %d: empty Dequeue = %d,%t len %d", seed, got, ok, q.Len())
			}
			if got, ok := q.Peek(); ok || got != 0 || q.Len() != 0 {
				t.Fatalf("seed %d: empty Peek = %d,%t len %d", seed, got, ok, q.Len())
			}
		}
		q.Enqueue(-1)
		q.Enqueue(-2)
		if got, ok := q.Dequeue(); !ok || got != -1 {
			t.Fatalf("seed %d: reuse Dequeue = %d,%t", seed, got, ok)
		}
		if got, ok := q.Peek(); !ok || got != -2 || q.Len() != 1 {
			t.Fatalf("seed %d: reuse Peek = %d,%t len %d", seed, got, ok, q.Len())
		}
	}
}

func TestC16QueueBulk(t *testing.T) {
	// Long monotone phases, to cross every growth and shrink threshold.
	var q lists.Queue[string]
	if _, ok := q.Peek(); ok {
		t.Fatal("Peek on zero value")
	}
	if _, ok := q.Dequeue(); ok {
		t.Fatal("Dequeue on zero value")
	}
	in, out := 0, 0
	name := func(i int) string { return string(rune('a'+i%26)) + string(rune('A'+(i/26)%26)) }
	for round, n := range []int{1, 7, 8, 9, 100, 5000, 3, 70000} {
		for i := 0; i < n; i++ {
			q.Enqueue(name(in))
			in++
		}
		keep := round % 3 // leave a few behind so phases overlap
		for q.Len() > keep {
			if p, ok := q.Peek(); !ok || p != name(out) {
				t.Fatalf("Peek = %q,%t want %q", p, ok, name(out))
			}
			if v, ok := q.Dequeue(); !ok || v != name(out) {
				t.Fatalf("Dequeue = %q,%t want %q", v, ok, name(out))
			}
			out++
			if q.Len() != in-out {
				t.Fatalf("Len = %d want %d", q.Len(), in-out)
			}
		}
	}
}

func TestC16StackModel(t *testing.T) {
	for seed := int64(0); seed < 300; seed++ {
		rng := rand.New(rand.NewSource(seed))
		var s lists.Stack[int]
		var model []int
		next := 1
		steps := 200 + rng.Intn(3000)
		for i := 0; i < steps; i++ {
			bias := 3 + 2*((i/400)%2)
			switch op := rng.Intn(10); {
			case op < bias:
				s.Push(next)
				model = append(model, next)
				next++
			case op < 8:
				got, ok := s.Pop()
				if len(model) == 0 {
					if ok || got != 0 {
						t.Fatalf("seed %d step %d: Pop on empty = %d,%t", seed, i, got, ok)
					}
				} else {
					want := model[len(model)-1]
					if !ok || got != want {
						t.Fatalf("seed %d step %d: Pop = %d,%t want %d,true", seed, i, got, ok, want)
					}
					model = model[:len(model)-1]
				}
			default:
				got, ok := s.Peek()
				if len(model) == 0 {
					if ok || got != 0 {
						t.Fatalf("seed %d step %d: Peek on empty = %d,%t", seed, i, got, ok)
					}
				} else if want := model[len(model)-1]; !ok || got != want {
					t.Fatalf("seed %d step %d: Peek = %d,%t want %d,true", seed, i, got, ok, want)
				}
			}
			if len(s) != len(model) {
				t.Fatalf("seed %d step %d: len = %d want %d", seed, i, len(s), len(model))
			}
			// The stack is a slice; bottom-to-top contents must match too.
			for k := range model {
				if s[k] != model[k] {
					t.Fatalf("seed %d step %d: s[%d] = %d want %d", seed, i, k, s[k], model[k])
				}
			}
		}
		for len(model) > 0 {
			want := model[len(model)-1]
			if got, ok := s.Pop(); !ok || got != want {
				t.Fatalf("seed %d drain: Pop = %d,%t want %d,true", seed, got, ok, want)
			}
			model = model[:len(model)-1]
		}
		for k := 0; k < 3; k++ {
			if got, ok := s.Pop(); ok || got != 0 || len(s) != 0 {
				t.Fatalf("seed %d: empty Pop = %d,%t len %d", seed, got, ok, len(s))
			}
			if got, ok := s.Peek(); ok || got != 0 || len(s) != 0 {
				t.Fatalf("seed %d: empty Peek = %d,%t len %d", seed, got, ok, len(s))
			}
		}
		s.Push(-1)
		s.Push(-2)
		if got, ok := s.Pop(); !ok || got != -2 {
			t.Fatalf("seed %d: reuse Pop = %d,%t", seed, got, ok)
		}
		if got, ok := s.Peek(); !ok || got != -1 || len(s) != 1 {
			t.Fatalf("seed %d: reuse Peek = %d,%t len %d", seed, got, ok, len(s))
		}
	}
}

func TestC16StackEdge(t *testing.T) {
	// nil receiver behaves as an empty stack for the read operations.
	var np *lists.Stack[int]
	if v, ok := np.Peek(); ok || v != 0 {
		t.Fatalf("nil Peek = %d,%t", v, ok)
	}
	if v, ok := np.Pop(); ok || v != 0 {
		t.Fatalf("nil Pop = %d,%t", v, ok)
	}
	// Stacks built from literals or with odd capacities.
	s := lists.Stack[int]{1, 2, 3}
	s.Push(4)
	for want := 4; want >= 1; want-- {
		if v, ok := s.Pop(); !ok || v != want {
			t.Fatalf("Pop = %d,%t want %d", v, ok, want)
		}
	}
	if _, ok := s.Pop(); ok {
		t.Fatal("Pop on emptied literal")
	}
	s2 := make(lists.Stack[int], 0, 37)
	for i := 0; i < 100000; i++ {
		s2.Push(i)
	}
	for i := 99999; i >= 0; i-- {
		if p, ok := s2.Peek(); !ok || p != i {
			t.Fatalf("Peek = %d,%t want %d", p, ok, i)
		}
		if v, ok := s2.Pop(); !ok || v != i || len(s2) != i {
			t.Fatalf("Pop = %d,%t len %d want %d", v, ok, len(s2), i)
		}
	}
}
