package lists_test

import (
	"fmt"
	"math/rand"
	"sync"
	"sync/atomic"
	"testing"

	"gopkg.in/typ.v4/lists"
)

// checkQueue4 compares the observable state of q with the model.
func checkQueue4[T comparable](t *testing.T, q *lists.Queue[T], model []T, step int) {
	t.Helper()
	if q.Len() != len(model) {
		t.Fatalf("step %d: Len=%d want %d", step, q.Len(), len(model))
	}
	v, ok := q.Peek()
	var zero T
	if len(model) == 0 {
		if ok || v != zero {
			t.Fatalf("step %d: Peek on empty = %v,%v", step, v, ok)
		}
	} else if !ok || v != model[0] {
		t.Fatalf("step %d: Peek=%v,%v want %v,true", step, v, ok, model[0])
	}
}

func runQueueHistory4(t *testing.T, rng *rand.Rand, steps int) {
	var q lists.Queue[int]
	var model []int
	next := 1
	// The bias drifts so that the queue grows over many chunks, drains to
	// empty, hovers around chunk boundaries, etc.
	bias := 50
	for i := 0; i < steps; i++ {
		if i%500 == 0 {
			bias = []int{10, 30, 50, 50, 70, 90}[rng.Intn(6)]
		}
		switch r := rng.Intn(100); {
		case r < bias:
			burst := 1
			if rng.Intn(20) == 0 {
				burst = rng.Intn(100)
			}
			for ; burst > 0; burst-- {
				q.Enqueue(next)
				model = append(model, next)
				next++
			}
		default:
			burst := 1
			if rng.Intn(20) == 0 {
				burst = rng.Intn(100)
			}
			for ; burst > 0; burst-- {
				v, ok := q.Dequeue()
				if len(model) == 0 {
					if ok || v != 0 {
						t.Fatalf("step %d: Dequeue on empty = %v,%v", i, v, ok)
					}
				} else {
					if !ok || v != model[0] {
						t.Fatalf("step %d: Dequeue=%v,%v want %v,true", i, v, ok, model[0])
					}
					model = model[1:]
				}
				checkQueue4(t, &q, model, i)
			}
		}
		checkQueue4(t, &q, model, i)
	}
	// Drain completely and check that it is still usable afterwards.
	for len(model) > 0 {
		v, ok := q.Dequeue()
		if !ok || v != model[0] {
			t.Fatalf("drain: Dequeue=%v,%v want %v,true", v, ok, model[0])
		}
		model = model[1:]
	}
	for k := 0; k < 3; k++ {
		if v, ok := q.Dequeue(); ok || v != 0 {
			t.Fatalf("Dequeue on drained = %v,%v", v, ok)
		}
		checkQueue4(t, &q, nil, -1)
	}
	q.Enqueue(7)
	checkQueue4(t, &q, []int{7}, -2)
}

func TestStress4QueueRandom(t *testing.T) {
	for seed := int64(0); seed < 60; seed++ {
		runQueueHistory4(t, rand.New(rand.NewSource(seed)), 6000)
	}
}

// Fill to n, drain to zero, for every n around the chunk size multiples.
func TestStress4QueueBoundaries(t *testing.T) {
	for n := 0; n <= 200; n++ {
		for keep := 0; keep <= 3 && keep <= n; keep++ {
			var q lists.Queue[string]
			var model []string
			for round := 0; round < 4; round++ {
				for i := 0; i < n; i++ {
					s := fmt.Sprint(round, "/", i)
					q.Enqueue(s)
					model = append(model, s)
				}
				for len(model) > keep {
					v, ok := q.Dequeue()
					if !ok || v != model[0] {
						t.Fatalf("n=%d keep=%d: got %q,%v want %q", n, keep, v, ok, model[0])
					}
					model = model[1:]
					checkQueue4(t, &q, model, n)
				}
				if keep == 0 {
					if v, ok := q.Dequeue(); ok || v != "" {
						t.Fatalf("n=%d: Dequeue on empty = %q,%v", n, v, ok)
					}
				}
			}
		}
	}
}

func checkStack4[T comparable](t *testing.T, s *lists.Stack[T], model []T, step int) {
	t.Helper()
	if len(*s) != len(model) {
		t.Fatalf("step %d: len=%d want %d", step, len(*s), len(model))
	}
	for i := range model {
		if (*s)[i] != model[i] {
			t.Fatalf("step %d: s[%d]=%v want %v", step, i, (*s)[i], model[i])
		}
	}
	v, ok := s.Peek()
	var zero T
	if len(model) == 0 {
		if ok || v != zero {
			t.Fatalf("step %d: Peek on empty = %v,%v", step, v, ok)
		}
	} else if !ok || v != model[len(model)-1] {
		t.Fatalf("step %d: Peek=%v,%v want %v,true", step, v, ok, model[len(model)-1])
	}
}

func runStackHistory4(t *testing.T, rng *rand.Rand, steps int) {
	var s lists.Stack[int]
	var model []int
	next := 1
	bias := 50
	for i := 0; i < steps; i++ {
		if i%400 == 0 {
			bias = []int{10, 30, 50, 50, 70, 90}[rng.Intn(6)]
		}
		burst := 1
		if rng.Intn(25) == 0 {
			burst = rng.Intn(300)
		}
		push := rng.Intn(100) < bias
		for ; burst > 0; burst-- {
			if push {
				s.Push(next)
				model = append(model, next)
				next++
				continue
			}
			v, ok := s.Pop()
			if len(model) == 0 {
				if ok || v != 0 {
					t.Fatalf("step %d: Pop on empty = %v,%v", i, v, ok)
				}
			} else {
				want := model[len(model)-1]
				if !ok || v != want {
					t.Fatalf("step %d: Pop=%v,%v want %v,true", i, v, ok, want)
				}
				model = model[:len(model)-1]
			}
		}
		checkStack4(t, &s, model, i)
	}
	for len(model) > 0 {
		v, ok := s.Pop()
		if !ok || v != model[len(model)-1] {
			t.Fatalf("drain: Pop=%v,%v", v, ok)
		}
		model = model[:len(model)-1]
		checkStack4(t, &s, model, -1)
	}
	for k := 0; k < 3; k++ {
		if v, ok := s.Pop(); ok || v != 0 {
			t.Fatalf("Pop on drained = %v,%v", v, ok)
		}
	}
	s.Push(7)
	checkStack4(t, &s, []int{7}, -2)
}

func TestStress4StackRandom(t *testing.T) {
	for seed := int64(100); seed < 112; seed++ {
		runStackHistory4(t, rand.New(rand.NewSource(seed)), 4000)
	}
}

func TestStress4StackNilAndLiteral(t *testing.T) {
	var np *lists.Stack[string]
	if v, ok := np.Peek(); ok || v != "" {
		t.Fatalf("nil Peek = %q,%v", v, ok)
	}
	if v, ok := np.Pop(); ok || v != "" {
		t.Fatalf("nil Pop = %q,%v", v, ok)
	}
	s := lists.Stack[string]{"a", "b", "c"}
	s.Push("d")
	for _, want := range []string{"d", "c", "b", "a"} {
		if v, ok := s.Pop(); !ok || v != want {
			t.Fatalf("Pop=%q,%v want %q", v, ok, want)
		}
	}
	if v, ok := s.Pop(); ok || v != "" {
		t.Fatalf("Pop on empty = %q,%v", v, ok)
	}
}

// Independent containers in separate goroutines must not share any state
// (free-lists and the like); the race detector would tell.
func TestStress4IndependentInstancesInParallel(t *testing.T) {
	var wg sync.WaitGroup
	for g := 0; g < 8; g++ {
		wg.Add(1)
		go func(seed int64) {
			defer wg.Done()
			runQueueHistory4(t, rand.New(rand.NewSource(seed)), 3000)
			runStackHistory4(t, rand.New(rand.NewSource(seed)), 3000)
		}(int64(1000 + g))
	}
	wg.Wait()
}

type item4 struct{ producer, seq int }

// One producer, one consumer: the consumer must see exactly 0,1,2,...
func TestStress4QueueSPSC(t *testing.T) {
	const n = 200000
	var q lists.Queue[int]
	done := make(chan struct{})
	go func() {
		defer close(done)
		for i := 0; i < n; i++ {
			q.Enqueue(i)
		}
	}()
	for want := 0; want < n; {
		if l := q.Len(); l < 0 || l > n {
			t.Fatalf("Len=%d", l)
		}
		p, pok := q.Peek()
		v, ok := q.Dequeue()
		if !ok {
			if v != 0 {
				t.Fatalf("empty Dequeue returned %d", v)
			}
			continue
		}
		// Sole consumer: what Peek saw, if anything, is what Dequeue gives.
		if pok && p != v {
			t.Fatalf("Peek=%d then Dequeue=%d", p, v)
		}
		if v != want {
			t.Fatalf("Dequeue=%d want %d", v, want)
		}
		want++
	}
	<-done
	if v, ok := q.Dequeue(); ok || v != 0 || q.Len() != 0 {
		t.Fatalf("after all: %v,%v Len=%d", v, ok, q.Len())
	}
}

// Many producers and consumers, starting from the zero value at the same time.
// Every consumer must see the values of any one producer in increasing order,
// and every value must come out exactly once.
func TestStress4QueueMPMC(t *testing.T) {
	const producers, consumers, peekers, perProducer = 4, 4, 2, 30000
	for round := 0; round < 3; round++ {
		var q lists.Queue[item4]
		var remaining atomic.Int64
		remaining.Store(producers * perProducer)
		start := make(chan struct{})
		var wg sync.WaitGroup
		got := make([][]item4, consumers)
		for p := 0; p < producers; p++ {
			wg.Add(1)
			go func(p int) {
				defer wg.Done()
				<-start
				for i := 0; i < perProducer; i++ {
					q.Enqueue(item4{p, i})
				}
			}(p)
		}
		for c := 0; c < consumers; c++ {
			wg.Add(1)
			go func(c int) {
				defer wg.Done()
				<-start
				last := [producers]int{}
				for i := range last {
					last[i] = -1
				}
				for remaining.Load() > 0 {
					v, ok := q.Dequeue()
					if !ok {
						if v != (item4{}) {
							t.Errorf("empty Dequeue returned %v", v)
							return
						}
						continue
					}
					remaining.Add(-1)
					if v.seq <= last[v.producer] {
						t.Errorf("consumer %d: producer %d seq %d after %d", c, v.producer, v.seq, last[v.producer])
						return
					}
					last[v.producer] = v.seq
					got[c] = append(got[c], v)
				}
			}(c)
		}
		for k := 0; k < peekers; k++ {
			wg.Add(1)
			go func() {
				defer wg.Done()
				<-start
				last := [producers]int{}
				for remaining.Load() > 0 {
					if l := q.Len(); l < 0 || l > producers*perProducer {
						t.Errorf("Len=%d", l)
						return
					}
					v, ok := q.Peek()
					if !ok {
						if v != (item4{}) {
							t.Errorf("empty Peek returned %v", v)
							return
						}
						continue
					}
					// The front of the queue only moves forward.
					if v.seq < last[v.producer] {
						t.Errorf("Peek: producer %d seq %d after %d", v.producer, v.seq, last[v.producer])
						return
					}
					last[v.producer] = v.seq
				}
			}()
		}
		close(start)
		wg.Wait()
		seen := make(map[item4]bool)
		for _, g := range got {
			for _, v := range g {
				if seen[v] {
					t.Fatalf("%v dequeued twice", v)
				}
				seen[v] = true
			}
		}
		if len(seen) != producers*perProducer {
			t.Fatalf("dequeued %d values, want %d", len(seen), producers*perProducer)
		}
		if v, ok := q.Peek(); ok || q.Len() != 0 {
			t.Fatalf("not empty at the end: %v Len=%d", v, q.Len())
		}
		q.Enqueue(item4{9, 9})
		if v, ok := q.Dequeue(); !ok || v != (item4{9, 9}) {
			t.Fatalf("reuse after drain: %v,%v", v, ok)
		}
	}
}
