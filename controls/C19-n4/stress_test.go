package chans

import (
	"context"
	"math/rand"
	"runtime"
	"sync"
	"sync/atomic"
	"testing"
	"time"
)

// Sequential model check of RecvQueued / RecvQueuedFull over capacities, fill
// levels, open/closed states and limits.
func TestStress4QueuedModel(t *testing.T) {
	rng := rand.New(rand.NewSource(19))
	next := 1
	for iter := 0; iter < 20000; iter++ {
		capacity := rng.Intn(9)
		ch := make(chan int, capacity)
		var model []int
		fill := 0
		if capacity > 0 {
			fill = rng.Intn(capacity + 1)
		}
		for i := 0; i < fill; i++ {
			ch <- next
			model = append(model, next)
			next++
		}
		closed := rng.Intn(3) == 0
		if closed {
			close(ch)
		}
		// several operations on the same channel
		for op := 0; op < 4; op++ {
			limit := rng.Intn(12) - 1
			want := 0
			if limit > 0 {
				want = limit
			}
			if want > len(model) {
				want = len(model)
			}
			switch rng.Intn(3) {
			case 0:
				got := RecvQueued[chan int, int](ch, limit)
				if len(got) != want {
					t.Fatalf("RecvQueued cap=%d limit=%d closed=%v: got %v want %v", capacity, limit, closed, got, model[:want])
				}
				for i := range got {
					if got[i] != model[i] {
						t.Fatalf("RecvQueued order: got %v want %v", got, model[:want])
					}
				}
			case 1:
				var ro <-chan int = ch
				got := RecvQueued[<-chan int, int](ro, limit)
				if len(got) != want {
					t.Fatalf("RecvQueued(ro) got %v want %v", got, model[:want])
				}
				for i := range got {
					if got[i] != model[i] {
						t.Fatalf("RecvQueued(ro) order: got %v want %v", got, model[:want])
					}
				}
			case 2:
				size := 0
				if limit > 0 {
					size = limit
				}
				buf := make([]int, size+2)
				for i := range buf {
					buf[i] = -7
				}
				n := RecvQueuedFull[chan int, []int, int](ch, buf[:size])
				if n != want {
					t.Fatalf("RecvQueuedFull n=%d want %d", n, want)
				}
				for i := 0; i < n; i++ {
					if buf[i] != model[i] {
						t.Fatalf("RecvQueuedFull order: got %v want %v", buf[:n], model[:want])
					}
				}
				for i := n; i < len(buf); i++ {
					if buf[i] != -7 {
						t.Fatalf("RecvQueuedFull wrote past n: %v (n=%d)", buf, n)
					}
				}
			}
			model = model[want:]
			// refill a bit if still open
			if !closed && capacity > 0 {
				for len(model) < capacity && rng.Intn(2) == 0 {
					ch <- next
					model = append(model, next)
					next++
				}
			}
		}
		if len(ch) != len(model) {
			t.Fatalf("left in channel %d, model %d", len(ch), len(model))
		}
	}
}

// An unbuffered channel with a parked sender: the queued receivers must not
// block, and may only return what the sender really sent.
func TestStress4QueuedUnbuffered(t *testing.T) {
	total := 0
	for iter := 0; iter < 300; iter++ {
		ch := make(chan int)
		var sent int32
		stop := make(chan struct{})
		var wg sync.WaitGroup
		wg.Add(1)
		go func() {
			defer wg.Done()
			for i := 1; ; i++ {
				select {
				case ch <- i:
					atomic.StoreInt32(&sent, int32(i))
				case <-stop:
					return
				}
			}
		}()
		last := 0
		for round := 0; round < 20; round++ {
			runtime.Gosched()
			got := RecvQueued[chan int, int](ch, 1+round%5)
			for _, v := range got {
				if v != last+1 {
					t.Fatalf("unbuffered: got %d after %d", v, last)
				}
				last = v
			}
		}
		close(stop)
		wg.Wait()
		if int(atomic.LoadInt32(&sent)) != last {
			t.Fatalf("sender handed over %d values, receiver saw %d", sent, last)
		}
		total += last
	}
	if total == 0 {
		t.Fatalf("never took anything from a parked sender")
	}
}

type conservation struct {
	mu       sync.Mutex
	accepted map[int]int // value -> times a sender was told "true"
	received map[int]int // value -> times a receiver got it
}

func (c *conservation) check(t *testing.T, what string) {
	t.Helper()
	for v, n := range c.accepted {
		if n != 1 || c.received[v] != 1 {
			t.Fatalf("%s: value %d accepted %d times, received %d times", what, v, n, c.received[v])
		}
	}
	for v, n := range c.received {
		if c.accepted[v] != 1 {
			t.Fatalf("%s: value %d received %d times but sender was told false (or never sent)", what, v, n)
		}
	}
}

// Several producers and consumers using every helper with short random
// timeouts and contexts that get cancelled under them.
func runConservation(t *testing.T, capacity, producers, consumers, perProducer int, seed int64) {
	ch := make(chan int, capacity)
	cons := &conservation{accepted: map[int]int{}, received: map[int]int{}}
	var pwg, cwg sync.WaitGroup
	for p := 0; p < producers; p++ {
		pwg.Add(1)
		go func(p int) {
			defer pwg.Done()
			rng := rand.New(rand.NewSource(seed*1000 + int64(p)))
			mine := map[int]int{}
			for i := 0; i < perProducer; i++ {
				v := p*1000000 + i + 1
				var ok bool
				switch rng.Intn(4) {
				case 0:
					ok = SendTimeout[chan int, int](ch, v, time.Duration(1+rng.Intn(200))*time.Microsecond)
				case 1:
					ctx, cancel := context.WithCancel(context.Background())
					d := time.Duration(rng.Intn(200)) * time.Microsecond
					timer := time.AfterFunc(d, cancel)
					ok = SendContext[chan<- int, int](ctx, ch, v)
					timer.Stop()
					cancel()
				case 2:
					ctx, cancel := context.WithCancel(context.Background())
					if rng.Intn(2) == 0 {
						cancel() // cancelled before the call
					}
					ok = SendContext[chan int, int](ctx, ch, v)
					cancel()
				case 3:
					if rng.Intn(8) == 0 {
						ok = SendTimeout[chan int, int](ch, v, time.Duration(-rng.Intn(2)))
					} else {
						ok = SendTimeout[chan<- int, int](ch, v, time.Duration(1+rng.Intn(50))*time.Microsecond)
					}
				}
				if ok {
					mine[v]++
				}
			}
			cons.mu.Lock()
			for v, n := range mine {
				cons.accepted[v] += n
			}
			cons.mu.Unlock()
		}(p)
	}
	for c := 0; c < consumers; c++ {
		cwg.Add(1)
		go func(c int) {
			defer cwg.Done()
			rng := rand.New(rand.NewSource(seed*2000 + int64(c)))
			mine := map[int]int{}
			lastFrom := map[int]int{}
			take := func(v int) {
				mine[v]++
				p := v / 1000000
				if v <= lastFrom[p] {
					t.Errorf("consumer %d: value %d of producer %d after %d", c, v, p, lastFrom[p])
				}
				lastFrom[p] = v
			}
			for {
				switch rng.Intn(5) {
				case 0:
					v, ok := RecvTimeout[chan int, int](ch, time.Duration(1+rng.Intn(200))*time.Microsecond)
					if ok {
						take(v)
					} else if v != 0 {
						t.Errorf("RecvTimeout false with value %d", v)
					}
				case 1:
					ctx, cancel := context.WithCancel(context.Background())
					timer := time.AfterFunc(time.Duration(rng.Intn(200))*time.Microsecond, cancel)
					v, ok := RecvContext[<-chan int, int](ctx, ch)
					timer.Stop()
					cancel()
					if ok {
						take(v)
					} else if v != 0 {
						t.Errorf("RecvContext false with value %d", v)
					}
				case 2:
					for _, v := range RecvQueued[chan int, int](ch, rng.Intn(6)) {
						take(v)
					}
				case 3:
					buf := make([]int, rng.Intn(6))
					n := RecvQueuedFull[<-chan int, []int, int](ch, buf)
					for _, v := range buf[:n] {
						take(v)
					}
					for _, v := range buf[n:] {
						if v != 0 {
							t.Errorf("RecvQueuedFull wrote %d past n", v)
						}
					}
				case 4:
					// closed and drained ends the consumer
					v, ok := RecvTimeout[<-chan int, int](ch, 0)
					if !ok {
						if v != 0 {
							t.Errorf("closed channel gave %d", v)
						}
						cons.mu.Lock()
						for v, n := range mine {
							cons.received[v] += n
						}
						cons.mu.Unlock()
						return
					}
					take(v)
				}
			}
		}(c)
	}
	pwg.Wait()
	close(ch)
	cwg.Wait()
	cons.check(t, "conservation")
	if len(cons.accepted) == 0 {
		t.Fatalf("nothing got through at all (cap=%d)", capacity)
	}
}

func TestStress4Conservation(t *testing.T) {
	for seed, capacity := range []int{0, 0, 1, 2, 5, 64} {
		runConservation(t, capacity, 4, 3, 4000, int64(seed+1))
	}
}

// Timing clauses: a positive timeout is honoured (never early, even after many
// earlier calls whose timers fired or were stopped at awkward moments), a
// non-positive one waits for the peer, closed counts as false.
func TestStress4Timing(t *testing.T) {
	var wg sync.WaitGroup
	for g := 0; g < 8; g++ {
		wg.Add(1)
		go func(g int) {
			defer wg.Done()
			rng := rand.New(rand.NewSource(int64(g) + 77))
			for i := 0; i < 400; i++ {
				d := time.Duration(50+rng.Intn(2000)) * time.Microsecond
				ch := make(chan int, rng.Intn(2))
				// a peer that arrives around the time the timer fires
				peerDelay := d + time.Duration(rng.Intn(400)-200)*time.Microsecond
				var sentOK atomic.Bool
				peerDone := make(chan struct{})
				go func() {
					defer close(peerDone)
					time.Sleep(peerDelay)
					if SendTimeout[chan int, int](ch, 42, 20*time.Microsecond) {
						sentOK.Store(true)
					}
				}()
				start := time.Now()
				v, ok := RecvTimeout[chan int, int](ch, d)
				el := time.Since(start)
				<-peerDone
				switch {
				case ok && v != 42:
					t.Errorf("invented value %d", v)
				case ok && !sentOK.Load():
					t.Errorf("received a value the sender kept")
				case !ok && v != 0:
					t.Errorf("false with %d", v)
				case !ok && el < d:
					t.Errorf("RecvTimeout(%v) gave up after %v", d, el)
				}
				if !ok && sentOK.Load() {
					// went into the buffer after we gave up: must still be there
					if cap(ch) == 0 || len(ch) != 1 {
						t.Errorf("value lost: sender true, receiver false, len=%d cap=%d", len(ch), cap(ch))
					}
				}
			}
		}(g)
	}
	wg.Wait()

	// full channel: SendTimeout must wait its full time and leave nothing behind
	full := make(chan int, 1)
	full <- 1
	for i := 0; i < 50; i++ {
		d := time.Duration(200+i*20) * time.Microsecond
		start := time.Now()
		if SendTimeout[chan int, int](full, 2, d) {
			t.Fatalf("sent into a full channel")
		}
		if el := time.Since(start); el < d {
			t.Fatalf("SendTimeout(%v) gave up after %v", d, el)
		}
	}
	if got := RecvQueued[chan int, int](full, 10); len(got) != 1 || got[0] != 1 {
		t.Fatalf("full channel now holds %v", got)
	}

	// non-positive timeout waits for the peer
	for _, d := range []time.Duration{0, -1, -time.Hour} {
		ch := make(chan int)
		go func() {
			time.Sleep(3 * time.Millisecond)
			v, ok := RecvTimeout[chan int, int](ch, d)
			if !ok || v != 5 {
				t.Errorf("RecvTimeout(%v) = %d,%v", d, v, ok)
			}
		}()
		if !SendTimeout[chan int, int](ch, 5, d) {
			t.Fatalf("SendTimeout(%v) false", d)
		}
	}

	// closed counts as false, for every receiver
	cl := make(chan int, 2)
	cl <- 9
	close(cl)
	if v, ok := RecvTimeout[chan int, int](cl, time.Second); !ok || v != 9 {
		t.Fatalf("closed with one left: %d %v", v, ok)
	}
	if v, ok := RecvTimeout[chan int, int](cl, time.Second); ok || v != 0 {
		t.Fatalf("closed: %d %v", v, ok)
	}
	if v, ok := RecvTimeout[chan int, int](cl, 0); ok || v != 0 {
		t.Fatalf("closed: %d %v", v, ok)
	}
	if v, ok := RecvContext[<-chan int, int](context.Background(), cl); ok || v != 0 {
		t.Fatalf("closed: %d %v", v, ok)
	}
	ctx, cancel := context.WithCancel(context.Background())
	cancel()
	if v, ok := RecvContext[<-chan int, int](ctx, cl); ok || v != 0 {
		t.Fatalf("closed+cancelled: %d %v", v, ok)
	}
	if got := RecvQueued[chan int, int](cl, 3); len(got) != 0 {
		t.Fatalf("closed: %v", got)
	}
	// cancelled context, nobody on the other side
	lonely := make(chan int)
	if SendContext[chan int, int](ctx, lonely, 1) {
		t.Fatalf("sent to nobody")
	}
	if v, ok := RecvContext[<-chan int, int](ctx, lonely); ok || v != 0 {
		t.Fatalf("received from nobody: %d %v", v, ok)
	}
}

// checkDeadlineHeap verifies the structural invariants of the shared queue.
func checkDeadlineHeap(t *testing.T) {
	t.Helper()
	q := &deadlines
	q.mu.Lock()
	defer q.mu.Unlock()
	for i, dl := range q.heap {
		if dl.slot != i {
			t.Fatalf("heap[%d].slot = %d", i, dl.slot)
		}
		if i > 0 && dl.when.Before(q.heap[(i-1)/2].when) {
			t.Fatalf("heap order broken at %d", i)
		}
		select {
		case <-dl.fired:
			t.Fatalf("fired deadline still queued at %d", i)
		default:
		}
	}
	if len(q.heap) > 0 && !q.armed {
		t.Fatalf("%d deadlines queued but the alarm is not armed", len(q.heap))
	}
}

// Many waiters with staggered, colliding and withdrawn deadlines: everyone
// must be woken (no lost alarm), nobody early, and the queue must end empty.
func TestStress4DeadlineQueue(t *testing.T) {
	stopChecks := make(chan struct{})
	var checker sync.WaitGroup
	checker.Add(1)
	go func() {
		defer checker.Done()
		for {
			select {
			case <-stopChecks:
				return
			default:
				checkDeadlineHeap(t)
				time.Sleep(200 * time.Microsecond)
			}
		}
	}()
	var wg sync.WaitGroup
	for g := 0; g < 64; g++ {
		wg.Add(1)
		go func(g int) {
			defer wg.Done()
			rng := rand.New(rand.NewSource(int64(g) * 31))
			never := make(chan int)
			ready := make(chan int, 1)
			for i := 0; i < 500; i++ {
				d := time.Duration(1+rng.Intn(3000)) * time.Microsecond
				if rng.Intn(4) == 0 {
					d = time.Duration(1+rng.Intn(4)) * 500 * time.Microsecond // collisions
				}
				switch rng.Intn(4) {
				case 0: // must time out
					start := time.Now()
					v, ok := RecvTimeout[chan int, int](never, d)
					if el := time.Since(start); ok || v != 0 || el < d {
						t.Errorf("RecvTimeout(%v) = %d,%v after %v", d, v, ok, el)
					}
				case 1:
					start := time.Now()
					if SendTimeout[chan int, int](never, 1, d) || time.Since(start) < d {
						t.Errorf("SendTimeout(%v) on a dead channel misbehaved", d)
					}
				case 2: // deadline withdrawn at once
					ready <- i
					if v, ok := RecvTimeout[chan int, int](ready, d+time.Hour); !ok || v != i {
						t.Errorf("ready value: %d,%v", v, ok)
					}
				case 3: // a long deadline at the far end of the heap, withdrawn
					if !SendTimeout[chan int, int](ready, i, time.Duration(1+rng.Intn(100))*time.Hour) {
						t.Errorf("send into free buffer failed")
					}
					<-ready
				}
			}
		}(g)
	}
	wg.Wait()
	close(stopChecks)
	checker.Wait()
	checkDeadlineHeap(t)
	deadlines.mu.Lock()
	n, armed := len(deadlines.heap), deadlines.armed
	deadlines.mu.Unlock()
	if n != 0 || armed {
		t.Fatalf("queue not quiescent at the end: %d entries, armed=%v", n, armed)
	}
}
