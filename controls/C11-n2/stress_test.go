// SPDX-FileCopyrightText: 2022 Kalle Fagerberg
//
// SPDX-License-Identifier: MIT

package maps_test

import (
	"fmt"
	"math/rand"
	"testing"

	"gopkg.in/typ.v4/maps"
)

// bimapModel is the obvious reference: a list of pairs with unique keys and
// unique values.
type bimapModel struct {
	pairs [][2]int
}

func (m *bimapModel) add(k, v int) {
	out := m.pairs[:0:0]
	for _, p := range m.pairs {
		if p[0] == k || p[1] == v {
			continue
		}
		out = append(out, p)
	}
	m.pairs = append(out, [2]int{k, v})
}

func (m *bimapModel) removeForward(k int) {
	out := m.pairs[:0:0]
	for _, p := range m.pairs {
		if p[0] != k {
			out = append(out, p)
		}
	}
	m.pairs = out
}

func (m *bimapModel) removeReverse(v int) {
	out := m.pairs[:0:0]
	for _, p := range m.pairs {
		if p[1] != v {
			out = append(out, p)
		}
	}
	m.pairs = out
}

func (m *bimapModel) clone() *bimapModel {
	return &bimapModel{pairs: append([][2]int(nil), m.pairs...)}
}

type strKey struct {
	a string
	b int
}

func mkKey(k int) strKey { return strKey{a: fmt.Sprint("k", k), b: k} }
func mkVal(v int) string { return fmt.Sprint("v", v) }

func checkBimap(t *testing.T, where string, b *maps.Bimap[strKey, string], m *bimapModel, universe int) {
	t.Helper()
	if b.Len() != len(m.pairs) {
		t.Fatalf("%s: Len=%d want %d (%v)", where, b.Len(), len(m.pairs), m.pairs)
	}
	fwd := map[int]int{}
	rev := map[int]int{}
	for _, p := range m.pairs {
		fwd[p[0]] = p[1]
		rev[p[1]] = p[0]
	}
	for i := -1; i <= universe; i++ {
		wantV, wantOK := fwd[i]
		gotV, gotOK := b.GetForward(mkKey(i))
		if gotOK != wantOK || (wantOK && gotV != mkVal(wantV)) || (!wantOK && gotV != "") {
			t.Fatalf("%s: GetForward(%d)=(%q,%v) want (%d,%v)", where, i, gotV, gotOK, wantV, wantOK)
		}
		if b.ContainsForward(mkKey(i)) != wantOK {
			t.Fatalf("%s: ContainsForward(%d) != %v", where, i, wantOK)
		}
		wantK, wantOK := rev[i]
		gotK, gotOK := b.GetReverse(mkVal(i))
		if gotOK != wantOK || (wantOK && gotK != mkKey(wantK)) || (!wantOK && gotK != strKey{}) {
			t.Fatalf("%s: GetReverse(%d)=(%v,%v) want (%d,%v)", where, i, gotK, gotOK, wantK, wantOK)
		}
		if b.ContainsReverse(mkVal(i)) != wantOK {
			t.Fatalf("%s: ContainsReverse(%d) != %v", where, i, wantOK)
		}
		// inverse bijection, stated directly on the implementation
		if gotV, ok := b.GetForward(mkKey(i)); ok {
			if k2, ok2 := b.GetReverse(gotV); !ok2 || k2 != mkKey(i) {
				t.Fatalf("%s: forward(%d)=%q but reverse gives (%v,%v)", where, i, gotV, k2, ok2)
			}
		}
		if gotK, ok := b.GetReverse(mkVal(i)); ok {
			if v2, ok2 := b.GetForward(gotK); !ok2 || v2 != mkVal(i) {
				t.Fatalf("%s: reverse(%d)=%v but forward gives (%q,%v)", where, i, gotK, v2, ok2)
			}
		}
	}
	seen := map[strKey]string{}
	calls := 0
	b.Range(func(k strKey, v string) bool {
		calls++
		if _, dup := seen[k]; dup {
			t.Fatalf("%s: Range visited key %v twice", where, k)
		}
		seen[k] = v
		return true
	})
	if calls != len(m.pairs) || len(seen) != len(m.pairs) {
		t.Fatalf("%s: Range made %d calls over %d keys, want %d", where, calls, len(seen), len(m.pairs))
	}
	for _, p := range m.pairs {
		if seen[mkKey(p[0])] != mkVal(p[1]) {
			t.Fatalf("%s: Range missed pair %v (saw %q)", where, p, seen[mkKey(p[0])])
		}
	}
	// early stop: exactly n calls when f returns false on the n-th
	if len(m.pairs) > 0 {
		stopAt := 1 + len(m.pairs)/2
		calls = 0
		b.Range(func(strKey, string) bool {
			calls++
			return calls < stopAt
		})
		if calls != stopAt {
			t.Fatalf("%s: Range early stop made %d calls want %d", where, calls, stopAt)
		}
	}
}

func TestBimapStressModel(t *testing.T) {
	for _, universe := range []int{1, 2, 3, 5, 9} {
		for seed := int64(0); seed < 60; seed++ {
			rng := rand.New(rand.NewSource(seed*31 + int64(universe)))
			type inst struct {
				b *maps.Bimap[strKey, string]
				m *bimapModel
			}
			insts := []inst{{b: new(maps.Bimap[strKey, string]), m: &bimapModel{}}}
			for step := 0; step < 400; step++ {
				idx := rng.Intn(len(insts))
				cur := insts[idx]
				k, v := rng.Intn(universe), rng.Intn(universe)
				op := rng.Intn(100)
				var where string
				switch {
				case op < 55:
					cur.b.Add(mkKey(k), mkVal(v))
					cur.m.add(k, v)
					where = fmt.Sprintf("u%d s%d step%d inst%d Add(%d,%d)", universe, seed, step, idx, k, v)
				case op < 70:
					cur.b.RemoveForward(mkKey(k))
					cur.m.removeForward(k)
					where = fmt.Sprintf("u%d s%d step%d inst%d RemoveForward(%d)", universe, seed, step, idx, k)
				case op < 85:
					cur.b.RemoveReverse(mkVal(v))
					cur.m.removeReverse(v)
					where = fmt.Sprintf("u%d s%d step%d inst%d RemoveReverse(%d)", universe, seed, step, idx, v)
				case op < 90:
					cur.b.Clear()
					cur.m.pairs = nil
					where = fmt.Sprintf("u%d s%d step%d inst%d Clear", universe, seed, step, idx)
				default:
					c := cur.b.Clone()
					ni := inst{b: &c, m: cur.m.clone()}
					if len(insts) < 4 {
						insts = append(insts, ni)
					} else {
						insts[rng.Intn(len(insts))] = ni
					}
					where = fmt.Sprintf("u%d s%d step%d inst%d Clone", universe, seed, step, idx)
				}
				// every live instance is checked: independence of clones
				for j, in := range insts {
					checkBimap(t, fmt.Sprintf("%s (checking inst %d)", where, j), in.b, in.m, universe)
				}
			}
		}
	}
}

// Every sequence of length <= 5 over a 2x2 universe, exhaustively.
func TestBimapStressExhaustive(t *testing.T) {
	type op struct{ kind, k, v int }
	var ops []op
	for k := 0; k < 2; k++ {
		for v := 0; v < 2; v++ {
			ops = append(ops, op{0, k, v})
		}
		ops = append(ops, op{1, k, 0}, op{2, 0, k})
	}
	ops = append(ops, op{3, 0, 0}, op{4, 0, 0})
	var rec func(depth int, seq []op)
	run := func(seq []op) {
		b := new(maps.Bimap[strKey, string])
		m := &bimapModel{}
		var ob *maps.Bimap[strKey, string]
		var om *bimapModel
		for i, o := range seq {
			switch o.kind {
			case 0:
				b.Add(mkKey(o.k), mkVal(o.v))
				m.add(o.k, o.v)
			case 1:
				b.RemoveForward(mkKey(o.k))
				m.removeForward(o.k)
			case 2:
				b.RemoveReverse(mkVal(o.v))
				m.removeReverse(o.v)
			case 3:
				b.Clear()
				m.pairs = nil
			case 4:
				// continue on the clone, keep the original around
				c := b.Clone()
				ob, om = b, m
				b, m = &c, m.clone()
			}
			where := fmt.Sprintf("seq %v step %d", seq, i)
			checkBimap(t, where, b, m, 2)
			if ob != nil {
				checkBimap(t, where+" (original of clone)", ob, om, 2)
			}
		}
	}
	rec = func(depth int, seq []op) {
		if depth == 0 {
			return
		}
		for _, o := range ops {
			s := append(seq[:len(seq):len(seq)], o)
			run(s)
			rec(depth-1, s)
		}
	}
	rec(5, nil)
}

func TestBimapStressZeroValueAndNil(t *testing.T) {
	var b maps.Bimap[int, int]
	if b.Len() != 0 || b.ContainsForward(0) || b.ContainsReverse(0) {
		t.Fatal("zero value not empty")
	}
	if v, ok := b.GetForward(1); ok || v != 0 {
		t.Fatal("zero value GetForward")
	}
	if k, ok := b.GetReverse(1); ok || k != 0 {
		t.Fatal("zero value GetReverse")
	}
	b.RemoveForward(1)
	b.RemoveReverse(1)
	b.Clear()
	b.Range(func(int, int) bool { t.Fatal("Range on empty"); return true })
	c := b.Clone()
	c.Add(1, 2)
	if b.Len() != 0 || c.Len() != 1 {
		t.Fatal("clone of zero value not independent")
	}
	b.Add(3, 4)
	if _, ok := c.GetForward(3); ok {
		t.Fatal("clone of zero value not independent (2)")
	}
	var np *maps.Bimap[int, int]
	if np.Len() != 0 {
		t.Fatal("nil Len")
	}
}

// Mutating from inside Range must not corrupt the map (Go map semantics in the
// original: safe, every pair produced at most once unless re-created).
func TestBimapStressMutateDuringRange(t *testing.T) {
	for seed := int64(0); seed < 200; seed++ {
		rng := rand.New(rand.NewSource(seed))
		b := new(maps.Bimap[strKey, string])
		m := &bimapModel{}
		for i := 0; i < 8; i++ {
			k, v := rng.Intn(8), rng.Intn(8)
			b.Add(mkKey(k), mkVal(v))
			m.add(k, v)
		}
		visited := map[strKey]int{}
		removedOnly := rng.Intn(2) == 0
		b.Range(func(k strKey, v string) bool {
			visited[k]++
			if gv, ok := b.GetForward(k); !ok || gv != v {
				t.Fatalf("seed %d: Range produced (%v,%q) which is not a current pair", seed, k, v)
			}
			x, y := rng.Intn(8), rng.Intn(8)
			switch r := rng.Intn(10); {
			case r < 4:
				b.RemoveForward(mkKey(x))
				m.removeForward(x)
			case r < 7:
				b.RemoveReverse(mkVal(y))
				m.removeReverse(y)
			case r < 8 && !removedOnly:
				b.Add(mkKey(x), mkVal(y))
				m.add(x, y)
			case r < 9 && !removedOnly && rng.Intn(4) == 0:
				b.Clear()
				m.pairs = nil
			}
			return true
		})
		if removedOnly {
			for k, n := range visited {
				if n != 1 {
					t.Fatalf("seed %d: key %v visited %d times with removals only", seed, k, n)
				}
			}
			// pairs never removed must all have been visited
			for _, p := range m.pairs {
				if visited[mkKey(p[0])] != 1 {
					t.Fatalf("seed %d: surviving pair %v not visited", seed, p)
				}
			}
		}
		checkBimap(t, fmt.Sprintf("seed %d after mutate-in-range", seed), b, m, 8)
	}
}
