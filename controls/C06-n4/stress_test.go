// Differential stress test: lists.List against container/list.
package lists_test

import (
	"container/list"
	"fmt"
	"math/rand"
	"sync"
	"testing"
	"time"

	"gopkg.in/typ.v4/lists"
)

// l4World keeps every list and every element handle twice: once for
// lists.List, once for container/list. Handles are never forgotten, so
// removed elements, elements of other lists and elements that were in a list
// when it was cleared with Init keep being passed to every method.
type l4World struct {
	t     *testing.T
	ml    []*lists.List[int]
	sl    []*list.List
	me    []*lists.Element[int]
	se    []*list.Element
	mi    map[*lists.Element[int]]int
	si    map[*list.Element]int
	next  int
	trace []string
}

func newL4World(t *testing.T) *l4World {
	return &l4World{t: t, mi: map[*lists.Element[int]]int{}, si: map[*list.Element]int{}}
}

func (w *l4World) logf(format string, args ...any) {
	w.trace = append(w.trace, fmt.Sprintf(format, args...))
}

func (w *l4World) fail(format string, args ...any) {
	w.t.Helper()
	from := 0
	if len(w.trace) > 60 {
		from = len(w.trace) - 60
	}
	for _, s := range w.trace[from:] {
		w.t.Log(s)
	}
	w.t.Fatalf(format, args...)
}

func (w *l4World) addList(m *lists.List[int], s *list.List) {
	w.ml = append(w.ml, m)
	w.sl = append(w.sl, s)
}

// ident maps a pair of returned handles to the index of the handle; pairs
// seen for the first time (new elements, copies made by PushBackList) are
// registered. -1 is nil.
func (w *l4World) ident(op string, m *lists.Element[int], s *list.Element) int {
	w.t.Helper()
	if (m == nil) != (s == nil) {
		w.fail("%s: nil mismatch: mine=%v std=%v", op, m, s)
	}
	if m == nil {
		return -1
	}
	a, ok1 := w.mi[m]
	b, ok2 := w.si[s]
	if ok1 != ok2 || (ok1 && a != b) {
		w.fail("%s: handle mismatch: mine=#%d(known %v) std=#%d(known %v)", op, a, ok1, b, ok2)
	}
	if ok1 {
		return a
	}
	i := len(w.me)
	w.me = append(w.me, m)
	w.se = append(w.se, s)
	w.mi[m] = i
	w.si[s] = i
	return i
}

func l4catch(f func()) (panicked bool) {
	defer func() {
		if recover() != nil {
			panicked = true
		}
	}()
	f()
	return false
}

// both runs the two sides of one operation. It reports false if both
// panicked (the history is abandoned then); one-sided panics are failures.
func (w *l4World) both(op string, mine, std func()) bool {
	w.t.Helper()
	pm, ps := l4catch(mine), l4catch(std)
	if pm != ps {
		w.fail("%s: panic mismatch: mine=%v std=%v", op, pm, ps)
	}
	return !pm
}

func (w *l4World) val(op string, m int, s any) {
	w.t.Helper()
	sv, _ := s.(int) // the sentinel of container/list holds nil
	if m != sv {
		w.fail("%s: value %d, want %d", op, m, sv)
	}
}

// checkList compares length, ends and both traversals of list i. Traversals
// are bounded: after Init with stale handles around a list may be circular.
func (w *l4World) checkList(i int) {
	w.t.Helper()
	m, s := w.ml[i], w.sl[i]
	if m.Len() != s.Len() {
		w.fail("list %d: Len = %d, want %d", i, m.Len(), s.Len())
	}
	w.ident("Front", m.Front(), s.Front())
	w.ident("Back", m.Back(), s.Back())
	bound := 2*len(w.me) + 8
	a, b := m.Front(), s.Front()
	for k := 0; k < bound && a != nil; k++ {
		w.val("forward", a.Value, b.Value)
		a, b = a.Next(), b.Next()
		w.ident("forward step", a, b)
	}
	a, b = m.Back(), s.Back()
	for k := 0; k < bound && a != nil; k++ {
		w.val("backward", a.Value, b.Value)
		a, b = a.Prev(), b.Prev()
		w.ident("backward step", a, b)
	}
}

func (w *l4World) checkAll() {
	w.t.Helper()
	for i := range w.ml {
		w.checkList(i)
	}
	for i := 0; i < len(w.me); i++ {
		w.val("Value", w.me[i].Value, w.se[i].Value)
		w.ident("Next", w.me[i].Next(), w.se[i].Next())
		w.ident("Prev", w.me[i].Prev(), w.se[i].Prev())
	}
}

// step performs one random operation on both worlds. It reports false when
// the history has to be abandoned (the operation panicked on both sides).
func (w *l4World) step(rng *rand.Rand, initPct, copyPct int) bool {
	li := rng.Intn(len(w.ml))
	m, s := w.ml[li], w.sl[li]
	h, h2 := -1, -1
	if len(w.me) > 0 {
		h, h2 = rng.Intn(len(w.me)), rng.Intn(len(w.me))
		if rng.Intn(4) == 0 {
			h2 = h
		}
	}
	w.next++
	v := w.next
	var rm *lists.Element[int]
	var rs *list.Element
	var vm int
	var vs any
	op := rng.Intn(100)
	switch {
	case op < initPct:
		w.logf("list %d: Init", li)
		m.Init()
		s.Init()
	case op < initPct+copyPct && len(w.ml) < 12:
		w.logf("list %d: copied by value", li)
		mc, sc := *m, *s
		w.addList(&mc, &sc)
	case op < 10:
		if len(w.ml) < 12 {
			if rng.Intn(2) == 0 {
				w.addList(lists.New[int](), list.New())
			} else {
				w.addList(new(lists.List[int]), new(list.List))
			}
		}
	case op < 13 || h < 0:
		// an element that never was in any list
		w.ident("foreign", &lists.Element[int]{Value: v}, &list.Element{Value: v})
	case op < 23:
		w.logf("list %d: PushFront(%d)", li, v)
		if !w.both("PushFront", func() { rm = m.PushFront(v) }, func() { rs = s.PushFront(v) }) {
			return false
		}
		w.ident("PushFront", rm, rs)
	case op < 33:
		w.logf("list %d: PushBack(%d)", li, v)
		if !w.both("PushBack", func() { rm = m.PushBack(v) }, func() { rs = s.PushBack(v) }) {
			return false
		}
		w.ident("PushBack", rm, rs)
	case op < 41:
		w.logf("list %d: InsertBefore(%d, #%d)", li, v, h)
		if !w.both("InsertBefore", func() { rm = m.InsertBefore(v, w.me[h]) }, func() { rs = s.InsertBefore(v, w.se[h]) }) {
			return false
		}
		w.ident("InsertBefore", rm, rs)
	case op < 49:
		w.logf("list %d: InsertAfter(%d, #%d)", li, v, h)
		if !w.both("InsertAfter", func() { rm = m.InsertAfter(v, w.me[h]) }, func() { rs = s.InsertAfter(v, w.se[h]) }) {
			return false
		}
		w.ident("InsertAfter", rm, rs)
	case op < 60:
		w.logf("list %d: Remove(#%d)", li, h)
		if !w.both("Remove", func() { vm = m.Remove(w.me[h]) }, func() { vs = s.Remove(w.se[h]) }) {
			return false
		}
		w.val("Remove", vm, vs)
	case op < 65:
		w.logf("list %d: MoveToFront(#%d)", li, h)
		if !w.both("MoveToFront", func() { m.MoveToFront(w.me[h]) }, func() { s.MoveToFront(w.se[h]) }) {
			return false
		}
	case op < 70:
		w.logf("list %d: MoveToBack(#%d)", li, h)
		if !w.both("MoveToBack", func() { m.MoveToBack(w.me[h]) }, func() { s.MoveToBack(w.se[h]) }) {
			return false
		}
	case op < 77:
		w.logf("list %d: MoveBefore(#%d, #%d)", li, h, h2)
		if !w.both("MoveBefore", func() { m.MoveBefore(w.me[h], w.me[h2]) }, func() { s.MoveBefore(w.se[h], w.se[h2]) }) {
			return false
		}
	case op < 84:
		w.logf("list %d: MoveAfter(#%d, #%d)", li, h, h2)
		if !w.both("MoveAfter", func() { m.MoveAfter(w.me[h], w.me[h2]) }, func() { s.MoveAfter(w.se[h], w.se[h2]) }) {
			return false
		}
	case op < 92:
		lj := rng.Intn(len(w.ml))
		if rng.Intn(3) == 0 {
			lj = li // onto itself
		}
		if w.sl[lj].Len() > 40 {
			break // keep the lists from exploding
		}
		back := rng.Intn(2) == 0
		w.logf("list %d: Push(back=%v)List(list %d)", li, back, lj)
		ok := false
		if back {
			ok = w.both("PushBackList", func() { m.PushBackList(w.ml[lj]) }, func() { s.PushBackList(w.sl[lj]) })
		} else {
			ok = w.both("PushFrontList", func() { m.PushFrontList(w.ml[lj]) }, func() { s.PushFrontList(w.sl[lj]) })
		}
		if !ok {
			return false
		}
		w.checkList(li) // registers the copies
	case op < 96:
		w.logf("#%d.Value = %d", h, v)
		w.me[h].Value, w.se[h].Value = v, v
	default:
		w.ident("Next", w.me[h].Next(), w.se[h].Next())
		w.ident("Prev", w.me[h].Prev(), w.se[h].Prev())
	}
	w.checkList(li)
	return true
}

func l4run(t *testing.T, seed int64, initPct, copyPct int) {
	rng := rand.New(rand.NewSource(seed))
	w := newL4World(t)
	w.addList(lists.New[int](), list.New())
	w.addList(new(lists.List[int]), new(list.List))
	steps := 100 + rng.Intn(500)
	for k := 0; k < steps; k++ {
		if !w.step(rng, initPct, copyPct) {
			return
		}
		if k%20 == 0 {
			w.checkAll()
		}
	}
	w.checkAll()
}

// Well-behaved use plus removed and foreign handles, zero-value lists,
// lists pushed onto themselves.
func TestStressListDifferential(t *testing.T) {
	deadline := time.Now().Add(9 * time.Second)
	for seed := int64(1); seed <= 1500 && time.Now().Before(deadline); seed++ {
		l4run(t, seed, 0, 0)
	}
}

// The same with Init on lists that still have elements: the elements keep
// claiming to belong to the list, and container/list does not defend itself
// against that. Whatever it does, lists.List has to do as well.
func TestStressListDifferentialInit(t *testing.T) {
	deadline := time.Now().Add(9 * time.Second)
	for seed := int64(1); seed <= 1500 && time.Now().Before(deadline); seed++ {
		l4run(t, 10000+seed, 1+int(seed%4), 0)
	}
}

// And with List values copied by value thrown in.
func TestStressListDifferentialCopies(t *testing.T) {
	deadline := time.Now().Add(6 * time.Second)
	for seed := int64(1); seed <= 1000 && time.Now().Before(deadline); seed++ {
		l4run(t, 20000+seed, int(seed%3), 2)
	}
}

// Handles stay valid and keep their values across many chunk refills,
// removal and Init; bulk copies of big lists (also onto themselves) are
// complete and in order. Checked against a plain slice.
func TestStressListArena(t *testing.T) {
	type big struct {
		a, b string
		n    [5]int
	}
	mk := func(i int) big { return big{a: fmt.Sprint("a", i), b: fmt.Sprint("b", i), n: [5]int{i, i, i, i, i}} }
	l := new(lists.List[big])
	var hs []*lists.Element[big]
	for i := 0; i < 5000; i++ {
		if i%2 == 0 {
			hs = append(hs, l.PushBack(mk(i)))
		} else {
			hs = append(hs, l.InsertAfter(mk(i), hs[len(hs)-1]))
		}
	}
	seen := map[*lists.Element[big]]bool{}
	for i, e := 0, l.Front(); e != nil; i, e = i+1, e.Next() {
		if e != hs[i] || e.Value != mk(i) || seen[e] {
			t.Fatalf("element %d: wrong handle, value or handed out twice", i)
		}
		seen[e] = true
	}
	for i := 0; i < len(hs); i += 3 {
		if got := l.Remove(hs[i]); got != mk(i) {
			t.Fatalf("Remove(#%d) = %v", i, got)
		}
		if got := l.Remove(hs[i]); got != mk(i) || hs[i].Next() != nil || hs[i].Prev() != nil {
			t.Fatalf("second Remove(#%d) = %v", i, got)
		}
	}
	want := l.Len()
	for round := 0; round < 3; round++ { // 2x, 4x, 8x
		if round%2 == 0 {
			l.PushBackList(l)
		} else {
			l.PushFrontList(l)
		}
		want *= 2
		if l.Len() != want {
			t.Fatalf("Len = %d after doubling, want %d", l.Len(), want)
		}
	}
	var model []big
	for i := range hs {
		if i%3 != 0 {
			model = append(model, mk(i))
		}
	}
	i := 0
	for e := l.Front(); e != nil; e = e.Next() {
		if e.Value != model[i%len(model)] {
			t.Fatalf("position %d: %v, want %v", i, e.Value, model[i%len(model)])
		}
		i++
	}
	if i != want {
		t.Fatalf("traversal saw %d elements, want %d", i, want)
	}
	l.Init()
	if l.Len() != 0 || l.Front() != nil || l.Back() != nil {
		t.Fatalf("list not empty after Init")
	}
	e := l.PushBack(mk(-1))
	if seen[e] {
		t.Fatalf("slot handed out a second time after Init")
	}
	for i, h := range hs {
		if h.Value != mk(i) {
			t.Fatalf("handle #%d lost its value", i)
		}
	}
}

// Separate lists are independent of each other: goroutines working on their
// own lists while all of them copy from one shared list that nobody modifies
// must be free of data races, as with container/list.
func TestStressListConcurrentOwners(t *testing.T) {
	shared := lists.New[int]()
	for i := 0; i < 100; i++ {
		shared.PushBack(i)
	}
	var wg sync.WaitGroup
	for g := 0; g < 8; g++ {
		wg.Add(1)
		go func(g int) {
			defer wg.Done()
			rng := rand.New(rand.NewSource(int64(g)))
			var l lists.List[int]
			ref := list.New()
			for k := 0; k < 4000; k++ {
				switch rng.Intn(6) {
				case 0:
					l.PushBack(k)
					ref.PushBack(k)
				case 1:
					l.PushFront(k)
					ref.PushFront(k)
				case 2:
					if l.Len() > 0 {
						l.Remove(l.Front())
						ref.Remove(ref.Front())
					}
				case 3:
					if l.Len() > 0 {
						l.MoveToFront(l.Back())
						ref.MoveToFront(ref.Back())
					}
				case 4:
					if l.Len() < 2000 {
						l.PushBackList(shared)
						for e := shared.Front(); e != nil; e = e.Next() {
							ref.PushBack(e.Value)
						}
					}
				default:
					if l.Len() > 500 {
						l.Init()
						ref.Init()
					}
				}
				if l.Len() != ref.Len() {
					t.Errorf("goroutine %d: Len = %d, want %d", g, l.Len(), ref.Len())
					return
				}
			}
			a, b := l.Front(), ref.Front()
			for ; a != nil && b != nil; a, b = a.Next(), b.Next() {
				if a.Value != b.Value.(int) {
					t.Errorf("goroutine %d: value %d, want %v", g, a.Value, b.Value)
					return
				}
			}
			if a != nil || b != nil {
				t.Errorf("goroutine %d: traversals of different length", g)
			}
		}(g)
	}
	wg.Wait()
	if shared.Len() != 100 {
		t.Fatalf("shared list changed")
	}
}
