package sync2_test

// Stress test for property C04 (sync2.Map behaves like an ordinary map,
// sequentially and concurrently). Uses the public API only.

import (
	"math/rand"
	"sync"
	"sync/atomic"
	"testing"

	"gopkg.in/typ.v4/sync2"
)

// Single goroutine: every result must match a plain map, and Range must
// report exactly the content of the plain map, each key once. The small key
// space together with bursts of missing loads drives the map through its
// internal reorganisations many times.
func TestC04StressSequentialModel(t *testing.T) {
	for seed := int64(1); seed <= 40; seed++ {
		r := rand.New(rand.NewSource(seed))
		var m sync2.Map[int, int]
		model := map[int]int{}
		const keys = 12
		for step := 0; step < 4000; step++ {
			k := r.Intn(keys)
			v := r.Intn(1 << 20)
			switch r.Intn(9) {
			case 0, 1:
				got, ok := m.Load(k)
				want, wok := model[k]
				if ok != wok || got != want {
					t.Fatalf("seed %d step %d: Load(%d) = %d,%v want %d,%v", seed, step, k, got, ok, want, wok)
				}
			case 2, 3:
				m.Store(k, v)
				model[k] = v
			case 4:
				got, loaded := m.LoadOrStore(k, v)
				want, wok := model[k]
				if !wok {
					model[k] = v
					want = v
				}
				if loaded != wok || got != want {
					t.Fatalf("seed %d step %d: LoadOrStore(%d,%d) = %d,%v want %d,%v", seed, step, k, v, got, loaded, want, wok)
				}
			case 5:
				got, loaded := m.LoadAndDelete(k)
				want, wok := model[k]
				delete(model, k)
				if loaded != wok || got != want {
					t.Fatalf("seed %d step %d: LoadAndDelete(%d) = %d,%v want %d,%v", seed, step, k, got, loaded, want, wok)
				}
			case 6:
				m.Delete(k)
				delete(model, k)
			case 7:
				// burst of lookups, some of keys that never exist
				for i := 0; i < r.Intn(2*keys); i++ {
					kk := r.Intn(2 * keys)
					got, ok := m.Load(kk)
					want, wok := model[kk]
					if ok != wok || got != want {
						t.Fatalf("seed %d step %d: burst Load(%d) = %d,%v want %d,%v", seed, step, kk, got, ok, want, wok)
					}
				}
			case 8:
				seen := map[int]int{}
				m.Range(func(key, value int) bool {
					if _, dup := seen[key]; dup {
						t.Fatalf("seed %d step %d: Range visited %d twice", seed, step, key)
					}
					seen[key] = value
					// the callback may use the map
					if got, ok := m.Load(key); !ok || got != value {
						t.Fatalf("seed %d step %d: Load(%d) inside Range = %d,%v want %d,true", seed, step, key, got, ok, value)
					}
					return true
				})
				if len(seen) != len(model) {
					t.Fatalf("seed %d step %d: Range saw %v want %v", seed, step, seen, model)
				}
				for kk, vv := range model {
					if sv, ok := seen[kk]; !ok || sv != vv {
						t.Fatalf("seed %d step %d: Range saw %v want %v", seed, step, seen, model)
					}
				}
			}
		}
	}
}

// Range whose callback deletes and stores must neither deadlock nor repeat a
// key, and must stop when told to.
func TestC04StressRangeReentrant(t *testing.T) {
	var m sync2.Map[int, int]
	for i := 0; i < 100; i++ {
		m.Store(i, i)
	}
	seen := map[int]bool{}
	m.Range(func(k, v int) bool {
		if seen[k] {
			t.Fatalf("key %d twice", k)
		}
		seen[k] = true
		if k != v {
			t.Fatalf("key %d has value %d", k, v)
		}
		if k >= 1000 {
			return true // added during this Range; visiting it is allowed but not required
		}
		m.Delete(k)
		m.Store(k+1000, k+1000) // new keys, must not make old keys repeat
		m.Load(k + 5000)
		return true
	})
	for i := 0; i < 100; i++ {
		if !seen[i] {
			t.Fatalf("key %d present and untouched until its own visit, but never visited", i)
		}
		if _, ok := m.Load(i); ok {
			t.Fatalf("key %d still present", i)
		}
		if v, ok := m.Load(i + 1000); !ok || v != i+1000 {
			t.Fatalf("key %d lost", i+1000)
		}
	}
	n := 0
	m.Range(func(k, v int) bool { n++; return n < 3 })
	if n != 3 {
		t.Fatalf("Range did not stop: %d calls", n)
	}
}

// Each worker owns a disjoint set of keys. As nobody else writes them, a
// linearizable map must give the owner exactly the sequential results, no
// matter what the other goroutines do to the rest of the map. Extra
// goroutines keep the map reorganising (missing loads, Range) and check what
// Range reports.
func TestC04StressOwnedKeys(t *testing.T) {
	const (
		workers   = 4
		perWorker = 8
		stable    = 16
		stableOff = 1 << 20
		mult      = 1 << 24
	)
	steps := 60000
	if testing.Short() {
		steps = 5000
	}
	var m sync2.Map[int, int]
	for i := 0; i < stable; i++ {
		m.Store(stableOff+i, (stableOff+i)*mult)
	}
	var stop atomic.Bool
	var wg, bg sync.WaitGroup
	errs := make(chan string, 64)
	fail := func(s string) {
		select {
		case errs <- s:
		default:
		}
		stop.Store(true)
	}

	for w := 0; w < workers; w++ {
		wg.Add(1)
		go func(w int) {
			defer wg.Done()
			r := rand.New(rand.NewSource(int64(w) + 100))
			model := map[int]int{}
			ctr := 0
			for step := 0; step < steps && !stop.Load(); step++ {
				k := w*perWorker + r.Intn(perWorker)
				ctr++
				v := k*mult + ctr
				switch r.Intn(6) {
				case 0, 1:
					got, ok := m.Load(k)
					want, wok := model[k]
					if ok != wok || got != want {
						fail("owner Load mismatch")
					}
				case 2:
					m.Store(k, v)
					model[k] = v
				case 3:
					got, loaded := m.LoadOrStore(k, v)
					want, wok := model[k]
					if !wok {
						model[k] = v
						want = v
					}
					if loaded != wok || got != want {
						fail("owner LoadOrStore mismatch")
					}
				case 4:
					got, loaded := m.LoadAndDelete(k)
					want, wok := model[k]
					delete(model, k)
					if loaded != wok || got != want {
						fail("owner LoadAndDelete mismatch")
					}
				case 5:
					m.Delete(k)
					delete(model, k)
				}
			}
		}(w)
	}

	// misses
	bg.Add(1)
	go func() {
		defer bg.Done()
		r := rand.New(rand.NewSource(7))
		for !stop.Load() {
			k := r.Intn(workers*perWorker + 10)
			if v, ok := m.Load(k); ok && v/mult != k {
				fail("foreign Load saw a value never written to that key")
			}
			if _, ok := m.Load(-1 - r.Intn(5)); ok {
				fail("Load found a key that was never stored")
			}
		}
	}()
	// rangers
	for g := 0; g < 2; g++ {
		bg.Add(1)
		go func() {
			defer bg.Done()
			for !stop.Load() {
				seen := map[int]bool{}
				nStable := 0
				m.Range(func(k, v int) bool {
					if seen[k] {
						fail("Range visited a key twice")
					}
					seen[k] = true
					if v/mult != k {
						fail("Range reported a value never written to that key")
					}
					if k >= stableOff {
						if v != k*mult {
							fail("Range reported wrong value for untouched key")
						}
						nStable++
					}
					return true
				})
				if nStable != stable {
					fail("Range skipped a key that was present and untouched")
				}
			}
		}()
	}

	wg.Wait()
	stop.Store(true)
	bg.Wait()
	close(errs)
	for e := range errs {
		t.Error(e)
	}
}

// Several goroutines race on the same key. Of the concurrent LoadOrStore
// calls exactly one may store, and all of them must agree on the value; of
// the concurrent LoadAndDelete calls exactly one may get the value.
func TestC04StressSameKeyWinners(t *testing.T) {
	const n = 4
	rounds := 3000
	if testing.Short() {
		rounds = 300
	}
	var m sync2.Map[int, int]
	for round := 0; round < rounds; round++ {
		k := round % 7
		if round%3 == 0 {
			m.Store(100+round, round) // keep adding fresh keys
		}
		if round%5 == 0 {
			m.Load(-round) // and missing
		}
		if round%11 == 0 {
			m.Range(func(int, int) bool { return true })
		}
		var wg sync.WaitGroup
		var stored atomic.Int32
		actuals := make([]int, n)
		for g := 0; g < n; g++ {
			wg.Add(1)
			go func(g int) {
				defer wg.Done()
				a, loaded := m.LoadOrStore(k, round*n+g+1)
				actuals[g] = a
				if !loaded {
					stored.Add(1)
					if a != round*n+g+1 {
						t.Errorf("round %d: stored %d but got %d back", round, round*n+g+1, a)
					}
				}
			}(g)
		}
		wg.Wait()
		if stored.Load() != 1 {
			t.Fatalf("round %d: %d goroutines stored", round, stored.Load())
		}
		for g := 1; g < n; g++ {
			if actuals[g] != actuals[0] {
				t.Fatalf("round %d: disagreement %v", round, actuals)
			}
		}
		if v, ok := m.Load(k); !ok || v != actuals[0] {
			t.Fatalf("round %d: Load = %d,%v want %d", round, v, ok, actuals[0])
		}
		var took atomic.Int32
		for g := 0; g < n; g++ {
			wg.Add(1)
			go func() {
				defer wg.Done()
				v, loaded := m.LoadAndDelete(k)
				if loaded {
					took.Add(1)
					if v != actuals[0] {
						t.Errorf("round %d: took %d want %d", round, v, actuals[0])
					}
				}
			}()
		}
		wg.Wait()
		if took.Load() != 1 {
			t.Fatalf("round %d: %d goroutines took the value", round, took.Load())
		}
		if _, ok := m.Load(k); ok {
			t.Fatalf("round %d: key resurrected", round)
		}
	}
}

// One writer writes increasing values to a few keys, sometimes deleting them
// first. Any reader must see the values of a key go up only: an older value
// after a newer one would be a lost or resurrected store. A deleter that takes
// values away must never get the same value twice.
func TestC04StressMonotonic(t *testing.T) {
	const keys = 3
	total := 200000
	if testing.Short() {
		total = 20000
	}
	var m sync2.Map[int, int]
	var done atomic.Bool
	var wg sync.WaitGroup
	bad := make(chan string, 16)
	fail := func(s string) {
		select {
		case bad <- s:
		default:
		}
	}
	for g := 0; g < 2; g++ {
		wg.Add(1)
		go func(g int) {
			defer wg.Done()
			var last [keys]int
			for !done.Load() {
				for k := 0; k < keys; k++ {
					var v int
					var ok bool
					if g == 0 {
						v, ok = m.Load(k)
					} else {
						v, ok = m.LoadOrStore(k, 0) // 0 is below everything the writer writes
						_ = ok
						ok = true
					}
					if ok && v != 0 {
						if v < last[k] {
							fail("value went backwards")
						}
						last[k] = v
					}
				}
				m.Load(1000 + g) // miss
			}
		}(g)
	}
	wg.Add(1)
	go func() {
		defer wg.Done()
		var last [keys]int
		for !done.Load() {
			for k := 0; k < keys; k++ {
				if v, ok := m.LoadAndDelete(k); ok && v != 0 {
					if v <= last[k] {
						fail("deleter got an old value again")
					}
					last[k] = v
				}
			}
		}
	}()
	for i := 1; i <= total; i++ {
		k := i % keys
		switch i % 17 {
		case 0:
			m.Delete(k)
		case 5:
			m.Store(2000+i%50, i) // fresh keys come and go
		case 6:
			m.Delete(2000 + (i-1)%50)
		}
		m.Store(k, i)
	}
	done.Store(true)
	wg.Wait()
	close(bad)
	for e := range bad {
		t.Error(e)
	}
}
