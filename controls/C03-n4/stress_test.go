// Stress test for the re-implementation of sync2.Map (index + overflow of new
// keys + retired entries) and of sync2.Set on top of it (change 4).

package sync2_test

import (
	"fmt"
	"math"
	"math/rand"
	"sort"
	"strings"
	"sync"
	"sync/atomic"
	"testing"

	"gopkg.in/typ.v4/maps"
	"gopkg.in/typ.v4/sets"
	"gopkg.in/typ.v4/sync2"
)

type s4model map[int]bool

func (m s4model) sorted() []int {
	out := make([]int, 0, len(m))
	for v := range m {
		out = append(out, v)
	}
	sort.Ints(out)
	return out
}

func (m s4model) clone() s4model {
	c := s4model{}
	for v := range m {
		c[v] = true
	}
	return c
}

func s4sortedSlice(s sets.Set[int]) []int {
	out := s.Slice()
	sort.Ints(out)
	return out
}

// s4check compares every observer of the set with the model.
func s4check(t *testing.T, what string, s sets.Set[int], m s4model) {
	t.Helper()
	want := fmt.Sprint(m.sorted())
	if got := fmt.Sprint(s4sortedSlice(s)); got != want {
		t.Fatalf("%s: Slice = %s, want %s", what, got, want)
	}
	if s.Len() != len(m) {
		t.Fatalf("%s: Len = %d, want %d", what, s.Len(), len(m))
	}
	var ranged []int
	s.Range(func(v int) bool {
		ranged = append(ranged, v)
		return true
	})
	sort.Ints(ranged)
	if got := fmt.Sprint(ranged); got != want {
		t.Fatalf("%s: Range = %s, want %s", what, got, want)
	}
	for v := -2; v < 70; v++ {
		if s.Has(v) != m[v] {
			t.Fatalf("%s: Has(%d) = %v, want %v", what, v, s.Has(v), m[v])
		}
	}
	str := s.String()
	if !strings.HasPrefix(str, "{") || !strings.HasSuffix(str, "}") {
		t.Fatalf("%s: String = %q", what, str)
	}
	var fields []int
	for _, f := range strings.Fields(str[1 : len(str)-1]) {
		var v int
		fmt.Sscan(f, &v)
		fields = append(fields, v)
	}
	sort.Ints(fields)
	if got := fmt.Sprint(fields); got != want || strings.Count(str, " ") != s4max(len(m)-1, 0) {
		t.Fatalf("%s: String = %q, want members %s", what, str, want)
	}
	// Range must stop as soon as it is told to.
	for stop := 1; stop <= len(m) && stop <= 3; stop++ {
		calls := 0
		s.Range(func(int) bool {
			calls++
			return calls < stop
		})
		if calls != stop {
			t.Fatalf("%s: Range made %d calls after being stopped at %d", what, calls, stop)
		}
	}
}

// s4build makes a set of the wanted implementation through a random history
// that ends up with exactly the members of m.
func s4build(r *rand.Rand, concurrent bool, m s4model) sets.Set[int] {
	var s sets.Set[int]
	switch {
	case !concurrent:
		s = make(maps.Set[int])
	case r.Intn(3) == 0:
		s = sync2.NewSetFromSlice(m.sorted())
	default:
		s = &sync2.Set[int]{}
	}
	for i := r.Intn(40); i > 0; i-- {
		v := r.Intn(64)
		switch r.Intn(3) {
		case 0:
			s.Add(v)
		case 1:
			s.Remove(v)
		default:
			s.Slice() // a Range builds a new index
		}
	}
	for v := 0; v < 64; v++ {
		if m[v] {
			s.Add(v)
		} else {
			s.Remove(v)
		}
	}
	return s
}

func s4randModel(r *rand.Rand) s4model {
	m := s4model{}
	for i := r.Intn(30); i > 0; i-- {
		m[r.Intn(64)] = true
	}
	return m
}

func s4max(a, b int) int {
	if a > b {
		return a
	}
	return b
}

func TestStress4_SequentialHistory(t *testing.T) {
	for seed := int64(0); seed < 100; seed++ {
		r := rand.New(rand.NewSource(seed))
		s := &sync2.Set[int]{}
		m := s4model{}
		for step := 0; step < 300; step++ {
			v := r.Intn(64)
			switch r.Intn(12) {
			case 0, 1, 2:
				if got := s.Add(v); got != !m[v] {
					t.Fatalf("seed %d step %d: Add(%d) = %v", seed, step, v, got)
				}
				m[v] = true
			case 3, 4, 5:
				if got := s.Remove(v); got != m[v] {
					t.Fatalf("seed %d step %d: Remove(%d) = %v", seed, step, v, got)
				}
				delete(m, v)
			case 6:
				om := s4randModel(r)
				o := s4build(r, r.Intn(2) == 0, om)
				want := 0
				for x := range om {
					if !m[x] {
						want++
						m[x] = true
					}
				}
				if got := s.AddSet(o); got != want {
					t.Fatalf("seed %d step %d: AddSet = %d, want %d", seed, step, got, want)
				}
				s4check(t, "AddSet argument", o, om)
			case 7:
				om := s4randModel(r)
				o := s4build(r, r.Intn(2) == 0, om)
				want := 0
				for x := range om {
					if m[x] {
						want++
						delete(m, x)
					}
				}
				if got := s.RemoveSet(o); got != want {
					t.Fatalf("seed %d step %d: RemoveSet = %d, want %d", seed, step, got, want)
				}
				s4check(t, "RemoveSet argument", o, om)
			case 8:
				c := s.Clone()
				s4check(t, "clone", c, m)
				c.Add(100 + v)
				c.Remove(v)
				s4check(t, "original after clone changed", s, m)
			case 9:
				if r.Intn(2) == 0 {
					if got, want := s.AddSet(s), 0; got != want {
						t.Fatalf("seed %d step %d: AddSet(self) = %d", seed, step, got)
					}
				} else {
					if got, want := s.RemoveSet(s), len(m); got != want {
						t.Fatalf("seed %d step %d: RemoveSet(self) = %d, want %d", seed, step, got, want)
					}
					m = s4model{}
				}
			default:
				s4check(t, fmt.Sprintf("seed %d step %d", seed, step), s, m)
			}
		}
		s4check(t, fmt.Sprintf("seed %d end", seed), s, m)
	}
}

func TestStress4_Algebra(t *testing.T) {
	type op struct {
		name string
		do   func(a, b sets.Set[int]) sets.Set[int]
		in   func(inA, inB bool) bool
	}
	ops := []op{
		{"Union", func(a, b sets.Set[int]) sets.Set[int] { return a.Union(b) }, func(x, y bool) bool { return x || y }},
		{"Intersect", func(a, b sets.Set[int]) sets.Set[int] { return a.Intersect(b) }, func(x, y bool) bool { return x && y }},
		{"SetDiff", func(a, b sets.Set[int]) sets.Set[int] { return a.SetDiff(b) }, func(x, y bool) bool { return x && !y }},
		{"SymDiff", func(a, b sets.Set[int]) sets.Set[int] { return a.SymDiff(b) }, func(x, y bool) bool { return x != y }},
	}
	for seed := int64(0); seed < 200; seed++ {
		r := rand.New(rand.NewSource(1000 + seed))
		am, bm := s4randModel(r), s4randModel(r)
		if r.Intn(8) == 0 {
			bm = am.clone()
		}
		for pairing := 0; pairing < 4; pairing++ {
			a := s4build(r, pairing&1 != 0, am)
			b := s4build(r, pairing&2 != 0, bm)
			for _, o := range ops {
				what := fmt.Sprintf("seed %d pairing %d %s", seed, pairing, o.name)
				want := s4model{}
				for v := 0; v < 64; v++ {
					if o.in(am[v], bm[v]) {
						want[v] = true
					}
				}
				got := o.do(a, b)
				s4check(t, what, got, want)
				s4check(t, what+" left operand", a, am)
				s4check(t, what+" right operand", b, bm)
				// No state may be shared in either direction.
				got.Add(99)
				for v := range want {
					got.Remove(v)
				}
				s4check(t, what+" left operand after result changed", a, am)
				s4check(t, what+" right operand after result changed", b, bm)
				got = o.do(a, b)
				a.Add(77)
				b.Add(78)
				a.Remove(77)
				b.Remove(78)
				s4check(t, what+" result after operands changed", got, want)
			}
			// Same set on both sides.
			s4check(t, "self union", a.Union(a), am)
			s4check(t, "self intersect", a.Intersect(a), am)
			s4check(t, "self setdiff", a.SetDiff(a), s4model{})
			s4check(t, "self symdiff", a.SymDiff(a), s4model{})
			prod := sets.CartesianProduct(a, b)
			seen := map[sets.Product[int, int]]bool{}
			for _, p := range prod {
				if seen[p] || !am[p.A] || !bm[p.B] {
					t.Fatalf("seed %d: bad or repeated pair %v", seed, p)
				}
				seen[p] = true
			}
			if len(prod) != len(am)*len(bm) {
				t.Fatalf("seed %d: %d pairs, want %d", seed, len(prod), len(am)*len(bm))
			}
		}
	}
}

func TestStress4_ConstructorsAndFloats(t *testing.T) {
	r := rand.New(rand.NewSource(7))
	for i := 0; i < 200; i++ {
		m := s4randModel(r)
		var slice []int
		keys := map[int]string{}
		values := map[string]int{}
		for v := range m {
			for n := 1 + r.Intn(3); n > 0; n-- {
				slice = append(slice, v)
				values[fmt.Sprint(v, "/", n)] = v
			}
			keys[v] = "x"
		}
		r.Shuffle(len(slice), func(i, j int) { slice[i], slice[j] = slice[j], slice[i] })
		s4check(t, "NewSetFromSlice", sync2.NewSetFromSlice(slice), m)
		s4check(t, "NewSetFromKeys", sync2.NewSetFromKeys(keys), m)
		s4check(t, "NewSetFromValues", sync2.NewSetFromValues(values), m)
		slice = append(slice, 1000)
		s := sync2.NewSetFromSlice(slice[:len(slice)-1])
		slice[0] = 2000
		s4check(t, "NewSetFromSlice after the slice changed", s, m)
	}

	negZero := math.Copysign(0, -1)
	f := &sync2.Set[float64]{}
	if !f.Add(0) || f.Add(negZero) || !f.Has(negZero) || f.Len() != 1 {
		t.Fatalf("+0 and -0 must be one member: %v", f)
	}
	if !f.Remove(negZero) || f.Has(0) || f.Len() != 0 {
		t.Fatalf("-0 must remove +0: %v", f)
	}
	// NaN behaves as in a Go map: never found, every Add is a new member.
	for i := 1; i <= 30; i++ {
		if !f.Add(math.NaN()) || f.Has(math.NaN()) || f.Remove(math.NaN()) || f.Len() != i {
			t.Fatalf("NaN round %d: %v", i, f)
		}
		if got := len(f.Slice()); got != i {
			t.Fatalf("NaN round %d: Slice has %d values", i, got)
		}
	}
	if c := f.Clone(); c.Len() != 30 || f.Union(c).Len() != 60 || f.Intersect(c).Len() != 0 {
		t.Fatalf("NaN algebra: %d %d %d", c.Len(), f.Union(c).Len(), f.Intersect(c).Len())
	}
}

// Every goroutine owns the values congruent to its number, so that it knows
// exactly what each of its calls must return, while all of them fight for the
// same map while readers force new indexes to be built under their feet.
func TestStress4_ConcurrentDisjointWriters(t *testing.T) {
	const writers, span, rounds = 6, 40, 4000
	var s sync2.Set[int]
	var failed atomic.Value
	fail := func(format string, args ...any) { failed.Store(fmt.Sprintf(format, args...)) }
	models := make([]s4model, writers)
	stop := make(chan struct{})
	var wg, readers sync.WaitGroup
	for w := 0; w < writers; w++ {
		models[w] = s4model{}
		wg.Add(1)
		go func(w int) {
			defer wg.Done()
			r := rand.New(rand.NewSource(int64(w)))
			m := models[w]
			for i := 0; i < rounds && failed.Load() == nil; i++ {
				v := r.Intn(span)*writers + w
				switch r.Intn(5) {
				case 0, 1:
					if got := s.Add(v); got != !m[v] {
						fail("writer %d: Add(%d) = %v", w, v, got)
					}
					m[v] = true
				case 2:
					if got := s.Remove(v); got != m[v] {
						fail("writer %d: Remove(%d) = %v", w, v, got)
					}
					delete(m, v)
				case 3:
					if got := s.Has(v); got != m[v] {
						fail("writer %d: Has(%d) = %v", w, v, got)
					}
				default:
					batch, want := make(maps.Set[int]), 0
					add := r.Intn(2) == 0
					for n := r.Intn(12); n > 0; n-- {
						x := r.Intn(span)*writers + w
						if batch.Add(x) && m[x] != add {
							want++
						}
					}
					var got int
					if add {
						got = s.AddSet(batch)
					} else {
						got = s.RemoveSet(batch)
					}
					if got != want {
						fail("writer %d: batch add=%v returned %d, want %d", w, add, got, want)
					}
					for x := range batch {
						if add {
							m[x] = true
						} else {
							delete(m, x)
						}
					}
				}
			}
		}(w)
	}
	for g := 0; g < 3; g++ {
		readers.Add(1)
		go func(g int) {
			defer readers.Done()
			for i := 0; ; i++ {
				select {
				case <-stop:
					return
				default:
				}
				var values []int
				switch (i + g) % 4 {
				case 0:
					values = s.Slice()
				case 1:
					s.Range(func(v int) bool {
						values = append(values, v)
						return true
					})
				case 2:
					c := s.Clone()
					values = c.Slice()
					if c.Len() != len(values) {
						fail("reader: clone has Len %d but %d values", c.Len(), len(values))
					}
				default:
					str := s.String()
					for _, f := range strings.Fields(str[1 : len(str)-1]) {
						var v int
						fmt.Sscan(f, &v)
						values = append(values, v)
					}
				}
				seen := map[int]bool{}
				for _, v := range values {
					if seen[v] || v < 0 || v >= writers*span {
						fail("reader: value %d repeated or never added", v)
					}
					seen[v] = true
				}
				if n := s.Len(); n < 0 || n > writers*span {
					fail("reader: Len = %d", n)
				}
			}
		}(g)
	}
	wg.Wait()
	close(stop)
	readers.Wait()
	if msg := failed.Load(); msg != nil {
		t.Fatal(msg)
	}
	all := s4model{}
	for _, m := range models {
		for v := range m {
			all[v] = true
		}
	}
	want := fmt.Sprint(all.sorted())
	if got := fmt.Sprint(s4sortedSlice(&s)); got != want || s.Len() != len(all) {
		t.Fatalf("final members %s (Len %d), want %s", got, s.Len(), want)
	}
}

// All goroutines fight for the same values: of all concurrent Adds of a value
// exactly one may report true, the same for Removes, and the batch operations
// must between them account for every member exactly once.
func TestStress4_ConcurrentContended(t *testing.T) {
	const workers = 8
	for round := 0; round < 300; round++ {
		var s sync2.Set[int]
		var added, removed, batchAdded, batchRemoved int64
		var wg sync.WaitGroup
		run := func(f func(w int)) {
			for w := 0; w < workers; w++ {
				wg.Add(1)
				go func(w int) {
					defer wg.Done()
					f(w)
				}(w)
			}
			wg.Wait()
		}
		run(func(w int) {
			for v := 0; v < 20; v++ {
				if s.Add((v + w) % 20) {
					atomic.AddInt64(&added, 1)
				}
			}
		})
		if added != 20 || s.Len() != 20 {
			t.Fatalf("round %d: %d successful Adds, Len %d, want 20", round, added, s.Len())
		}
		run(func(w int) {
			// Overlapping windows [10w, 10w+30) over 20..119.
			batch := &sync2.Set[int]{}
			for v := 0; v < 30; v++ {
				batch.Add(20 + (10*w+v)%100)
			}
			atomic.AddInt64(&batchAdded, int64(s.AddSet(batch)))
		})
		if batchAdded != 100 || s.Len() != 120 {
			t.Fatalf("round %d: AddSet reported %d in total, Len %d", round, batchAdded, s.Len())
		}
		run(func(w int) {
			if w%2 == 0 {
				for v := 0; v < 20; v++ {
					if s.Remove((v + w) % 20) {
						atomic.AddInt64(&removed, 1)
					}
				}
				return
			}
			batch := make(maps.Set[int])
			for v := 0; v < 60; v++ {
				batch.Add(20 + (10*w+v)%100)
			}
			atomic.AddInt64(&batchRemoved, int64(s.RemoveSet(batch)))
		})
		if removed != 20 || batchRemoved != 100 || s.Len() != 0 || len(s.Slice()) != 0 || s.String() != "{}" {
			t.Fatalf("round %d: removed %d + %d, left %v", round, removed, batchRemoved, &s)
		}
	}
}

type s4call struct {
	op   int
	k, v int
}

// s4applyMap runs one call on the map and on the model and compares.
func s4applyMap(t *testing.T, what string, m *sync2.Map[int, int], model map[int]int, c s4call) {
	t.Helper()
	old, had := model[c.k]
	switch c.op {
	case 0:
		if v, ok := m.Load(c.k); ok != had || v != old {
			t.Fatalf("%s: Load(%d) = %d, %v, want %d, %v", what, c.k, v, ok, old, had)
		}
	case 1:
		m.Store(c.k, c.v)
		model[c.k] = c.v
	case 2:
		want := c.v
		if had {
			want = old
		} else {
			model[c.k] = c.v
		}
		if v, loaded := m.LoadOrStore(c.k, c.v); loaded != had || v != want {
			t.Fatalf("%s: LoadOrStore(%d, %d) = %d, %v, want %d, %v", what, c.k, c.v, v, loaded, want, had)
		}
	case 3:
		if v, loaded := m.LoadAndDelete(c.k); loaded != had || v != old {
			t.Fatalf("%s: LoadAndDelete(%d) = %d, %v, want %d, %v", what, c.k, v, loaded, old, had)
		}
		delete(model, c.k)
	case 4:
		m.Delete(c.k)
		delete(model, c.k)
	default:
		seen := map[int]int{}
		m.Range(func(k, v int) bool {
			if _, twice := seen[k]; twice {
				t.Fatalf("%s: Range visited %d twice", what, k)
			}
			seen[k] = v
			return true
		})
		if fmt.Sprint(seen) != fmt.Sprint(model) {
			t.Fatalf("%s: Range saw %v, want %v", what, seen, model)
		}
		if len(model) > 1 {
			calls := 0
			m.Range(func(int, int) bool {
				calls++
				return false
			})
			if calls != 1 {
				t.Fatalf("%s: Range went on after false (%d calls)", what, calls)
			}
		}
	}
}

func TestStress4_MapSequentialHistory(t *testing.T) {
	for seed := int64(0); seed < 400; seed++ {
		r := rand.New(rand.NewSource(seed))
		var m sync2.Map[int, int]
		model := map[int]int{}
		keys := 2 + r.Intn(40)
		ranges := 6 + r.Intn(40) // how rare Range is, it decides the layout
		for step := 0; step < 400; step++ {
			c := s4call{op: r.Intn(5), k: r.Intn(keys), v: r.Int()}
			if r.Intn(ranges) == 0 {
				c.op = 5
			}
			s4applyMap(t, fmt.Sprintf("seed %d step %d", seed, step), &m, model, c)
		}
		for k := -1; k <= keys; k++ {
			s4applyMap(t, fmt.Sprintf("seed %d end", seed), &m, model, s4call{op: 0, k: k})
		}
		s4applyMap(t, fmt.Sprintf("seed %d end", seed), &m, model, s4call{op: 5})
	}
}

// Owners work on keys of their own and know what every call must return, while
// churners add and delete keys of theirs and call Range, so that indexes are
// rebuilt and deleted entries retired all the time. A value stored into an
// entry that was left behind would show up as a lost update here.
func TestStress4_MapConcurrentOwners(t *testing.T) {
	const owners, churners, span, rounds = 6, 3, 12, 30000
	var m sync2.Map[int, int]
	var failed atomic.Value
	fail := func(format string, args ...interface{}) { failed.Store(fmt.Sprintf(format, args...)) }
	models := make([]map[int]int, owners)
	stop := make(chan struct{})
	var wg, bg sync.WaitGroup
	for w := 0; w < owners; w++ {
		models[w] = map[int]int{}
		wg.Add(1)
		go func(w int) {
			defer wg.Done()
			r := rand.New(rand.NewSource(int64(w)))
			model := models[w]
			for i := 0; i < rounds && failed.Load() == nil; i++ {
				k, v := r.Intn(span)*owners+w, r.Int()
				old, had := model[k]
				switch r.Intn(6) {
				case 0:
					m.Store(k, v)
					model[k] = v
				case 1:
					want := v
					if had {
						want = old
					} else {
						model[k] = v
					}
					if got, loaded := m.LoadOrStore(k, v); loaded != had || got != want {
						fail("owner %d: LoadOrStore(%d) = %d, %v, want %d, %v", w, k, got, loaded, want, had)
					}
				case 2, 3:
					if got, loaded := m.LoadAndDelete(k); loaded != had || got != old {
						fail("owner %d: LoadAndDelete(%d) = %d, %v, want %d, %v", w, k, got, loaded, old, had)
					}
					delete(model, k)
				default:
					if got, ok := m.Load(k); ok != had || got != old {
						fail("owner %d: Load(%d) = %d, %v, want %d, %v", w, k, got, ok, old, had)
					}
				}
			}
		}(w)
	}
	for c := 0; c < churners; c++ {
		bg.Add(1)
		go func(c int) {
			defer bg.Done()
			r := rand.New(rand.NewSource(int64(100 + c)))
			for i := 0; ; i++ {
				select {
				case <-stop:
					return
				default:
				}
				k := -1 - (r.Intn(8)*churners + c)
				switch r.Intn(4) {
				case 0:
					m.Store(k, k)
				case 1:
					m.Delete(k)
				case 2:
					m.Load(k - 1000) // a miss
				default:
					seen := map[int]bool{}
					m.Range(func(k, v int) bool {
						if seen[k] {
							fail("churner: Range visited %d twice", k)
						}
						seen[k] = true
						if k < 0 && v != k {
							fail("churner: Range saw %d -> %d", k, v)
						}
						return true
					})
				}
			}
		}(c)
	}
	wg.Wait()
	close(stop)
	bg.Wait()
	if msg := failed.Load(); msg != nil {
		t.Fatal(msg)
	}
	want := map[int]int{}
	for _, model := range models {
		for k, v := range model {
			want[k] = v
		}
	}
	got := map[int]int{}
	m.Range(func(k, v int) bool {
		if k >= 0 {
			got[k] = v
		}
		return true
	})
	if fmt.Sprint(got) != fmt.Sprint(want) {
		t.Fatalf("final content %v, want %v", got, want)
	}
}
