package avl

import (
	"fmt"
	"math"
	"math/rand"
	"sort"
	"testing"
)

// s4Plain is a node of an ordinary binary tree with one value per node. The
// library's tree is expanded into it, so that the reference traversals below
// are traversals of one binary tree by construction.
type s4Plain[T any] struct {
	value       T
	left, right *s4Plain[T]
}

// s4Expand checks the invariants of the subtree (parent links, heights, AVL
// balance, strict order between nodes, occurrences of a node all equal) and
// returns its expansion, height and number of occurrences.
func s4Expand[T comparable](t *testing.T, n, parent *node[T], cmp func(a, b T) int) (*s4Plain[T], int, int) {
	if n == nil {
		return nil, -1, 0
	}
	if n.parent != parent {
		t.Fatalf("node %v: wrong parent link", n.value)
	}
	l, lh, lc := s4Expand(t, n.left, n, cmp)
	r, rh, rc := s4Expand(t, n.right, n, cmp)
	h := lh
	if rh > h {
		h = rh
	}
	h++
	if n.height != h {
		t.Fatalf("node %v: cached height %d, real height %d", n.value, n.height, h)
	}
	if lh-rh > 1 || rh-lh > 1 {
		t.Fatalf("node %v: not AVL balanced, heights %d and %d", n.value, lh, rh)
	}
	if n.left != nil && cmp(n.left.rightMost().value, n.value) >= 0 {
		t.Fatalf("node %v: left branch not smaller", n.value)
	}
	if n.right != nil && cmp(n.right.leftMost().value, n.value) <= 0 {
		t.Fatalf("node %v: right branch not bigger", n.value)
	}
	// Chain o1 -> o2 -> ... -> ok along the right links, see the node doc.
	tail := r
	for i := len(n.more) - 1; i >= 0; i-- {
		if n.more[i] != n.value || cmp(n.more[i], n.value) != 0 {
			t.Fatalf("node %v holds a different value %v", n.value, n.more[i])
		}
		tail = &s4Plain[T]{value: n.more[i], right: tail}
	}
	return &s4Plain[T]{value: n.value, left: l, right: tail}, h, lc + rc + 1 + len(n.more)
}

func s4Reference[T any](n *s4Plain[T], pre, in, post *[]T) {
	if n == nil {
		return
	}
	*pre = append(*pre, n.value)
	s4Reference(n.left, pre, in, post)
	*in = append(*in, n.value)
	s4Reference(n.right, pre, in, post)
	*post = append(*post, n.value)
}

func s4Equal[T comparable](a, b []T) bool {
	if len(a) != len(b) {
		return false
	}
	for i := range a {
		if a[i] != b[i] {
			return false
		}
	}
	return true
}

// s4Verify checks a tree against the sorted model of its contents.
func s4Verify[T comparable](t *testing.T, tree *Tree[T], model []T) {
	t.Helper()
	if tree.Len() != len(model) {
		t.Fatalf("Len()=%d, model has %d", tree.Len(), len(model))
	}
	plain, _, count := s4Expand(t, tree.root, nil, tree.compare)
	if count != len(model) {
		t.Fatalf("nodes hold %d occurrences, model has %d", count, len(model))
	}
	var pre, in, post []T
	s4Reference(plain, &pre, &in, &post)
	if !s4Equal(in, model) {
		t.Fatalf("in-order %v, model %v", in, model)
	}
	walks := []struct {
		name  string
		want  []T
		slice func() []T
		walk  func(func(T))
	}{
		{"PreOrder", pre, tree.SlicePreOrder, tree.WalkPreOrder},
		{"InOrder", in, tree.SliceInOrder, tree.WalkInOrder},
		{"PostOrder", post, tree.SlicePostOrder, tree.WalkPostOrder},
	}
	for _, w := range walks {
		if got := w.slice(); !s4Equal(got, w.want) {
			t.Fatalf("Slice%s %v, want %v", w.name, got, w.want)
		}
		var got []T
		w.walk(func(v T) { got = append(got, v) })
		if !s4Equal(got, w.want) {
			t.Fatalf("Walk%s %v, want %v", w.name, got, w.want)
		}
	}
	if got, want := tree.String(), fmt.Sprint(in); len(in) > 0 && got != want {
		t.Fatalf("String()=%s, want %s", got, want)
	}
	if len(in) == 0 && tree.String() != "[]" {
		t.Fatalf("String()=%s for an empty tree", tree.String())
	}
}

func s4Insert(model []int, v int) []int {
	i := sort.SearchInts(model, v)
	model = append(model, 0)
	copy(model[i+1:], model[i:])
	model[i] = v
	return model
}

func s4Delete(model []int, v int) ([]int, bool) {
	i := sort.SearchInts(model, v)
	if i == len(model) || model[i] != v {
		return model, false
	}
	return append(model[:i], model[i+1:]...), true
}

func s4Nodes[T comparable](n *node[T], into map[*node[T]]bool) {
	if n != nil {
		into[n] = true
		s4Nodes(n.left, into)
		s4Nodes(n.right, into)
	}
}

func s4History(t *testing.T, seed int64, steps, valueRange, verifyEvery int) {
	rng := rand.New(rand.NewSource(seed))
	tree := NewOrdered[int]()
	cur, model := &tree, []int(nil)
	for step := 0; step < steps; step++ {
		switch op := rng.Intn(100); {
		case op < 45:
			v := rng.Intn(valueRange)
			cur.Add(v)
			model = s4Insert(model, v)
			if !cur.Contains(v) {
				t.Fatalf("seed %d step %d: Contains(%d) false after Add", seed, step, v)
			}
		case op < 85:
			v := rng.Intn(valueRange+2) - 1 // absent values included
			lenBefore := cur.Len()
			var want bool
			model, want = s4Delete(model, v)
			if got := cur.Remove(v); got != want {
				t.Fatalf("seed %d step %d: Remove(%d)=%v, want %v", seed, step, v, got, want)
			}
			if !want && cur.Len() != lenBefore {
				t.Fatalf("seed %d step %d: failed Remove(%d) changed Len", seed, step, v)
			}
		case op < 93:
			v := rng.Intn(valueRange+2) - 1
			i := sort.SearchInts(model, v)
			want := i < len(model) && model[i] == v
			if got := cur.Contains(v); got != want {
				t.Fatalf("seed %d step %d: Contains(%d)=%v, want %v", seed, step, v, got, want)
			}
		case op < 94:
			cur.Clear()
			model = nil
		default:
			clone := cur.Clone()
			cmodel := append([]int(nil), model...)
			s4Verify(t, &clone, cmodel)
			a, b := map[*node[int]]bool{}, map[*node[int]]bool{}
			s4Nodes(cur.root, a)
			s4Nodes(clone.root, b)
			for n := range a {
				if b[n] {
					t.Fatalf("seed %d step %d: clone shares node %v", seed, step, n)
				}
			}
			// Work on both, on the same values, so that shared slices of
			// occurrences would show.
			for i := 0; i < 10; i++ {
				v := rng.Intn(valueRange)
				if rng.Intn(2) == 0 {
					clone.Add(v)
					cmodel = s4Insert(cmodel, v)
					var ok bool
					model, ok = s4Delete(model, v)
					if cur.Remove(v) != ok {
						t.Fatalf("seed %d step %d: Remove disagrees", seed, step)
					}
				} else {
					cur.Add(v)
					model = s4Insert(model, v)
					var ok bool
					cmodel, ok = s4Delete(cmodel, v)
					if clone.Remove(v) != ok {
						t.Fatalf("seed %d step %d: Remove on clone disagrees", seed, step)
					}
				}
			}
			s4Verify(t, &clone, cmodel)
			s4Verify(t, cur, model)
			if rng.Intn(2) == 0 {
				cur, model = &clone, cmodel
			}
		}
		if cur.Len() != len(model) {
			t.Fatalf("seed %d step %d: Len()=%d, want %d", seed, step, cur.Len(), len(model))
		}
		if step%verifyEvery == 0 {
			s4Verify(t, cur, model)
		}
	}
	s4Verify(t, cur, model)
}

func TestStress4RandomHistories(t *testing.T) {
	for seed := int64(1); seed <= 40; seed++ {
		s4History(t, seed, 600, 6, 1) // few values, many occurrences each
	}
	for seed := int64(100); seed < 115; seed++ {
		s4History(t, seed, 1500, 50, 1)
	}
	for seed := int64(200); seed < 203; seed++ {
		s4History(t, seed, 20000, 3000, 101)
	}
	for seed := int64(300); seed < 302; seed++ {
		s4History(t, seed, 20000, 1000000, 101) // mostly distinct
	}
}

func TestStress4OrderedRunsAndDrain(t *testing.T) {
	for _, n := range []int{0, 1, 2, 3, 7, 100, 5000} {
		tree := NewOrdered[int]()
		var model []int
		for i := 0; i < n; i++ {
			v := i / 2 // every value twice, ascending
			if i%3 == 0 {
				v = n - i // and a descending run woven in
			}
			tree.Add(v)
			model = s4Insert(model, v)
		}
		s4Verify(t, &tree, model)
		clone := tree.Clone()
		for _, v := range clone.SlicePostOrder() {
			if !tree.Remove(v) {
				t.Fatalf("n=%d: Remove(%d) failed", n, v)
			}
			model, _ = s4Delete(model, v)
			if n <= 100 {
				s4Verify(t, &tree, model)
			}
		}
		s4Verify(t, &tree, model)
		if tree.Len() != 0 || tree.Remove(0) || tree.Contains(0) {
			t.Fatalf("n=%d: drained tree is not empty", n)
		}
		if clone.Len() != n {
			t.Fatalf("clone has %d values, want %d", clone.Len(), n)
		}
		tree.Add(1) // the drained tree is still usable, the clone untouched
		if clone.Len() != n || tree.Len() != 1 {
			t.Fatalf("n=%d: clone and original are entangled", n)
		}
	}
}

// +0.0 and -0.0 are == and compare as equal, but they can be told apart, so
// the multiset must keep each one as it was added.
func TestStress4SignedZeros(t *testing.T) {
	negZero := math.Copysign(0, -1)
	rng := rand.New(rand.NewSource(4))
	tree := NewOrdered[float64]()
	var model []float64
	signs := func(vals []float64) (neg, pos int) {
		for _, v := range vals {
			if v == 0 && math.Signbit(v) {
				neg++
			} else if v == 0 {
				pos++
			}
		}
		return
	}
	for step := 0; step < 3000; step++ {
		v := []float64{0, negZero, 1, -1, 2.5}[rng.Intn(5)]
		if rng.Intn(5) < 3 {
			tree.Add(v)
			model = append(model, v)
		} else {
			found := false
			for _, m := range model {
				found = found || m == v
			}
			if got := tree.Remove(v); got != found {
				t.Fatalf("step %d: Remove(%v)=%v, want %v", step, v, got, found)
			}
			if found {
				// Any == occurrence may have been the one that went; follow
				// the tree for the sign of a removed zero.
				neg, _ := signs(tree.SliceInOrder())
				mneg, _ := signs(model)
				dropNeg := v == 0 && neg == mneg-1
				for i, m := range model {
					if m == v && (v != 0 || math.Signbit(m) == dropNeg) {
						model = append(model[:i], model[i+1:]...)
						break
					}
				}
			}
		}
		sorted := append([]float64(nil), model...)
		sort.Float64s(sorted)
		s4Verify(t, &tree, sorted)
		for _, slice := range [][]float64{tree.SlicePreOrder(), tree.SliceInOrder(), tree.SlicePostOrder()} {
			neg, pos := signs(slice)
			mneg, mpos := signs(model)
			if neg != mneg || pos != mpos {
				t.Fatalf("step %d: %d/%d negative/positive zeros, want %d/%d", step, neg, pos, mneg, mpos)
			}
		}
	}
}
