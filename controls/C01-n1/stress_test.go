package avl

import (
	"fmt"
	"math/rand"
	"sort"
	"testing"
)

// The model: a sorted slice holding the multiset.

type stressModel[T comparable] struct {
	vals []T
	cmp  func(a, b T) int
}

func (m *stressModel[T]) add(v T) {
	i := sort.Search(len(m.vals), func(i int) bool { return m.cmp(m.vals[i], v) > 0 })
	m.vals = append(m.vals, v)
	copy(m.vals[i+1:], m.vals[i:])
	m.vals[i] = v
}

func (m *stressModel[T]) index(v T) int {
	i := sort.Search(len(m.vals), func(i int) bool { return m.cmp(m.vals[i], v) >= 0 })
	if i < len(m.vals) && m.vals[i] == v {
		return i
	}
	return -1
}

func (m *stressModel[T]) remove(v T) bool {
	i := m.index(v)
	if i < 0 {
		return false
	}
	m.vals = append(m.vals[:i], m.vals[i+1:]...)
	return true
}

func (m *stressModel[T]) clone() *stressModel[T] {
	return &stressModel[T]{vals: append([]T(nil), m.vals...), cmp: m.cmp}
}

// White-box reference traversals straight off the node structure, plus the
// AVL shape invariants.

func stressShape[T comparable](t *testing.T, n *node[T], pre, in, post *[]T, seen map[*node[T]]bool) int {
	if n == nil {
		return -1
	}
	if seen[n] {
		t.Fatalf("node %p reachable twice", n)
	}
	seen[n] = true
	*pre = append(*pre, n.value)
	hl := stressShape(t, n.left, pre, in, post, seen)
	*in = append(*in, n.value)
	hr := stressShape(t, n.right, pre, in, post, seen)
	*post = append(*post, n.value)
	h := hl
	if hr > h {
		h = hr
	}
	h++
	if n.height != h {
		t.Fatalf("node %v: stored height %d, real height %d", n.value, n.height, h)
	}
	if d := hl - hr; d < -1 || d > 1 {
		t.Fatalf("node %v: unbalanced, left %d right %d", n.value, hl, hr)
	}
	return h
}

func stressEq[T comparable](t *testing.T, what string, got, want []T) {
	t.Helper()
	if len(got) != len(want) {
		t.Fatalf("%s: len %d, want %d\n got %v\nwant %v", what, len(got), len(want), got, want)
	}
	for i := range got {
		if got[i] != want[i] {
			t.Fatalf("%s: differs at %d\n got %v\nwant %v", what, i, got, want)
		}
	}
}

func stressCheck[T comparable](t *testing.T, tree *Tree[T], m *stressModel[T], probes []T) map[*node[T]]bool {
	t.Helper()
	if tree.Len() != len(m.vals) {
		t.Fatalf("Len %d, want %d", tree.Len(), len(m.vals))
	}
	var pre, in, post []T
	seen := map[*node[T]]bool{}
	stressShape(t, tree.root, &pre, &in, &post, seen)
	stressEq(t, "in-order vs model", in, m.vals)
	stressEq(t, "SliceInOrder", tree.SliceInOrder(), in)
	stressEq(t, "SlicePreOrder", tree.SlicePreOrder(), pre)
	stressEq(t, "SlicePostOrder", tree.SlicePostOrder(), post)
	var w []T
	collect := func(v T) { w = append(w, v) }
	tree.WalkInOrder(collect)
	stressEq(t, "WalkInOrder", w, in)
	w = nil
	tree.WalkPreOrder(collect)
	stressEq(t, "WalkPreOrder", w, pre)
	w = nil
	tree.WalkPostOrder(collect)
	stressEq(t, "WalkPostOrder", w, post)
	if got, want := tree.String(), fmt.Sprint(m.vals); len(m.vals) > 0 && got != want {
		t.Fatalf("String %q, want %q", got, want)
	}
	for _, p := range probes {
		if got, want := tree.Contains(p), m.index(p) >= 0; got != want {
			t.Fatalf("Contains(%v) = %t, want %t", p, got, want)
		}
	}
	return seen
}

type stressPair struct {
	A int
	B string
}

func stressPairCmp(a, b stressPair) int {
	switch {
	case a.A < b.A:
		return -1
	case a.A > b.A:
		return 1
	case a.B < b.B:
		return -1
	case a.B > b.B:
		return 1
	}
	return 0
}

func stressRun[T comparable](t *testing.T, seed int64, steps int, mk func() Tree[T], cmp func(a, b T) int, gen func(r *rand.Rand) T) {
	r := rand.New(rand.NewSource(seed))
	type pair struct {
		tree *Tree[T]
		m    *stressModel[T]
	}
	first := mk()
	all := []pair{{&first, &stressModel[T]{cmp: cmp}}}
	probes := func() []T {
		ps := make([]T, 8)
		for i := range ps {
			ps[i] = gen(r)
		}
		return ps
	}
	for step := 0; step < steps; step++ {
		p := all[r.Intn(len(all))]
		switch op := r.Intn(100); {
		case op < 45:
			v := gen(r)
			p.tree.Add(v)
			p.m.add(v)
			if !p.tree.Contains(v) {
				t.Fatalf("seed %d step %d: just added %v, not contained", seed, step, v)
			}
		case op < 85:
			var v T
			if len(p.m.vals) > 0 && r.Intn(3) > 0 {
				v = p.m.vals[r.Intn(len(p.m.vals))]
			} else {
				v = gen(r)
			}
			before := p.tree.SlicePreOrder()
			lenBefore := p.tree.Len()
			got, want := p.tree.Remove(v), p.m.remove(v)
			if got != want {
				t.Fatalf("seed %d step %d: Remove(%v) = %t, want %t", seed, step, v, got, want)
			}
			if !got {
				if p.tree.Len() != lenBefore {
					t.Fatalf("seed %d step %d: failed Remove changed Len", seed, step)
				}
				stressEq(t, "pre-order after failed Remove", p.tree.SlicePreOrder(), before)
			}
		case op < 88:
			p.tree.Clear()
			p.m.vals = nil
		case op < 96:
			c := p.tree.Clone()
			cm := p.m.clone()
			seenC := stressCheck(t, &c, cm, probes())
			seenO := stressCheck(t, p.tree, p.m, nil)
			for n := range seenC {
				if seenO[n] {
					t.Fatalf("seed %d step %d: clone shares node %p with the original", seed, step, n)
				}
			}
			if len(all) < 6 {
				all = append(all, pair{&c, cm})
			} else {
				i := r.Intn(len(all))
				all[i] = pair{&c, cm}
			}
		default:
			// fall through to the check below
		}
		if step%7 == 0 || step > steps-50 {
			for _, q := range all {
				stressCheck(t, q.tree, q.m, probes())
			}
		}
	}
	// Drain one of them completely, in random order.
	p := all[0]
	for len(p.m.vals) > 0 {
		v := p.m.vals[r.Intn(len(p.m.vals))]
		if !p.tree.Remove(v) {
			t.Fatalf("drain: Remove(%v) false", v)
		}
		p.m.remove(v)
		if len(p.m.vals)%5 == 0 {
			stressCheck(t, p.tree, p.m, probes())
		}
	}
	for _, q := range all {
		stressCheck(t, q.tree, q.m, probes())
	}
}

func TestStressSortedMultiset(t *testing.T) {
	for seed := int64(1); seed <= 60; seed++ {
		span := []int{3, 10, 50, 1000}[seed%4]
		stressRun(t, seed, 1500, NewOrdered[int], func(a, b int) int {
			switch {
			case a < b:
				return -1
			case a > b:
				return 1
			}
			return 0
		}, func(r *rand.Rand) int { return r.Intn(span) - span/2 })
	}
	for seed := int64(100); seed <= 130; seed++ {
		stressRun(t, seed, 1500, func() Tree[stressPair] { return New(stressPairCmp) }, stressPairCmp,
			func(r *rand.Rand) stressPair {
				return stressPair{A: r.Intn(6), B: string(rune('a' + r.Intn(4)))}
			})
	}
	for seed := int64(200); seed <= 210; seed++ {
		stressRun(t, seed, 1500, NewOrdered[string], func(a, b string) int {
			switch {
			case a < b:
				return -1
			case a > b:
				return 1
			}
			return 0
		}, func(r *rand.Rand) string { return fmt.Sprint(r.Intn(40)) })
	}
}

// Monotone and all-equal insertion orders, large sizes, clones of every size
// including the empty tree.
func TestStressShapesAndClones(t *testing.T) {
	cmp := func(a, b int) int {
		switch {
		case a < b:
			return -1
		case a > b:
			return 1
		}
		return 0
	}
	empty := NewOrdered[int]()
	c := empty.Clone()
	stressCheck(t, &c, &stressModel[int]{cmp: cmp}, []int{0, 1})
	c.Add(1)
	if empty.Len() != 0 || empty.Contains(1) {
		t.Fatal("clone of empty tree leaks into the original")
	}
	if empty.Remove(1) {
		t.Fatal("Remove on empty tree returned true")
	}
	for _, mode := range []string{"asc", "desc", "same", "zigzag"} {
		tree := NewOrdered[int]()
		m := &stressModel[int]{cmp: cmp}
		for i := 0; i < 3000; i++ {
			var v int
			switch mode {
			case "asc":
				v = i
			case "desc":
				v = -i
			case "same":
				v = 7
			case "zigzag":
				v = i * (1 - 2*(i%2))
			}
			tree.Add(v)
			m.add(v)
			if i < 70 || i%251 == 0 {
				cl := tree.Clone()
				seenC := stressCheck(t, &cl, m, []int{v, v + 1, -v})
				seenO := stressCheck(t, &tree, m, []int{v, v + 1, -v})
				for n := range seenC {
					if seenO[n] {
						t.Fatalf("%s/%d: shared node", mode, i)
					}
				}
				// mutate the clone, the original must not move
				cl.Add(v)
				cl.Remove(m.vals[0])
				cl.Clear()
				stressCheck(t, &tree, m, nil)
			}
		}
		// remove from the front, from the back, from the middle
		for i := 0; len(m.vals) > 0; i++ {
			var v int
			switch i % 3 {
			case 0:
				v = m.vals[0]
			case 1:
				v = m.vals[len(m.vals)-1]
			default:
				v = m.vals[len(m.vals)/2]
			}
			if !tree.Remove(v) {
				t.Fatalf("%s: Remove(%d) false", mode, v)
			}
			m.remove(v)
			if tree.Remove(1 << 40) {
				t.Fatal("removed an absent value")
			}
			if i%97 == 0 || len(m.vals) < 40 {
				stressCheck(t, &tree, m, []int{v})
			}
		}
	}
	big := NewOrdered[int]()
	r := rand.New(rand.NewSource(42))
	m := &stressModel[int]{cmp: cmp}
	for i := 0; i < 200000; i++ {
		v := r.Intn(50000)
		big.Add(v)
		m.vals = append(m.vals, v)
	}
	sort.Ints(m.vals)
	cl := big.Clone()
	stressCheck(t, &cl, m, []int{1, 2, 3, -1, 50001})
	stressCheck(t, &big, m, nil)
}
