package chans_test

import (
	"fmt"
	"math/rand"
	"runtime"
	"sync"
	"sync/atomic"
	"testing"
	"time"

	"gopkg.in/typ.v4/chans"
)

// event identifies what was published: who, which number, and whether the
// variant used promises an order (PubSync, PubSliceSync).
type event struct {
	pub, seq int
	ordered  bool
}

// collector receives from a subscription until it is closed.
type collector struct {
	ch     <-chan event
	mu     sync.Mutex
	got    []event
	closed chan struct{}
}

func collect(ch <-chan event) *collector {
	c := &collector{ch: ch, closed: make(chan struct{})}
	go func() {
		for ev := range ch {
			c.mu.Lock()
			c.got = append(c.got, ev)
			c.mu.Unlock()
		}
		close(c.closed)
	}()
	return c
}

func (c *collector) count() int {
	c.mu.Lock()
	defer c.mu.Unlock()
	return len(c.got)
}

func (c *collector) snapshot() []event {
	c.mu.Lock()
	defer c.mu.Unlock()
	return append([]event(nil), c.got...)
}

func (c *collector) waitClosed(t *testing.T, what string) {
	t.Helper()
	select {
	case <-c.closed:
	case <-time.After(20 * time.Second):
		t.Fatalf("%s: channel was not closed", what)
	}
}

func waitFor(t *testing.T, what string, cond func() bool) {
	t.Helper()
	deadline := time.Now().Add(30 * time.Second)
	for !cond() {
		if time.Now().After(deadline) {
			t.Fatalf("timed out waiting for %s", what)
		}
		time.Sleep(200 * time.Microsecond)
	}
}

// checkExactlyOnce checks that got holds every event of want exactly once,
// nothing else, and the ordered events of each publisher in publication order.
func checkExactlyOnce(t *testing.T, who string, got []event, want map[event]bool) {
	t.Helper()
	seen := make(map[event]int, len(got))
	last := map[int]int{}
	for _, ev := range got {
		seen[ev]++
		if !want[ev] {
			t.Errorf("%s: got %+v, which was not published to it", who, ev)
		}
		if ev.ordered {
			if prev, ok := last[ev.pub]; ok && prev > ev.seq {
				t.Errorf("%s: %+v received after seq %d of the same publisher", who, ev, prev)
			}
			last[ev.pub] = ev.seq
		}
	}
	for ev := range want {
		if seen[ev] != 1 {
			t.Errorf("%s: %+v received %d times", who, ev, seen[ev])
		}
	}
}

// publishRandomly publishes n events as publisher id through random variants
// and returns what it published.
func publishRandomly(pub *chans.PubSub[event], id, n int, rnd *rand.Rand) []event {
	var all []event
	seq := 0
	next := func(k int, ordered bool) []event {
		evs := make([]event, k)
		for i := range evs {
			evs[i] = event{pub: id, seq: seq, ordered: ordered}
			seq++
		}
		all = append(all, evs...)
		return evs
	}
	for seq < n {
		switch rnd.Intn(6) {
		case 0:
			pub.Pub(next(1, false)[0])
		case 1:
			evs := next(1+rnd.Intn(3), false)
			pub.PubSlice(evs)
			for i := range evs {
				evs[i] = event{pub: -1} // the caller may reuse its slice
			}
		case 2:
			pub.PubWait(next(1, false)[0])
		case 3:
			pub.PubSliceWait(next(1+rnd.Intn(3), false))
		case 4:
			pub.PubSync(next(1, true)[0])
		case 5:
			pub.PubSliceSync(next(1+rnd.Intn(3), true))
		}
		if rnd.Intn(4) == 0 {
			runtime.Gosched()
		}
	}
	return all
}

func TestStress4ExactlyOnce(t *testing.T) {
	for round := 0; round < 24; round++ {
		var pub chans.PubSub[event]
		pub.DefaultBuffer = round % 3
		var cols []*collector
		for i := 0; i < 5; i++ {
			if i%2 == 0 {
				cols = append(cols, collect(pub.Sub()))
			} else {
				cols = append(cols, collect(pub.SubBuf(i)))
			}
		}
		const publishers, perPublisher = 4, 120
		want := map[event]bool{}
		var wantMu sync.Mutex
		var wg sync.WaitGroup
		for p := 0; p < publishers; p++ {
			wg.Add(1)
			go func(p int) {
				defer wg.Done()
				rnd := rand.New(rand.NewSource(int64(round*100 + p)))
				evs := publishRandomly(&pub, p, perPublisher, rnd)
				wantMu.Lock()
				for _, ev := range evs {
					want[ev] = true
				}
				wantMu.Unlock()
			}(p)
		}
		wg.Wait()
		for i, c := range cols {
			c := c
			waitFor(t, fmt.Sprintf("subscriber %d to get everything", i), func() bool { return c.count() >= len(want) })
		}
		if err := pub.UnsubAll(); err != nil {
			t.Fatalf("UnsubAll: %v", err)
		}
		for i, c := range cols {
			c.waitClosed(t, fmt.Sprintf("subscriber %d after UnsubAll", i))
			checkExactlyOnce(t, fmt.Sprintf("round %d subscriber %d", round, i), c.snapshot(), want)
		}
	}
}

// Subscribers come and go while publishers publish. A subscriber that stays
// gets everything exactly once; one that leaves gets nothing twice, gets what
// was published to it with PubWait while it was subscribed, and finds its
// channel closed when Unsub returns.
func TestStress4Churn(t *testing.T) {
	var pub chans.PubSub[event]
	stable := collect(pub.SubBuf(2))
	const publishers, perPublisher = 3, 2500
	want := map[event]bool{}
	var wantMu sync.Mutex
	var pubs, churners sync.WaitGroup
	stop := make(chan struct{})
	for p := 0; p < publishers; p++ {
		pubs.Add(1)
		go func(p int) {
			defer pubs.Done()
			evs := publishRandomly(&pub, p, perPublisher, rand.New(rand.NewSource(int64(p))))
			wantMu.Lock()
			for _, ev := range evs {
				want[ev] = true
			}
			wantMu.Unlock()
		}(p)
	}
	for c := 0; c < 4; c++ {
		churners.Add(1)
		go func(c int) {
			defer churners.Done()
			rnd := rand.New(rand.NewSource(int64(1000 + c)))
			for n := 0; ; n++ {
				select {
				case <-stop:
					return
				default:
				}
				ch := pub.SubBuf(rnd.Intn(3))
				col := collect(ch)
				marker := event{pub: 100 + c, seq: n}
				pub.WithOnly(ch).PubWait(marker)
				for i := rnd.Intn(3); i > 0; i-- {
					runtime.Gosched()
				}
				if err := pub.Unsub(ch); err != nil {
					t.Errorf("Unsub: %v", err)
				}
				select {
				case <-col.closed:
				case <-time.After(10 * time.Second):
					t.Errorf("channel still open after Unsub returned")
					return
				}
				if err := pub.Unsub(ch); err != chans.ErrAlreadyUnsubscribed {
					t.Errorf("second Unsub: %v", err)
				}
				seen := map[event]int{}
				for _, ev := range col.snapshot() {
					seen[ev]++
					if seen[ev] > 1 {
						t.Errorf("churner %d: %+v received twice", c, ev)
					}
					if ev.pub >= 100 && ev != marker {
						t.Errorf("churner %d: got the marker %+v of somebody else", c, ev)
					}
				}
				if seen[marker] != 1 {
					t.Errorf("churner %d: own marker received %d times", c, seen[marker])
				}
			}
		}(c)
	}
	pubs.Wait()
	close(stop)
	churners.Wait()
	waitFor(t, "the stable subscriber to get everything", func() bool { return stable.count() >= len(want) })
	if err := pub.UnsubAll(); err != nil {
		t.Fatal(err)
	}
	stable.waitClosed(t, "stable subscriber")
	checkExactlyOnce(t, "stable subscriber", stable.snapshot(), want)
	var none <-chan event
	if err := pub.Unsub(none); err != chans.ErrSubscriptionNotInitalized {
		t.Errorf("Unsub(nil): %v", err)
	}
}

// With a timeout every (event, subscriber) pair ends in exactly one of a
// delivery or a callback, and the Wait and Sync variants return after that.
func TestStress4Timeouts(t *testing.T) {
	var pub chans.PubSub[int]
	pub.PubTimeoutAfter = 3 * time.Millisecond
	var mu sync.Mutex
	callbacks := map[int]int{}
	var accounted int64
	pub.OnPubTimeout = func(ev int) {
		mu.Lock()
		callbacks[ev]++
		mu.Unlock()
		atomic.AddInt64(&accounted, 1)
	}
	fast := pub.Sub()
	dead := pub.Sub()
	lazy := pub.SubBuf(7)
	fastGot := map[int]int{}
	fastDone := make(chan struct{})
	go func() {
		for ev := range fast {
			mu.Lock()
			fastGot[ev]++
			mu.Unlock()
			atomic.AddInt64(&accounted, 1)
		}
		close(fastDone)
	}()
	const publishers, perPublisher = 3, 40
	settled := func(ev int) int { // without what sits in the buffer of lazy
		mu.Lock()
		defer mu.Unlock()
		return fastGot[ev] + callbacks[ev]
	}
	var wg sync.WaitGroup
	for p := 0; p < publishers; p++ {
		wg.Add(1)
		go func(p int) {
			defer wg.Done()
			for i := 0; i < perPublisher; i++ {
				ev := p*1000 + i
				switch i % 6 {
				case 0:
					pub.Pub(ev)
				case 1:
					pub.PubSlice([]int{ev})
				case 2:
					pub.PubWait(ev)
				case 3:
					pub.PubSliceWait([]int{ev})
				case 4:
					pub.PubSync(ev)
				case 5:
					pub.PubSliceSync([]int{ev})
				}
				if i%6 >= 2 {
					// fast: 1 (delivery or callback), dead: 1 callback, lazy: callback or buffer
					if n := settled(ev); n < 2 || n > 3 {
						t.Errorf("event %d: %d outcomes when the call returned", ev, n)
					}
				}
			}
		}(p)
	}
	wg.Wait()
	total := int64(publishers * perPublisher * 3)
	waitFor(t, "all pairs to be settled", func() bool {
		return atomic.LoadInt64(&accounted)+int64(len(lazy)) >= total
	})
	if err := pub.UnsubAll(); err != nil {
		t.Fatal(err)
	}
	<-fastDone
	if _, ok := <-dead; ok {
		t.Errorf("something was delivered to the dead subscriber")
	}
	lazyGot := map[int]int{}
	for ev := range lazy {
		lazyGot[ev]++
	}
	if len(lazyGot) != 7 {
		t.Errorf("lazy subscriber has %d events in its buffer, want 7", len(lazyGot))
	}
	for p := 0; p < publishers; p++ {
		for i := 0; i < perPublisher; i++ {
			ev := p*1000 + i
			if fastGot[ev] > 1 || lazyGot[ev] > 1 {
				t.Errorf("event %d delivered twice", ev)
			}
			if n := fastGot[ev] + lazyGot[ev] + callbacks[ev]; n != 3 {
				t.Errorf("event %d: %d outcomes for 3 subscribers", ev, n)
			}
		}
	}
}

// WithOnly publishes to the one subscription only, also when nested, and an
// Unsub through either publisher closes the channel once.
func TestStress4WithOnly(t *testing.T) {
	for round := 0; round < 100; round++ {
		var pub chans.PubSub[event]
		const subs = 3
		chs := make([]<-chan event, subs)
		cols := make([]*collector, subs)
		onlys := make([]*chans.PubSub[event], subs)
		want := make([]map[event]bool, subs)
		for i := range chs {
			chs[i] = pub.SubBuf(i)
			cols[i] = collect(chs[i])
			onlys[i] = pub.WithOnly(chs[i])
			if i == 1 {
				onlys[i] = onlys[i].WithOnly(chs[i])
			}
			want[i] = map[event]bool{}
		}
		published := make([][]event, subs+1)
		var wg sync.WaitGroup
		for i := 0; i <= subs; i++ {
			wg.Add(1)
			go func(i int) {
				defer wg.Done()
				p := &pub
				if i < subs {
					p = onlys[i]
				}
				published[i] = publishRandomly(p, i, 30, rand.New(rand.NewSource(int64(round*10+i))))
			}(i)
		}
		wg.Wait()
		for i := 0; i < subs; i++ {
			for _, ev := range published[i] {
				want[i][ev] = true
			}
			for _, ev := range published[subs] {
				want[i][ev] = true
			}
		}
		for i, c := range cols {
			i, c := i, c
			waitFor(t, "subscriber to get everything", func() bool { return c.count() >= len(want[i]) })
		}
		// subscription 0 goes through its WithOnly publisher, in a race with the parent
		errs := make(chan error, 2)
		go func() { errs <- onlys[0].Unsub(chs[0]) }()
		go func() { errs <- pub.Unsub(chs[0]) }()
		e1, e2 := <-errs, <-errs
		if !(e1 == nil && e2 == chans.ErrAlreadyUnsubscribed) && !(e2 == nil && e1 == chans.ErrAlreadyUnsubscribed) {
			t.Errorf("racing Unsub calls returned %v and %v", e1, e2)
		}
		cols[0].waitClosed(t, "subscription 0")
		unknown := make(chan event)
		pub.WithOnly(unknown).PubWait(event{pub: 99})
		pub.WithOnly(unknown).PubSync(event{pub: 99})
		onlys[1].WithOnly(chs[2]).PubSync(event{pub: 98}) // not one of its subscriptions
		late := event{pub: 77, seq: round}
		pub.PubWait(late)
		onlys[0].PubWait(event{pub: 78})
		onlys[0].PubSync(event{pub: 78})
		want[1][late], want[2][late] = true, true
		if err := onlys[1].UnsubAll(); err != nil {
			t.Fatal(err)
		}
		cols[1].waitClosed(t, "subscription 1")
		if err := pub.Unsub(chs[1]); err != chans.ErrAlreadyUnsubscribed {
			t.Errorf("Unsub after UnsubAll of the WithOnly publisher: %v", err)
		}
		if err := pub.UnsubAll(); err != nil {
			t.Fatal(err)
		}
		if err := onlys[2].Unsub(chs[2]); err != chans.ErrAlreadyUnsubscribed {
			t.Errorf("Unsub through WithOnly after UnsubAll: %v", err)
		}
		for i, c := range cols {
			c.waitClosed(t, "subscription")
			checkExactlyOnce(t, fmt.Sprintf("round %d subscription %d", round, i), c.snapshot(), want[i])
		}
	}
}

// The timeout callback of the asynchronous variants may unsubscribe the channel
// that was too slow.
func TestStress4UnsubFromCallback(t *testing.T) {
	for round := 0; round < 120; round++ {
		round := round // late callbacks of asynchronous senders look at it
		var pub chans.PubSub[int]
		pub.PubTimeoutAfter = time.Millisecond
		slow := pub.SubBuf(round % 2)
		other := pub.SubBuf(64)
		var calls int64
		pub.OnPubTimeout = func(int) {
			atomic.AddInt64(&calls, 1)
			if round%3 == 0 {
				pub.UnsubAll()
			} else {
				pub.Unsub(slow)
			}
		}
		evs := []int{1, 2, 3, 4}
		switch round % 4 {
		case 0:
			pub.PubSliceWait(evs)
		case 1:
			pub.PubSlice(evs)
		case 2:
			for _, ev := range evs {
				pub.Pub(ev)
			}
		case 3:
			for _, ev := range evs {
				pub.PubWait(ev)
			}
		}
		// slow takes at most what fits into its buffer and is closed by the callback
		waitFor(t, "the timeout callback", func() bool { return atomic.LoadInt64(&calls) > 0 })
		n := 0
		for range slow {
			n++
		}
		// (after Pub and PubSlice other senders may still be waiting, they can
		// hand their event to this loop before the callback has unsubscribed)
		waited := round%4 == 0 || round%4 == 3
		// (and under load even a hand-off into a free buffer may lose against a
		// timer of 1ms, so there may be less than fits)
		if waited && n > round%2 || n > len(evs) {
			t.Errorf("round %d: slow subscriber got %d events", round, n)
		}
		if atomic.LoadInt64(&calls) == 0 {
			t.Errorf("round %d: no timeout callback", round)
		}
		pub.UnsubAll()
		seen := map[int]int{}
		for ev := range other {
			seen[ev]++
			if seen[ev] > 1 {
				t.Errorf("round %d: %d delivered twice", round, ev)
			}
		}
		// the other subscriber stayed (unless the callback was UnsubAll) and
		// has room for everything; under load a hand-off to it may still lose
		// against a timer of 1ms, but then there was a callback for that too,
		// on top of the one for the slow subscriber
		if c := int(atomic.LoadInt64(&calls)); waited && round%3 != 0 && len(seen)+c < len(evs)+1 {
			t.Errorf("round %d: the other subscriber got %d of %d events, %d callbacks", round, len(seen), len(evs), c)
		}
	}
}

// Tickets are drawn by the publishing goroutine, so whatever variants one
// goroutine uses, each subscriber gets its events in the order of the calls.
func TestStress4TicketOrder(t *testing.T) {
	for round := 0; round < 10; round++ {
		var pub chans.PubSub[event]
		var cols []*collector
		for _, size := range []int{0, 1, 5} {
			cols = append(cols, collect(pub.SubBuf(size)))
		}
		evs := publishRandomly(&pub, 0, 300, rand.New(rand.NewSource(int64(round))))
		for _, c := range cols {
			c := c
			waitFor(t, "everything to arrive", func() bool { return c.count() >= len(evs) })
		}
		pub.UnsubAll()
		for i, c := range cols {
			c.waitClosed(t, "subscriber")
			got := c.snapshot()
			if len(got) != len(evs) {
				t.Fatalf("round %d subscriber %d: got %d events, want %d", round, i, len(got), len(evs))
			}
			for k, ev := range got {
				if ev.seq != k {
					t.Fatalf("round %d subscriber %d: event %d has seq %d", round, i, k, ev.seq)
				}
			}
		}
	}
}

// Sub, UnsubAll and all kinds of publishing at the same time: nothing panics,
// nothing is delivered twice, every channel ends up closed.
func TestStress4SubDuringUnsubAll(t *testing.T) {
	var pub chans.PubSub[event]
	var mu sync.Mutex
	var cols []*collector
	stop := make(chan struct{})
	var bg, pubs sync.WaitGroup
	for g := 0; g < 3; g++ {
		bg.Add(1)
		go func(g int) {
			defer bg.Done()
			for n := 0; ; n++ {
				select {
				case <-stop:
					return
				default:
				}
				c := collect(pub.SubBuf(n % 3))
				mu.Lock()
				cols = append(cols, c)
				mu.Unlock()
				if n%5 == g {
					pub.UnsubAll()
				}
				if n%7 == 0 {
					pub.Unsub(c.ch)
				}
				time.Sleep(50 * time.Microsecond)
			}
		}(g)
	}
	for p := 0; p < 3; p++ {
		pubs.Add(1)
		go func(p int) {
			defer pubs.Done()
			publishRandomly(&pub, p, 1500, rand.New(rand.NewSource(int64(p))))
		}(p)
	}
	pubs.Wait()
	close(stop)
	bg.Wait()
	if err := pub.UnsubAll(); err != nil {
		t.Fatal(err)
	}
	for i, c := range cols {
		c.waitClosed(t, fmt.Sprintf("subscriber %d", i))
		seen := map[event]bool{}
		for _, ev := range c.snapshot() {
			if seen[ev] {
				t.Errorf("subscriber %d: %+v received twice", i, ev)
			}
			seen[ev] = true
		}
	}
}

// Also the callback of the synchronous variants runs when the turn has been
// passed on and no ticket is held, so it may unsubscribe.
func TestStress4UnsubFromSyncCallback(t *testing.T) {
	for round := 0; round < 40; round++ {
		round := round
		var pub chans.PubSub[int]
		pub.PubTimeoutAfter = time.Millisecond
		a, b := pub.Sub(), pub.SubBuf(1)
		calls := 0
		pub.OnPubTimeout = func(int) {
			calls++
			if round%2 == 0 {
				pub.UnsubAll()
			} else {
				pub.Unsub(a)
				pub.Unsub(b)
			}
		}
		pub.PubSliceSync([]int{1, 2, 3})
		if calls != 1 {
			t.Errorf("round %d: %d callbacks, want 1", round, calls)
		}
		if _, ok := <-a; ok {
			t.Errorf("round %d: the unbuffered channel got something", round)
		}
		n := 0
		for range b {
			n++
		}
		if n > 1 {
			t.Errorf("round %d: %d events in a buffer of 1", round, n)
		}
	}
}
