package sync2_test

import (
	"math/rand"
	"sync"
	"sync/atomic"
	"testing"

	"gopkg.in/typ.v4/maps"
	"gopkg.in/typ.v4/sets"
	"gopkg.in/typ.v4/sync2"
)

// Stress test for property C05: sync2.Set is an atomic set under concurrent
// use.

type c05Kind int

const (
	c05Add c05Kind = iota
	c05Remove
	c05Has
)

type c05Op struct {
	kind       c05Kind
	result     bool
	start, end int64
}

// c05Linearizable reports whether the operations on ONE value can be put in a
// total order that respects real time (a.end < b.start => a before b) and in
// which every result is what a sequential set, starting without the value,
// would have answered. Successful Adds and Removes therefore alternate,
// starting with an Add.
func c05Linearizable(ops []c05Op) (ok bool, finalPresent bool) {
	n := len(ops)
	if n > 30 {
		panic("too many ops for the brute force search")
	}
	full := uint32(1)<<uint(n) - 1
	dead := map[uint32]bool{}
	var dfs func(done uint32, present bool) bool
	dfs = func(done uint32, present bool) bool {
		if done == full {
			finalPresent = present
			return true
		}
		if dead[done] {
			return false
		}
		// the earliest end among the pending ops bounds who may go next
		minEnd := int64(1) << 62
		for i := 0; i < n; i++ {
			if done&(1<<uint(i)) == 0 && ops[i].end < minEnd {
				minEnd = ops[i].end
			}
		}
		for i := 0; i < n; i++ {
			if done&(1<<uint(i)) != 0 || ops[i].start > minEnd {
				continue
			}
			next := present
			switch ops[i].kind {
			case c05Add:
				if ops[i].result == present {
					continue
				}
				next = true
			case c05Remove:
				if ops[i].result != present {
					continue
				}
				next = false
			case c05Has:
				if ops[i].result != present {
					continue
				}
			}
			if dfs(done|1<<uint(i), next) {
				return true
			}
		}
		// membership is a function of the done mask (parity of successes)
		dead[done] = true
		return false
	}
	ok = dfs(0, false)
	return ok, finalPresent
}

func TestC05_PerValueLinearizable(t *testing.T) {
	const rounds = 3000
	for round := 0; round < rounds; round++ {
		goroutines := 2 + round%7 // 2..8
		opsEach := 3
		if goroutines <= 4 {
			opsEach = 5
		}
		const universe = 2
		var set sync2.Set[int]
		var clock int64
		logs := make([][universe][]c05Op, goroutines)
		var wg sync.WaitGroup
		var startGate sync.WaitGroup
		startGate.Add(1)
		for g := 0; g < goroutines; g++ {
			wg.Add(1)
			go func(g int, seed int64) {
				defer wg.Done()
				rng := rand.New(rand.NewSource(seed))
				startGate.Wait()
				for i := 0; i < opsEach; i++ {
					v := rng.Intn(universe)
					op := c05Op{kind: c05Kind(rng.Intn(3))}
					op.start = atomic.AddInt64(&clock, 1)
					switch op.kind {
					case c05Add:
						op.result = set.Add(v)
					case c05Remove:
						op.result = set.Remove(v)
					case c05Has:
						op.result = set.Has(v)
					}
					op.end = atomic.AddInt64(&clock, 1)
					logs[g][v] = append(logs[g][v], op)
				}
			}(g, int64(round*100+g))
		}
		startGate.Done()
		wg.Wait()
		for v := 0; v < universe; v++ {
			var ops []c05Op
			for g := range logs {
				ops = append(ops, logs[g][v]...)
			}
			ok, final := c05Linearizable(ops)
			if !ok {
				t.Fatalf("round %d value %d: history is not an atomic set history: %+v", round, v, ops)
			}
			// The final membership is determined by the parity of successes.
			bal := 0
			for _, op := range ops {
				if op.kind == c05Add && op.result {
					bal++
				}
				if op.kind == c05Remove && op.result {
					bal--
				}
			}
			if bal != 0 && bal != 1 {
				t.Fatalf("round %d value %d: successful adds - removes = %d", round, v, bal)
			}
			if got := set.Has(v); got != (bal == 1) || got != final {
				t.Fatalf("round %d value %d: final Has=%t, balance=%d", round, v, got, bal)
			}
		}
	}
}

func TestC05_CountsAddUp(t *testing.T) {
	const universe = 6
	for round := 0; round < 200; round++ {
		goroutines := 2 + round%7
		var set sync2.Set[int]
		var neverAdded int64 // Has(universe+1) must never be true
		set.Add(universe)    // stably present: nobody removes it
		balance := make([]int64, goroutines)
		var wg sync.WaitGroup
		for g := 0; g < goroutines; g++ {
			wg.Add(1)
			go func(g int) {
				defer wg.Done()
				rng := rand.New(rand.NewSource(int64(round*1000 + g)))
				for i := 0; i < 300; i++ {
					switch rng.Intn(7) {
					case 0:
						if set.Add(rng.Intn(universe)) {
							balance[g]++
						}
					case 1:
						if set.Remove(rng.Intn(universe)) {
							balance[g]--
						}
					case 2:
						balance[g] += int64(set.AddSet(c05RandomSet(rng, universe, g)))
					case 3:
						balance[g] -= int64(set.RemoveSet(c05RandomSet(rng, universe, g)))
					case 4:
						if set.Has(universe + 1) {
							atomic.AddInt64(&neverAdded, 1)
						}
						if !set.Has(universe) {
							t.Errorf("Has missed a stably present value")
						}
					case 5:
						if n := set.Len(); n < 1 || n > universe+1 {
							t.Errorf("Len()=%d out of range", n)
						}
					case 6:
						seen := map[int]bool{}
						set.Range(func(v int) bool {
							if seen[v] || v < 0 || v > universe {
								t.Errorf("Range reported %d twice or out of universe", v)
							}
							seen[v] = true
							return true
						})
						if !seen[universe] {
							t.Errorf("Range missed a stably present value")
						}
					}
				}
			}(g)
		}
		wg.Wait()
		if neverAdded != 0 {
			t.Fatalf("Has reported a value that was never added")
		}
		var total int64
		for _, b := range balance {
			total += b
		}
		if int(total)+1 != set.Len() || set.Len() != len(set.Slice()) {
			t.Fatalf("round %d: successful adds - removes = %d (+1 initial), Len=%d, Slice=%v", round, total, set.Len(), set.Slice())
		}
		members := 0
		for v := 0; v <= universe; v++ {
			if set.Has(v) {
				members++
			}
		}
		if members != set.Len() {
			t.Fatalf("round %d: %d members by Has but Len=%d", round, members, set.Len())
		}
	}
}

// c05RandomSet returns a private set of values, alternating between the two
// set implementations of the library.
func c05RandomSet(rng *rand.Rand, universe, g int) sets.Set[int] {
	var other sets.Set[int]
	if g%2 == 0 {
		other = &sync2.Set[int]{}
	} else {
		other = make(maps.Set[int])
	}
	for k := rng.Intn(universe + 1); k > 0; k-- {
		other.Add(rng.Intn(universe))
	}
	return other
}

func TestC05_SelfAndSequential(t *testing.T) {
	var set sync2.Set[string]
	if set.Len() != 0 || set.Has("a") || set.Remove("a") || set.Slice() != nil || set.String() != "{}" {
		t.Fatalf("zero set is not empty")
	}
	if !set.Add("a") || set.Add("a") || !set.Add("b") || !set.Add("c") {
		t.Fatalf("Add results wrong")
	}
	if n := set.AddSet(&set); n != 0 {
		t.Fatalf("AddSet(self)=%d", n)
	}
	clone := set.Clone()
	if !set.Remove("b") || set.Remove("b") || set.Has("b") || !clone.Has("b") {
		t.Fatalf("Remove results wrong")
	}
	// modifying the set from within Range is tolerated
	set.Range(func(v string) bool {
		set.Remove(v)
		return true
	})
	if set.Len() != 0 {
		t.Fatalf("Len=%d after removing everything", set.Len())
	}
	if n := clone.RemoveSet(clone); n != 3 || clone.Len() != 0 {
		t.Fatalf("RemoveSet(self)=%d Len=%d", n, clone.Len())
	}
	if !set.Add("a") || set.Len() != 1 || set.String() != "{a}" {
		t.Fatalf("set not reusable after emptying")
	}
}
