// Stress test for property C10 (PubSub delivers every event exactly once to
// every subscriber). It uses the exported API only.
//
//	go test -race -vet=off -count=1 -run 'TestStress' ./chans

package chans_test

import (
	"errors"
	"fmt"
	"math/rand"
	"sync"
	"sync/atomic"
	"testing"
	"time"

	"gopkg.in/typ.v4/chans"
)

// stressEv is the event type: publisher number and sequence number.
type stressEv struct{ pub, seq int }

// stressCollector receives from one subscription until it is closed.
type stressCollector struct {
	ch    <-chan stressEv
	mu    sync.Mutex
	got   []stressEv
	count atomic.Int64
	done  chan struct{}
	delay func() // called before each receive, may be nil
}

func stressCollect(ch <-chan stressEv, delay func()) *stressCollector {
	c := &stressCollector{ch: ch, done: make(chan struct{}), delay: delay}
	go func() {
		defer close(c.done)
		for {
			if c.delay != nil {
				c.delay()
			}
			v, ok := <-ch
			if !ok {
				return
			}
			c.mu.Lock()
			c.got = append(c.got, v)
			c.mu.Unlock()
			c.count.Add(1)
		}
	}()
	return c
}

func (c *stressCollector) wait(t *testing.T) []stressEv {
	t.Helper()
	select {
	case <-c.done:
	case <-time.After(20 * time.Second):
		t.Fatalf("subscription channel was not closed")
	}
	return c.got
}

func stressWaitFor(t *testing.T, what string, cond func() bool) {
	t.Helper()
	deadline := time.Now().Add(20 * time.Second)
	for !cond() {
		if time.Now().After(deadline) {
			t.Fatalf("timed out waiting for %s", what)
		}
		time.Sleep(200 * time.Microsecond)
	}
}

// stressCheckExactlyOnce checks that got holds, for every publisher p, exactly
// the sequence numbers 0..n[p]-1, each once; if ordered[p], also in order.
func stressCheckExactlyOnce(t *testing.T, name string, got []stressEv, n []int, ordered []bool) {
	t.Helper()
	seen := make([]map[int]int, len(n))
	last := make([]int, len(n))
	for p := range seen {
		seen[p] = map[int]int{}
		last[p] = -1
	}
	for _, e := range got {
		if e.pub < 0 || e.pub >= len(n) {
			t.Fatalf("%s: event %v of an unknown publisher", name, e)
		}
		seen[e.pub][e.seq]++
		if ordered[e.pub] && e.seq != last[e.pub]+1 {
			t.Fatalf("%s: publisher %d: got seq %d after %d", name, e.pub, e.seq, last[e.pub])
		}
		last[e.pub] = e.seq
	}
	for p, want := range n {
		for s := 0; s < want; s++ {
			if seen[p][s] != 1 {
				t.Fatalf("%s: event {%d %d} received %d times, want once", name, p, s, seen[p][s])
			}
		}
		if len(seen[p]) != want {
			t.Fatalf("%s: publisher %d: %d distinct events, want %d", name, p, len(seen[p]), want)
		}
	}
}

// stressPublish publishes the events {p, 0..n-1} in order with the given
// variants of publishing: 0 PubSync, 1 PubSliceSync, 2 PubWait, 3 PubSliceWait,
// 4 Pub, 5 PubSlice.
func stressPublish(pub *chans.PubSub[stressEv], r *rand.Rand, p, n int, variants []int) {
	for s := 0; s < n; {
		k := 1 + r.Intn(4)
		if s+k > n {
			k = n - s
		}
		var evs []stressEv
		for i := 0; i < k; i++ {
			evs = append(evs, stressEv{p, s + i})
		}
		switch variants[r.Intn(len(variants))] {
		case 0:
			evs = evs[:1]
			pub.PubSync(evs[0])
		case 1:
			pub.PubSliceSync(evs)
		case 2:
			evs = evs[:1]
			pub.PubWait(evs[0])
		case 3:
			pub.PubSliceWait(evs)
		case 4:
			evs = evs[:1]
			pub.Pub(evs[0])
		case 5:
			pub.PubSlice(evs)
		}
		s += len(evs)
	}
}

// Sync variants: every subscriber gets every event exactly once, in the order
// of publication of each publisher, and the call returns after the hand-off.
func TestStressSyncExactlyOnceInOrder(t *testing.T) {
	for round := 0; round < 24; round++ {
		r := rand.New(rand.NewSource(int64(round)))
		var pub chans.PubSub[stressEv]
		pub.DefaultBuffer = round % 3
		nsubs := []int{0, 1, 2, 5}[round%4]
		var cols []*stressCollector
		for i := 0; i < nsubs; i++ {
			if i%2 == 0 {
				cols = append(cols, stressCollect(pub.Sub(), nil))
			} else {
				cols = append(cols, stressCollect(pub.SubBuf(r.Intn(4)), nil))
			}
		}
		const pubs, each = 4, 60
		var wg sync.WaitGroup
		for p := 0; p < pubs; p++ {
			wg.Add(1)
			go func(p int, seed int64) {
				defer wg.Done()
				stressPublish(&pub, rand.New(rand.NewSource(seed)), p, each, []int{0, 1})
			}(p, r.Int63())
		}
		wg.Wait()
		if err := pub.UnsubAll(); err != nil {
			t.Fatal(err)
		}
		for i, c := range cols {
			got := c.wait(t)
			stressCheckExactlyOnce(t, fmt.Sprintf("round %d sub %d", round, i), got,
				[]int{each, each, each, each}, []bool{true, true, true, true})
		}
	}
}

// Sync and Wait variants return only after the hand-off: with room in the
// buffers and nobody receiving, every event sits in every buffer on return.
func TestStressHandOffBeforeReturn(t *testing.T) {
	for round := 0; round < 10; round++ {
		r := rand.New(rand.NewSource(int64(100 + round)))
		var pub chans.PubSub[stressEv]
		if round%2 == 1 {
			pub.PubTimeoutAfter = time.Minute
			pub.OnPubTimeout = func(ev stressEv) { t.Errorf("timeout for %v", ev) }
		}
		const total = 120
		var subs []<-chan stressEv
		for i := 0; i < 1+round%4; i++ {
			subs = append(subs, pub.SubBuf(total))
		}
		for s := 0; s < total; {
			k := 1 + r.Intn(5)
			if s+k > total {
				k = total - s
			}
			evs := make([]stressEv, k)
			for i := range evs {
				evs[i] = stressEv{0, s + i}
			}
			switch r.Intn(4) {
			case 0:
				evs = evs[:1]
				pub.PubSync(evs[0])
			case 1:
				pub.PubSliceSync(evs)
			case 2:
				evs = evs[:1]
				pub.PubWait(evs[0])
			case 3:
				pub.PubSliceWait(evs)
			}
			s += len(evs)
			for i, ch := range subs {
				if len(ch) != s {
					t.Fatalf("round %d sub %d: %d events handed off on return, want %d", round, i, len(ch), s)
				}
			}
		}
		pub.UnsubAll()
		for i, ch := range subs {
			var got []stressEv
			for v := range ch {
				got = append(got, v)
			}
			stressCheckExactlyOnce(t, fmt.Sprintf("round %d sub %d", round, i), got, []int{total}, []bool{false})
		}
	}
}

// All variants, concurrently, no timeouts: exactly once for everybody, the
// asynchronous ones eventually.
func TestStressAllVariantsEventually(t *testing.T) {
	for round := 0; round < 12; round++ {
		r := rand.New(rand.NewSource(int64(200 + round)))
		var pub chans.PubSub[stressEv]
		nsubs := 1 + round%5
		var cols []*stressCollector
		for i := 0; i < nsubs; i++ {
			cols = append(cols, stressCollect(pub.SubBuf(r.Intn(3)), nil))
		}
		// publishers 0 and 1 use the Sync variants only (so order is checked),
		// 2 and 3 the Wait variants, 4 and 5 the asynchronous ones, 6 all
		variants := [][]int{{0, 1}, {0, 1}, {2, 3}, {2, 3}, {4, 5}, {4, 5}, {0, 1, 2, 3, 4, 5}}
		const each = 50
		n := make([]int, len(variants))
		ordered := make([]bool, len(variants))
		var wg sync.WaitGroup
		for p := range variants {
			n[p], ordered[p] = each, p < 2
			wg.Add(1)
			go func(p int, seed int64) {
				defer wg.Done()
				stressPublish(&pub, rand.New(rand.NewSource(seed)), p, each, variants[p])
			}(p, r.Int63())
		}
		wg.Wait()
		for i, c := range cols {
			c := c
			stressWaitFor(t, fmt.Sprintf("round %d sub %d to get all events", round, i), func() bool {
				return c.count.Load() >= int64(each*len(variants))
			})
		}
		pub.UnsubAll()
		for i, c := range cols {
			stressCheckExactlyOnce(t, fmt.Sprintf("round %d sub %d", round, i), c.wait(t), n, ordered)
		}
	}
}

// With a positive timeout every (event, subscriber) pair ends in exactly one
// of a delivery or a call of OnPubTimeout, whichever variant published it.
func TestStressTimeoutExactlyOne(t *testing.T) {
	for round := 0; round < 6; round++ {
		r := rand.New(rand.NewSource(int64(300 + round)))
		var mu sync.Mutex
		timeouts := map[stressEv]int{}
		var ntimeouts atomic.Int64
		var pub chans.PubSub[stressEv]
		pub.PubTimeoutAfter = 2 * time.Millisecond
		pub.OnPubTimeout = func(ev stressEv) {
			mu.Lock()
			timeouts[ev]++
			mu.Unlock()
			ntimeouts.Add(1)
		}
		fast := stressCollect(pub.Sub(), nil)
		slowR := rand.New(rand.NewSource(r.Int63()))
		slow := stressCollect(pub.SubBuf(1), func() {
			time.Sleep(time.Duration(slowR.Intn(4000)) * time.Microsecond)
		})
		dead := pub.Sub()       // nobody ever receives: every send times out
		parked := pub.SubBuf(3) // nobody receives: three deliveries, then timeouts
		const nsubs = 4
		variants := [][]int{{0, 1}, {2, 3}, {4, 5}, {0, 1, 2, 3, 4, 5}}
		const each = 25
		var wg sync.WaitGroup
		for p := range variants {
			wg.Add(1)
			go func(p int, seed int64) {
				defer wg.Done()
				stressPublish(&pub, rand.New(rand.NewSource(seed)), p, each, variants[p])
			}(p, r.Int63())
		}
		wg.Wait()
		total := int64(each * len(variants) * nsubs)
		stressWaitFor(t, "every pair to be delivered or timed out", func() bool {
			return fast.count.Load()+slow.count.Load()+int64(len(parked))+ntimeouts.Load() >= total
		})
		pub.UnsubAll()
		delivered := map[stressEv]int{}
		for _, e := range fast.wait(t) {
			delivered[e]++
		}
		for _, e := range slow.wait(t) {
			delivered[e]++
		}
		for e := range parked {
			delivered[e]++
		}
		if _, ok := <-dead; ok {
			t.Fatalf("round %d: delivery to a channel nobody received from", round)
		}
		time.Sleep(5 * time.Millisecond) // a late, surplus timeout would show up now
		mu.Lock()
		for p := range variants {
			for s := 0; s < each; s++ {
				e := stressEv{p, s}
				if delivered[e]+timeouts[e] != nsubs {
					t.Fatalf("round %d: event %v: %d deliveries + %d timeouts, want %d in all",
						round, e, delivered[e], timeouts[e], nsubs)
				}
				if timeouts[e] < 1 {
					t.Fatalf("round %d: event %v: no timeout for the dead subscriber", round, e)
				}
			}
		}
		if len(delivered) > each*len(variants) || len(timeouts) > each*len(variants) {
			t.Fatalf("round %d: unknown events delivered or timed out", round)
		}
		mu.Unlock()
	}
}

// OnPubTimeout may unsubscribe the channel that was too slow; the others go on
// getting every event.
func TestStressTimeoutCallbackUnsubscribes(t *testing.T) {
	for round := 0; round < 20; round++ {
		var pub chans.PubSub[stressEv]
		good := stressCollect(pub.SubBuf(round%2), nil)
		bad := pub.Sub()
		var results []error
		var mu sync.Mutex
		calls := map[stressEv]int{}
		pub.PubTimeoutAfter = 5 * time.Millisecond
		pub.OnPubTimeout = func(ev stressEv) {
			err := pub.Unsub(bad)
			mu.Lock()
			results = append(results, err)
			calls[ev]++
			mu.Unlock()
		}
		const n = 30
		if round%2 == 0 {
			for s := 0; s < n; s++ {
				pub.PubWait(stressEv{0, s})
			}
		} else {
			evs := make([]stressEv, n)
			for s := range evs {
				evs[s] = stressEv{0, s}
			}
			pub.PubSliceWait(evs)
		}
		if _, ok := <-bad; ok {
			t.Fatalf("round %d: delivery to the slow channel", round)
		}
		mu.Lock()
		var unsubscribed int
		for _, err := range results {
			if err == nil {
				unsubscribed++
			} else if !errors.Is(err, chans.ErrAlreadyUnsubscribed) {
				t.Fatalf("round %d: Unsub: %v", round, err)
			}
		}
		mu.Unlock()
		if unsubscribed != 1 {
			t.Fatalf("round %d: %d successful Unsub calls of one channel, want 1", round, unsubscribed)
		}
		pub.UnsubAll()
		// the good subscriber may time out too when the machine is busy: each of
		// its pairs ends in one delivery or one callback, the bad one's in at most
		// one callback
		delivered := map[stressEv]int{}
		for _, e := range good.wait(t) {
			delivered[e]++
		}
		mu.Lock()
		for s := 0; s < n; s++ {
			e := stressEv{0, s}
			if d, c := delivered[e], calls[e]; d > 1 || c > 2-d || d+c < 1 {
				t.Fatalf("round %d: event %v: %d deliveries and %d timeouts", round, e, d, c)
			}
		}
		mu.Unlock()
	}
}

// Subscribers come and go while all variants publish: nobody panics, the ones
// that stay get everything exactly once (Sync publishers in order), the ones
// that leave get nothing twice, Unsub closes the channel and reports a second
// call for it, and WithOnly publishers of a leaving channel do no harm.
func TestStressChurn(t *testing.T) {
	for round := 0; round < 8; round++ {
		r := rand.New(rand.NewSource(int64(400 + round)))
		var pub chans.PubSub[stressEv]
		withTimeout := round%2 == 1
		var ntimeouts atomic.Int64
		if withTimeout {
			pub.PubTimeoutAfter = 500 * time.Microsecond
			pub.OnPubTimeout = func(stressEv) { ntimeouts.Add(1) }
		}
		var stable []*stressCollector
		for i := 0; i < 3; i++ {
			stable = append(stable, stressCollect(pub.SubBuf(i), nil))
		}
		variants := [][]int{{0, 1}, {0, 1}, {2, 3}, {4, 5}, {0, 1, 2, 3, 4, 5}}
		const each = 400
		stop := make(chan struct{})
		var churn, pubs sync.WaitGroup
		for c := 0; c < 4; c++ {
			churn.Add(1)
			go func(c int, r *rand.Rand) {
				defer churn.Done()
				for i := 0; ; i++ {
					select {
					case <-stop:
						return
					default:
					}
					ch := pub.SubBuf(r.Intn(3))
					col := stressCollect(ch, nil)
					if i%3 == 0 { // publish to it alone, also while it is leaving
						only := pub.WithOnly(ch)
						churn.Add(1)
						go func(i int) {
							defer churn.Done()
							only.PubSync(stressEv{100 + c, 2 * i})
							only.Pub(stressEv{100 + c, 2*i + 1})
						}(i)
					}
					time.Sleep(time.Duration(r.Intn(300)) * time.Microsecond)
					if err := pub.Unsub(ch); err != nil {
						t.Errorf("Unsub: %v", err)
					}
					if err := pub.Unsub(ch); !errors.Is(err, chans.ErrAlreadyUnsubscribed) {
						t.Errorf("second Unsub: %v", err)
					}
					seen := map[stressEv]bool{}
					for _, e := range col.wait(t) { // returns once ch is closed
						if seen[e] {
							t.Errorf("leaving subscriber got %v twice", e)
						}
						seen[e] = true
					}
				}
			}(c, rand.New(rand.NewSource(r.Int63())))
		}
		n := make([]int, len(variants))
		ordered := make([]bool, len(variants))
		for p := range variants {
			n[p], ordered[p] = each, p < 2
			pubs.Add(1)
			go func(p int, seed int64) {
				defer pubs.Done()
				stressPublish(&pub, rand.New(rand.NewSource(seed)), p, each, variants[p])
			}(p, r.Int63())
		}
		pubs.Wait()
		close(stop)
		churn.Wait()
		if !withTimeout {
			for _, c := range stable {
				c := c
				stressWaitFor(t, "stable subscriber to get all events", func() bool {
					return c.count.Load() >= int64(each*len(variants))
				})
			}
		} else {
			time.Sleep(5 * time.Millisecond)
		}
		pub.UnsubAll()
		for i, c := range stable {
			got := c.wait(t)
			if !withTimeout {
				stressCheckExactlyOnce(t, fmt.Sprintf("round %d stable %d", round, i), got, n, ordered)
				continue
			}
			seen := map[stressEv]bool{}
			last := []int{-1, -1}
			for _, e := range got {
				if seen[e] {
					t.Fatalf("round %d stable %d: got %v twice", round, i, e)
				}
				seen[e] = true
				if e.pub < 2 { // Sync publishers: in order, with gaps where it timed out
					if e.seq <= last[e.pub] {
						t.Fatalf("round %d stable %d: got %v after seq %d", round, i, e, last[e.pub])
					}
					last[e.pub] = e.seq
				}
			}
		}
	}
}

// WithOnly publishes to the one given subscription only, and the two
// publishers agree on who unsubscribed it.
func TestStressWithOnly(t *testing.T) {
	for round := 0; round < 30; round++ {
		r := rand.New(rand.NewSource(int64(500 + round)))
		var pub chans.PubSub[stressEv]
		if round%3 == 2 {
			pub.PubTimeoutAfter = time.Minute
		}
		a := stressCollect(pub.SubBuf(r.Intn(3)), nil)
		bch := pub.SubBuf(r.Intn(3))
		b := stressCollect(bch, nil)
		c := stressCollect(pub.SubBuf(r.Intn(3)), nil)
		only := pub.WithOnly(bch)
		stranger := make(chan stressEv)
		none := pub.WithOnly(stranger)
		const each = 40
		var wg sync.WaitGroup
		wg.Add(3)
		go func(seed int64) {
			defer wg.Done()
			stressPublish(only, rand.New(rand.NewSource(seed)), 0, each, []int{0, 1})
		}(r.Int63())
		go func(seed int64) {
			defer wg.Done()
			stressPublish(&pub, rand.New(rand.NewSource(seed)), 1, each, []int{0, 1})
		}(r.Int63())
		go func(seed int64) {
			defer wg.Done()
			stressPublish(none, rand.New(rand.NewSource(seed)), 2, each, []int{0, 1, 2, 3, 4, 5})
		}(r.Int63())
		wg.Wait()
		stressPublish(only, r, 3, each, []int{2, 3, 4, 5})
		stressWaitFor(t, "the one subscriber to get all events", func() bool {
			return b.count.Load() >= 3*each
		})
		// unsubscribe b through both publishers at once: one of them wins
		errs := make(chan error, 2)
		go func() { errs <- only.Unsub(bch) }()
		go func() { errs <- pub.Unsub(bch) }()
		e1, e2 := <-errs, <-errs
		if (e1 == nil) == (e2 == nil) {
			t.Fatalf("round %d: Unsub through both publishers: %v and %v", round, e1, e2)
		}
		if e := errors.Join(e1, e2); !errors.Is(e, chans.ErrAlreadyUnsubscribed) {
			t.Fatalf("round %d: Unsub: %v", round, e)
		}
		stressCheckExactlyOnce(t, fmt.Sprintf("round %d b", round), b.wait(t),
			[]int{each, each, 0, each}, []bool{true, true, false, false})
		// nothing reaches it afterwards, from either publisher, and a and c go on
		only.PubSync(stressEv{4, 0})
		only.PubWait(stressEv{4, 1})
		pub.PubSync(stressEv{1, each})
		if err := none.Unsub(stranger); !errors.Is(err, chans.ErrAlreadyUnsubscribed) {
			t.Fatalf("round %d: Unsub of a channel that was never subscribed: %v", round, err)
		}
		if err := pub.Unsub(nil); !errors.Is(err, chans.ErrSubscriptionNotInitalized) {
			t.Fatalf("round %d: Unsub(nil): %v", round, err)
		}
		only.UnsubAll()
		pub.UnsubAll()
		for _, col := range []*stressCollector{a, c} {
			stressCheckExactlyOnce(t, fmt.Sprintf("round %d a/c", round), col.wait(t),
				[]int{0, each + 1}, []bool{false, true})
		}
	}
}

// Unsub and UnsubAll racing for the same channels: each channel is closed
// exactly once (a second close would panic) and exactly one caller is told so.
func TestStressUnsubRaces(t *testing.T) {
	for round := 0; round < 40; round++ {
		var pub chans.PubSub[stressEv]
		pub.DefaultBuffer = round % 2
		const nsubs = 8
		var subs []<-chan stressEv
		for i := 0; i < nsubs; i++ {
			subs = append(subs, pub.Sub())
		}
		var ok atomic.Int64
		var wg sync.WaitGroup
		for i, ch := range subs {
			for k := 0; k < 3; k++ {
				wg.Add(1)
				go func(i int, ch <-chan stressEv) {
					defer wg.Done()
					if i%2 == 0 {
						pub.PubSync(stressEv{0, i})
					} else {
						pub.Pub(stressEv{0, i})
					}
					err := pub.Unsub(ch)
					if err == nil {
						ok.Add(1)
					} else if !errors.Is(err, chans.ErrAlreadyUnsubscribed) {
						t.Errorf("Unsub: %v", err)
					}
				}(i, ch)
			}
		}
		unsubAll := round%2 == 0
		if unsubAll {
			wg.Add(1)
			go func() { defer wg.Done(); pub.UnsubAll() }()
		}
		for _, ch := range subs { // receive until closed
			wg.Add(1)
			go func(ch <-chan stressEv) {
				defer wg.Done()
				for range ch {
				}
			}(ch)
		}
		wg.Wait()
		if n := ok.Load(); n > nsubs || (!unsubAll && n != nsubs) {
			t.Fatalf("round %d: %d successful Unsub calls for %d channels", round, n, nsubs)
		}
	}
}

// The dispatcher never waits for a subscriber: while a PubSync is parked on a
// subscriber nobody receives from, other publishers and Sub are served.
func TestStressParkedPublisherBlocksNobody(t *testing.T) {
	for round := 0; round < 30; round++ {
		var pub chans.PubSub[stressEv]
		a := pub.Sub() // first in line, nobody receives yet
		b := stressCollect(pub.SubBuf(round%2), nil)
		parked := make(chan struct{})
		go func() {
			defer close(parked)
			pub.PubSync(stressEv{0, 0})
		}()
		if round%2 == 0 {
			time.Sleep(200 * time.Microsecond)
		}
		onlyB := pub.WithOnly(b.ch)
		onlyB.PubSync(stressEv{1, 0})
		onlyB.PubWait(stressEv{1, 1})
		onlyB.WithOnly(b.ch).PubSliceSync([]stressEv{{1, 2}, {1, 3}})
		cch := pub.SubBuf(2) // room for the parked event too, should it come late
		pub.WithOnly(cch).PubSync(stressEv{2, 0})
		stressWaitFor(t, "b to get the events sent to it alone", func() bool {
			return b.count.Load() >= 4
		})
		select {
		case <-parked:
			t.Fatalf("round %d: PubSync returned although nobody received from a", round)
		default:
		}
		if v := <-a; v != (stressEv{0, 0}) {
			t.Fatalf("round %d: a got %v", round, v)
		}
		<-parked
		if err := pub.Unsub(a); err != nil {
			t.Fatal(err)
		}
		if _, ok := <-a; ok {
			t.Fatalf("round %d: a got a second event", round)
		}
		pub.UnsubAll()
		stressCheckExactlyOnce(t, fmt.Sprintf("round %d b", round), b.wait(t), []int{1, 4}, []bool{true, true})
		got := map[stressEv]int{}
		for v := range cch {
			got[v]++
		}
		// c was subscribed during the parked PubSync, so it may have got its event
		if got[stressEv{2, 0}] != 1 || got[stressEv{0, 0}] > 1 || len(got) > 2 {
			t.Fatalf("round %d: c got %v", round, got)
		}
	}
}

// Many publishers, each with a dispatcher of its own, and publishers made by
// WithOnly from publishers made by WithOnly.
func TestStressManyPublishers(t *testing.T) {
	var wg sync.WaitGroup
	for g := 0; g < 16; g++ {
		wg.Add(1)
		go func(g int) {
			defer wg.Done()
			r := rand.New(rand.NewSource(int64(600 + g)))
			for round := 0; round < 20; round++ {
				pub := &chans.PubSub[stressEv]{DefaultBuffer: r.Intn(3)}
				x := stressCollect(pub.Sub(), nil)
				y := stressCollect(pub.Sub(), nil)
				only := pub.WithOnly(x.ch).WithOnly(x.ch)
				const each = 20
				var inner sync.WaitGroup
				inner.Add(2)
				go func(seed int64) {
					defer inner.Done()
					stressPublish(pub, rand.New(rand.NewSource(seed)), 0, each, []int{0, 1})
				}(r.Int63())
				go func(seed int64) {
					defer inner.Done()
					stressPublish(only, rand.New(rand.NewSource(seed)), 1, each, []int{0, 1, 2, 3})
				}(r.Int63())
				inner.Wait()
				if err := only.Unsub(x.ch); err != nil {
					t.Errorf("Unsub through WithOnly: %v", err)
				}
				if err := pub.UnsubAll(); err != nil {
					t.Error(err)
				}
				stressCheckExactlyOnce(t, "x", x.wait(t), []int{each, each}, []bool{true, false})
				stressCheckExactlyOnce(t, "y", y.wait(t), []int{each, 0}, []bool{true, false})
			}
		}(g)
	}
	wg.Wait()
}
