package maps_test

import (
	"math/rand"
	"sync"
	"sync/atomic"
	"testing"

	"gopkg.in/typ.v4/maps"
)

// s4Model is the obvious reference: two plain maps kept in step eagerly.
type s4Model struct {
	fwd map[int]string
	rev map[string]int
}

func newS4Model() *s4Model {
	return &s4Model{fwd: map[int]string{}, rev: map[string]int{}}
}

func (m *s4Model) add(k int, v string) {
	if ov, ok := m.fwd[k]; ok {
		delete(m.rev, ov)
	}
	if ok2, ok := m.rev[v]; ok {
		delete(m.fwd, ok2)
	}
	m.fwd[k] = v
	m.rev[v] = k
}

func (m *s4Model) removeForward(k int) {
	if v, ok := m.fwd[k]; ok {
		delete(m.fwd, k)
		delete(m.rev, v)
	}
}

func (m *s4Model) removeReverse(v string) {
	if k, ok := m.rev[v]; ok {
		delete(m.fwd, k)
		delete(m.rev, v)
	}
}

func (m *s4Model) clear() {
	m.fwd = map[int]string{}
	m.rev = map[string]int{}
}

func (m *s4Model) clone() *s4Model {
	c := newS4Model()
	for k, v := range m.fwd {
		c.fwd[k] = v
		c.rev[v] = k
	}
	return c
}

func s4Val(i int) string { return string(rune('a' + i)) }

// s4Check compares every observable of b with the model over the universe
// (plus one key and one value outside of it).
func s4Check(t *testing.T, tag string, b *maps.Bimap[int, string], m *s4Model, nk, nv int) {
	t.Helper()
	if b.Len() != len(m.fwd) || len(m.fwd) != len(m.rev) {
		t.Fatalf("%s: Len=%d model=%d/%d", tag, b.Len(), len(m.fwd), len(m.rev))
	}
	for k := -1; k <= nk; k++ {
		want, wantOK := m.fwd[k]
		got, ok := b.GetForward(k)
		if ok != wantOK || got != want {
			t.Fatalf("%s: GetForward(%d)=(%q,%v) want (%q,%v)", tag, k, got, ok, want, wantOK)
		}
		if b.ContainsForward(k) != wantOK {
			t.Fatalf("%s: ContainsForward(%d)=%v", tag, k, !wantOK)
		}
		if ok {
			back, backOK := b.GetReverse(got)
			if !backOK || back != k {
				t.Fatalf("%s: GetForward(%d)=%q but GetReverse(%q)=(%d,%v)", tag, k, got, got, back, backOK)
			}
		}
	}
	for i := -1; i <= nv; i++ {
		v := s4Val(i)
		want, wantOK := m.rev[v]
		got, ok := b.GetReverse(v)
		if ok != wantOK || got != want {
			t.Fatalf("%s: GetReverse(%q)=(%d,%v) want (%d,%v)", tag, v, got, ok, want, wantOK)
		}
		if b.ContainsReverse(v) != wantOK {
			t.Fatalf("%s: ContainsReverse(%q)=%v", tag, v, !wantOK)
		}
		if ok {
			back, backOK := b.GetForward(got)
			if !backOK || back != v {
				t.Fatalf("%s: GetReverse(%q)=%d but GetForward(%d)=(%q,%v)", tag, v, got, got, back, backOK)
			}
		}
	}
	seen := map[int]string{}
	b.Range(func(k int, v string) bool {
		if _, dup := seen[k]; dup {
			t.Fatalf("%s: Range visited key %d twice", tag, k)
		}
		seen[k] = v
		return true
	})
	if len(seen) != len(m.fwd) {
		t.Fatalf("%s: Range visited %d pairs, want %d", tag, len(seen), len(m.fwd))
	}
	for k, v := range seen {
		if m.fwd[k] != v {
			t.Fatalf("%s: Range visited (%d,%q), model has %q", tag, k, v, m.fwd[k])
		}
	}
}

type s4Inst struct {
	b *maps.Bimap[int, string]
	m *s4Model
}

// s4RangeRemoving runs a Range whose callback removes pairs, and checks that
// every visited pair was present at the moment of the visit, that nothing is
// visited twice and that every pair that was never removed was visited.
func s4RangeRemoving(t *testing.T, rng *rand.Rand, in s4Inst, nk, nv int) {
	t.Helper()
	visited := map[int]bool{}
	removed := map[int]bool{}
	before := in.m.clone()
	in.b.Range(func(k int, v string) bool {
		if visited[k] {
			t.Fatalf("removing Range visited key %d twice", k)
		}
		visited[k] = true
		if cur, ok := in.m.fwd[k]; !ok || cur != v {
			t.Fatalf("removing Range visited (%d,%q) which is not present (model %q,%v)", k, v, cur, ok)
		}
		switch rng.Intn(4) {
		case 0:
			in.b.RemoveForward(k)
			in.m.removeForward(k)
			removed[k] = true
		case 1:
			in.b.RemoveReverse(v)
			in.m.removeReverse(v)
			removed[k] = true
		case 2:
			ok := rng.Intn(nk)
			if _, has := in.m.fwd[ok]; has {
				removed[ok] = true
			}
			in.b.RemoveForward(ok)
			in.m.removeForward(ok)
		case 3:
			ov := s4Val(rng.Intn(nv))
			if key, has := in.m.rev[ov]; has {
				removed[key] = true
			}
			in.b.RemoveReverse(ov)
			in.m.removeReverse(ov)
		}
		return true
	})
	for k := range before.fwd {
		if !removed[k] && !visited[k] {
			t.Fatalf("removing Range skipped key %d which was never removed", k)
		}
	}
}

func s4History(t *testing.T, seed int64, nk, nv, steps int) {
	rng := rand.New(rand.NewSource(seed))
	var zero maps.Bimap[int, string]
	insts := []s4Inst{{&zero, newS4Model()}}
	cur := 0
	for step := 0; step < steps; step++ {
		in := insts[cur]
		switch op := rng.Intn(100); {
		case op < 45:
			k, v := rng.Intn(nk), s4Val(rng.Intn(nv))
			in.b.Add(k, v)
			in.m.add(k, v)
		case op < 60:
			k := rng.Intn(nk)
			in.b.RemoveForward(k)
			in.m.removeForward(k)
		case op < 75:
			v := s4Val(rng.Intn(nv))
			in.b.RemoveReverse(v)
			in.m.removeReverse(v)
		case op < 78:
			in.b.Clear()
			in.m.clear()
		case op < 84:
			c := in.b.Clone()
			insts = append(insts, s4Inst{&c, in.m.clone()})
			if len(insts) > 4 {
				insts = insts[1:]
			}
		case op < 90:
			cur = rng.Intn(len(insts))
		case op < 95:
			s4RangeRemoving(t, rng, in, nk, nv)
		default:
			limit, n := rng.Intn(3), 0
			in.b.Range(func(int, string) bool { n++; return n <= limit })
			want := limit + 1
			if len(in.m.fwd) < want {
				want = len(in.m.fwd)
			}
			if n != want {
				t.Fatalf("Range with early stop made %d calls, want %d", n, want)
			}
		}
		if cur >= len(insts) {
			cur = len(insts) - 1
		}
		// Every instance is checked, not only the one that was touched:
		// this is what catches a clone that is not independent.
		for i, other := range insts {
			s4Check(t, "inst"+s4Val(i), other.b, other.m, nk, nv)
		}
	}
}

func TestStress4SmallUniverses(t *testing.T) {
	for seed := int64(0); seed < 300; seed++ {
		nk, nv := 1+int(seed%4), 1+int(seed/4%4)
		s4History(t, seed, nk, nv, 250)
	}
}

func TestStress4WideUniverse(t *testing.T) {
	for seed := int64(1000); seed < 1010; seed++ {
		s4History(t, seed, 24, 26, 1500)
	}
}

// TestStress4RangeTouchesClone walks one bimap while the callback changes
// both that bimap and a clone that shares its storage. The clone must not
// notice the walk, and the walk must not notice the clone.
func TestStress4RangeTouchesClone(t *testing.T) {
	for seed := int64(0); seed < 200; seed++ {
		rng := rand.New(rand.NewSource(seed))
		const nk, nv = 6, 7
		var b maps.Bimap[int, string]
		mb := newS4Model()
		for i := 0; i < 10; i++ {
			k, v := rng.Intn(nk), s4Val(rng.Intn(nv))
			b.Add(k, v)
			mb.add(k, v)
		}
		c := b.Clone()
		mc := mb.clone()
		visited := map[int]bool{}
		removed := map[int]bool{}
		before := mb.clone()
		b.Range(func(k int, v string) bool {
			if visited[k] {
				t.Fatalf("seed %d: key %d visited twice", seed, k)
			}
			visited[k] = true
			if cur, ok := mb.fwd[k]; !ok || cur != v {
				t.Fatalf("seed %d: visited (%d,%q), not present", seed, k, v)
			}
			// churn in the clone, including remove and re-add of one key
			ck, cv := rng.Intn(nk), s4Val(rng.Intn(nv))
			c.RemoveForward(ck)
			mc.removeForward(ck)
			c.Add(ck, cv)
			mc.add(ck, cv)
			if rng.Intn(2) == 0 {
				rk := rng.Intn(nk)
				if _, has := mb.fwd[rk]; has {
					removed[rk] = true
				}
				b.RemoveForward(rk)
				mb.removeForward(rk)
			}
			s4Check(t, "clone in walk", &c, mc, nk, nv)
			return true
		})
		for k := range before.fwd {
			if !removed[k] && !visited[k] {
				t.Fatalf("seed %d: key %d never removed and never visited", seed, k)
			}
		}
		s4Check(t, "walked", &b, mb, nk, nv)
		s4Check(t, "clone", &c, mc, nk, nv)
		// after the walk both must be able to write again without
		// disturbing each other
		b.Add(0, "z")
		mb.add(0, "z")
		c.Add(1, "z")
		mc.add(1, "z")
		s4Check(t, "walked after", &b, mb, nk, nv)
		s4Check(t, "clone after", &c, mc, nk, nv)
	}
}

var s4Spawned int32

// s4Worker owns one bimap (a clone that shares storage with others) and its
// model. It mutates it, checks it, walks it with a removing callback, and now
// and then hands a clone of it to a child worker that runs concurrently.
func s4Worker(t *testing.T, wg *sync.WaitGroup, seed int64, in s4Inst, depth int) {
	defer wg.Done()
	const nk, nv = 5, 6
	rng := rand.New(rand.NewSource(seed))
	for step := 0; step < 400 && !t.Failed(); step++ {
		switch op := rng.Intn(100); {
		case op < 50:
			k, v := rng.Intn(nk), s4Val(rng.Intn(nv))
			in.b.Add(k, v)
			in.m.add(k, v)
		case op < 65:
			k := rng.Intn(nk)
			in.b.RemoveForward(k)
			in.m.removeForward(k)
		case op < 80:
			v := s4Val(rng.Intn(nv))
			in.b.RemoveReverse(v)
			in.m.removeReverse(v)
		case op < 83:
			in.b.Clear()
			in.m.clear()
		case op < 90:
			s4RangeRemoving(t, rng, in, nk, nv)
		case op < 96:
			// the family is capped, or it would grow without bounds
			if depth < 3 && atomic.AddInt32(&s4Spawned, 1) <= 300 {
				c := in.b.Clone()
				wg.Add(1)
				go s4Worker(t, wg, seed*31+int64(step), s4Inst{&c, in.m.clone()}, depth+1)
			}
		default:
			// a clone that is dropped without ever being written to
			c := in.b.Clone()
			s4Check(t, "dropped clone", &c, in.m, nk, nv)
		}
		s4Check(t, "worker", in.b, in.m, nk, nv)
	}
}

// TestStress4ConcurrentFamily: many goroutines clone one base that nobody
// writes to, and every clone (and clone of a clone) is then changed by its
// own goroutine while the others still share storage with it.
func TestStress4ConcurrentFamily(t *testing.T) {
	var base maps.Bimap[int, string]
	mbase := newS4Model()
	for i := 0; i < 5; i++ {
		base.Add(i, s4Val(i))
		mbase.add(i, s4Val(i))
	}
	var wg sync.WaitGroup
	for g := 0; g < 8; g++ {
		wg.Add(1)
		go func(g int) {
			defer wg.Done()
			for round := 0; round < 6; round++ {
				c := base.Clone()
				wg.Add(1)
				go s4Worker(t, &wg, int64(g*100+round), s4Inst{&c, mbase.clone()}, 0)
				// read the base while its clones are being written to
				n := 0
				base.Range(func(k int, v string) bool {
					n++
					if back, ok := base.GetReverse(v); !ok || back != k {
						t.Errorf("base: GetReverse(%q)=(%d,%v) want %d", v, back, ok, k)
					}
					return true
				})
				if n != 5 || base.Len() != 5 {
					t.Errorf("base changed: Range saw %d, Len=%d", n, base.Len())
				}
			}
		}(g)
	}
	wg.Wait()
	s4Check(t, "base at the end", &base, mbase, 5, 6)
	// the base can still be written to, whatever the count of holders is
	base.Add(0, s4Val(1))
	mbase.add(0, s4Val(1))
	s4Check(t, "base after write", &base, mbase, 5, 6)
}
