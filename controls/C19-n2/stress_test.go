package chans

import (
	"context"
	"sync"
	"sync/atomic"
	"testing"
	"time"
)

// guard fails the test if f does not finish promptly: used for the helpers
// that must never block.
func guard(t *testing.T, what string, f func()) {
	t.Helper()
	done := make(chan struct{})
	go func() {
		defer close(done)
		f()
	}()
	select {
	case <-done:
	case <-time.After(5 * time.Second):
		t.Fatalf("%s: blocked", what)
	}
}

func drainAll(ch chan int) []int {
	var out []int
	for {
		select {
		case v, ok := <-ch:
			if !ok {
				return out
			}
			out = append(out, v)
		default:
			return out
		}
	}
}

func equalInts(a, b []int) bool {
	if len(a) != len(b) {
		return false
	}
	for i := range a {
		if a[i] != b[i] {
			return false
		}
	}
	return true
}

func TestC19QueuedExhaustive(t *testing.T) {
	for capacity := 0; capacity <= 5; capacity++ {
		for fill := 0; fill <= capacity; fill++ {
			for _, closed := range []bool{false, true} {
				for limit := -1; limit <= capacity+2; limit++ {
					mk := func() (chan int, []int) {
						ch := make(chan int, capacity)
						var want []int
						for i := 0; i < fill; i++ {
							ch <- 100 + i
							want = append(want, 100+i)
						}
						if closed {
							close(ch)
						}
						return ch, want
					}
					n := limit
					if n < 0 {
						n = 0
					}
					if n > fill {
						n = fill
					}

					// RecvQueued
					ch, want := mk()
					var got []int
					guard(t, "RecvQueued", func() { got = RecvQueued(ch, limit) })
					if !equalInts(got, want[:n]) {
						t.Fatalf("RecvQueued cap=%d fill=%d closed=%v limit=%d: got %v want %v", capacity, fill, closed, limit, got, want[:n])
					}
					if n == 0 && got != nil {
						t.Fatalf("RecvQueued: want nil slice for nothing received, got %#v", got)
					}
					if rest := drainAll(ch); !equalInts(rest, want[n:]) {
						t.Fatalf("RecvQueued cap=%d fill=%d closed=%v limit=%d: left %v want %v", capacity, fill, closed, limit, rest, want[n:])
					}

					// RecvQueuedFull
					if limit < 0 {
						continue
					}
					ch, want = mk()
					buf := make([]int, limit)
					for i := range buf {
						buf[i] = -7
					}
					var cnt int
					guard(t, "RecvQueuedFull", func() { cnt = RecvQueuedFull(ch, buf) })
					if cnt != n || !equalInts(buf[:cnt], want[:n]) {
						t.Fatalf("RecvQueuedFull cap=%d fill=%d closed=%v limit=%d: got %d %v want %v", capacity, fill, closed, limit, cnt, buf, want[:n])
					}
					for _, v := range buf[cnt:] {
						if v != -7 {
							t.Fatalf("RecvQueuedFull wrote past the count: %v (count %d)", buf, cnt)
						}
					}
					if rest := drainAll(ch); !equalInts(rest, want[n:]) {
						t.Fatalf("RecvQueuedFull cap=%d fill=%d closed=%v limit=%d: left %v want %v", capacity, fill, closed, limit, rest, want[n:])
					}
				}
			}
		}
	}
}

func TestC19QueuedReceiveOnlyAndNil(t *testing.T) {
	ch := make(chan string, 3)
	ch <- "a"
	ch <- "b"
	var ro <-chan string = ch
	if got := RecvQueued(ro, 10); len(got) != 2 || got[0] != "a" || got[1] != "b" {
		t.Fatalf("got %v", got)
	}
	var nilch chan int
	guard(t, "RecvQueued(nil)", func() {
		if got := RecvQueued(nilch, 3); got != nil {
			t.Errorf("got %v", got)
		}
		if n := RecvQueuedFull(nilch, make([]int, 3)); n != 0 {
			t.Errorf("got %d", n)
		}
	})
}

func TestC19QueuedConcurrentProducers(t *testing.T) {
	// Values are only ever what was sent, each at most once, per-producer FIFO.
	const producers, perProducer = 4, 2000
	for _, capacity := range []int{0, 1, 7} {
		ch := make(chan int, capacity)
		var wg sync.WaitGroup
		for p := 0; p < producers; p++ {
			wg.Add(1)
			go func(p int) {
				defer wg.Done()
				for i := 0; i < perProducer; i++ {
					ch <- p*perProducer + i + 1
				}
			}(p)
		}
		go func() { wg.Wait(); close(ch) }()
		last := make([]int, producers)
		for i := range last {
			last[i] = -1
		}
		total := 0
		buf := make([]int, 5)
		deadline := time.Now().Add(20 * time.Second)
		for total < producers*perProducer {
			if time.Now().After(deadline) {
				t.Fatalf("cap=%d: only %d values arrived", capacity, total)
			}
			var got []int
			if total%2 == 0 {
				got = RecvQueued(ch, 3)
				if len(got) > 3 {
					t.Fatalf("limit exceeded: %v", got)
				}
			} else {
				n := RecvQueuedFull(ch, buf)
				got = buf[:n]
			}
			for _, v := range got {
				if v < 1 || v > producers*perProducer {
					t.Fatalf("invented value %d", v)
				}
				p, i := (v-1)/perProducer, (v-1)%perProducer
				if i != last[p]+1 {
					t.Fatalf("producer %d: got index %d after %d", p, i, last[p])
				}
				last[p] = i
				total++
			}
			if len(got) == 0 {
				time.Sleep(10 * time.Microsecond)
			}
		}
		if got := RecvQueued(ch, 3); got != nil {
			t.Fatalf("closed and drained channel gave %v", got)
		}
	}
}

func TestC19NoLimit(t *testing.T) {
	for _, timeout := range []time.Duration{0, -1, -time.Hour} {
		ch := make(chan int)
		go func() {
			time.Sleep(30 * time.Millisecond)
			if v := <-ch; v != 42 {
				t.Errorf("got %d", v)
			}
		}()
		if !SendTimeout(ch, 42, timeout) {
			t.Fatalf("SendTimeout(%v) gave up", timeout)
		}
		go func() {
			time.Sleep(30 * time.Millisecond)
			ch <- 43
		}()
		if v, ok := RecvTimeout(ch, timeout); !ok || v != 43 {
			t.Fatalf("RecvTimeout(%v) = %d, %v", timeout, v, ok)
		}
		go func() {
			time.Sleep(30 * time.Millisecond)
			close(ch)
		}()
		if v, ok := RecvTimeout(ch, timeout); ok || v != 0 {
			t.Fatalf("RecvTimeout(%v) on closed = %d, %v", timeout, v, ok)
		}
	}
	// same for contexts that never end
	ch := make(chan int)
	go func() {
		time.Sleep(30 * time.Millisecond)
		<-ch
		time.Sleep(30 * time.Millisecond)
		ch <- 9
	}()
	if !SendContext(context.Background(), ch, 8) {
		t.Fatal("SendContext(Background) gave up")
	}
	if v, ok := RecvContext(context.Background(), (<-chan int)(ch)); !ok || v != 9 {
		t.Fatalf("RecvContext(Background) = %d, %v", v, ok)
	}
}

func TestC19GiveUpLeavesChannelAlone(t *testing.T) {
	cancelled, cancel := context.WithCancel(context.Background())
	cancel()
	live, cancelLive := context.WithCancel(context.Background())
	go func() {
		time.Sleep(20 * time.Millisecond)
		cancelLive()
	}()

	full := make(chan int, 2)
	full <- 1
	full <- 2
	if SendTimeout(full, 3, 5*time.Millisecond) {
		t.Fatal("SendTimeout on full channel reported a send")
	}
	if SendContext(cancelled, full, 4) {
		t.Fatal("SendContext on full channel reported a send")
	}
	if SendContext(live, full, 5) {
		t.Fatal("SendContext on full channel reported a send")
	}
	if got := drainAll(full); !equalInts(got, []int{1, 2}) {
		t.Fatalf("full channel now holds %v", got)
	}

	live, cancelLive = context.WithCancel(context.Background())
	go func() {
		time.Sleep(20 * time.Millisecond)
		cancelLive()
	}()
	empty := make(chan int, 2)
	if v, ok := RecvTimeout(empty, 5*time.Millisecond); ok || v != 0 {
		t.Fatalf("RecvTimeout on empty = %d, %v", v, ok)
	}
	if v, ok := RecvContext(cancelled, (<-chan int)(empty)); ok || v != 0 {
		t.Fatalf("RecvContext on empty = %d, %v", v, ok)
	}
	if v, ok := RecvContext(live, (<-chan int)(empty)); ok || v != 0 {
		t.Fatalf("RecvContext on empty = %d, %v", v, ok)
	}

	// closed counts as false, also when values came before the close
	closed := make(chan int, 2)
	closed <- 11
	close(closed)
	if v, ok := RecvTimeout(closed, time.Hour); !ok || v != 11 {
		t.Fatalf("RecvTimeout = %d, %v", v, ok)
	}
	if v, ok := RecvTimeout(closed, time.Hour); ok || v != 0 {
		t.Fatalf("RecvTimeout on closed = %d, %v", v, ok)
	}
	if v, ok := RecvContext(context.Background(), (<-chan int)(closed)); ok || v != 0 {
		t.Fatalf("RecvContext on closed = %d, %v", v, ok)
	}

	// when both the channel and the cancellation are ready either outcome is
	// fine, but the books must balance
	for i := 0; i < 200; i++ {
		ch := make(chan int, 1)
		sent := SendContext(cancelled, ch, 7)
		if got := len(ch); (got == 1) != sent {
			t.Fatalf("SendContext said %v, channel holds %d", sent, got)
		}
		if !sent {
			ch <- 7
		}
		v, ok := RecvContext(cancelled, (<-chan int)(ch))
		if ok && (v != 7 || len(ch) != 0) {
			t.Fatalf("RecvContext = %d, true with %d left", v, len(ch))
		}
		if !ok && (v != 0 || len(ch) != 1) {
			t.Fatalf("RecvContext = %d, false with %d left", v, len(ch))
		}
	}
}

func TestC19TimedConservation(t *testing.T) {
	const producers, consumers, perProducer = 6, 5, 1500
	for _, capacity := range []int{0, 1, 4} {
		ch := make(chan int, capacity)
		var accepted, taken sync.Map
		var nAccepted, nTaken, nRefused int64

		var cwg sync.WaitGroup
		stop := make(chan struct{})
		record := func(v int, ok bool) {
			if !ok {
				if v != 0 {
					t.Errorf("false came with value %d", v)
				}
				return
			}
			if _, dup := taken.LoadOrStore(v, true); dup {
				t.Errorf("value %d received twice", v)
			}
			atomic.AddInt64(&nTaken, 1)
		}
		for c := 0; c < consumers; c++ {
			cwg.Add(1)
			go func(c int) {
				defer cwg.Done()
				for i := 0; ; i++ {
					select {
					case <-stop:
						return
					default:
					}
					switch (c + i) % 3 {
					case 0:
						record(RecvTimeout(ch, time.Duration(1+i%50)*time.Microsecond))
					case 1:
						ctx, cancel := context.WithCancel(context.Background())
						go func(d time.Duration) {
							time.Sleep(d)
							cancel()
						}(time.Duration(i%40) * time.Microsecond)
						record(RecvContext(ctx, (<-chan int)(ch)))
					case 2:
						for _, v := range RecvQueued(ch, 2) {
							record(v, true)
						}
					}
				}
			}(c)
		}

		var pwg sync.WaitGroup
		for p := 0; p < producers; p++ {
			pwg.Add(1)
			go func(p int) {
				defer pwg.Done()
				for i := 0; i < perProducer; i++ {
					v := p*perProducer + i + 1
					var ok bool
					if (p+i)%2 == 0 {
						ok = SendTimeout(ch, v, time.Duration(1+i%30)*time.Microsecond)
					} else {
						ctx, cancel := context.WithCancel(context.Background())
						go func(d time.Duration) {
							time.Sleep(d)
							cancel()
						}(time.Duration(i%25) * time.Microsecond)
						ok = SendContext(ctx, ch, v)
					}
					if ok {
						accepted.Store(v, true)
						atomic.AddInt64(&nAccepted, 1)
					} else {
						atomic.AddInt64(&nRefused, 1)
					}
				}
			}(p)
		}
		pwg.Wait()
		close(stop)
		cwg.Wait()
		for _, v := range drainAll(ch) {
			record(v, true)
		}

		if nAccepted != nTaken {
			t.Fatalf("cap=%d: %d sends reported, %d values received", capacity, nAccepted, nTaken)
		}
		taken.Range(func(k, _ any) bool {
			if _, ok := accepted.Load(k); !ok {
				t.Errorf("cap=%d: value %v was received but its send was reported as failed (or it was never sent)", capacity, k)
			}
			return true
		})
		accepted.Range(func(k, _ any) bool {
			if _, ok := taken.Load(k); !ok {
				t.Errorf("cap=%d: value %v was reported sent but never arrived", capacity, k)
			}
			return true
		})
		t.Logf("cap=%d: %d delivered, %d given up", capacity, nAccepted, nRefused)
	}
}
