package avl

import (
	"math"
	"math/rand"
	"sort"
	"testing"
)

// s4check verifies every structural invariant of the arena-based tree and
// returns its height (-1 for empty).
func s4check[T comparable](t *testing.T, tr *Tree[T]) int {
	return s4checkOpt(t, tr, true)
}

func s4checkOpt[T comparable](t *testing.T, tr *Tree[T], ordered bool) int {
	t.Helper()
	if len(tr.slots) == 0 {
		if tr.count != 0 || tr.free != 0 {
			t.Fatalf("no arena but count=%d free=%d", tr.count, tr.free)
		}
		return -1
	}
	s := tr.slots
	var zero T
	if s[0].left != 0 || s[0].bal != 0 || s[0].value != zero {
		t.Fatalf("header was written to: %+v", s[0])
	}
	used := make([]bool, len(s))
	used[0] = true
	nodes := 0
	var inorder []T
	var rec func(i int) int
	rec = func(i int) int {
		if i == 0 {
			return -1
		}
		if i < 0 || i >= len(s) || used[i] {
			t.Fatalf("bad or shared link %d", i)
		}
		used[i] = true
		nodes++
		hl := rec(s[i].left)
		inorder = append(inorder, s[i].value)
		hr := rec(s[i].right)
		if int(s[i].bal) != hr-hl {
			t.Fatalf("node %v: bal=%d but heights are %d/%d", s[i].value, s[i].bal, hl, hr)
		}
		if hr-hl > 1 || hl-hr > 1 {
			t.Fatalf("node %v is not AVL balanced: %d/%d", s[i].value, hl, hr)
		}
		if hl > hr {
			return hl + 1
		}
		return hr + 1
	}
	h := rec(s[0].right)
	if nodes != tr.count || tr.Len() != nodes {
		t.Fatalf("count=%d but %d nodes", tr.count, nodes)
	}
	if ordered {
		for i := 1; i < len(inorder); i++ {
			if tr.compare(inorder[i-1], inorder[i]) > 0 {
				t.Fatalf("in-order not sorted: %v before %v", inorder[i-1], inorder[i])
			}
		}
	}
	free := 0
	for i := tr.free; i != 0; i = s[i].left {
		if i < 0 || i >= len(s) || used[i] {
			t.Fatalf("free list runs into a used slot %d", i)
		}
		used[i] = true
		free++
		if s[i].right != 0 || s[i].bal != 0 || s[i].value != zero {
			t.Fatalf("released slot not wiped: %+v", s[i])
		}
	}
	if nodes+free+1 != len(s) {
		t.Fatalf("leaked slots: %d nodes + %d free + header != %d", nodes, free, len(s))
	}
	if n := nodes; n > 0 {
		// deepest element is on level h+1 (root = level 1)
		if float64(h+1) > 1.4405*math.Log2(float64(n+2)) {
			t.Fatalf("depth %d exceeds AVL bound for n=%d", h+1, n)
		}
	}
	return h
}

// s4shape rebuilds the tree from its pre-order and in-order traversals (all
// values distinct) and checks the AVL condition on what the public API shows.
func s4shape(t *testing.T, pre, in []int) int {
	t.Helper()
	if len(pre) != len(in) {
		t.Fatalf("traversals differ in length: %d vs %d", len(pre), len(in))
	}
	pos := make(map[int]int, len(in))
	for i, v := range in {
		pos[v] = i
	}
	next := 0
	var build func(lo, hi int) int
	build = func(lo, hi int) int {
		if lo >= hi {
			return -1
		}
		v := pre[next]
		next++
		p, ok := pos[v]
		if !ok || p < lo || p >= hi {
			t.Fatalf("traversals do not describe a tree (value %d)", v)
		}
		hl := build(lo, p)
		hr := build(p+1, hi)
		if hl-hr > 1 || hr-hl > 1 {
			t.Fatalf("public shape unbalanced at %d: %d/%d", v, hl, hr)
		}
		if hl > hr {
			return hl + 1
		}
		return hr + 1
	}
	return build(0, len(in))
}

func s4equal(a, b []int) bool {
	if len(a) != len(b) {
		return false
	}
	for i := range a {
		if a[i] != b[i] {
			return false
		}
	}
	return true
}

// Random histories of Add/Remove/Contains/Clone/Clear against a sorted slice.
func TestStress4RandomVsModel(t *testing.T) {
	for seed := int64(1); seed <= 60; seed++ {
		rng := rand.New(rand.NewSource(seed))
		tr := NewOrdered[int]()
		var model []int // sorted multiset
		keys := 4 + rng.Intn(300)
		addBias := 30 + rng.Intn(50)
		for step := 0; step < 1500; step++ {
			v := rng.Intn(keys)
			i := sort.SearchInts(model, v)
			present := i < len(model) && model[i] == v
			switch r := rng.Intn(100); {
			case r < addBias:
				tr.Add(v)
				model = append(model, 0)
				copy(model[i+1:], model[i:])
				model[i] = v
			case r < 92:
				if got := tr.Remove(v); got != present {
					t.Fatalf("seed %d step %d: Remove(%d)=%v, model says %v", seed, step, v, got, present)
				}
				if present {
					model = append(model[:i], model[i+1:]...)
				}
			case r < 97:
				if got := tr.Contains(v); got != present {
					t.Fatalf("seed %d step %d: Contains(%d)=%v, want %v", seed, step, v, got, present)
				}
			case r < 99:
				c := tr.Clone()
				s4check(t, &c)
				if !s4equal(c.SlicePreOrder(), tr.SlicePreOrder()) {
					t.Fatalf("clone differs")
				}
				c.Add(-1)
				c.Remove(v)
				s4check(t, &c)
			default:
				if rng.Intn(4) == 0 {
					tr.Clear()
					model = model[:0]
				}
			}
			s4check(t, &tr)
			if !s4equal(tr.SliceInOrder(), model) {
				t.Fatalf("seed %d step %d: in-order %v, model %v", seed, step, tr.SliceInOrder(), model)
			}
			if len(tr.SlicePostOrder()) != len(model) {
				t.Fatalf("post-order length")
			}
		}
	}
}

// Distinct values only, so that the public traversals determine the shape.
func TestStress4PublicShape(t *testing.T) {
	orders := map[string]func(n int, rng *rand.Rand) []int{
		"ascending":  func(n int, _ *rand.Rand) []int { return s4seq(n, func(i int) int { return i }) },
		"descending": func(n int, _ *rand.Rand) []int { return s4seq(n, func(i int) int { return n - i }) },
		"zigzag": func(n int, _ *rand.Rand) []int {
			return s4seq(n, func(i int) int {
				if i%2 == 0 {
					return i
				}
				return 2*n - i
			})
		},
		"random": func(n int, rng *rand.Rand) []int { return rng.Perm(n) },
	}
	for name, gen := range orders {
		for _, n := range []int{1, 2, 3, 7, 64, 500} {
			rng := rand.New(rand.NewSource(int64(n)))
			vals := gen(n, rng)
			tr := NewOrdered[int]()
			for _, v := range vals {
				tr.Add(v)
				h := s4shape(t, tr.SlicePreOrder(), tr.SliceInOrder())
				if h != s4check(t, &tr) {
					t.Fatalf("%s: public and internal height disagree", name)
				}
			}
			// delete in the same order, in reverse, and at random
			del := append([]int(nil), vals...)
			switch n % 3 {
			case 1:
				for i, j := 0, len(del)-1; i < j; i, j = i+1, j-1 {
					del[i], del[j] = del[j], del[i]
				}
			case 2:
				rng.Shuffle(len(del), func(i, j int) { del[i], del[j] = del[j], del[i] })
			}
			for _, v := range del {
				if !tr.Remove(v) {
					t.Fatalf("%s: Remove(%d) failed", name, v)
				}
				if tr.Remove(v) {
					t.Fatalf("%s: Remove(%d) succeeded twice", name, v)
				}
				s4shape(t, tr.SlicePreOrder(), tr.SliceInOrder())
				s4check(t, &tr)
			}
			if tr.Len() != 0 || tr.top() != 0 {
				t.Fatalf("%s: not empty", name)
			}
		}
	}
}

func s4seq(n int, f func(i int) int) []int {
	out := make([]int, n)
	for i := range out {
		out[i] = f(i)
	}
	return out
}

type s4item struct{ key, id int }

// The comparator only looks at key, so many distinct values tie.
func TestStress4ComparatorTies(t *testing.T) {
	for seed := int64(1); seed <= 30; seed++ {
		rng := rand.New(rand.NewSource(seed))
		tr := New(func(a, b s4item) int {
			switch {
			case a.key < b.key:
				return -1
			case a.key > b.key:
				return 1
			}
			return 0
		})
		keys := 1 + rng.Intn(6)
		model := map[s4item]int{}
		total := 0
		for step := 0; step < 1200; step++ {
			it := s4item{rng.Intn(keys), rng.Intn(12)}
			if rng.Intn(100) < 55 {
				tr.Add(it)
				model[it]++
				total++
			} else {
				want := model[it] > 0
				if got := tr.Contains(it); got != want {
					t.Fatalf("seed %d: Contains(%v)=%v want %v", seed, it, got, want)
				}
				if got := tr.Remove(it); got != want {
					t.Fatalf("seed %d: Remove(%v)=%v want %v", seed, it, got, want)
				}
				if want {
					model[it]--
					total--
				}
			}
			s4check(t, &tr)
			if tr.Len() != total {
				t.Fatalf("len %d want %d", tr.Len(), total)
			}
			seen := map[s4item]int{}
			last := -1
			tr.WalkInOrder(func(v s4item) {
				if v.key < last {
					t.Fatalf("in-order not sorted")
				}
				last = v.key
				seen[v]++
			})
			for k, c := range model {
				if seen[k] != c {
					t.Fatalf("seed %d: %v held %d times, want %d", seed, k, seen[k], c)
				}
			}
		}
	}
}

// Sorted bulk input and a sliding window (add at one end, remove at the
// other), the classic patterns that degenerate an unbalanced BST.
func TestStress4SortedAndWindow(t *testing.T) {
	tr := NewOrdered[int]()
	const n = 60000
	for i := 0; i < n; i++ {
		tr.Add(i)
		if i%4096 == 0 {
			s4check(t, &tr)
		}
	}
	s4check(t, &tr)
	for i := 0; i < n; i++ {
		if !tr.Remove(i) {
			t.Fatalf("Remove(%d)", i)
		}
		tr.Add(n + i)
		if i%4096 == 0 {
			s4check(t, &tr)
		}
	}
	s4check(t, &tr)
	for i := 2*n - 1; i >= n; i -= 2 {
		tr.Remove(i)
	}
	s4check(t, &tr)
	if tr.Len() != n/2 {
		t.Fatalf("len %d", tr.Len())
	}
}

// Readers may share a quiescent tree, as with the original.
func TestStress4ConcurrentReaders(t *testing.T) {
	tr := NewOrdered[int]()
	for _, v := range rand.New(rand.NewSource(7)).Perm(3000) {
		tr.Add(v)
	}
	done := make(chan int, 8)
	for g := 0; g < 8; g++ {
		go func(g int) {
			sum := 0
			for i := 0; i < 3000; i++ {
				if tr.Contains(i) {
					sum++
				}
			}
			c := tr.Clone()
			c.Remove(g)
			sum += len(c.SliceInOrder()) + len(tr.SlicePreOrder()) + len(tr.SlicePostOrder())
			done <- sum
		}(g)
	}
	for g := 0; g < 8; g++ {
		if s := <-done; s != 3000+2999+3000+3000 {
			t.Fatalf("reader saw %d", s)
		}
	}
}

// Balancing never consults the comparator, so even one that answers at random
// (or NaN, which typ.Compare ties with everything) cannot unbalance the tree.
func TestStress4ErraticComparator(t *testing.T) {
	rng := rand.New(rand.NewSource(99))
	tr := New(func(a, b int) int { return rng.Intn(3) - 1 })
	live := 0
	for step := 0; step < 6000; step++ {
		if rng.Intn(100) < 60 {
			tr.Add(rng.Intn(50))
			live++
		} else if tr.Remove(rng.Intn(50)) {
			live--
		}
		s4checkOpt(t, &tr, false)
		if tr.Len() != live || len(tr.SlicePreOrder()) != live {
			t.Fatalf("len %d want %d", tr.Len(), live)
		}
	}
	fl := NewOrdered[float64]()
	for step := 0; step < 3000; step++ {
		v := float64(rng.Intn(20))
		if rng.Intn(4) == 0 {
			v = math.NaN()
		}
		if rng.Intn(100) < 60 {
			fl.Add(v)
		} else {
			fl.Remove(v)
		}
		s4checkOpt(t, &fl, false)
	}
}

// Released slots are reused, clones own their arena.
func TestStress4ArenaReuseAndClones(t *testing.T) {
	rng := rand.New(rand.NewSource(5))
	tr := NewOrdered[int]()
	for i := 0; i < 500; i++ {
		tr.Add(i)
	}
	high := len(tr.slots)
	for round := 0; round < 200; round++ {
		var gone []int
		for _, v := range rng.Perm(500)[:1+rng.Intn(200)] {
			if !tr.Remove(v) {
				t.Fatalf("Remove(%d)", v)
			}
			gone = append(gone, v)
		}
		s4check(t, &tr)
		snapshot := tr.Clone()
		want := snapshot.SliceInOrder()
		for _, v := range gone {
			tr.Add(v)
		}
		s4check(t, &tr)
		if len(tr.slots) != high {
			t.Fatalf("arena grew from %d to %d although slots were free", high, len(tr.slots))
		}
		if !s4equal(snapshot.SliceInOrder(), want) || snapshot.Len() != len(want) {
			t.Fatalf("clone changed with its source")
		}
		snapshot.Add(1000)
		for _, v := range want[:len(want)/2] {
			snapshot.Remove(v)
		}
		s4check(t, &snapshot)
		s4check(t, &tr)
		if tr.Len() != 500 || tr.Contains(1000) {
			t.Fatalf("source changed with its clone")
		}
	}
	tr.Clear()
	s4check(t, &tr)
	if tr.Remove(1) || tr.Contains(1) || len(tr.SlicePostOrder()) != 0 {
		t.Fatalf("cleared tree not empty")
	}
	tr.Add(3)
	tr.Add(1)
	tr.Add(2)
	s4check(t, &tr)
	if got := tr.SlicePreOrder(); !sort.IntsAreSorted(tr.SliceInOrder()) || got[0] != 2 {
		t.Fatalf("after Clear: pre-order %v", got)
	}
	var zero Tree[int]
	if zero.Len() != 0 || zero.Contains(1) || zero.Remove(1) || zero.String() != "[]" {
		t.Fatalf("zero tree misbehaves")
	}
}
