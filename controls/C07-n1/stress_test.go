package slices_test

import (
	"math/rand"
	"sort"
	"testing"

	"gopkg.in/typ.v4/slices"
)

type c07Pair struct {
	Key int
	Tag int
}

func c07MustPanic(t *testing.T, name string, f func()) {
	t.Helper()
	defer func() {
		if recover() == nil {
			t.Fatalf("%s: expected panic", name)
		}
	}()
	f()
}

func c07Snapshot[T comparable](s *slices.Sorted[T]) []T {
	out := make([]T, s.Len())
	for i := range out {
		out[i] = s.Get(i)
	}
	return out
}

// Total order consistent with ==: compare against a plain sorted []int model.
func TestC07StressOrdered(t *testing.T) {
	for seed := int64(1); seed <= 300; seed++ {
		rng := rand.New(rand.NewSource(seed))
		domain := 1 + rng.Intn(40)
		initLen := rng.Intn(200)
		if seed%7 == 0 {
			initLen = rng.Intn(4)
		}
		input := make([]int, initLen)
		for i := range input {
			input[i] = rng.Intn(domain)
		}
		if seed%5 == 0 {
			sort.Ints(input) // exercise already-ordered input
		}
		inputCopy := append([]int(nil), input...)
		s := slices.NewSortedOrdered(input...)
		model := append([]int(nil), input...)
		sort.Ints(model)

		check := func(when string) {
			t.Helper()
			if s.Len() != len(model) {
				t.Fatalf("seed %d %s: Len=%d want %d", seed, when, s.Len(), len(model))
			}
			for i, want := range model {
				if got := s.Get(i); got != want {
					t.Fatalf("seed %d %s: Get(%d)=%d want %d", seed, when, i, got, want)
				}
			}
			for i, v := range inputCopy {
				if input[i] != v {
					t.Fatalf("seed %d %s: input slice was modified at %d", seed, when, i)
				}
			}
		}
		check("init")
		// Mutating the input afterwards must not leak into the sorted slice.
		for i := range input {
			input[i] = -1000
		}
		for i := range inputCopy {
			inputCopy[i] = -1000
		}
		check("after input overwrite")

		ops := 400 + rng.Intn(600)
		for op := 0; op < ops; op++ {
			v := rng.Intn(domain+2) - 1
			lo := sort.SearchInts(model, v)
			hi := sort.SearchInts(model, v+1)
			r := rng.Intn(100)
			// phases that drain the slice so shrinking paths are hit too
			drain := (op/150)%3 == 2
			switch {
			case (!drain && r < 40) || (drain && r < 10):
				pos := s.Add(v)
				if pos < lo || pos > hi {
					t.Fatalf("seed %d: Add(%d)=%d outside [%d,%d]", seed, v, pos, lo, hi)
				}
				if s.Get(pos) != v {
					t.Fatalf("seed %d: Add(%d)=%d but Get=%d", seed, v, pos, s.Get(pos))
				}
				model = append(model, 0)
				copy(model[lo+1:], model[lo:])
				model[lo] = v
			case r < 65:
				before := c07Snapshot(&s)
				pos := s.Remove(v)
				if lo == hi {
					if pos != -1 {
						t.Fatalf("seed %d: Remove(absent %d)=%d", seed, v, pos)
					}
				} else {
					if pos < lo || pos >= hi || before[pos] != v {
						t.Fatalf("seed %d: Remove(%d)=%d outside [%d,%d)", seed, v, pos, lo, hi)
					}
					model = append(model[:lo], model[lo+1:]...)
				}
			case r < 75:
				if len(model) == 0 {
					c07MustPanic(t, "RemoveAt(0) on empty", func() { s.RemoveAt(0) })
					break
				}
				i := rng.Intn(len(model))
				s.RemoveAt(i)
				model = append(model[:i], model[i+1:]...)
			case r < 90:
				want := -1
				if lo < hi {
					want = lo
				}
				if got := s.Index(v); got != want {
					t.Fatalf("seed %d: Index(%d)=%d want %d", seed, v, got, want)
				}
				if got := s.Contains(v); got != (want != -1) {
					t.Fatalf("seed %d: Contains(%d)=%v", seed, v, got)
				}
			default:
				n := len(model)
				c07MustPanic(t, "Get(-1)", func() { s.Get(-1) })
				c07MustPanic(t, "Get(Len)", func() { s.Get(n) })
				c07MustPanic(t, "RemoveAt(-1)", func() { s.RemoveAt(-1) })
				c07MustPanic(t, "RemoveAt(Len)", func() { s.RemoveAt(n) })
				c07MustPanic(t, "RemoveAt(Len+3)", func() { s.RemoveAt(n + 3) })
			}
			check("after op")
		}
	}
}

// less only looks at Key, so it cannot tell values with equal keys apart:
// order under less and the exact multiset must still hold.
func TestC07StressWeakOrder(t *testing.T) {
	less := func(a, b c07Pair) bool { return a.Key < b.Key }
	for seed := int64(1); seed <= 150; seed++ {
		rng := rand.New(rand.NewSource(seed))
		domain := 1 + rng.Intn(12)
		input := make([]c07Pair, rng.Intn(120))
		for i := range input {
			input[i] = c07Pair{rng.Intn(domain), rng.Intn(3)}
		}
		inputCopy := append([]c07Pair(nil), input...)
		s := slices.NewSorted(input, less)
		count := map[c07Pair]int{}
		total := len(input)
		for _, p := range input {
			count[p]++
		}
		check := func() {
			t.Helper()
			if s.Len() != total {
				t.Fatalf("seed %d: Len=%d want %d", seed, s.Len(), total)
			}
			got := map[c07Pair]int{}
			for i := 0; i < s.Len(); i++ {
				got[s.Get(i)]++
				if i > 0 && less(s.Get(i), s.Get(i-1)) {
					t.Fatalf("seed %d: out of order at %d", seed, i)
				}
			}
			for k, c := range count {
				if c != 0 && got[k] != c {
					t.Fatalf("seed %d: multiset mismatch for %v: %d want %d", seed, k, got[k], c)
				}
			}
			for k, c := range got {
				if count[k] != c {
					t.Fatalf("seed %d: multiset mismatch for %v: %d want %d", seed, k, c, count[k])
				}
			}
			for i := range input {
				if input[i] != inputCopy[i] {
					t.Fatalf("seed %d: input modified", seed)
				}
			}
		}
		check()
		for op := 0; op < 500; op++ {
			v := c07Pair{rng.Intn(domain), rng.Intn(3)}
			switch r := rng.Intn(10); {
			case r < 4:
				pos := s.Add(v)
				if s.Get(pos) != v {
					t.Fatalf("seed %d: Add position does not hold the value", seed)
				}
				count[v]++
				total++
			case r < 7:
				before := c07Snapshot(&s)
				pos := s.Remove(v)
				if pos == -1 {
					// The original only looks at one position, so a miss is
					// allowed here even when the value is present; nothing
					// may have changed though.
					after := c07Snapshot(&s)
					if len(after) != len(before) {
						t.Fatalf("seed %d: Remove=-1 changed length", seed)
					}
					for i := range after {
						if after[i] != before[i] {
							t.Fatalf("seed %d: Remove=-1 changed contents", seed)
						}
					}
				} else {
					if before[pos] != v {
						t.Fatalf("seed %d: Remove returned %d holding %v, not %v", seed, pos, before[pos], v)
					}
					count[v]--
					total--
				}
			case r < 8:
				if total > 0 {
					i := rng.Intn(total)
					count[s.Get(i)]--
					total--
					s.RemoveAt(i)
				}
			default:
				idx := s.Index(v)
				if idx != -1 && s.Get(idx) != v {
					t.Fatalf("seed %d: Index points at other value", seed)
				}
				if s.Contains(v) != (idx != -1) {
					t.Fatalf("seed %d: Contains disagrees with Index", seed)
				}
			}
			check()
		}
	}
}

func TestC07ZeroAndNil(t *testing.T) {
	var nilSorted *slices.Sorted[int]
	if nilSorted.Len() != 0 {
		t.Fatal("nil Len")
	}
	c07MustPanic(t, "nil Add", func() { nilSorted.Add(1) })
	c07MustPanic(t, "nil Get", func() { nilSorted.Get(0) })
	c07MustPanic(t, "nil RemoveAt", func() { nilSorted.RemoveAt(0) })
	var zero slices.Sorted[int]
	if zero.Len() != 0 || zero.String() != "[]" {
		t.Fatal("zero value")
	}
	c07MustPanic(t, "zero Add", func() { zero.Add(1) })
	c07MustPanic(t, "zero Index", func() { zero.Index(1) })
	c07MustPanic(t, "zero Get", func() { zero.Get(0) })
	s := slices.NewSortedOrdered(3, 1, 2, 2)
	if s.String() != "[1 2 2 3]" {
		t.Fatalf("String=%q", s.String())
	}
}

// Larger slices: ascending, descending and random insertion, then draining.
func TestC07Large(t *testing.T) {
	rng := rand.New(rand.NewSource(42))
	s := slices.NewSortedOrdered[int]()
	var model []int
	for i := 0; i < 6000; i++ {
		var v int
		switch {
		case i < 2000:
			v = i
		case i < 4000:
			v = 4000 - i
		default:
			v = rng.Intn(3000)
		}
		pos := s.Add(v)
		if s.Get(pos) != v {
			t.Fatalf("Add(%d)=%d holds %d", v, pos, s.Get(pos))
		}
		model = append(model, v)
	}
	sort.Ints(model)
	for len(model) > 0 {
		if s.Len() != len(model) {
			t.Fatalf("Len=%d want %d", s.Len(), len(model))
		}
		if len(model)%500 == 0 {
			for i, want := range model {
				if s.Get(i) != want {
					t.Fatalf("Get(%d)=%d want %d", i, s.Get(i), want)
				}
			}
		}
		i := rng.Intn(len(model))
		if rng.Intn(2) == 0 {
			v := model[i]
			pos := s.Remove(v)
			if pos < 0 || model[pos] != v {
				t.Fatalf("Remove(%d)=%d", v, pos)
			}
		} else {
			s.RemoveAt(i)
		}
		model = append(model[:i], model[i+1:]...)
	}
	if s.Len() != 0 || s.String() != "[]" {
		t.Fatalf("not empty: %v", s)
	}
}
