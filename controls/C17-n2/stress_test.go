package sync2_test

import (
	"sync"
	"sync/atomic"
	"testing"

	"gopkg.in/typ.v4/sync2"
)

// Stress test for property C17: Once1/Once2/Once3 run exactly one of the
// supplied functions exactly once, every Do returns that invocation's values
// and returns only after the invocation has completed.

func TestStressOnce1(t *testing.T) {
	const rounds = 300
	const callers = 32
	for r := 0; r < rounds; r++ {
		var o sync2.Once1[int]
		var calls int32
		var finished int32 // set as the very last effect of the invocation
		effect := 0        // plain variable: -race checks the happens-before edge
		start := make(chan struct{})
		var wg sync.WaitGroup
		got := make([]int, callers)
		seenFinished := make([]int32, callers)
		seenEffect := make([]int, callers)
		for i := 0; i < callers; i++ {
			wg.Add(1)
			go func(i int) {
				defer wg.Done()
				<-start
				got[i] = o.Do(func() int {
					atomic.AddInt32(&calls, 1)
					effect = 1000 + i
					for k := 0; k < 50; k++ {
						_ = k
					}
					atomic.StoreInt32(&finished, 1)
					return 1000 + i
				})
				seenFinished[i] = atomic.LoadInt32(&finished)
				seenEffect[i] = effect
			}(i)
		}
		close(start)
		wg.Wait()
		if calls != 1 {
			t.Fatalf("round %d: %d invocations, want 1", r, calls)
		}
		for i := 0; i < callers; i++ {
			if got[i] != got[0] || got[i] != effect {
				t.Fatalf("round %d: caller %d got %d, caller 0 got %d, invocation returned %d", r, i, got[i], got[0], effect)
			}
			if seenFinished[i] != 1 || seenEffect[i] != effect {
				t.Fatalf("round %d: caller %d returned before the invocation completed", r, i)
			}
		}
		// later callers
		for i := 0; i < 3; i++ {
			v := o.Do(func() int { atomic.AddInt32(&calls, 1); return -1 })
			if v != effect || calls != 1 {
				t.Fatalf("round %d: later Do returned %d (calls=%d), want %d", r, v, calls, effect)
			}
		}
		if o.R1 != effect {
			t.Fatalf("round %d: field R1=%d, want %d", r, o.R1, effect)
		}
	}
}

func TestStressOnce2(t *testing.T) {
	const rounds = 200
	const callers = 16
	for r := 0; r < rounds; r++ {
		var o sync2.Once2[int, string]
		var calls int32
		effect := 0
		start := make(chan struct{})
		var wg sync.WaitGroup
		type res struct {
			a      int
			b      string
			effect int
		}
		got := make([]res, callers)
		for i := 0; i < callers; i++ {
			wg.Add(1)
			go func(i int) {
				defer wg.Done()
				<-start
				a, b := o.Do(func() (int, string) {
					atomic.AddInt32(&calls, 1)
					effect = i + 1
					return i + 1, "x"
				})
				got[i] = res{a, b, effect}
			}(i)
		}
		close(start)
		wg.Wait()
		if calls != 1 {
			t.Fatalf("round %d: %d invocations, want 1", r, calls)
		}
		for i := range got {
			if got[i].a != effect || got[i].b != "x" || got[i].effect != effect {
				t.Fatalf("round %d: caller %d got %+v, want (%d, x)", r, i, got[i], effect)
			}
		}
		a, b := o.Do(func() (int, string) { atomic.AddInt32(&calls, 1); return -1, "late" })
		if a != effect || b != "x" || calls != 1 || o.R1 != effect || o.R2 != "x" {
			t.Fatalf("round %d: later Do returned (%d,%q), calls=%d", r, a, b, calls)
		}
	}
}

func TestStressOnce3(t *testing.T) {
	const rounds = 200
	const callers = 16
	for r := 0; r < rounds; r++ {
		var o sync2.Once3[int, string, *int]
		var calls int32
		effect := 0
		start := make(chan struct{})
		var wg sync.WaitGroup
		type res struct {
			a      int
			b      string
			c      *int
			effect int
		}
		got := make([]res, callers)
		for i := 0; i < callers; i++ {
			wg.Add(1)
			go func(i int) {
				defer wg.Done()
				<-start
				a, b, c := o.Do(func() (int, string, *int) {
					atomic.AddInt32(&calls, 1)
					effect = i + 1
					p := new(int)
					*p = i + 1
					return i + 1, "y", p
				})
				got[i] = res{a, b, c, effect}
			}(i)
		}
		close(start)
		wg.Wait()
		if calls != 1 {
			t.Fatalf("round %d: %d invocations, want 1", r, calls)
		}
		for i := range got {
			if got[i].a != effect || got[i].b != "y" || got[i].c != got[0].c || *got[i].c != effect || got[i].effect != effect {
				t.Fatalf("round %d: caller %d got %+v, want (%d, y, %p)", r, i, got[i], effect, got[0].c)
			}
		}
		a, b, c := o.Do(func() (int, string, *int) { atomic.AddInt32(&calls, 1); return -1, "late", nil })
		if a != effect || b != "y" || c != got[0].c || calls != 1 || o.R1 != effect || o.R2 != "y" || o.R3 != c {
			t.Fatalf("round %d: later Do returned (%d,%q,%p), calls=%d", r, a, b, c, calls)
		}
	}
}

// A sequential first caller followed by concurrent later callers.
func TestStressOnceLateArrivals(t *testing.T) {
	var o sync2.Once1[string]
	if v := o.Do(func() string { return "first" }); v != "first" {
		t.Fatalf("got %q", v)
	}
	var wg sync.WaitGroup
	for i := 0; i < 64; i++ {
		wg.Add(1)
		go func() {
			defer wg.Done()
			if v := o.Do(func() string { t.Error("second function invoked"); return "second" }); v != "first" {
				t.Errorf("got %q, want first", v)
			}
		}()
	}
	wg.Wait()
}

// sync.Once semantics that the library documents by reference: a panicking
// function still counts as the single invocation.
func TestStressOncePanicCountsAsInvocation(t *testing.T) {
	var o sync2.Once1[int]
	func() {
		defer func() {
			if recover() == nil {
				t.Error("panic did not propagate to the elected caller")
			}
		}()
		o.Do(func() int { panic("boom") })
	}()
	if v := o.Do(func() int { t.Error("second function invoked"); return 7 }); v != 0 {
		t.Errorf("got %d, want zero value", v)
	}
}
