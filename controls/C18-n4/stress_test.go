// Stress test for the channel-resident AtomicValue and the two-tier
// (channel shelf + mutex guarded cellar) Pool.

package sync2_test

import (
	"math"
	"math/rand"
	"runtime"
	"sync"
	"sync/atomic"
	"testing"
	"time"

	"gopkg.in/typ.v4/sync2"
)

// ---- a small linearizability checker for register histories ----

const (
	c18s4Load = iota
	c18s4Store
	c18s4Swap
	c18s4CAS
)

type c18s4Op struct {
	kind     int
	a, b     int  // Store/Swap: a is the new value; CAS: a is old, b is new
	ret      int  // Load/Swap: the returned value
	ok       bool // CAS: the returned flag
	inv, res int64
}

type c18s4State struct {
	val int
	set bool
}

// c18s4Apply runs op on st and reports the states it may lead to, or none if
// the recorded result cannot come from st.
func c18s4Apply(op c18s4Op, st c18s4State) []c18s4State {
	switch op.kind {
	case c18s4Load:
		if op.ret != st.val {
			return nil
		}
		return []c18s4State{st}
	case c18s4Store:
		return []c18s4State{{op.a, true}}
	case c18s4Swap:
		if op.ret != st.val {
			return nil
		}
		return []c18s4State{{op.a, true}}
	default:
		if !st.set {
			// Unspecified before the first store: accept both answers.
			if op.ok {
				return []c18s4State{{op.b, true}}
			}
			return []c18s4State{st}
		}
		if op.ok != (st.val == op.a) {
			return nil
		}
		if op.ok {
			return []c18s4State{{op.b, true}}
		}
		return []c18s4State{st}
	}
}

type c18s4Key struct {
	done uint32
	st   c18s4State
}

func c18s4Linearizable(ops []c18s4Op, start c18s4State) bool {
	all := uint32(1)<<uint(len(ops)) - 1
	seen := map[c18s4Key]bool{}
	var dfs func(done uint32, st c18s4State) bool
	dfs = func(done uint32, st c18s4State) bool {
		if done == all {
			return true
		}
		k := c18s4Key{done, st}
		if seen[k] {
			return false
		}
		seen[k] = true
		// An op may go next if no other pending op returned before it began.
		minRes := int64(math.MaxInt64)
		for i, op := range ops {
			if done&(1<<uint(i)) == 0 && op.res < minRes {
				minRes = op.res
			}
		}
		for i, op := range ops {
			if done&(1<<uint(i)) != 0 || op.inv > minRes {
				continue
			}
			for _, next := range c18s4Apply(op, st) {
				if dfs(done|1<<uint(i), next) {
					return true
				}
			}
		}
		return false
	}
	return dfs(0, start)
}

func TestC18S4CheckerRejectsBadHistory(t *testing.T) {
	// Store(1) finished before Load began, yet Load saw 0.
	bad := []c18s4Op{
		{kind: c18s4Store, a: 1, inv: 1, res: 2},
		{kind: c18s4Load, ret: 0, inv: 3, res: 4},
	}
	if c18s4Linearizable(bad, c18s4State{}) {
		t.Fatal("checker accepted a stale read")
	}
	good := []c18s4Op{
		{kind: c18s4Store, a: 1, inv: 1, res: 4},
		{kind: c18s4Load, ret: 0, inv: 2, res: 3},
	}
	if !c18s4Linearizable(good, c18s4State{}) {
		t.Fatal("checker rejected an overlapping read")
	}
}

// ---- AtomicValue ----

func c18s4Deadline(d time.Duration) func() bool {
	end := time.Now().Add(d)
	return func() bool { return time.Now().Before(end) }
}

// Small concurrent histories, each checked for linearizability.
func TestC18S4AtomicValueLinearizable(t *testing.T) {
	const workers, perWorker = 4, 4
	rounds := 0
	for running := c18s4Deadline(6 * time.Second); running(); rounds++ {
		var v sync2.AtomicValue[int]
		start := c18s4State{}
		if rounds%2 == 1 {
			v.Store(7)
			start = c18s4State{7, true}
		}
		var clock atomic.Int64
		hist := make([][]c18s4Op, workers)
		var wg sync.WaitGroup
		for w := 0; w < workers; w++ {
			wg.Add(1)
			go func(w int) {
				defer wg.Done()
				rnd := rand.New(rand.NewSource(int64(rounds*workers + w)))
				for i := 0; i < perWorker; i++ {
					op := c18s4Op{kind: rnd.Intn(4), a: rnd.Intn(3), b: rnd.Intn(3)}
					if rounds%2 == 1 && rnd.Intn(4) == 0 {
						op.a = 7
					}
					if rnd.Intn(3) == 0 {
						runtime.Gosched()
					}
					op.inv = clock.Add(1)
					switch op.kind {
					case c18s4Load:
						op.ret = v.Load()
					case c18s4Store:
						v.Store(op.a)
					case c18s4Swap:
						op.ret = v.Swap(op.a)
					case c18s4CAS:
						op.ok = v.CompareAndSwap(op.a, op.b)
					}
					op.res = clock.Add(1)
					hist[w] = append(hist[w], op)
				}
			}(w)
		}
		wg.Wait()
		var ops []c18s4Op
		for _, h := range hist {
			ops = append(ops, h...)
		}
		if !c18s4Linearizable(ops, start) {
			t.Fatalf("round %d: history is not linearizable: %+v", rounds, ops)
		}
	}
	t.Logf("%d histories checked", rounds)
}

// Sequential random histories against a plain variable.
func TestC18S4AtomicValueSequentialModel(t *testing.T) {
	rnd := rand.New(rand.NewSource(18))
	for round := 0; round < 2000; round++ {
		var v sync2.AtomicValue[string]
		model, stored := "", false
		vals := []string{"", "a", "b", "c"}
		for i := 0; i < 40; i++ {
			x, y := vals[rnd.Intn(len(vals))], vals[rnd.Intn(len(vals))]
			switch rnd.Intn(4) {
			case 0:
				if got := v.Load(); got != model {
					t.Fatalf("Load = %q, want %q", got, model)
				}
			case 1:
				v.Store(x)
				model, stored = x, true
			case 2:
				if got := v.Swap(x); got != model {
					t.Fatalf("Swap = %q, want %q", got, model)
				}
				model, stored = x, true
			case 3:
				got := v.CompareAndSwap(x, y)
				if stored && got != (model == x) {
					t.Fatalf("CompareAndSwap(%q, %q) on %q = %v", x, y, model, got)
				}
				if got {
					model, stored = y, true
				}
			}
		}
	}
}

// Comparison is ==, as for sync/atomic.Value: NaN equals nothing, +0 equals -0.
func TestC18S4AtomicValueFloat(t *testing.T) {
	var v sync2.AtomicValue[float64]
	v.Store(math.NaN())
	if v.CompareAndSwap(math.NaN(), 1) {
		t.Fatal("CompareAndSwap(NaN, 1) succeeded on NaN")
	}
	if !math.IsNaN(v.Load()) {
		t.Fatal("NaN lost")
	}
	negZero := math.Copysign(0, -1)
	v.Store(negZero)
	if got := v.Load(); got != 0 || !math.Signbit(got) {
		t.Fatalf("Load = %v, want -0", got)
	}
	if !v.CompareAndSwap(0, 2) {
		t.Fatal("CompareAndSwap(+0, 2) failed on -0")
	}
	if got := v.Swap(3); got != 2 {
		t.Fatalf("Swap = %v, want 2", got)
	}
}

func TestC18S4AtomicValueNilPanics(t *testing.T) {
	var v sync2.AtomicValue[any]
	if got := v.Load(); got != nil {
		t.Fatalf("Load of empty = %v", got)
	}
	for name, f := range map[string]func(){
		"Store": func() { v.Store(nil) },
		"Swap":  func() { v.Swap(nil) },
		"CAS":   func() { v.CompareAndSwap(1, nil) },
	} {
		func() {
			defer func() {
				if recover() == nil {
					t.Errorf("%s(nil) did not panic", name)
				}
			}()
			f()
		}()
	}
	// The register is still usable afterwards, also after a comparison
	// that panics because the values cannot be compared, and after a store
	// that is refused because of its dynamic type.
	v.Store([]int{1})
	for name, f := range map[string]func(){
		"CAS of uncomparable": func() { v.CompareAndSwap([]int{1}, []int{2}) },
		"Store of other type": func() { v.Store("x") },
		"Swap of other type":  func() { v.Swap(2.5) },
		"CAS of mixed types":  func() { v.CompareAndSwap(1, "x") },
	} {
		func() {
			defer func() {
				if recover() == nil {
					t.Errorf("%s did not panic", name)
				}
			}()
			f()
		}()
	}
	if got := v.Load().([]int); len(got) != 1 || got[0] != 1 {
		t.Fatalf("Load = %v, want [1]", got)
	}
	v.Store([]int{5})
	if got := v.Swap([]int{6}).([]int); got[0] != 5 {
		t.Fatalf("Swap = %v, want [5]", got)
	}
}

type c18s4Wide struct {
	writer, seq int
	fill        [6]int
}

func c18s4MakeWide(writer, seq int) c18s4Wide {
	w := c18s4Wide{writer: writer, seq: seq}
	for i := range w.fill {
		w.fill[i] = writer*1_000_000 + seq
	}
	return w
}

func (w c18s4Wide) intact() bool {
	for _, f := range w.fill {
		if f != w.writer*1_000_000+w.seq {
			return false
		}
	}
	return true
}

// Writers publish multi-word values with growing sequence numbers. Readers
// must never see a torn value, and never see a writer's values go backwards.
func TestC18S4AtomicValueNoTearNoGoingBack(t *testing.T) {
	const writers, readers = 3, 4
	var v sync2.AtomicValue[c18s4Wide]
	running := c18s4Deadline(4 * time.Second)
	var wg sync.WaitGroup
	var loads, swaps atomic.Int64
	for w := 1; w <= writers; w++ {
		wg.Add(1)
		go func(w int) {
			defer wg.Done()
			lastSeen := map[int]int{}
			for seq := 1; running(); seq++ {
				val := c18s4MakeWide(w, seq)
				switch seq % 3 {
				case 0:
					v.Store(val)
				case 1:
					old := v.Swap(val)
					if !old.intact() {
						t.Errorf("Swap returned a torn value %+v", old)
						return
					}
					if old.seq < lastSeen[old.writer] {
						t.Errorf("Swap went back: writer %d seq %d after %d", old.writer, old.seq, lastSeen[old.writer])
						return
					}
					lastSeen[old.writer] = old.seq
					swaps.Add(1)
				case 2:
					// Succeeds only if nobody wrote since we looked.
					cur := v.Load()
					if v.CompareAndSwap(cur, val) && cur.writer == w && cur.seq != seq-1 {
						t.Errorf("CAS replaced an outdated own value %+v at seq %d", cur, seq)
						return
					}
				}
			}
		}(w)
	}
	for r := 0; r < readers; r++ {
		wg.Add(1)
		go func() {
			defer wg.Done()
			lastSeen := map[int]int{}
			for running() {
				got := v.Load()
				loads.Add(1)
				if !got.intact() {
					t.Errorf("Load returned a torn value %+v", got)
					return
				}
				if got.seq < lastSeen[got.writer] {
					t.Errorf("Load went back: writer %d seq %d after %d", got.writer, got.seq, lastSeen[got.writer])
					return
				}
				lastSeen[got.writer] = got.seq
			}
		}()
	}
	wg.Wait()
	t.Logf("%d loads, %d swaps", loads.Load(), swaps.Load())
}

// Every value swapped in is swapped out exactly once, or is the final value.
func TestC18S4AtomicValueSwapChain(t *testing.T) {
	const workers, perWorker = 6, 3000
	var v sync2.AtomicValue[int]
	got := make([][]int, workers)
	var wg sync.WaitGroup
	for w := 0; w < workers; w++ {
		wg.Add(1)
		go func(w int) {
			defer wg.Done()
			for i := 0; i < perWorker; i++ {
				got[w] = append(got[w], v.Swap(1+w*perWorker+i))
			}
		}(w)
	}
	wg.Wait()
	count := map[int]int{v.Load(): 1}
	for _, g := range got {
		for _, x := range g {
			count[x]++
		}
	}
	for x := 0; x <= workers*perWorker; x++ {
		if count[x] != 1 {
			t.Fatalf("value %d seen %d times, want once", x, count[x])
		}
	}
}

// Increments through CompareAndSwap are never lost nor duplicated.
func TestC18S4AtomicValueCASCounter(t *testing.T) {
	const workers, perWorker = 6, 2000
	var v sync2.AtomicValue[int]
	v.Store(0)
	var failed atomic.Int64
	var wg sync.WaitGroup
	for w := 0; w < workers; w++ {
		wg.Add(1)
		go func() {
			defer wg.Done()
			for i := 0; i < perWorker; i++ {
				for {
					cur := v.Load()
					if i%4 == 0 {
						runtime.Gosched() // invite others in between
					}
					if v.CompareAndSwap(cur, cur+1) {
						break
					}
					failed.Add(1)
				}
			}
		}()
	}
	wg.Wait()
	if got := v.Load(); got != workers*perWorker {
		t.Fatalf("counter = %d, want %d", got, workers*perWorker)
	}
	t.Logf("%d failed attempts", failed.Load())
}

// ---- Pool ----

type c18s4Item struct {
	id   int64
	held atomic.Int32
	uses int // written by the holder only: the race detector watches this
}

// Items are passed around through Get and Put by many goroutines; an item
// must never be in the hands of two of them.
func TestC18S4PoolExclusive(t *testing.T) {
	for _, workers := range []int{2, 8, 32} {
		var made atomic.Int64
		p := sync2.Pool[*c18s4Item]{New: func() *c18s4Item {
			return &c18s4Item{id: made.Add(1)}
		}}
		running := c18s4Deadline(2 * time.Second)
		var gets atomic.Int64
		var wg sync.WaitGroup
		for w := 0; w < workers; w++ {
			wg.Add(1)
			go func(w int) {
				defer wg.Done()
				rnd := rand.New(rand.NewSource(int64(w)))
				var mine []*c18s4Item
				for running() {
					if len(mine) == 0 || (len(mine) < 40 && rnd.Intn(2) == 0) {
						it := p.Get()
						gets.Add(1)
						if it == nil {
							t.Error("Get returned nil although New is set")
							return
						}
						if !it.held.CompareAndSwap(0, 1) {
							t.Errorf("item %d handed to two users", it.id)
							return
						}
						it.uses++
						mine = append(mine, it)
						continue
					}
					i := rnd.Intn(len(mine))
					it := mine[i]
					mine[i] = mine[len(mine)-1]
					mine = mine[:len(mine)-1]
					it.uses++
					if !it.held.CompareAndSwap(1, 0) {
						t.Errorf("item %d was not held by its holder", it.id)
						return
					}
					p.Put(it)
				}
			}(w)
		}
		wg.Wait()
		if made.Load() > gets.Load() {
			t.Errorf("New called %d times for %d Gets", made.Load(), gets.Load())
		}
		t.Logf("%d workers: %d gets, %d made", workers, gets.Load(), made.Load())
	}
}

// Sequential random Get and Put against a model set of pooled values.
func TestC18S4PoolSequentialModel(t *testing.T) {
	rnd := rand.New(rand.NewSource(3))
	for round := 0; round < 300; round++ {
		next := 0
		fresh := map[int]bool{}
		p := sync2.Pool[int]{New: func() int {
			next++
			fresh[next] = true
			return next
		}}
		pooled := map[int]bool{}
		var out []int
		for i := 0; i < 600; i++ {
			if len(out) > 0 && rnd.Intn(5) < 2+round%3 {
				j := rnd.Intn(len(out))
				x := out[j]
				out = append(out[:j], out[j+1:]...)
				p.Put(x)
				pooled[x] = true
				continue
			}
			x := p.Get()
			switch {
			case fresh[x]:
				delete(fresh, x)
			case pooled[x]:
				delete(pooled, x)
			default:
				t.Fatalf("Get returned %d, which is neither pooled nor new", x)
			}
			out = append(out, x)
		}
	}
}

// Values put concurrently come out at most once each; nothing is invented.
func TestC18S4PoolValuesAtMostOnce(t *testing.T) {
	const workers, perWorker = 8, 4000
	p := sync2.Pool[int]{New: func() int { return -1 }}
	got := make([][]int, workers)
	var wg sync.WaitGroup
	for w := 0; w < workers; w++ {
		wg.Add(1)
		go func(w int) {
			defer wg.Done()
			for i := 0; i < perWorker; i++ {
				p.Put(1 + w*perWorker + i)
				if i%3 != 0 {
					got[w] = append(got[w], p.Get())
				}
			}
		}(w)
	}
	wg.Wait()
	seen := map[int]bool{}
	reused := 0
	check := func(x int) {
		if x == -1 {
			return
		}
		if x < 1 || x > workers*perWorker {
			t.Fatalf("Get invented %d", x)
		}
		if seen[x] {
			t.Fatalf("value %d handed out twice", x)
		}
		seen[x] = true
		reused++
	}
	for _, g := range got {
		for _, x := range g {
			check(x)
		}
	}
	for i := 0; i < workers*perWorker; i++ {
		check(p.Get()) // drain what is left
	}
	t.Logf("%d of %d values came back", reused, workers*perWorker)
}

func TestC18S4PoolWithoutNew(t *testing.T) {
	var p sync2.Pool[*c18s4Item]
	put := map[*c18s4Item]bool{}
	var wg sync.WaitGroup
	var mu sync.Mutex
	for w := 0; w < 4; w++ {
		wg.Add(1)
		go func() {
			defer wg.Done()
			for i := 0; i < 500; i++ {
				it := new(c18s4Item)
				mu.Lock()
				put[it] = true
				mu.Unlock()
				p.Put(it)
				got := p.Get()
				if got == nil {
					continue
				}
				mu.Lock()
				ok := put[got]
				delete(put, got)
				mu.Unlock()
				if !ok {
					t.Error("Get returned an item that is not in the pool")
					return
				}
			}
		}()
	}
	wg.Wait()
}

// Far more items than fit on the shelf: everything put (up to what the pool
// is willing to keep) comes back exactly once, whichever tier it went to.
func TestC18S4PoolOverflowTiers(t *testing.T) {
	const workers, batch = 6, 150
	p := sync2.Pool[int]{New: func() int { return -1 }}
	for round := 0; round < 40; round++ {
		var wg sync.WaitGroup
		got := make([][]int, workers)
		for w := 0; w < workers; w++ {
			wg.Add(1)
			go func(w int) {
				defer wg.Done()
				base := 1 + (round*workers+w)*batch
				for i := 0; i < batch; i++ {
					p.Put(base + i)
				}
				for i := 0; i < batch; i++ {
					got[w] = append(got[w], p.Get())
				}
			}(w)
		}
		wg.Wait()
		lo, hi := 1+round*workers*batch, (round+1)*workers*batch
		seen := map[int]bool{}
		for _, g := range got {
			for _, x := range g {
				if x == -1 {
					continue
				}
				if x < lo || x > hi {
					t.Fatalf("round %d: Get returned %d, not put in this round", round, x)
				}
				if seen[x] {
					t.Fatalf("round %d: %d handed out twice", round, x)
				}
				seen[x] = true
			}
		}
		// As many Gets as Puts, and fewer than the pool retains: every item
		// that a Get did not receive must still be in the pool.
		for {
			x := p.Get()
			if x == -1 {
				break
			}
			if x < lo || x > hi || seen[x] {
				t.Fatalf("round %d: drain returned %d (seen %v)", round, x, seen[x])
			}
			seen[x] = true
		}
		if len(seen) != workers*batch {
			t.Fatalf("round %d: %d of %d items came back", round, len(seen), workers*batch)
		}
	}
}
