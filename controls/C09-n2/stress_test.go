package sync2

// Stress test for property C09 (keyed mutexes: per-key mutual exclusion,
// cross-key independence, non-blocking try-locks, racing first use).
// Only the public API is used. Drop into sync2/ and run with
//   go test -race -run C09 ./sync2/

import (
	"sync"
	"sync/atomic"
	"testing"
	"time"
)

func c09Within(t *testing.T, what string, f func()) {
	t.Helper()
	done := make(chan struct{})
	go func() { f(); close(done) }()
	select {
	case <-done:
	case <-time.After(10 * time.Second):
		t.Fatalf("%s: did not finish (blocked)", what)
	}
}

func TestC09KeyedMutexExclusionPerKey(t *testing.T) {
	var km KeyedMutex[int]
	const keys, workers, rounds = 3, 8, 2000
	var inside [keys]int32
	var plain [keys]int // unsynchronised on purpose: the race detector watches it
	var wg sync.WaitGroup
	for w := 0; w < workers; w++ {
		wg.Add(1)
		go func(w int) {
			defer wg.Done()
			for i := 0; i < rounds; i++ {
				k := (w + i) % keys
				if i%3 == 0 {
					if !km.TryLockKey(k) {
						continue
					}
				} else {
					km.LockKey(k)
				}
				if n := atomic.AddInt32(&inside[k], 1); n != 1 {
					t.Errorf("key %d: %d goroutines inside", k, n)
				}
				plain[k]++
				atomic.AddInt32(&inside[k], -1)
				km.UnlockKey(k)
			}
		}(w)
	}
	c09Within(t, "workers", wg.Wait)
}

func TestC09KeyedMutexFirstUseRace(t *testing.T) {
	// Many goroutines hit a never-seen key at the same moment; exactly one may
	// be inside at a time, and exactly one TryLockKey may win while it is held.
	var km KeyedMutex[int]
	const workers = 6
	for key := 0; key < 500; key++ {
		var inside, wins int32
		start := make(chan struct{})
		hold := make(chan struct{})
		var wg, tried sync.WaitGroup
		for w := 0; w < workers; w++ {
			wg.Add(1)
			tried.Add(1)
			go func() {
				defer wg.Done()
				<-start
				ok := km.TryLockKey(key)
				if ok {
					atomic.AddInt32(&wins, 1)
				}
				tried.Done()
				if ok {
					<-hold // keep it until everybody has tried
					km.UnlockKey(key)
				}
				km.LockKey(key)
				if n := atomic.AddInt32(&inside, 1); n != 1 {
					t.Errorf("key %d: %d goroutines inside", key, n)
				}
				atomic.AddInt32(&inside, -1)
				km.UnlockKey(key)
			}()
		}
		close(start)
		c09Within(t, "try phase", tried.Wait)
		if n := atomic.LoadInt32(&wins); n != 1 {
			t.Fatalf("key %d: %d TryLockKey winners on a fresh key, want exactly 1", key, n)
		}
		close(hold)
		c09Within(t, "lock phase", wg.Wait)
	}
}

func TestC09KeyedMutexCrossKeyIndependence(t *testing.T) {
	var km KeyedMutex[string]
	km.LockKey("a")
	// a waiter parked on "a"
	parked := make(chan struct{})
	go func() { km.LockKey("a"); km.UnlockKey("a"); close(parked) }()
	time.Sleep(10 * time.Millisecond)

	c09Within(t, "other keys while a is held and awaited", func() {
		if !km.TryLockKey("b") {
			t.Error("TryLockKey(b) failed although b is free")
		}
		if km.TryLockKey("b") {
			t.Error("TryLockKey(b) succeeded although b is held")
		}
		if km.TryLockKey("a") {
			t.Error("TryLockKey(a) succeeded although a is held")
		}
		km.LockKey("c")
		km.UnlockKey("c")
		km.UnlockKey("b")
		if !km.TryLockKey("b") {
			t.Error("TryLockKey(b) failed after b was released")
		}
		km.UnlockKey("b")
	})
	km.UnlockKey("a")
	c09Within(t, "waiter on a", func() { <-parked })

	// ClearKey on an idle key: the key is simply free afterwards.
	km.ClearKey("a")
	if !km.TryLockKey("a") {
		t.Error("TryLockKey(a) failed after ClearKey")
	}
	km.UnlockKey("a")
}

func TestC09KeyedRWMutexExclusionPerKey(t *testing.T) {
	var km KeyedRWMutex[int]
	const keys, workers, rounds = 3, 8, 2000
	var readers, writers [keys]int32
	var plain [keys]int
	var sink int64
	var wg sync.WaitGroup
	for w := 0; w < workers; w++ {
		wg.Add(1)
		go func(w int) {
			defer wg.Done()
			for i := 0; i < rounds; i++ {
				k := (w + i) % keys
				switch (w + i/2) % 4 {
				case 0, 1: // write
					if (w+i/2)%4 == 1 {
						if !km.TryLockKey(k) {
							continue
						}
					} else {
						km.LockKey(k)
					}
					if n := atomic.AddInt32(&writers[k], 1); n != 1 {
						t.Errorf("key %d: %d writers inside", k, n)
					}
					if n := atomic.LoadInt32(&readers[k]); n != 0 {
						t.Errorf("key %d: writer inside with %d readers", k, n)
					}
					plain[k]++
					atomic.AddInt32(&writers[k], -1)
					km.UnlockKey(k)
				default: // read
					if (w+i/2)%4 == 3 {
						if !km.TryRLockKey(k) {
							continue
						}
					} else {
						km.RLockKey(k)
					}
					atomic.AddInt32(&readers[k], 1)
					if n := atomic.LoadInt32(&writers[k]); n != 0 {
						t.Errorf("key %d: reader inside with %d writers", k, n)
					}
					atomic.AddInt64(&sink, int64(plain[k]))
					atomic.AddInt32(&readers[k], -1)
					km.RUnlockKey(k)
				}
			}
		}(w)
	}
	c09Within(t, "workers", wg.Wait)
}

func TestC09KeyedRWMutexFirstUseRace(t *testing.T) {
	var km KeyedRWMutex[int]
	const workers = 6
	for key := 0; key < 500; key++ {
		var wins, rwins int32
		start := make(chan struct{})
		hold := make(chan struct{})
		var wg, tried sync.WaitGroup
		for w := 0; w < workers; w++ {
			wg.Add(1)
			tried.Add(1)
			go func(w int) {
				defer wg.Done()
				<-start
				if w%2 == 0 {
					ok := km.TryLockKey(key)
					if ok {
						atomic.AddInt32(&wins, 1)
					}
					tried.Done()
					if ok {
						<-hold
						km.UnlockKey(key)
					}
				} else {
					ok := km.TryRLockKey(key)
					if ok {
						atomic.AddInt32(&rwins, 1)
					}
					tried.Done()
					if ok {
						<-hold
						km.RUnlockKey(key)
					}
				}
			}(w)
		}
		close(start)
		c09Within(t, "try phase", tried.Wait)
		// Everybody who won still holds the key here.
		nw, nr := atomic.LoadInt32(&wins), atomic.LoadInt32(&rwins)
		if nw > 1 || (nw == 1 && nr != 0) || nw+nr == 0 {
			t.Fatalf("key %d: %d write winners and %d read winners at the same time", key, nw, nr)
		}
		close(hold)
		c09Within(t, "release phase", wg.Wait)
		if !km.TryLockKey(key) {
			t.Fatalf("key %d: TryLockKey failed on a free key", key)
		}
		km.UnlockKey(key)
	}
}

func TestC09KeyedRWMutexSemantics(t *testing.T) {
	var km KeyedRWMutex[string]

	// several readers at once, no writer
	km.RLockKey("a")
	if !km.TryRLockKey("a") {
		t.Error("TryRLockKey(a) failed although only a reader holds a")
	}
	c09Within(t, "second blocking reader", func() { km.RLockKey("a"); km.RUnlockKey("a") })
	if km.TryLockKey("a") {
		t.Error("TryLockKey(a) succeeded although readers hold a")
	}
	km.RUnlockKey("a")
	if km.TryLockKey("a") {
		t.Error("TryLockKey(a) succeeded although a reader still holds a")
	}

	// a writer parked behind the remaining reader must not disturb other keys
	got := make(chan struct{})
	go func() { km.LockKey("a"); close(got) }()
	time.Sleep(10 * time.Millisecond)
	c09Within(t, "other keys while a is read-held and write-awaited", func() {
		if !km.TryLockKey("b") {
			t.Error("TryLockKey(b) failed although b is free")
		}
		if km.TryRLockKey("b") {
			t.Error("TryRLockKey(b) succeeded although b is write-held")
		}
		if km.TryLockKey("b") {
			t.Error("TryLockKey(b) succeeded although b is write-held")
		}
		km.UnlockKey("b")
		km.RLockKey("c")
		if !km.TryRLockKey("c") {
			t.Error("TryRLockKey(c) failed although c is only read-held")
		}
		km.RUnlockKey("c")
		km.RUnlockKey("c")
		km.LockKey("c")
		km.UnlockKey("c")
	})
	select {
	case <-got:
		t.Fatal("LockKey(a) returned while a reader holds a")
	default:
	}
	km.RUnlockKey("a")
	c09Within(t, "parked writer", func() { <-got })
	if km.TryRLockKey("a") {
		t.Error("TryRLockKey(a) succeeded although a is write-held")
	}
	if km.TryLockKey("a") {
		t.Error("TryLockKey(a) succeeded although a is write-held")
	}

	// readers parked behind the writer get in once it leaves
	var wg sync.WaitGroup
	for i := 0; i < 3; i++ {
		wg.Add(1)
		go func() { defer wg.Done(); km.RLockKey("a"); km.RUnlockKey("a") }()
	}
	time.Sleep(10 * time.Millisecond)
	km.UnlockKey("a")
	c09Within(t, "parked readers", wg.Wait)

	if !km.TryRLockKey("a") {
		t.Error("TryRLockKey(a) failed although a is free")
	}
	km.RUnlockKey("a")
	km.ClearKey("a")
	if !km.TryLockKey("a") {
		t.Error("TryLockKey(a) failed after ClearKey")
	}
	km.UnlockKey("a")
}

// Heavy parking/wake-up traffic on one single key with blocking calls only:
// a lost wake-up in the hand-rolled reader/writer gate would show up as a hang.
func TestC09KeyedRWMutexParkingNoLostWakeup(t *testing.T) {
	var km KeyedRWMutex[string]
	const writersN, readersN, rounds = 4, 6, 3000
	var readers, writers int32
	shared := 0
	var sink int64
	var wg sync.WaitGroup
	for w := 0; w < writersN; w++ {
		wg.Add(1)
		go func() {
			defer wg.Done()
			for i := 0; i < rounds; i++ {
				km.LockKey("k")
				if n := atomic.AddInt32(&writers, 1); n != 1 {
					t.Errorf("%d writers inside", n)
				}
				if n := atomic.LoadInt32(&readers); n != 0 {
					t.Errorf("writer inside with %d readers", n)
				}
				shared++
				atomic.AddInt32(&writers, -1)
				km.UnlockKey("k")
			}
		}()
	}
	for r := 0; r < readersN; r++ {
		wg.Add(1)
		go func() {
			defer wg.Done()
			for i := 0; i < rounds; i++ {
				km.RLockKey("k")
				atomic.AddInt32(&readers, 1)
				if n := atomic.LoadInt32(&writers); n != 0 {
					t.Errorf("reader inside with %d writers", n)
				}
				atomic.AddInt64(&sink, int64(shared))
				atomic.AddInt32(&readers, -1)
				km.RUnlockKey("k")
			}
		}()
	}
	c09Within(t, "workers", wg.Wait)
	if shared != writersN*rounds {
		t.Errorf("shared = %d, want %d", shared, writersN*rounds)
	}
}

// Same for the channel-slot mutex: blocking calls only, one key.
func TestC09KeyedMutexParkingNoLostWakeup(t *testing.T) {
	var km KeyedMutex[string]
	const workers, rounds = 8, 5000
	shared := 0
	var wg sync.WaitGroup
	for w := 0; w < workers; w++ {
		wg.Add(1)
		go func() {
			defer wg.Done()
			for i := 0; i < rounds; i++ {
				km.LockKey("k")
				shared++
				km.UnlockKey("k")
			}
		}()
	}
	c09Within(t, "workers", wg.Wait)
	if shared != workers*rounds {
		t.Errorf("shared = %d, want %d", shared, workers*rounds)
	}
}

// A blocked LockKey shuts the key for new readers (as sync.RWMutex does), the
// readers already inside are not disturbed, and everybody gets through in the end.
func TestC09KeyedRWMutexPendingWriter(t *testing.T) {
	var km KeyedRWMutex[int]
	km.RLockKey(1)
	wgot := make(chan struct{})
	go func() { km.LockKey(1); close(wgot) }()
	time.Sleep(20 * time.Millisecond) // let the writer park
	rgot := make(chan struct{})
	go func() { km.RLockKey(1); close(rgot) }()
	time.Sleep(20 * time.Millisecond)
	select {
	case <-wgot:
		t.Fatal("writer got in while a reader is inside")
	default:
	}
	// other keys are not affected by the queue on key 1
	c09Within(t, "key 2", func() {
		km.RLockKey(2)
		km.RUnlockKey(2)
		if !km.TryLockKey(2) {
			t.Error("TryLockKey(2) failed although 2 is free")
		}
		km.UnlockKey(2)
	})
	km.RUnlockKey(1)
	c09Within(t, "writer", func() { <-wgot })
	select {
	case <-rgot:
		t.Fatal("reader got in while a writer is inside")
	default:
	}
	km.UnlockKey(1)
	c09Within(t, "reader", func() { <-rgot })
	km.RUnlockKey(1)
	if !km.TryLockKey(1) {
		t.Error("TryLockKey(1) failed although 1 is free")
	}
	km.UnlockKey(1)
}
