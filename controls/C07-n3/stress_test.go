// Stress test for the chunked re-implementation of slices.Sorted (change 3).
package slices_test

import (
	"fmt"
	"math"
	"math/rand"
	"sort"
	"testing"

	"gopkg.in/typ.v4/slices"
)

// model3 is the reference: a plain slice kept sorted by lower-bound insertion.
type model3 struct{ vals []int }

func (m *model3) lower(v int) int { return sort.SearchInts(m.vals, v) }
func (m *model3) add(v int) int {
	i := m.lower(v)
	m.vals = append(m.vals, 0)
	copy(m.vals[i+1:], m.vals[i:])
	m.vals[i] = v
	return i
}
func (m *model3) index(v int) int {
	i := m.lower(v)
	if i < len(m.vals) && m.vals[i] == v {
		return i
	}
	return -1
}
func (m *model3) removeAt(i int) { m.vals = append(m.vals[:i], m.vals[i+1:]...) }

func mustPanic3(t *testing.T, what string, f func()) {
	t.Helper()
	defer func() {
		if recover() == nil {
			t.Fatalf("%s: expected a panic", what)
		}
	}()
	f()
}

func checkAll3(t *testing.T, s *slices.Sorted[int], m *model3, step int) {
	t.Helper()
	if s.Len() != len(m.vals) {
		t.Fatalf("step %d: Len=%d want %d", step, s.Len(), len(m.vals))
	}
	for i, want := range m.vals {
		if got := s.Get(i); got != want {
			t.Fatalf("step %d: Get(%d)=%d want %d", step, i, got, want)
		}
	}
	if got, want := s.String(), fmt.Sprint(m.vals); len(m.vals) > 0 && got != want {
		t.Fatalf("step %d: String=%s want %s", step, got, want)
	}
	if len(m.vals) == 0 && s.String() != "[]" {
		t.Fatalf("step %d: String=%s want []", step, s.String())
	}
}

func runHistory3(t *testing.T, rng *rand.Rand, initial, steps, span int, bias float64) {
	input := make([]int, initial)
	for i := range input {
		input[i] = rng.Intn(span)
	}
	keep := append([]int(nil), input...)
	var s slices.Sorted[int]
	if rng.Intn(2) == 0 {
		s = slices.NewSortedOrdered(input...)
	} else {
		s = slices.NewSorted(input, func(a, b int) bool { return a < b })
	}
	m := &model3{vals: append([]int(nil), input...)}
	sort.Ints(m.vals)
	checkAll3(t, &s, m, -1)
	for step := 0; step < steps; step++ {
		v := rng.Intn(span+2) - 1
		switch r := rng.Float64(); {
		case r < bias:
			if got, want := s.Add(v), m.add(v); got != want {
				t.Fatalf("step %d: Add(%d)=%d want %d", step, v, got, want)
			}
		case r < bias+(1-bias)*0.5:
			want := m.index(v)
			if got := s.Remove(v); got != want {
				t.Fatalf("step %d: Remove(%d)=%d want %d", step, v, got, want)
			}
			if want >= 0 {
				m.removeAt(want)
			}
		case r < bias+(1-bias)*0.8:
			if len(m.vals) > 0 {
				i := rng.Intn(len(m.vals))
				s.RemoveAt(i)
				m.removeAt(i)
			}
		default:
			n := len(m.vals)
			mustPanic3(t, "Get(-1)", func() { s.Get(-1) })
			mustPanic3(t, "Get(n)", func() { s.Get(n) })
			mustPanic3(t, "RemoveAt(-1)", func() { s.RemoveAt(-1) })
			mustPanic3(t, "RemoveAt(n)", func() { s.RemoveAt(n + rng.Intn(3)) })
		}
		q := rng.Intn(span+2) - 1
		if got, want := s.Index(q), m.index(q); got != want {
			t.Fatalf("step %d: Index(%d)=%d want %d", step, q, got, want)
		}
		if got, want := s.Contains(q), m.index(q) != -1; got != want {
			t.Fatalf("step %d: Contains(%d)=%v want %v", step, q, got, want)
		}
		if step%17 == 0 || step == steps-1 {
			checkAll3(t, &s, m, step)
		}
	}
	for i := range keep {
		if input[i] != keep[i] {
			t.Fatalf("input slice was modified at %d", i)
		}
	}
}

func TestStress3_RandomHistories(t *testing.T) {
	rng := rand.New(rand.NewSource(3))
	for round := 0; round < 300; round++ {
		initial := []int{0, 1, 5, 24, 25, 32, 33, 100, 500}[rng.Intn(9)]
		span := []int{3, 10, 100, 100000}[rng.Intn(4)]
		bias := []float64{0.2, 0.5, 0.8}[rng.Intn(3)]
		runHistory3(t, rng, initial, 400, span, bias)
	}
}

func TestStress3_GrowThenDrain(t *testing.T) {
	rng := rand.New(rand.NewSource(33))
	runHistory3(t, rng, 0, 6000, 50, 0.9)
	runHistory3(t, rng, 3000, 8000, 1000, 0.1)
	// Monotone insertions exercise the append and front paths.
	s := slices.NewSortedOrdered[int]()
	for i := 0; i < 2000; i++ {
		if got := s.Add(i); got != i {
			t.Fatalf("ascending Add(%d)=%d", i, got)
		}
	}
	for i := -1; i >= -2000; i-- {
		if got := s.Add(i); got != 0 {
			t.Fatalf("descending Add(%d)=%d", i, got)
		}
	}
	for i := 0; i < 4000; i++ {
		if got := s.Get(i); got != i-2000 {
			t.Fatalf("Get(%d)=%d", i, got)
		}
	}
	for s.Len() > 0 {
		i := rng.Intn(s.Len())
		v := s.Get(i)
		if got := s.Remove(v); got != i {
			t.Fatalf("Remove(%d)=%d want %d", v, got, i)
		}
	}
}

type tie3 struct{ key, id int }

// With a less that cannot tell some different values apart only the order
// and the multiset are pinned down, plus: a Remove that reports a position
// took out a value equal to the argument from exactly there, and one that
// reports -1 changed nothing.
func TestStress3_Ties(t *testing.T) {
	rng := rand.New(rand.NewSource(333))
	less := func(a, b tie3) bool { return a.key < b.key }
	for round := 0; round < 200; round++ {
		input := make([]tie3, rng.Intn(80))
		for i := range input {
			input[i] = tie3{rng.Intn(6), rng.Intn(4)}
		}
		keep := append([]tie3(nil), input...)
		s := slices.NewSorted(input, less)
		bag := map[tie3]int{}
		total := len(input)
		for _, v := range input {
			bag[v]++
		}
		for step := 0; step < 300; step++ {
			v := tie3{rng.Intn(6), rng.Intn(4)}
			switch rng.Intn(4) {
			case 0, 1:
				i := s.Add(v)
				if s.Get(i) != v {
					t.Fatalf("Add returned %d but %v is there", i, s.Get(i))
				}
				bag[v]++
				total++
			case 2:
				before := s.Len()
				idx := s.Index(v)
				if s.Contains(v) != (idx != -1) {
					t.Fatalf("Contains disagrees with Index")
				}
				if idx != -1 && s.Get(idx) != v {
					t.Fatalf("Index(%v)=%d holds %v", v, idx, s.Get(idx))
				}
				i := s.Remove(v)
				if i == -1 {
					if s.Len() != before {
						t.Fatalf("Remove=-1 changed the length")
					}
				} else {
					if i != idx || bag[v] == 0 || s.Len() != before-1 {
						t.Fatalf("Remove(%v)=%d idx=%d bag=%d", v, i, idx, bag[v])
					}
					bag[v]--
					total--
				}
			case 3:
				if s.Len() > 0 {
					i := rng.Intn(s.Len())
					bag[s.Get(i)]--
					total--
					s.RemoveAt(i)
				}
			}
			if s.Len() != total {
				t.Fatalf("Len=%d want %d", s.Len(), total)
			}
			seen := map[tie3]int{}
			for i := 0; i < s.Len(); i++ {
				if i > 0 && less(s.Get(i), s.Get(i-1)) {
					t.Fatalf("out of order at %d: %v", i, s)
				}
				seen[s.Get(i)]++
			}
			for k, n := range bag {
				if seen[k] != n {
					t.Fatalf("multiset differs for %v: %d want %d", k, seen[k], n)
				}
			}
		}
		for i := range keep {
			if input[i] != keep[i] {
				t.Fatalf("input slice was modified")
			}
		}
	}
}

func TestStress3_NaNAndCorners(t *testing.T) {
	rng := rand.New(rand.NewSource(3333))
	s := slices.NewSortedOrdered(2, math.NaN(), 1)
	nans, others := 1, 2
	for step := 0; step < 3000; step++ {
		switch rng.Intn(5) {
		case 0:
			s.Add(math.NaN())
			nans++
		case 1, 2:
			s.Add(float64(rng.Intn(20)))
			others++
		case 3:
			if s.Remove(float64(rng.Intn(20))) != -1 {
				others--
			}
		case 4:
			if s.Remove(math.NaN()) != -1 {
				t.Fatalf("NaN is never equal to anything")
			}
		}
		gotNaN := 0
		for i := 0; i < s.Len(); i++ {
			if v := s.Get(i); v != v {
				gotNaN++
			}
			if i > 0 && s.Get(i) < s.Get(i-1) {
				t.Fatalf("neighbours out of order at %d", i)
			}
		}
		if gotNaN != nans || s.Len() != nans+others {
			t.Fatalf("lost or gained values: %d/%d NaN, len %d want %d", gotNaN, nans, s.Len(), nans+others)
		}
	}

	var nilSorted *slices.Sorted[int]
	if nilSorted.Len() != 0 {
		t.Fatalf("nil Len")
	}
	mustPanic3(t, "nil Add", func() { nilSorted.Add(1) })
	mustPanic3(t, "nil Get", func() { nilSorted.Get(0) })
	mustPanic3(t, "nil RemoveAt", func() { nilSorted.RemoveAt(0) })
	var zero slices.Sorted[int]
	if zero.Len() != 0 || zero.String() != "[]" {
		t.Fatalf("zero value: %d %s", zero.Len(), zero.String())
	}
	mustPanic3(t, "zero Add", func() { zero.Add(1) })
	mustPanic3(t, "zero Index", func() { zero.Index(1) })
	mustPanic3(t, "zero Get", func() { zero.Get(0) })
}
