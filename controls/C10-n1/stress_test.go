// Stress test for C10 re-implementation 1. Copy to chans/ (package chans_test) and run
//   go test -race -run C10 ./chans/

package chans_test

import (
	"sync"
	"sync/atomic"
	"testing"
	"time"

	"gopkg.in/typ.v4/chans"
)

// collector receives from a subscription until it is closed and remembers what
// it got, in order.
type collector struct {
	ch   <-chan int
	mu   sync.Mutex
	got  []int
	done chan struct{}
}

func collect(ch <-chan int) *collector {
	c := &collector{ch: ch, done: make(chan struct{})}
	go func() {
		defer close(c.done)
		for v := range ch {
			c.mu.Lock()
			c.got = append(c.got, v)
			c.mu.Unlock()
		}
	}()
	return c
}

func (c *collector) snapshot() []int {
	c.mu.Lock()
	defer c.mu.Unlock()
	return append([]int(nil), c.got...)
}

func (c *collector) waitLen(t *testing.T, n int) {
	t.Helper()
	deadline := time.Now().Add(10 * time.Second)
	for {
		c.mu.Lock()
		l := len(c.got)
		c.mu.Unlock()
		if l >= n {
			return
		}
		if time.Now().After(deadline) {
			t.Fatalf("timed out waiting for %d events, have %d", n, l)
		}
		time.Sleep(100 * time.Microsecond)
	}
}

func (c *collector) waitClosed(t *testing.T) {
	t.Helper()
	select {
	case <-c.done:
	case <-time.After(10 * time.Second):
		t.Fatal("channel was not closed")
	}
}

func exactlyOnce(t *testing.T, name string, got []int, lo, hi int) {
	t.Helper()
	seen := make(map[int]int)
	for _, v := range got {
		seen[v]++
	}
	for v := lo; v < hi; v++ {
		if seen[v] != 1 {
			t.Fatalf("%s: event %d seen %d times (got %d events)", name, v, seen[v], len(got))
		}
	}
	if len(got) != hi-lo {
		t.Fatalf("%s: got %d events, want %d", name, len(got), hi-lo)
	}
}

func TestC10AllVariantsExactlyOnce(t *testing.T) {
	for _, nsubs := range []int{0, 1, 3, 7} {
		for _, timeout := range []time.Duration{0, 5 * time.Second} {
			var pub chans.PubSub[int]
			var timeouts int32
			pub.PubTimeoutAfter = timeout
			pub.OnPubTimeout = func(int) { atomic.AddInt32(&timeouts, 1) }
			var cs []*collector
			for i := 0; i < nsubs; i++ {
				cs = append(cs, collect(pub.SubBuf(i%3)))
			}
			n := 0
			next := func(k int) []int {
				evs := make([]int, k)
				for i := range evs {
					evs[i] = n
					n++
				}
				return evs
			}
			for round := 0; round < 20; round++ {
				pub.PubSync(next(1)[0])
				pub.PubSliceSync(next(5))
				// the Sync variants hand off in order, so everything so far
				// must already be with the channel, at most buffer-size behind
				pub.PubWait(next(1)[0])
				pub.PubSliceWait(next(5))
				pub.Pub(next(1)[0])
				pub.PubSlice(next(5))
				for _, c := range cs {
					c.waitLen(t, n)
				}
			}
			if err := pub.UnsubAll(); err != nil {
				t.Fatal(err)
			}
			for _, c := range cs {
				c.waitClosed(t)
				exactlyOnce(t, "sub", c.snapshot(), 0, n)
			}
			if timeouts != 0 {
				t.Fatalf("unexpected timeouts: %d", timeouts)
			}
		}
	}
}

func TestC10SyncOrderAndHandOffBeforeReturn(t *testing.T) {
	var pub chans.PubSub[int]
	const n = 2000
	// buffers large enough: after the call returns all events must be in the
	// buffer already, nobody is receiving.
	a := pub.SubBuf(3*n + 1)
	b := pub.SubBuf(3*n + 1)
	evs := make([]int, n)
	for i := range evs {
		evs[i] = i
	}
	pub.PubSliceSync(evs)
	if len(a) != n || len(b) != n {
		t.Fatalf("PubSliceSync returned before hand-off: %d %d", len(a), len(b))
	}
	for i := 0; i < n; i++ {
		pub.PubSync(n + i)
	}
	if len(a) != 2*n || len(b) != 2*n {
		t.Fatalf("PubSync returned before hand-off: %d %d", len(a), len(b))
	}
	pub.PubSliceWait(evs)
	pub.PubWait(-1)
	if len(a) != 3*n+1 || len(b) != 3*n+1 {
		t.Fatalf("PubSliceWait or PubWait returned before hand-off: %d %d", len(a), len(b))
	}
	for _, ch := range []<-chan int{a, b} {
		for i := 0; i < 2*n; i++ {
			if v := <-ch; v != i {
				t.Fatalf("out of order: got %d at %d", v, i)
			}
		}
	}
}

func TestC10WaitReturnsAfterHandOffUnbuffered(t *testing.T) {
	var pub chans.PubSub[int]
	var cs []*collector
	for i := 0; i < 4; i++ {
		cs = append(cs, collect(pub.Sub()))
	}
	total := 0
	for round := 0; round < 300; round++ {
		pub.PubWait(total)
		total++
		evs := []int{total, total + 1, total + 2}
		total += 3
		pub.PubSliceWait(evs)
		// unbuffered: handed off means the receiver has taken it; it may not
		// have stored it yet, so allow it that step.
		for _, c := range cs {
			c.waitLen(t, total)
		}
	}
	pub.UnsubAll()
	for _, c := range cs {
		c.waitClosed(t)
		exactlyOnce(t, "sub", c.snapshot(), 0, total)
	}
}

func TestC10TimeoutExactlyOneOutcome(t *testing.T) {
	type variant struct {
		name string
		pub  func(p *chans.PubSub[int], evs []int)
		wait bool
	}
	variants := []variant{
		{"PubSync", func(p *chans.PubSub[int], evs []int) {
			for _, e := range evs {
				p.PubSync(e)
			}
		}, true},
		{"PubSliceSync", func(p *chans.PubSub[int], evs []int) { p.PubSliceSync(evs) }, true},
		{"PubWait", func(p *chans.PubSub[int], evs []int) {
			for _, e := range evs {
				p.PubWait(e)
			}
		}, true},
		{"PubSliceWait", func(p *chans.PubSub[int], evs []int) { p.PubSliceWait(evs) }, true},
		{"Pub", func(p *chans.PubSub[int], evs []int) {
			for _, e := range evs {
				p.Pub(e)
			}
		}, false},
		{"PubSlice", func(p *chans.PubSub[int], evs []int) { p.PubSlice(evs) }, false},
	}
	for _, v := range variants {
		t.Run(v.name, func(t *testing.T) {
			var pub chans.PubSub[int]
			pub.PubTimeoutAfter = 2 * time.Millisecond
			var mu sync.Mutex
			timedOut := map[int]int{}
			calls := 0
			pub.OnPubTimeout = func(ev int) {
				mu.Lock()
				timedOut[ev]++
				calls++
				mu.Unlock()
			}
			// one subscriber with room for 3 events that nobody receives from,
			// one that is received from all the time.
			stuck := pub.SubBuf(3)
			live := collect(pub.SubBuf(1))
			evs := []int{0, 1, 2, 3, 4, 5, 6, 7}
			v.pub(&pub, evs)
			if !v.wait {
				deadline := time.Now().Add(10 * time.Second)
				for {
					mu.Lock()
					c := calls
					mu.Unlock()
					if c+len(stuck) >= len(evs) {
						break
					}
					if time.Now().After(deadline) {
						t.Fatal("outcomes missing")
					}
					time.Sleep(100 * time.Microsecond)
				}
				live.waitLen(t, len(evs))
				time.Sleep(5 * time.Millisecond)
			}
			mu.Lock()
			c := calls
			mu.Unlock()
			if len(stuck) != 3 || c != len(evs)-3 {
				t.Fatalf("stuck subscriber: %d delivered, %d callbacks", len(stuck), c)
			}
			pub.UnsubAll()
			live.waitClosed(t)
			exactlyOnce(t, "live", live.snapshot(), 0, len(evs))
			seen := map[int]int{}
			for ev := range stuck {
				seen[ev]++
			}
			mu.Lock()
			defer mu.Unlock()
			for _, ev := range evs {
				if seen[ev]+timedOut[ev] != 1 {
					t.Fatalf("event %d: %d deliveries and %d callbacks", ev, seen[ev], timedOut[ev])
				}
			}
		})
	}
}

func TestC10CallbackMayUnsubscribe(t *testing.T) {
	var pub chans.PubSub[int]
	pub.PubTimeoutAfter = time.Millisecond
	slow := pub.Sub()
	var once sync.Once
	var unsubErr error
	unsubbed := make(chan struct{})
	pub.OnPubTimeout = func(int) {
		once.Do(func() {
			unsubErr = pub.Unsub(slow)
			close(unsubbed)
		})
	}
	pub.PubWait(1)
	select {
	case <-unsubbed:
	default:
		t.Fatal("PubWait returned before the timeout callback had run")
	}
	if unsubErr != nil {
		t.Fatal(unsubErr)
	}
	if _, ok := <-slow; ok {
		t.Fatal("slow channel got a value")
	}
	pub.Pub(2)
	pub.PubSync(3)
	if err := pub.Unsub(slow); err != chans.ErrAlreadyUnsubscribed {
		t.Fatalf("got %v", err)
	}
}

func TestC10UnsubErrorsAndClose(t *testing.T) {
	var pub, other chans.PubSub[int]
	if err := pub.Unsub(nil); err != chans.ErrSubscriptionNotInitalized {
		t.Fatalf("got %v", err)
	}
	foreign := other.Sub()
	if err := pub.Unsub(foreign); err != chans.ErrAlreadyUnsubscribed {
		t.Fatalf("got %v", err)
	}
	a, b, c := pub.SubBuf(4), pub.SubBuf(4), pub.SubBuf(4)
	pub.PubSync(1)
	if err := pub.Unsub(b); err != nil {
		t.Fatal(err)
	}
	if err := pub.Unsub(b); err != chans.ErrAlreadyUnsubscribed {
		t.Fatalf("got %v", err)
	}
	pub.PubSync(2)
	pub.PubWait(3)
	if v, ok := <-b; !ok || v != 1 {
		t.Fatalf("b: %v %v", v, ok)
	}
	if _, ok := <-b; ok {
		t.Fatal("b not closed or got an event after removal")
	}
	for _, ch := range []<-chan int{a, c} {
		for want := 1; want <= 3; want++ {
			if v := <-ch; v != want {
				t.Fatalf("got %d want %d", v, want)
			}
		}
		select {
		case v, ok := <-ch:
			t.Fatalf("unexpected %v %v", v, ok)
		default:
		}
	}
	// the foreign channel is untouched
	select {
	case v, ok := <-foreign:
		t.Fatalf("foreign: %v %v", v, ok)
	default:
	}
	if err := pub.UnsubAll(); err != nil {
		t.Fatal(err)
	}
	for _, ch := range []<-chan int{a, c} {
		if _, ok := <-ch; ok {
			t.Fatal("not closed")
		}
	}
	if err := pub.Unsub(a); err != chans.ErrAlreadyUnsubscribed {
		t.Fatalf("got %v", err)
	}
	if err := pub.UnsubAll(); err != nil {
		t.Fatal(err)
	}
}

func TestC10WithOnly(t *testing.T) {
	var pub chans.PubSub[int]
	a, b, c := pub.SubBuf(16), pub.SubBuf(16), pub.SubBuf(16)
	only := pub.WithOnly(b)
	only.Pub(1)
	only.PubWait(2)
	only.PubSync(3)
	only.PubSlice([]int{4})
	only.PubSliceWait([]int{5})
	only.PubSliceSync([]int{6})
	deadline := time.Now().Add(10 * time.Second)
	for len(b) != 6 {
		if time.Now().After(deadline) {
			t.Fatalf("b has %d", len(b))
		}
		time.Sleep(100 * time.Microsecond)
	}
	if len(a) != 0 || len(c) != 0 {
		t.Fatal("WithOnly published to others")
	}
	// removal through the parent is seen by the clone: no send on a closed channel
	if err := pub.Unsub(b); err != nil {
		t.Fatal(err)
	}
	only.Pub(7)
	only.PubWait(8)
	only.PubSync(9)
	n := 0
	for range b {
		n++
	}
	if n != 6 {
		t.Fatalf("b got %d", n)
	}
	// and the other way round
	onlyA := pub.WithOnly(a)
	if err := onlyA.Unsub(a); err != nil {
		t.Fatal(err)
	}
	if _, ok := <-a; ok {
		t.Fatal("a not closed")
	}
	pub.Pub(10)
	pub.PubWait(11)
	pub.PubSync(12)
	deadline = time.Now().Add(10 * time.Second)
	for len(c) != 3 {
		if time.Now().After(deadline) {
			t.Fatalf("c has %d", len(c))
		}
		time.Sleep(100 * time.Microsecond)
	}
	none := pub.WithOnly(make(chan int))
	none.PubWait(1)
	none.PubSync(1)
	if len(c) != 3 {
		t.Fatal("WithOnly(unknown) published")
	}
}

// TestC10Churn mixes all publish variants with Sub and Unsub of short-lived
// subscribers. Stable subscribers must get everything exactly once, short-lived
// ones at most once, every removed channel must be closed, nothing may panic.
func TestC10Churn(t *testing.T) {
	for _, timeout := range []time.Duration{0, 50 * time.Microsecond} {
		var pub chans.PubSub[int]
		pub.PubTimeoutAfter = timeout
		var mu sync.Mutex
		timedOut := map[int]int{}
		pub.OnPubTimeout = func(ev int) {
			mu.Lock()
			timedOut[ev]++
			mu.Unlock()
		}
		const stable = 3
		var cs []*collector
		for i := 0; i < stable; i++ {
			cs = append(cs, collect(pub.SubBuf(i)))
		}
		const publishers = 6
		const perPublisher = 300
		var wg sync.WaitGroup
		stop := make(chan struct{})
		var churners sync.WaitGroup
		for g := 0; g < 4; g++ {
			churners.Add(1)
			go func(g int) {
				defer churners.Done()
				for i := 0; ; i++ {
					select {
					case <-stop:
						return
					default:
					}
					ch := pub.SubBuf(i % 2)
					seen := map[int]bool{}
					if g%2 == 0 {
						// receive a little, then unsubscribe while senders may be blocked
						for k := 0; k < i%3; k++ {
							select {
							case v := <-ch:
								if seen[v] {
									t.Errorf("short-lived subscriber got %d twice", v)
								}
								seen[v] = true
							case <-time.After(50 * time.Microsecond):
							}
						}
					}
					var err error
					if g == 3 {
						err = pub.WithOnly(ch).Unsub(ch)
					} else {
						err = pub.Unsub(ch)
					}
					if err != nil {
						t.Errorf("Unsub: %v", err)
					}
					for v := range ch { // must terminate: closed
						if seen[v] {
							t.Errorf("short-lived subscriber got %d twice", v)
						}
						seen[v] = true
					}
					if g == 3 {
						// still listed in pub, but already closed through the clone
						if err := pub.Unsub(ch); err != chans.ErrAlreadyUnsubscribed {
							t.Errorf("second Unsub: %v", err)
						}
					}
				}
			}(g)
		}
		for p := 0; p < publishers; p++ {
			wg.Add(1)
			go func(p int) {
				defer wg.Done()
				base := p * perPublisher
				for i := 0; i < perPublisher; {
					switch p {
					case 0:
						pub.Pub(base + i)
						i++
					case 1:
						pub.PubWait(base + i)
						i++
					case 2:
						pub.PubSync(base + i)
						i++
					case 3:
						pub.PubSlice([]int{base + i, base + i + 1, base + i + 2})
						i += 3
					case 4:
						pub.PubSliceWait([]int{base + i, base + i + 1, base + i + 2})
						i += 3
					case 5:
						pub.PubSliceSync([]int{base + i, base + i + 1, base + i + 2})
						i += 3
					}
				}
			}(p)
		}
		wg.Wait()
		total := publishers * perPublisher
		// every (event, stable subscriber) pair ends in a delivery or a callback
		deadline := time.Now().Add(20 * time.Second)
		for {
			delivered := 0
			for _, c := range cs {
				delivered += len(c.snapshot())
			}
			mu.Lock()
			cb := 0
			for _, n := range timedOut {
				cb += n
			}
			mu.Unlock()
			if timeout == 0 && cb != 0 {
				t.Fatal("callback without timeout")
			}
			// callbacks for short-lived subscribers are counted too, so >=
			if delivered+cb >= total*stable {
				break
			}
			if time.Now().After(deadline) {
				t.Fatalf("delivered %d + callbacks %d < %d", delivered, cb, total*stable)
			}
			time.Sleep(time.Millisecond)
		}
		close(stop)
		churners.Wait()
		pub.UnsubAll()
		for i, c := range cs {
			c.waitClosed(t)
			got := c.snapshot()
			seen := map[int]int{}
			for _, v := range got {
				seen[v]++
				if seen[v] > 1 {
					t.Fatalf("stable %d got %d twice", i, v)
				}
			}
			if timeout == 0 {
				exactlyOnce(t, "stable", got, 0, total)
			}
			// Sync publishers: in publication order
			for _, p := range []int{2, 5} {
				last := -1
				for _, v := range got {
					if v/perPublisher == p {
						if v <= last {
							t.Fatalf("stable %d: sync publisher %d out of order: %d after %d", i, p, v, last)
						}
						last = v
					}
				}
			}
		}
		if timeout > 0 {
			// per event: deliveries to stable subscribers + callbacks >= stable,
			// and no stable subscriber has it twice (checked above)
			mu.Lock()
			for ev := 0; ev < total; ev++ {
				d := 0
				for _, c := range cs {
					for _, v := range c.got {
						if v == ev {
							d++
						}
					}
				}
				if d+timedOut[ev] < stable {
					t.Fatalf("event %d: %d deliveries + %d callbacks", ev, d, timedOut[ev])
				}
			}
			mu.Unlock()
		}
	}
}
