// Stress and conformance test for C19 (channel helpers never lose, duplicate
// or invent a value). Uses only the exported API of package chans.
package chans

import (
	"context"
	"sync"
	"sync/atomic"
	"testing"
	"time"
)

// watchdog fails the test if f does not return within d.
func watchdog(t *testing.T, name string, d time.Duration, f func()) {
	t.Helper()
	done := make(chan struct{})
	go func() { defer close(done); f() }()
	select {
	case <-done:
	case <-time.After(d):
		t.Fatalf("%s: did not return within %v", name, d)
	}
}

type ledger struct {
	mu   sync.Mutex
	sent map[uint64]int
	got  map[uint64]int
}

func newLedger() *ledger {
	return &ledger{sent: map[uint64]int{}, got: map[uint64]int{}}
}
func (l *ledger) markSent(v uint64) { l.mu.Lock(); l.sent[v]++; l.mu.Unlock() }
func (l *ledger) markGot(v uint64)  { l.mu.Lock(); l.got[v]++; l.mu.Unlock() }

func (l *ledger) check(t *testing.T) {
	t.Helper()
	l.mu.Lock()
	defer l.mu.Unlock()
	for v, n := range l.sent {
		if n != 1 {
			t.Errorf("value %#x reported sent %d times", v, n)
		}
		if l.got[v] != 1 {
			t.Errorf("value %#x reported sent but received %d times", v, l.got[v])
		}
	}
	for v, n := range l.got {
		if l.sent[v] == 0 {
			t.Errorf("value %#x received %d times but never reported sent", v, n)
		}
	}
}

// order tracks, per consumer, the last sequence number seen from each
// producer: a FIFO channel can never hand them to one consumer out of order.
type order map[uint64]uint64

func (o order) see(t *testing.T, v uint64) {
	p, seq := v>>32, v&0xffffffff
	if last, ok := o[p]; ok && seq <= last {
		t.Errorf("producer %d: seq %d received after %d", p, seq, last)
	}
	o[p] = seq
}

func stressConservation(t *testing.T, capacity int) {
	const producers, consumers, perProducer = 6, 6, 400
	ch := make(chan uint64, capacity)
	l := newLedger()
	var prodWG, consWG sync.WaitGroup
	var stop atomic.Bool
	for p := 0; p < producers; p++ {
		p := p
		prodWG.Add(1)
		go func() {
			defer prodWG.Done()
			for i := 1; i <= perProducer; i++ {
				v := uint64(p+1)<<32 | uint64(i)
				var ok bool
				switch (i + p) % 4 {
				case 0:
					ok = SendTimeout(ch, v, time.Duration(1+i%50)*time.Microsecond)
				case 1:
					ok = SendTimeout[chan<- uint64](ch, v, time.Millisecond)
				case 2:
					ctx, cancel := context.WithTimeout(context.Background(), time.Duration(1+i%200)*time.Microsecond)
					ok = SendContext(ctx, ch, v)
					cancel()
				case 3:
					ctx, cancel := context.WithCancel(context.Background())
					go func(d time.Duration) { time.Sleep(d); cancel() }(time.Duration(i%100) * time.Microsecond)
					ok = SendContext(ctx, ch, v)
					cancel()
				}
				if ok {
					l.markSent(v)
				}
			}
		}()
	}
	for c := 0; c < consumers; c++ {
		c := c
		consWG.Add(1)
		go func() {
			defer consWG.Done()
			seen := order{}
			buf := make([]uint64, 3)
			for i := 0; !stop.Load(); i++ {
				switch (i + c) % 5 {
				case 0:
					if v, ok := RecvTimeout(ch, time.Duration(1+i%80)*time.Microsecond); ok {
						seen.see(t, v)
						l.markGot(v)
					} else if v != 0 {
						t.Errorf("RecvTimeout: false with non-zero value %#x", v)
					}
				case 1:
					ctx, cancel := context.WithTimeout(context.Background(), time.Duration(1+i%150)*time.Microsecond)
					if v, ok := RecvContext[<-chan uint64](ctx, ch); ok {
						seen.see(t, v)
						l.markGot(v)
					} else if v != 0 {
						t.Errorf("RecvContext: false with non-zero value %#x", v)
					}
					cancel()
				case 2:
					vs := RecvQueued(ch, 1+i%4)
					if len(vs) > 1+i%4 {
						t.Errorf("RecvQueued: %d values over limit %d", len(vs), 1+i%4)
					}
					for _, v := range vs {
						seen.see(t, v)
						l.markGot(v)
					}
				case 3:
					n := RecvQueuedFull[<-chan uint64](ch, buf)
					for _, v := range buf[:n] {
						seen.see(t, v)
						l.markGot(v)
					}
				case 4:
					ctx, cancel := context.WithCancel(context.Background())
					cancel()
					if v, ok := RecvContext[<-chan uint64](ctx, ch); ok {
						seen.see(t, v)
						l.markGot(v)
					}
				}
			}
		}()
	}
	prodWG.Wait()
	stop.Store(true)
	consWG.Wait()
	// Whatever is still in the buffer was sent but not yet received.
	for _, v := range RecvQueued(ch, capacity+1) {
		l.markGot(v)
	}
	if n := len(ch); n != 0 {
		t.Errorf("%d values left after draining", n)
	}
	l.check(t)
	t.Logf("capacity %d: %d of %d values handed over", capacity, len(l.sent), producers*perProducer)
	if len(l.sent) == 0 {
		t.Errorf("nothing was ever sent; the stress test is vacuous")
	}
}

func TestStressConservation(t *testing.T) {
	for _, capacity := range []int{0, 1, 2, 7} {
		watchdog(t, "stressConservation", 30*time.Second, func() { stressConservation(t, capacity) })
	}
}

// On an unbuffered channel with exactly one sender and one receiver whose
// deadlines collide, the two must always agree on whether the value moved.
func TestStressTimerTie(t *testing.T) {
	watchdog(t, "timerTie", 30*time.Second, func() {
		var wg sync.WaitGroup
		for w := 0; w < 8; w++ {
			w := w
			wg.Add(1)
			go func() {
				defer wg.Done()
				ch := make(chan int)
				var trues, falses int
				for i := 1; i <= 300; i++ {
					d := time.Duration(20+(i*7+w)%60) * time.Microsecond
					i, res := i, make(chan bool, 1)
					go func() { res <- SendTimeout(ch, i, d) }()
					if i%3 == 0 {
						time.Sleep(d)
					}
					var v int
					var got bool
					if i%2 == 0 {
						v, got = RecvTimeout(ch, d)
					} else {
						ctx, cancel := context.WithTimeout(context.Background(), d)
						v, got = RecvContext[<-chan int](ctx, ch)
						cancel()
					}
					sent := <-res
					if sent != got {
						t.Errorf("iteration %d: sender says %v, receiver says %v", i, sent, got)
					}
					if got && v != i {
						t.Errorf("iteration %d: received %d", i, v)
					}
					if !got && v != 0 {
						t.Errorf("iteration %d: false with value %d", i, v)
					}
					if got {
						trues++
					} else {
						falses++
					}
				}
				t.Logf("worker %d: %d handed over, %d timed out", w, trues, falses)
			}()
		}
		wg.Wait()
	})
}

func TestTimeoutFalseMeansNotSent(t *testing.T) {
	watchdog(t, "falseMeansNotSent", 10*time.Second, func() {
		full := make(chan int, 2)
		full <- 1
		full <- 2
		for i := 0; i < 50; i++ {
			if SendTimeout(full, 99, 50*time.Microsecond) {
				t.Fatalf("SendTimeout succeeded on a full channel")
			}
			ctx, cancel := context.WithCancel(context.Background())
			cancel()
			if SendContext(ctx, full, 98) {
				t.Fatalf("SendContext succeeded on a full channel")
			}
		}
		if got := RecvQueued(full, 10); len(got) != 2 || got[0] != 1 || got[1] != 2 {
			t.Fatalf("full channel now holds %v", got)
		}
		unbuf := make(chan int)
		if SendTimeout(unbuf, 5, 100*time.Microsecond) {
			t.Fatalf("SendTimeout succeeded without a receiver")
		}
		if got := RecvQueued(unbuf, 1); got != nil {
			t.Fatalf("value %v appeared after a failed send", got)
		}
		var nilch chan int
		if SendTimeout(nilch, 5, 100*time.Microsecond) {
			t.Fatalf("SendTimeout succeeded on a nil channel")
		}
		if v, ok := RecvTimeout(nilch, 100*time.Microsecond); ok || v != 0 {
			t.Fatalf("RecvTimeout on nil channel: %v %v", v, ok)
		}
		if got := RecvQueued(nilch, 3); got != nil {
			t.Fatalf("RecvQueued on nil channel: %v", got)
		}
		if n := RecvQueuedFull(nilch, make([]int, 3)); n != 0 {
			t.Fatalf("RecvQueuedFull on nil channel: %d", n)
		}
	})
}

func TestRecvFalseConsumesNothing(t *testing.T) {
	watchdog(t, "recvFalse", 10*time.Second, func() {
		ch := make(chan int, 1)
		if v, ok := RecvTimeout(ch, 100*time.Microsecond); ok || v != 0 {
			t.Fatalf("RecvTimeout on empty: %v %v", v, ok)
		}
		ctx, cancel := context.WithCancel(context.Background())
		cancel()
		if v, ok := RecvContext[<-chan int](ctx, ch); ok || v != 0 {
			t.Fatalf("RecvContext on empty: %v %v", v, ok)
		}
		ch <- 7
		if v, ok := RecvTimeout(ch, time.Second); !ok || v != 7 {
			t.Fatalf("RecvTimeout on ready: %v %v", v, ok)
		}
		ch <- 8
		if v, ok := RecvContext[<-chan int](context.Background(), ch); !ok || v != 8 {
			t.Fatalf("RecvContext on ready: %v %v", v, ok)
		}
		// Closed counts as false, with the zero value, but only once drained.
		ch <- 9
		close(ch)
		if v, ok := RecvTimeout(ch, time.Second); !ok || v != 9 {
			t.Fatalf("RecvTimeout on closed with one queued: %v %v", v, ok)
		}
		for _, d := range []time.Duration{time.Hour, 0, -1} {
			if v, ok := RecvTimeout(ch, d); ok || v != 0 {
				t.Fatalf("RecvTimeout(%v) on closed: %v %v", d, v, ok)
			}
		}
		if v, ok := RecvContext[<-chan int](context.Background(), ch); ok || v != 0 {
			t.Fatalf("RecvContext on closed: %v %v", v, ok)
		}
	})
}

func TestNonPositiveTimeoutWaits(t *testing.T) {
	watchdog(t, "nonPositive", 10*time.Second, func() {
		for _, d := range []time.Duration{0, -1, -time.Hour} {
			ch := make(chan int)
			sent := make(chan bool, 1)
			go func() { sent <- SendTimeout(ch, 42, d) }()
			select {
			case <-sent:
				t.Fatalf("SendTimeout(%v) returned without a receiver", d)
			case <-time.After(20 * time.Millisecond):
			}
			if v, ok := RecvTimeout(ch, d); !ok || v != 42 {
				t.Fatalf("RecvTimeout(%v): %v %v", d, v, ok)
			}
			if !<-sent {
				t.Fatalf("SendTimeout(%v) returned false", d)
			}
			got := make(chan int, 1)
			go func() { v, _ := RecvTimeout(ch, d); got <- v }()
			select {
			case <-got:
				t.Fatalf("RecvTimeout(%v) returned without a sender", d)
			case <-time.After(20 * time.Millisecond):
			}
			ch <- 43
			if v := <-got; v != 43 {
				t.Fatalf("RecvTimeout(%v) got %d", d, v)
			}
		}
		// A context that can never be cancelled also waits without limit.
		ch := make(chan int)
		sent := make(chan bool, 1)
		go func() { sent <- SendContext(context.Background(), ch, 44) }()
		time.Sleep(10 * time.Millisecond)
		if v, ok := RecvContext[<-chan int](context.TODO(), ch); !ok || v != 44 || !<-sent {
			t.Fatalf("background context pair: %v %v", v, ok)
		}
	})
}

// All capacities, fill levels, open/closed states and limits, sequentially:
// the result must be exactly the FIFO prefix min(fill, limit) of what was
// queued, the rest must still be there, and the call must not block.
func TestRecvQueuedExhaustive(t *testing.T) {
	watchdog(t, "queuedExhaustive", 30*time.Second, func() {
		for capacity := 0; capacity <= 5; capacity++ {
			for fill := 0; fill <= capacity; fill++ {
				for limit := -1; limit <= capacity+2; limit++ {
					for _, closed := range []bool{false, true} {
						for _, full := range []bool{false, true} {
							ch := make(chan int, capacity)
							for i := 0; i < fill; i++ {
								ch <- 100 + i
							}
							if closed {
								close(ch)
							}
							want := fill
							if limit < want {
								want = limit
							}
							if want < 0 {
								want = 0
							}
							var got []int
							if full {
								var buf []int
								if limit >= 0 {
									buf = make([]int, limit)
								}
								n := RecvQueuedFull(ch, buf)
								got = buf[:n]
								for _, v := range buf[n:] {
									if v != 0 {
										t.Errorf("RecvQueuedFull wrote %d beyond its count", v)
									}
								}
							} else {
								got = RecvQueued[<-chan int](ch, limit)
								if len(got) == 0 && got != nil {
									t.Errorf("RecvQueued returned an empty non-nil slice")
								}
							}
							if len(got) != want {
								t.Errorf("cap=%d fill=%d limit=%d closed=%v full=%v: got %v", capacity, fill, limit, closed, full, got)
								continue
							}
							for i, v := range got {
								if v != 100+i {
									t.Errorf("cap=%d fill=%d limit=%d: got %v", capacity, fill, limit, got)
								}
							}
							if len(ch) != fill-want {
								t.Errorf("cap=%d fill=%d limit=%d: %d left, want %d", capacity, fill, limit, len(ch), fill-want)
							}
							for i := want; i < fill; i++ {
								if v := <-ch; v != 100+i {
									t.Errorf("remaining value %d, want %d", v, 100+i)
								}
							}
						}
					}
				}
			}
		}
	})
}

// Queued receivers racing each other and a closer: the union of what they
// return is exactly what was queued, each consumer sees ascending order.
func TestStressQueuedRace(t *testing.T) {
	watchdog(t, "queuedRace", 30*time.Second, func() {
		for round := 0; round < 300; round++ {
			capacity := 1 + round%16
			fill := round % (capacity + 1)
			ch := make(chan int, capacity)
			for i := 1; i <= fill; i++ {
				ch <- i
			}
			var mu sync.Mutex
			count := map[int]int{}
			var wg sync.WaitGroup
			for c := 0; c < 4; c++ {
				c := c
				wg.Add(1)
				go func() {
					defer wg.Done()
					var got []int
					if c%2 == 0 {
						got = RecvQueued(ch, 1+(round+c)%capacity)
					} else {
						buf := make([]int, 1+(round+c)%capacity)
						got = buf[:RecvQueuedFull(ch, buf)]
					}
					mu.Lock()
					defer mu.Unlock()
					for i, v := range got {
						count[v]++
						if i > 0 && got[i-1] >= v {
							t.Errorf("round %d: out of order %v", round, got)
						}
					}
				}()
			}
			if round%2 == 0 {
				close(ch)
			}
			wg.Wait()
			for _, v := range RecvQueued(ch, capacity) {
				count[v]++
			}
			for i := 1; i <= fill; i++ {
				if count[i] != 1 {
					t.Errorf("round %d: value %d seen %d times", round, i, count[i])
				}
			}
			if len(count) != fill {
				t.Errorf("round %d: %d distinct values, want %d", round, len(count), fill)
			}
		}
	})
}

// Lopsided deadlines: one side gives up almost at once, the other is patient.
// This drives the fast non-blocking attempts, the yield-and-retry rounds and
// the last attempt made after the timer fired. Both sides must still agree.
func TestStressLopsidedDeadlines(t *testing.T) {
	watchdog(t, "lopsided", 30*time.Second, func() {
		var wg sync.WaitGroup
		for w := 0; w < 8; w++ {
			w := w
			wg.Add(1)
			go func() {
				defer wg.Done()
				ch := make(chan int, w%2) // unbuffered and one-slot
				var moved int
				for i := 1; i <= 400; i++ {
					tiny := time.Duration(1+i%500) * time.Nanosecond
					long := 200 * time.Microsecond
					sd, rd := tiny, long
					if (i/2)%2 == 0 {
						sd, rd = long, tiny
					}
					i, res := i, make(chan bool, 1)
					go func() {
						if i%5 == 0 {
							ctx, cancel := context.WithTimeout(context.Background(), sd)
							defer cancel()
							res <- SendContext(ctx, ch, i)
							return
						}
						res <- SendTimeout(ch, i, sd)
					}()
					var v int
					var got bool
					if i%7 == 0 {
						ctx, cancel := context.WithTimeout(context.Background(), rd)
						v, got = RecvContext[<-chan int](ctx, ch)
						cancel()
					} else {
						v, got = RecvTimeout(ch, rd)
					}
					sent := <-res
					if !got && sent {
						// Only possible with the one-slot buffer: the value
						// must then be sitting in it, exactly once.
						rest := RecvQueued(ch, 2)
						if len(rest) != 1 || rest[0] != i {
							t.Errorf("iteration %d: sent, not received, channel holds %v", i, rest)
						}
						continue
					}
					if got != sent {
						t.Errorf("iteration %d: sender says %v, receiver says %v (%d)", i, sent, got, v)
					}
					if got && v != i {
						t.Errorf("iteration %d: received %d", i, v)
					}
					if !got && v != 0 {
						t.Errorf("iteration %d: false with value %d", i, v)
					}
					if got {
						moved++
					}
				}
				t.Logf("worker %d (cap %d): %d of 400 handed over", w, w%2, moved)
			}()
		}
		wg.Wait()
	})
}
