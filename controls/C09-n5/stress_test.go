// Stress test for change 5 (sync.Map + sync.Mutex/sync.Cond monitors).
// Uses only the exported API of KeyedMutex and KeyedRWMutex.
package sync2

import (
	"fmt"
	"sync"
	"sync/atomic"
	"testing"
	"time"
)

const stressWait = 40 * time.Second

// within fails the test if f does not return in time.
func within(t *testing.T, what string, f func()) {
	t.Helper()
	done := make(chan struct{})
	go func() { defer close(done); f() }()
	select {
	case <-done:
	case <-time.After(stressWait):
		t.Fatalf("%s: did not finish within %v", what, stressWait)
	}
}

// blocks reports whether f is still running after a short grace period, and
// returns a channel that is closed when f has returned.
func blocks(f func()) (blocked bool, done chan struct{}) {
	done = make(chan struct{})
	go func() { defer close(done); f() }()
	select {
	case <-done:
		return false, done
	case <-time.After(30 * time.Millisecond):
		return true, done
	}
}

// cell is the state guarded by one key.
type cell struct {
	inside  int32 // number of writers inside, via atomics
	readers int32 // number of readers inside, via atomics
	plain   int   // unsynchronised on purpose: the race detector watches it
}

func (c *cell) enterW(t *testing.T) {
	if n := atomic.AddInt32(&c.inside, 1); n != 1 {
		t.Errorf("%d writers inside", n)
	}
	if r := atomic.LoadInt32(&c.readers); r != 0 {
		t.Errorf("writer inside with %d readers", r)
	}
	c.plain++
}

func (c *cell) leaveW() { atomic.AddInt32(&c.inside, -1) }

func (c *cell) enterR(t *testing.T) int {
	atomic.AddInt32(&c.readers, 1)
	if w := atomic.LoadInt32(&c.inside); w != 0 {
		t.Errorf("reader inside with %d writers", w)
	}
	return c.plain // racy read unless writers are excluded
}

func (c *cell) leaveR() { atomic.AddInt32(&c.readers, -1) }

func TestStress5_MutexExclusion(t *testing.T) {
	const G, N, K = 8, 60000, 3
	var km KeyedMutex[int]
	cells := make([]cell, K)
	var got [K]int64
	within(t, "mutex exclusion", func() {
		var wg sync.WaitGroup
		for g := 0; g < G; g++ {
			wg.Add(1)
			go func(g int) {
				defer wg.Done()
				for i := 0; i < N; i++ {
					k := (g + i) % K
					if i%3 == 0 {
						if !km.TryLockKey(k) {
							continue
						}
					} else {
						km.LockKey(k)
					}
					cells[k].enterW(t)
					atomic.AddInt64(&got[k], 1)
					cells[k].leaveW()
					km.UnlockKey(k)
				}
			}(g)
		}
		wg.Wait()
	})
	for k := range cells {
		if int64(cells[k].plain) != got[k] {
			t.Errorf("key %d: %d increments, want %d", k, cells[k].plain, got[k])
		}
		if !km.TryLockKey(k) {
			t.Errorf("key %d not free at the end", k)
		}
	}
}

func TestStress5_FreshKeySimultaneous(t *testing.T) {
	const rounds, G = 20000, 4
	var km KeyedMutex[string]
	var rw KeyedRWMutex[string]
	within(t, "fresh keys", func() {
		for r := 0; r < rounds; r++ {
			key := fmt.Sprint("k", r)
			var c, c2 cell
			start := make(chan struct{})
			var wg sync.WaitGroup
			for g := 0; g < G; g++ {
				wg.Add(1)
				go func(g int) {
					defer wg.Done()
					<-start
					km.LockKey(key)
					c.enterW(t)
					c.leaveW()
					km.UnlockKey(key)
					if g%2 == 0 {
						rw.LockKey(key)
						c2.enterW(t)
						c2.leaveW()
						rw.UnlockKey(key)
					} else {
						rw.RLockKey(key)
						c2.enterR(t)
						c2.leaveR()
						rw.RUnlockKey(key)
					}
				}(g)
			}
			close(start)
			wg.Wait()
			if c.plain != G || c2.plain != G/2 {
				t.Fatalf("round %d: %d, %d", r, c.plain, c2.plain)
			}
			if r%2 == 0 {
				km.ClearKey(key)
				rw.ClearKey(key)
			}
		}
	})
}

func TestStress5_RWExclusion(t *testing.T) {
	const G, N, K = 8, 60000, 3
	var km KeyedRWMutex[int]
	cells := make([]cell, K)
	var writes [K]int64
	var overlap int32 // set once two readers were seen inside together
	within(t, "rw exclusion", func() {
		var wg sync.WaitGroup
		for g := 0; g < G; g++ {
			wg.Add(1)
			go func(g int) {
				defer wg.Done()
				for i := 0; i < N; i++ {
					k := (g + i) % K
					c := &cells[k]
					switch (g + i*7) % 8 {
					case 0: // writer
						km.LockKey(k)
						c.enterW(t)
						atomic.AddInt64(&writes[k], 1)
						c.leaveW()
						km.UnlockKey(k)
					case 1: // try-writer
						if km.TryLockKey(k) {
							c.enterW(t)
							atomic.AddInt64(&writes[k], 1)
							c.leaveW()
							km.UnlockKey(k)
						}
					case 2, 3: // try-reader
						if km.TryRLockKey(k) {
							c.enterR(t)
							c.leaveR()
							km.RUnlockKey(k)
						}
					default: // reader
						km.RLockKey(k)
						c.enterR(t)
						if atomic.LoadInt32(&c.readers) > 1 {
							atomic.StoreInt32(&overlap, 1)
						}
						c.leaveR()
						km.RUnlockKey(k)
					}
				}
			}(g)
		}
		wg.Wait()
	})
	for k := range cells {
		if int64(cells[k].plain) != writes[k] {
			t.Errorf("key %d: %d writes, want %d", k, cells[k].plain, writes[k])
		}
		if !km.TryLockKey(k) {
			t.Errorf("key %d not free at the end", k)
		}
	}
	t.Logf("readers overlapped: %v", overlap == 1)
}

func TestStress5_TrySemantics(t *testing.T) {
	var km KeyedMutex[string]
	var rw KeyedRWMutex[string]
	for r := 0; r < 200; r++ {
		k := fmt.Sprint("t", r%5)
		if !km.TryLockKey(k) {
			t.Fatal("TryLockKey on a free key failed")
		}
		if km.TryLockKey(k) {
			t.Fatal("TryLockKey on a held key succeeded")
		}
		km.UnlockKey(k)
		km.LockKey(k)
		if km.TryLockKey(k) {
			t.Fatal("TryLockKey on a held key succeeded")
		}
		km.UnlockKey(k)

		if !rw.TryLockKey(k) {
			t.Fatal("rw TryLockKey on a free key failed")
		}
		if rw.TryLockKey(k) || rw.TryRLockKey(k) {
			t.Fatal("try on a write-held key succeeded")
		}
		rw.UnlockKey(k)
		if !rw.TryRLockKey(k) {
			t.Fatal("TryRLockKey on a free key failed")
		}
		if !rw.TryRLockKey(k) {
			t.Fatal("second TryRLockKey failed with only a reader inside")
		}
		rw.RLockKey(k) // a third reader, blocking flavour, must not block
		if rw.TryLockKey(k) {
			t.Fatal("TryLockKey on a read-held key succeeded")
		}
		rw.RUnlockKey(k)
		rw.RUnlockKey(k)
		if rw.TryLockKey(k) {
			t.Fatal("TryLockKey succeeded with one reader left")
		}
		rw.RUnlockKey(k)
		if !rw.TryLockKey(k) {
			t.Fatal("TryLockKey failed after the last reader left")
		}
		rw.UnlockKey(k)
		if r%3 == 0 {
			km.ClearKey(k)
			rw.ClearKey(k)
		}
	}
}

func TestStress5_BlockingAndIndependence(t *testing.T) {
	var km KeyedMutex[string]
	var rw KeyedRWMutex[string]

	// A held key blocks LockKey until UnlockKey, and other keys stay usable
	// while one goroutine holds "a" and another one waits for it.
	km.LockKey("a")
	blocked, done := blocks(func() { km.LockKey("a") })
	if !blocked {
		t.Fatal("LockKey on a held key did not block")
	}
	within(t, "other key of KeyedMutex", func() {
		km.LockKey("b")
		if km.TryLockKey("b") {
			t.Error("b locked twice")
		}
		km.UnlockKey("b")
		if !km.TryLockKey("never seen") {
			t.Error("TryLockKey on a new key failed while a is held")
		}
		km.UnlockKey("never seen")
	})
	if km.TryLockKey("a") {
		t.Fatal("TryLockKey(a) succeeded while a is held and awaited")
	}
	km.UnlockKey("a")
	within(t, "waiter on a", func() { <-done })
	if km.TryLockKey("a") {
		t.Fatal("the waiter should hold a now")
	}
	km.UnlockKey("a")

	// Same for the RW flavour: a writer holds "a", a reader and a writer wait.
	rw.LockKey("a")
	b1, d1 := blocks(func() { rw.RLockKey("a") })
	b2, d2 := blocks(func() { rw.LockKey("a"); rw.UnlockKey("a") })
	if !b1 || !b2 {
		t.Fatal("RLockKey/LockKey on a write-held key did not block")
	}
	within(t, "other key of KeyedRWMutex", func() {
		rw.RLockKey("b")
		rw.RLockKey("b")
		rw.RUnlockKey("b")
		rw.RUnlockKey("b")
		rw.LockKey("b")
		rw.UnlockKey("b")
		if !rw.TryLockKey("c") {
			t.Error("TryLockKey on a new key failed")
		}
		rw.UnlockKey("c")
		if !rw.TryRLockKey("c") {
			t.Error("TryRLockKey on a free key failed")
		}
		rw.RUnlockKey("c")
	})
	rw.UnlockKey("a")
	// The order in which the waiting reader and writer get in is not fixed:
	// the reader never lets go by itself, so only wait for the reader here.
	within(t, "waiting reader on a", func() { <-d1 })
	if rw.TryLockKey("a") {
		t.Fatal("TryLockKey(a) succeeded while a reader holds a")
	}
	b3, d3 := blocks(func() { rw.LockKey("a") })
	if !b3 {
		t.Fatal("LockKey on a read-held key did not block")
	}
	rw.RUnlockKey("a")
	within(t, "writer after last reader", func() { <-d3 })
	if rw.TryRLockKey("a") || rw.TryLockKey("a") {
		t.Fatal("try succeeded while a writer holds a")
	}
	rw.UnlockKey("a") // lets go of the lock taken by the goroutine of d3
	within(t, "waiting writer on a", func() { <-d2 })
	if !rw.TryLockKey("a") {
		t.Fatal("a is not free at the end")
	}
	rw.UnlockKey("a")
}

// Many waiters queue on one key and are handed the lock one after another; a
// lost wake-up would leave the test hanging.
func TestStress5_Handoff(t *testing.T) {
	const G, N = 4, 60000
	var km KeyedMutex[int]
	var rw KeyedRWMutex[int]
	var c, c2 cell
	within(t, "handoff", func() {
		var wg sync.WaitGroup
		for g := 0; g < G; g++ {
			wg.Add(2)
			go func() {
				defer wg.Done()
				for i := 0; i < N; i++ {
					km.LockKey(7)
					c.enterW(t)
					c.leaveW()
					km.UnlockKey(7)
				}
			}()
			go func(g int) {
				defer wg.Done()
				for i := 0; i < N; i++ {
					if (g+i)%2 == 0 {
						rw.LockKey(7)
						c2.enterW(t)
						c2.leaveW()
						rw.UnlockKey(7)
					} else {
						rw.RLockKey(7)
						c2.enterR(t)
						c2.leaveR()
						rw.RUnlockKey(7)
					}
				}
			}(g)
		}
		wg.Wait()
	})
	if c.plain != G*N || c2.plain != G*N/2 {
		t.Fatalf("got %d and %d critical sections", c.plain, c2.plain)
	}
}
