// Differential stress test: lists.Ring against container/ring.
package lists_test

import (
	"container/ring"
	"math"
	"math/rand"
	"sync"
	"testing"
	"time"

	"gopkg.in/typ.v4/lists"
)

// ringPair holds the two worlds: every handle exists once in each.
type ringWorld struct {
	t    *testing.T
	mine []*lists.Ring[int]
	std  []*ring.Ring
	mi   map[*lists.Ring[int]]int
	si   map[*ring.Ring]int
	next int // next value to hand out
}

func newRingWorld(t *testing.T) *ringWorld {
	return &ringWorld{t: t, mi: map[*lists.Ring[int]]int{}, si: map[*ring.Ring]int{}}
}

func (w *ringWorld) add(m *lists.Ring[int], s *ring.Ring) int {
	i := len(w.mine)
	w.mine = append(w.mine, m)
	w.std = append(w.std, s)
	w.mi[m] = i
	w.si[s] = i
	return i
}

// same checks that two returned handles denote the same element.
func (w *ringWorld) same(op string, m *lists.Ring[int], s *ring.Ring) {
	w.t.Helper()
	if (m == nil) != (s == nil) {
		w.t.Fatalf("%s: nil mismatch: mine=%v std=%v", op, m, s)
	}
	if m == nil {
		return
	}
	a, ok1 := w.mi[m]
	b, ok2 := w.si[s]
	if !ok1 || !ok2 || a != b {
		w.t.Fatalf("%s: handle mismatch: mine=#%d(%v) std=#%d(%v)", op, a, ok1, b, ok2)
	}
}

// newRing creates a ring of n elements in both worlds and registers all of
// its elements, with values.
func (w *ringWorld) newRing(n int) {
	m, s := lists.NewRing[int](n), ring.New(n)
	if (m == nil) != (s == nil) {
		w.t.Fatalf("NewRing(%d): nil mismatch", n)
	}
	for i := 0; i < n; i++ {
		w.next++
		m.Value, s.Value = w.next, w.next
		w.add(m, s)
		m, s = m.Next(), s.Next()
	}
}

func (w *ringWorld) newZero(kind int) {
	w.next++
	switch kind {
	case 0: // zero value, Value set afterwards
		m, s := new(lists.Ring[int]), new(ring.Ring)
		m.Value, s.Value = w.next, w.next
		w.add(m, s)
	default: // composite literal
		w.add(&lists.Ring[int]{Value: w.next}, &ring.Ring{Value: w.next})
	}
}

func (w *ringWorld) doValues(i int) {
	var a, b []int
	w.mine[i].Do(func(v int) { a = append(a, v) })
	w.std[i].Do(func(v any) { b = append(b, v.(int)) })
	if len(a) != len(b) {
		w.t.Fatalf("Do(#%d): %d values, want %d", i, len(a), len(b))
	}
	for k := range a {
		if a[k] != b[k] {
			w.t.Fatalf("Do(#%d)[%d] = %d, want %d", i, k, a[k], b[k])
		}
	}
}

// checkAll compares everything observable for every handle.
func (w *ringWorld) checkAll(withDo bool) {
	w.t.Helper()
	for i := range w.mine {
		m, s := w.mine[i], w.std[i]
		if a, b := m.Len(), s.Len(); a != b {
			w.t.Fatalf("#%d.Len() = %d, want %d", i, a, b)
		}
		w.same("Next", m.Next(), s.Next())
		w.same("Prev", m.Prev(), s.Prev())
		if m.Value != s.Value.(int) {
			w.t.Fatalf("#%d.Value = %d, want %v", i, m.Value, s.Value)
		}
		if withDo {
			w.doValues(i)
		}
	}
}

// count picks a step count: small, around multiples of the length, huge.
func count(rng *rand.Rand, length int) int {
	if length < 1 {
		length = 1
	}
	var n int
	switch rng.Intn(6) {
	case 0:
		n = rng.Intn(7)
	case 1:
		n = length*rng.Intn(4) + rng.Intn(3) - 1
	case 2:
		n = length/2 + rng.Intn(3) - 1
	case 3:
		n = rng.Intn(3*length + 1)
	case 4:
		n = rng.Intn(200)
	default:
		n = length - rng.Intn(2)
	}
	if rng.Intn(2) == 0 {
		n = -n
	}
	return n
}

func (w *ringWorld) step(rng *rand.Rand) {
	if len(w.mine) == 0 {
		w.newRing(1 + rng.Intn(5))
		return
	}
	i := rng.Intn(len(w.mine))
	m, s := w.mine[i], w.std[i]
	switch op := rng.Intn(100); {
	case op < 4:
		if len(w.mine) < 120 {
			w.newRing(rng.Intn(9) - 1) // includes n <= 0
		}
	case op < 10:
		if len(w.mine) < 120 {
			w.newZero(rng.Intn(2))
		}
	case op < 18:
		w.same("Next", m.Next(), s.Next())
	case op < 26:
		w.same("Prev", m.Prev(), s.Prev())
	case op < 44:
		n := count(rng, s.Len())
		w.same("Move", m.Move(n), s.Move(n))
	case op < 52:
		if a, b := m.Len(), s.Len(); a != b {
			w.t.Fatalf("#%d.Len() = %d, want %d", i, a, b)
		}
	case op < 56:
		w.doValues(i)
	case op < 80:
		// Link with: itself, a neighbour, an element of the same ring,
		// any element, nil.
		var m2 *lists.Ring[int]
		var s2 *ring.Ring
		switch rng.Intn(8) {
		case 0:
			m2, s2 = m, s
		case 1:
			m2, s2 = m.Next(), s.Next()
		case 2:
			m2, s2 = m.Prev(), s.Prev()
		case 3:
			n := count(rng, s.Len())
			m2, s2 = m.Move(n), s.Move(n)
		case 4:
			// nil
		default:
			j := rng.Intn(len(w.mine))
			m2, s2 = w.mine[j], w.std[j]
		}
		w.same("Link arg", m2, s2)
		w.same("Link", m.Link(m2), s.Link(s2))
	case op < 96:
		n := count(rng, s.Len())
		w.same("Unlink", m.Unlink(n), s.Unlink(n))
	default:
		// nil receivers are fine for Len and Do
		var mn *lists.Ring[int]
		var sn *ring.Ring
		if mn.Len() != sn.Len() {
			w.t.Fatalf("nil.Len() = %d", mn.Len())
		}
		mn.Do(func(int) { w.t.Fatalf("Do on nil ring called f") })
	}
}

func TestStressRingDifferential(t *testing.T) {
	deadline := time.Now().Add(20 * time.Second)
	for seed := int64(1); seed <= 400 && time.Now().Before(deadline); seed++ {
		rng := rand.New(rand.NewSource(seed))
		w := newRingWorld(t)
		steps := 200 + rng.Intn(600)
		for k := 0; k < steps; k++ {
			w.step(rng)
			if k%16 == 0 {
				w.checkAll(k%64 == 0)
			}
		}
		w.checkAll(true)
	}
}

// Big rings cut into pieces and glued together again, so that both the
// "smaller side gets relabelled" branches of Link are taken with sizes that
// matter, and Move is asked for far more than one turn.
func TestStressRingBig(t *testing.T) {
	rng := rand.New(rand.NewSource(99))
	w := newRingWorld(t)
	w.newRing(700)
	w.newRing(300)
	w.newRing(1)
	for k := 0; k < 3000; k++ {
		i := rng.Intn(len(w.mine))
		m, s := w.mine[i], w.std[i]
		switch rng.Intn(4) {
		case 0:
			j := rng.Intn(len(w.mine))
			w.same("Link", m.Link(w.mine[j]), s.Link(w.std[j]))
		case 1:
			n := rng.Intn(1500)
			w.same("Unlink", m.Unlink(n), s.Unlink(n))
		case 2:
			n := rng.Intn(5000) - 2500
			w.same("Move", m.Move(n), s.Move(n))
		default:
			if a, b := m.Len(), s.Len(); a != b {
				t.Fatalf("Len = %d, want %d", a, b)
			}
		}
		if k%500 == 0 {
			w.checkAll(false)
		}
	}
	w.checkAll(true)
}

// Every pair (r, s) over two small rings plus two untouched zero values.
func TestStressRingLinkExhaustive(t *testing.T) {
	for a := 1; a <= 5; a++ {
		for b := 0; b <= 4; b++ {
			total := a + b + 2
			for i := 0; i < total; i++ {
				for j := -1; j < total; j++ {
					w := newRingWorld(t)
					w.newRing(a)
					w.newRing(b)
					w.newZero(0)
					w.newZero(1)
					if j < 0 {
						w.same("Link nil", w.mine[i].Link(nil), w.std[i].Link(nil))
					} else {
						w.same("Link", w.mine[i].Link(w.mine[j]), w.std[i].Link(w.std[j]))
					}
					w.checkAll(true)
					// and once more on the result, with counts
					for n := -7; n <= 7; n++ {
						for k := range w.mine {
							w.same("Move", w.mine[k].Move(n), w.std[k].Move(n))
						}
					}
					k := (i + 1) % total
					w.same("Unlink", w.mine[k].Unlink(a), w.std[k].Unlink(a))
					w.checkAll(true)
				}
			}
		}
	}
}

// Counts no step-by-step walk could ever serve: the result must be the one
// n % Len() steps give.
func TestStressRingHugeCounts(t *testing.T) {
	// An implementation that walks step by step (container/ring does)
	// cannot be asked for these counts; find out with a count it can serve.
	probe := lists.NewRing[int](7)
	start := time.Now()
	probe.Move(1 << 23)
	if time.Since(start) > 5*time.Millisecond {
		t.Skip("Move walks every step; huge counts not applicable")
	}
	for _, size := range []int{1, 2, 3, 7, 10, 64} {
		r := lists.NewRing[int](size)
		at := map[*lists.Ring[int]]int{}
		for i, p := 0, r; i < size; i, p = i+1, p.Next() {
			p.Value = i
			at[p] = i
		}
		for _, n := range []int{math.MaxInt, math.MaxInt - 1, math.MinInt, math.MinInt + 1, 1 << 40, -(1 << 40)} {
			want := n % size
			if want < 0 {
				want += size
			}
			if got := at[r.Move(n)]; got != want {
				t.Fatalf("size %d: Move(%d) landed on %d, want %d", size, n, got, want)
			}
		}
		if r.Len() != size {
			t.Fatalf("Len = %d, want %d", r.Len(), size)
		}
	}
}

// Ring structs copied by value are not members of the ring they were copied
// from. Operations that terminate in container/ring (Next, Prev, Move, Link)
// must still give the same answers.
func TestStressRingCopiedStruct(t *testing.T) {
	for size := 1; size <= 4; size++ {
		for n := -9; n <= 9; n++ {
			w := newRingWorld(t)
			w.newRing(size)
			w.newRing(3)
			mc, sc := *w.mine[0], *w.std[0]
			c := w.add(&mc, &sc)
			w.same("copy.Next", w.mine[c].Next(), w.std[c].Next())
			w.same("copy.Prev", w.mine[c].Prev(), w.std[c].Prev())
			w.same("copy.Move", w.mine[c].Move(n), w.std[c].Move(n))
			// link the copy in front of the second ring
			w.same("copy.Link", w.mine[c].Link(w.mine[size]), w.std[c].Link(w.std[size]))
			for k := range w.mine {
				w.same("Next", w.mine[k].Next(), w.std[k].Next())
				w.same("Prev", w.mine[k].Prev(), w.std[k].Prev())
				w.same("Move", w.mine[k].Move(n), w.std[k].Move(n))
			}
			// a sound ring linked to the damaged structure
			w.newRing(2)
			last := len(w.mine) - 1
			w.same("Link", w.mine[last].Link(w.mine[1%size]), w.std[last].Link(w.std[1%size]))
			for k := range w.mine {
				w.same("Move", w.mine[k].Move(n), w.std[k].Move(n))
			}
		}
	}
}

// Read-only use of an initialized ring from several goroutines is free of
// data races in container/ring and has to stay so.
func TestStressRingConcurrentReaders(t *testing.T) {
	const size = 257
	r := lists.NewRing[int](size)
	for i, p := 0, r; i < size; i, p = i+1, p.Next() {
		p.Value = i
	}
	r.Link(r.Move(40)) // drop a piece, then cut another out and put it back elsewhere
	cut := r.Unlink(100)
	r.Prev().Link(cut)
	var wg sync.WaitGroup
	for g := 0; g < 8; g++ {
		wg.Add(1)
		go func(g int) {
			defer wg.Done()
			rng := rand.New(rand.NewSource(int64(g)))
			p := r
			for k := 0; k < 3000; k++ {
				n := rng.Intn(4*size) - 2*size
				q := p.Move(n)
				if back := q.Move(-n); back != p {
					t.Errorf("Move(%d) then Move(%d) did not come back", n, -n)
					return
				}
				if l := q.Len(); l != p.Len() {
					t.Errorf("Len = %d", l)
					return
				}
				if k%100 == 0 {
					c := 0
					q.Do(func(int) { c++ })
					if c != q.Len() {
						t.Errorf("Do visited %d of %d", c, q.Len())
						return
					}
				}
				p = q.Next().Prev().Prev()
			}
		}(g)
	}
	wg.Wait()
}
