package avl

import (
	"fmt"
	"math/rand"
	"sort"
	"testing"
)

// s3Model is the reference: a sorted slice holding the multiset.
type s3Model struct{ vals []int }

func (m *s3Model) add(v int) {
	i := sort.SearchInts(m.vals, v)
	m.vals = append(m.vals, 0)
	copy(m.vals[i+1:], m.vals[i:])
	m.vals[i] = v
}

func (m *s3Model) remove(v int) bool {
	i := sort.SearchInts(m.vals, v)
	if i == len(m.vals) || m.vals[i] != v {
		return false
	}
	m.vals = append(m.vals[:i], m.vals[i+1:]...)
	return true
}

func (m *s3Model) contains(v int) bool {
	i := sort.SearchInts(m.vals, v)
	return i < len(m.vals) && m.vals[i] == v
}

func (m *s3Model) clone() *s3Model {
	return &s3Model{vals: append([]int(nil), m.vals...)}
}

// s3CheckShape verifies the structural invariants of a subtree and returns
// its size and height.
func s3CheckShape[T comparable](t *testing.T, n *node[T], cmp func(a, b T) int) (size, height int) {
	if n == nil {
		return 0, -1
	}
	ls, lh := s3CheckShape(t, n.left, cmp)
	rs, rh := s3CheckShape(t, n.right, cmp)
	size = 1 + ls + rs
	height = lh
	if rh > height {
		height = rh
	}
	height++
	if n.size != size {
		t.Fatalf("node %v: cached size %d, real size %d", n.value, n.size, size)
	}
	if n.height != height {
		t.Fatalf("node %v: cached height %d, real height %d", n.value, n.height, height)
	}
	lw, rw := ls+1, rs+1
	if lw > wbDelta*rw || rw > wbDelta*lw {
		t.Fatalf("node %v: out of balance, weights %d and %d", n.value, lw, rw)
	}
	if n.left != nil && cmp(n.left.value, n.value) > 0 {
		t.Fatalf("node %v: left child %v is bigger", n.value, n.left.value)
	}
	if n.right != nil && cmp(n.right.value, n.value) < 0 {
		t.Fatalf("node %v: right child %v is smaller", n.value, n.right.value)
	}
	return size, height
}

// s3Reference produces the three traversals by plain recursion on the nodes.
func s3Reference[T comparable](n *node[T], pre, in, post *[]T) {
	if n == nil {
		return
	}
	*pre = append(*pre, n.value)
	s3Reference(n.left, pre, in, post)
	*in = append(*in, n.value)
	s3Reference(n.right, pre, in, post)
	*post = append(*post, n.value)
}

func s3Equal[T comparable](a, b []T) bool {
	if len(a) != len(b) {
		return false
	}
	for i := range a {
		if a[i] != b[i] {
			return false
		}
	}
	return true
}

func s3Nodes[T comparable](n *node[T], into map[*node[T]]bool) {
	if n == nil {
		return
	}
	into[n] = true
	s3Nodes(n.left, into)
	s3Nodes(n.right, into)
}

// s3Verify compares a tree against the model, clause by clause.
func s3Verify(t *testing.T, tree *Tree[int], m *s3Model, full bool) {
	t.Helper()
	if tree.Len() != len(m.vals) {
		t.Fatalf("Len()=%d, model has %d", tree.Len(), len(m.vals))
	}
	if !full {
		return
	}
	s3CheckShape(t, tree.root, tree.compare)
	var pre, in, post []int
	s3Reference(tree.root, &pre, &in, &post)
	if !s3Equal(in, m.vals) {
		t.Fatalf("in-order %v, model %v", in, m.vals)
	}
	if got := tree.SliceInOrder(); !s3Equal(got, in) {
		t.Fatalf("SliceInOrder %v, want %v", got, in)
	}
	if got := tree.SlicePreOrder(); !s3Equal(got, pre) {
		t.Fatalf("SlicePreOrder %v, want %v", got, pre)
	}
	if got := tree.SlicePostOrder(); !s3Equal(got, post) {
		t.Fatalf("SlicePostOrder %v, want %v", got, post)
	}
	var w []int
	tree.WalkInOrder(func(v int) { w = append(w, v) })
	if !s3Equal(w, in) {
		t.Fatalf("WalkInOrder %v, want %v", w, in)
	}
	w = nil
	tree.WalkPreOrder(func(v int) { w = append(w, v) })
	if !s3Equal(w, pre) {
		t.Fatalf("WalkPreOrder %v, want %v", w, pre)
	}
	w = nil
	tree.WalkPostOrder(func(v int) { w = append(w, v) })
	if !s3Equal(w, post) {
		t.Fatalf("WalkPostOrder %v, want %v", w, post)
	}
	if got, want := tree.String(), fmt.Sprint(m.vals); got != want {
		t.Fatalf("String()=%s, want %s", got, want)
	}
}

func s3History(t *testing.T, seed int64, steps, valueRange int) {
	rng := rand.New(rand.NewSource(seed))
	tree := NewOrdered[int]()
	cur, m := &tree, &s3Model{}
	for step := 0; step < steps; step++ {
		full := valueRange <= 64 || step%97 == 0
		switch op := rng.Intn(100); {
		case op < 45:
			v := rng.Intn(valueRange)
			cur.Add(v)
			m.add(v)
			if !cur.Contains(v) {
				t.Fatalf("seed %d step %d: Contains(%d) false after Add", seed, step, v)
			}
		case op < 85:
			v := rng.Intn(valueRange+2) - 1 // absent values included
			var before []int
			if full {
				before = cur.SlicePreOrder()
			}
			want := m.remove(v)
			if got := cur.Remove(v); got != want {
				t.Fatalf("seed %d step %d: Remove(%d)=%v, want %v", seed, step, v, got, want)
			}
			if !want && full && !s3Equal(before, cur.SlicePreOrder()) {
				t.Fatalf("seed %d step %d: failed Remove(%d) changed the tree", seed, step, v)
			}
		case op < 93:
			v := rng.Intn(valueRange+2) - 1
			if got, want := cur.Contains(v), m.contains(v); got != want {
				t.Fatalf("seed %d step %d: Contains(%d)=%v, want %v", seed, step, v, got, want)
			}
		case op < 94:
			cur.Clear()
			m = &s3Model{}
		default:
			// Clone, then check the two trees share nothing, then carry
			// on with one of the two and keep checking the other one.
			clone := cur.Clone()
			cm := m.clone()
			s3Verify(t, &clone, cm, true)
			a, b := map[*node[int]]bool{}, map[*node[int]]bool{}
			s3Nodes(cur.root, a)
			s3Nodes(clone.root, b)
			for n := range a {
				if b[n] {
					t.Fatalf("seed %d step %d: clone shares node %v", seed, step, n)
				}
			}
			for i := 0; i < 8; i++ {
				v := rng.Intn(valueRange)
				if rng.Intn(2) == 0 {
					clone.Add(v)
					cm.add(v)
				} else if clone.Remove(v) != cm.remove(v) {
					t.Fatalf("seed %d step %d: Remove on clone disagrees", seed, step)
				}
			}
			s3Verify(t, &clone, cm, true)
			s3Verify(t, cur, m, true)
			if rng.Intn(2) == 0 {
				cur, m = &clone, cm
			}
		}
		s3Verify(t, cur, m, full)
	}
}

func TestStress3RandomHistories(t *testing.T) {
	for seed := int64(1); seed <= 40; seed++ {
		s3History(t, seed, 600, 8) // many duplicates
	}
	for seed := int64(100); seed < 120; seed++ {
		s3History(t, seed, 1500, 64)
	}
	for seed := int64(200); seed < 203; seed++ {
		s3History(t, seed, 20000, 100000) // big, mostly distinct
	}
}

func TestStress3MonotoneAndDrain(t *testing.T) {
	for _, n := range []int{0, 1, 2, 3, 7, 100, 5000} {
		tree := NewOrdered[int]()
		m := &s3Model{}
		for i := 0; i < n; i++ {
			v := i
			if i%3 == 0 {
				v = n - i // zig-zag with ascending and descending runs
			}
			tree.Add(v)
			m.add(v)
		}
		s3Verify(t, &tree, m, true)
		clone := tree.Clone()
		// Drain the original from the small end, in post-order of the clone.
		for _, v := range clone.SlicePostOrder() {
			if !tree.Remove(v) {
				t.Fatalf("n=%d: Remove(%d) failed", n, v)
			}
			m.remove(v)
			if n <= 100 {
				s3Verify(t, &tree, m, true)
			}
		}
		s3Verify(t, &tree, m, true)
		if tree.Remove(0) {
			t.Fatalf("Remove on an empty tree returned true")
		}
		// The clone is untouched.
		if clone.Len() != n {
			t.Fatalf("clone has %d values, want %d", clone.Len(), n)
		}
		s3CheckShape(t, clone.root, clone.compare)
	}
}

func TestStress3AllEqual(t *testing.T) {
	tree := NewOrdered[string]()
	for i := 0; i < 1000; i++ {
		tree.Add("x")
		s3CheckShape(t, tree.root, tree.compare)
	}
	if tree.Contains("y") || tree.Remove("y") || tree.Remove("") || tree.Len() != 1000 {
		t.Fatalf("absent value handled wrongly")
	}
	for i := 1000; i > 0; i-- {
		if !tree.Contains("x") || !tree.Remove("x") || tree.Len() != i-1 {
			t.Fatalf("removing occurrence %d failed", i)
		}
		s3CheckShape(t, tree.root, tree.compare)
	}
	if tree.Contains("x") || tree.String() != "[]" {
		t.Fatalf("tree not empty: %s", tree.String())
	}
}

type s3Pair struct {
	a, b int8
}

// A struct element type under a descending lexicographic comparator.
func TestStress3StructDescending(t *testing.T) {
	cmp := func(x, y s3Pair) int {
		switch {
		case x.a != y.a:
			return int(y.a) - int(x.a)
		default:
			return int(y.b) - int(x.b)
		}
	}
	rng := rand.New(rand.NewSource(33))
	tree := New(cmp)
	var model []s3Pair
	for step := 0; step < 6000; step++ {
		v := s3Pair{int8(rng.Intn(5)), int8(rng.Intn(5))}
		if rng.Intn(5) < 3 {
			tree.Add(v)
			model = append(model, v)
		} else {
			found := -1
			for i, m := range model {
				if m == v {
					found = i
					break
				}
			}
			if got := tree.Remove(v); got != (found >= 0) {
				t.Fatalf("step %d: Remove(%v)=%v", step, v, got)
			}
			if tree.Contains(v) != (found >= 0 && s3Count(model, v) > 1) {
				t.Fatalf("step %d: Contains(%v) wrong after Remove", step, v)
			}
			if found >= 0 {
				model = append(model[:found], model[found+1:]...)
			}
		}
		sorted := append([]s3Pair(nil), model...)
		sort.SliceStable(sorted, func(i, j int) bool { return cmp(sorted[i], sorted[j]) < 0 })
		if got := tree.SliceInOrder(); !s3Equal(got, sorted) {
			t.Fatalf("step %d: in-order %v, want %v", step, got, sorted)
		}
		s3CheckShape(t, tree.root, cmp)
	}
}

func s3Count[T comparable](vals []T, v T) int {
	n := 0
	for _, x := range vals {
		if x == v {
			n++
		}
	}
	return n
}
