package sync2_test

import (
	"math/rand"
	"runtime"
	"sync"
	"sync/atomic"
	"testing"
	"time"

	"gopkg.in/typ.v4/sync2"
)

// s3Round is the shared bookkeeping of one Once value under test.
type s3Round struct {
	calls  atomic.Int32 // how many of the passed functions were invoked
	winner atomic.Int32 // id+1 of the invoked function
	effect int          // plain variable written by the action: visibility check
	slow   int          // 0 none, 1 Gosched, 2 sleep
}

func (r *s3Round) action(id int) int {
	r.calls.Add(1)
	switch r.slow {
	case 1:
		for i := 0; i < 3; i++ {
			runtime.Gosched()
		}
	case 2:
		time.Sleep(50 * time.Microsecond)
	}
	r.effect = 1001 + id // deliberately non-atomic
	r.winner.Store(int32(id + 1))
	return id + 1 // never the zero value
}

func (r *s3Round) check(t *testing.T, who string, got ...int) {
	t.Helper()
	if c := r.calls.Load(); c != 1 {
		t.Errorf("%s: %d functions invoked when Do returned, want exactly 1", who, c)
		return
	}
	w := int(r.winner.Load())
	if w == 0 {
		t.Errorf("%s: Do returned before the action completed", who)
		return
	}
	if r.effect != 1000+w {
		t.Errorf("%s: effect=%d not visible, want %d", who, r.effect, 1000+w)
	}
	for k, g := range got {
		if g != w*(k+1) {
			t.Errorf("%s: result %d = %d, want %d (winner %d)", who, k+1, g, w*(k+1), w)
		}
	}
}

func s3Run(t *testing.T, rng *rand.Rand, arity int) {
	n := 1 + rng.Intn(24)
	late := rng.Intn(4)
	r := &s3Round{slow: rng.Intn(3)}
	var o1 sync2.Once1[int]
	var o2 sync2.Once2[int, int]
	var o3 sync2.Once3[int, int, int]
	do := func(id int) []int {
		switch arity {
		case 1:
			return []int{o1.Do(func() int { return r.action(id) })}
		case 2:
			a, b := o2.Do(func() (int, int) { v := r.action(id); return v, 2 * v })
			return []int{a, b}
		default:
			a, b, c := o3.Do(func() (int, int, int) { v := r.action(id); return v, 2 * v, 3 * v })
			return []int{a, b, c}
		}
	}
	start := make(chan struct{})
	stagger := rng.Intn(2) == 0
	var wg sync.WaitGroup
	for i := 0; i < n; i++ {
		wg.Add(1)
		delay := rng.Intn(4)
		go func(id int) {
			defer wg.Done()
			<-start
			if stagger {
				for k := 0; k < delay; k++ {
					runtime.Gosched()
				}
			}
			r.check(t, "concurrent", do(id)...)
		}(i)
	}
	close(start)
	wg.Wait()
	for i := 0; i < late; i++ {
		r.check(t, "late", do(n+i)...)
	}
	// The exported result fields hold the shared results as well.
	w := int(r.winner.Load())
	var fields []int
	switch arity {
	case 1:
		fields = []int{o1.R1}
	case 2:
		fields = []int{o2.R1, o2.R2}
	default:
		fields = []int{o3.R1, o3.R2, o3.R3}
	}
	for k, f := range fields {
		if f != w*(k+1) {
			t.Errorf("field R%d = %d, want %d", k+1, f, w*(k+1))
		}
	}
}

func TestStress3OnceConcurrent(t *testing.T) {
	rng := rand.New(rand.NewSource(0x0c17_0003))
	deadline := time.Now().Add(12 * time.Second)
	rounds := 0
	for rounds < 6000 && time.Now().Before(deadline) && !t.Failed() {
		s3Run(t, rng, 1+rounds%3)
		rounds++
	}
	t.Logf("%d rounds", rounds)
}

// A slice of Once values visited by all workers in different orders: every
// worker must observe the same results for the same Once.
func TestStress3OnceManyShared(t *testing.T) {
	const onces, workers = 400, 12
	type cell struct {
		o     sync2.Once2[int, string]
		calls atomic.Int32
		plain int
	}
	cells := make([]cell, onces)
	seen := make([][]int, workers)
	var wg sync.WaitGroup
	for w := 0; w < workers; w++ {
		wg.Add(1)
		seen[w] = make([]int, onces)
		go func(w int) {
			defer wg.Done()
			rng := rand.New(rand.NewSource(int64(w) + 77))
			for _, i := range rng.Perm(onces) {
				c := &cells[i]
				a, s := c.o.Do(func() (int, string) {
					c.calls.Add(1)
					if rng.Intn(3) == 0 {
						runtime.Gosched()
					}
					c.plain = w + 1
					return w + 1, "by-worker"
				})
				if s != "by-worker" || a == 0 || c.plain != a || c.calls.Load() != 1 {
					t.Errorf("once %d worker %d: got (%d,%q) plain=%d calls=%d", i, w, a, s, c.plain, c.calls.Load())
				}
				seen[w][i] = a
			}
		}(w)
	}
	wg.Wait()
	for i := 0; i < onces; i++ {
		for w := 1; w < workers; w++ {
			if seen[w][i] != seen[0][i] {
				t.Fatalf("once %d: worker %d saw %d, worker 0 saw %d", i, w, seen[w][i], seen[0][i])
			}
		}
	}
}

// Like the built-in sync.Once, a panicking action counts as performed: the
// callers parked meanwhile are released, nothing else is ever invoked and the
// (zero) results are shared.
func TestStress3OncePanicCountsAsDone(t *testing.T) {
	for round := 0; round < 300; round++ {
		var o sync2.Once1[int]
		var calls atomic.Int32
		entered := make(chan struct{})
		proceed := make(chan struct{})
		var wg sync.WaitGroup
		wg.Add(1)
		go func() {
			defer wg.Done()
			defer func() {
				if recover() == nil {
					t.Errorf("panic did not propagate to the elected caller")
				}
			}()
			o.Do(func() int {
				calls.Add(1)
				close(entered)
				<-proceed
				panic("boom")
			})
		}()
		<-entered
		for i := 0; i < 4; i++ {
			wg.Add(1)
			go func() {
				defer wg.Done()
				if v := o.Do(func() int { calls.Add(1); return 7 }); v != 0 {
					t.Errorf("waiter got %d after panic, want 0", v)
				}
			}()
		}
		runtime.Gosched()
		close(proceed)
		wg.Wait()
		if v := o.Do(func() int { calls.Add(1); return 9 }); v != 0 || calls.Load() != 1 {
			t.Fatalf("after panic: v=%d calls=%d, want 0 and 1", v, calls.Load())
		}
	}
}

// Purely sequential use against the obvious model.
func TestStress3OnceSequentialModel(t *testing.T) {
	rng := rand.New(rand.NewSource(3))
	for round := 0; round < 2000; round++ {
		var o sync2.Once3[int, string, bool]
		invoked := 0
		var m1 int
		for k := 0; k < 1+rng.Intn(6); k++ {
			v := rng.Intn(1000) + 1
			a, b, c := o.Do(func() (int, string, bool) { invoked++; return v, "x", true })
			if k == 0 {
				m1 = v
			}
			if a != m1 || b != "x" || !c || invoked != 1 || o.R1 != m1 {
				t.Fatalf("round %d call %d: got (%d,%q,%v) invoked=%d, want first=%d", round, k, a, b, c, invoked, m1)
			}
		}
	}
}
