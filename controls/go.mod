module verif/controls

go 1.23
