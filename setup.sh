#!/bin/sh
# Builds the framework offline from files on disk and warms the build cache
# (including the race-instrumented standard library).
set -e
cd "$(dirname "$0")"
export GOFLAGS=-mod=mod GOPROXY=off GOSUMDB=off GOTOOLCHAIN=local
mkdir -p bin evidence replays
go build -o bin/verifsim.new ./cmd/verifsim && mv bin/verifsim.new bin/verifsim
(cd simgen && go build -o ../bin/simgen.new . && mv ../bin/simgen.new ../bin/simgen)
go build ./...
go build -race -o /dev/null ./cmd/worker 2>/dev/null || true
echo "setup ok"
