#!/usr/bin/env python3
"""Negative controls: a correct re-implementation must not raise an alarm.

usage: tools/control_eval.py <ID> <i> [tier]      evaluate /tmp/wt/<ID>.out/patch<i>.diff and record it
       tools/control_eval.py --regress [-j N] [filters]   re-run every kept control

A control is a substantial change to go-typ/typ, produced by an independent
sub-agent that was given only the property text and a scratch worktree, which
re-implements the code behind a property while the property still holds. The
tool confirms in a scratch worktree of /repo (removed afterwards) that it applies,
compiles and passes the existing tests (and the author's own stress test, if
any, also under -race), then runs ./check <ID> against a second scratch worktree
carrying the patch (VERIF_REPO_DIR; /repo itself is never touched). The expected
result is exit 0. Anything else is looked at by hand: either the control breaks
the property after all (then it is moved to /verif/seeded as a breaking change) or
the check is wrong (then the check is corrected; DESIGN.md 11.5).
Writes /verif/controls/<ID>-n<i>/{patch.diff, meta.json[, stress_test.go]}.
"""
import json, os, shutil, subprocess, sys, glob, time
V = os.path.dirname(os.path.dirname(os.path.abspath(__file__)))  # the framework directory this tool belongs to (/verif, or a snapshot of it)
from concurrent.futures import ThreadPoolExecutor

ENV = dict(os.environ, GOFLAGS="-mod=mod", GOPROXY="off", GOSUMDB="off", GOTOOLCHAIN="local")

def sh(cmd, cwd=None, timeout=3600):
    p = subprocess.run(cmd, shell=True, cwd=cwd, env=ENV, capture_output=True, text=True, timeout=timeout)
    return p.returncode, p.stdout + p.stderr

def run_check(pid, name, patch, tier, base="HEAD"):
    cw = f"/tmp/ctl-{name}"
    co = f"/tmp/ctl-{name}.out"
    sh(f"git -C /repo worktree remove --force {cw}")
    rc, out = sh(f"git -C /repo worktree add --detach {cw} HEAD && git -C {cw} apply {patch}")
    if rc != 0 and base != "HEAD":
        # written against an earlier /repo commit (a later fix: commit touches the same file)
        sh(f"git -C /repo worktree remove --force {cw}")
        rc, out = sh(f"git -C /repo worktree add --detach {cw} {base} && git -C {cw} apply {patch}")
    if rc != 0:
        sh(f"git -C /repo worktree remove --force {cw}")
        return {"exit": None, "error": "does not apply to /repo HEAD: " + out[-300:]}
    try:
        t0 = time.time()
        rc, out = sh(f"VERIF_REPO_DIR={cw} VERIF_OUT_DIR={co} ./check {pid} {tier}", cwd=V, timeout=7200)
        keep = None
        if rc == 1:  # keep the replay files for the post-mortem
            keep = f"/tmp/ctl-{name}.replays"
            shutil.rmtree(keep, ignore_errors=True)
            if os.path.isdir(f"{co}/replays"):
                shutil.copytree(f"{co}/replays", keep)
        return {"cmd": f"./check {pid} {tier}  (against a scratch worktree of /repo carrying patch.diff)", "exit": rc, "wall_s": round(time.time() - t0, 1),
                "violation_lines": [l.replace(co, "<out>") for l in out.splitlines() if l.startswith("VIOLATION") or l.strip().startswith("signature:")][:12],
                "tail": out[-500:].replace(co, "<out>"), "replays_kept_at": keep}
    finally:
        sh(f"git -C /repo worktree remove --force {cw}")
        shutil.rmtree(cw, ignore_errors=True)
        shutil.rmtree(co, ignore_errors=True)

def evaluate(pid, i, tier):
    src = f"/tmp/wt/{pid}.out"
    patch = f"{src}/patch{i}.diff"
    meta = json.load(open(f"{src}/meta{i}.json"))
    name = f"{pid}-n{i}"
    dest = f"{V}/controls/{name}"
    os.makedirs(dest, exist_ok=True)
    wt = f"/tmp/ctlv-{name}"
    sh(f"git -C /repo worktree remove --force {wt}")
    base = os.environ.get("CONTROL_BASE", "HEAD")
    rc, out = sh(f"git -C /repo worktree add --detach {wt} {base}")
    assert rc == 0, out
    rec, ran = {}, []
    stress = f"{src}/stress{i}_test.go"
    try:
        rc, out = sh(f"git apply {patch}", cwd=wt)
        rec["applies"] = rc == 0
        rc, out = sh("go build ./...", cwd=wt)
        rec["compiles"] = rc == 0
        rc, out = sh("go test -vet=off -count=1 ./...", cwd=wt)
        ran.append("go test -vet=off -count=1 ./...  (with the change)")
        rec["existing_tests_pass"] = rc == 0
        if rc != 0:
            rec["tests_tail"] = out[-500:]
        if os.path.exists(stress):
            files = meta.get("files_changed") or []
            pkg = os.path.dirname(files[0]) if files else "."
            first = ("\n" + open(stress).read()).split("\npackage ", 1)[1].split()[0]
            if os.path.isdir(os.path.join(wt, first.replace("_test", ""))):
                pkg = first.replace("_test", "")
            shutil.copy(stress, os.path.join(wt, pkg, f"zz_stress{i}_test.go"))
            rc, out = sh(f"go test -vet=off -race -count=1 ./{pkg}/", cwd=wt, timeout=1800)
            ran.append(f"go test -race -count=1 ./{pkg}/  (with the change and the author's stress test, package {first})")
            rec["author_stress_passes_race"] = rc == 0
            if rc != 0:
                rec["stress_tail"] = out[-500:]
    finally:
        sh(f"git -C /repo worktree remove --force {wt}")
        shutil.rmtree(wt, ignore_errors=True)
    ok = all(rec.get(k) for k in ("applies", "compiles", "existing_tests_pass"))
    check = run_check(pid, name, patch, tier, base) if ok else {}
    if ok:
        ran.append(f"git worktree add <scratch> HEAD; git -C <scratch> apply patch.diff; VERIF_REPO_DIR=<scratch> ./check {pid} {tier}; git worktree remove <scratch>")
    shutil.copy(patch, f"{dest}/patch.diff")
    if os.path.exists(stress):
        shutil.copy(stress, f"{dest}/stress_test.go")
    m = {"property": pid, "kind": "negative control: the property still holds, the check must stay silent",
         "base_commit": subprocess.run(f"git -C /repo rev-parse --short {base}", shell=True, capture_output=True, text=True).stdout.strip(),
         "origin": "independent sub-agent given only the property text and a scratch worktree",
         "summary": meta.get("summary"), "why_property_still_holds": meta.get("why_property_still_holds"),
         "differs_from_original_in": meta.get("differs_from_original_in"), "files_changed": meta.get("files_changed"),
         "confirmation": rec, "what_i_ran": ran, "check_result": check, "silent": bool(check) and check.get("exit") == 0}
    json.dump(m, open(f"{dest}/meta.json", "w"), indent=1)
    print(json.dumps({"id": name, "rec": rec, "check_exit": check.get("exit"), "sigs": check.get("violation_lines"), "wall_s": check.get("wall_s")}, indent=1))

def regress(args):
    j, filt = 3, []
    it = iter(args)
    for a in it:
        if a == "-j":
            j = int(next(it))
        else:
            filt.append(a)
    dirs = sorted(d for d in glob.glob(V + "/controls/C*") if os.path.isdir(d))
    if filt:
        dirs = [d for d in dirs if any(f in os.path.basename(d) for f in filt)]
    def one(d):
        name = os.path.basename(d)
        m = json.load(open(f"{d}/meta.json"))
        if m.get("verdict", "").startswith("moved"):
            return name, None
        r = run_check(m["property"], name + "-r", f"{d}/patch.diff", "quick", m.get("base_commit", "HEAD"))
        return name, r
    res = {}
    with ThreadPoolExecutor(j) as ex:
        for name, r in ex.map(one, dirs):
            if r is None:
                continue
            res[name] = {"exit": r.get("exit"), "sigs": r.get("violation_lines"), "wall_s": r.get("wall_s")}
            print(name, res[name], flush=True)
    if filt and os.path.exists(V + "/controls/REGRESSION.json"):  # a partial run updates, a full run replaces
        old = json.load(open(V + "/controls/REGRESSION.json")).get("results", {})
        old.update(res)
        res = old
    json.dump({"head": subprocess.run("git -C /repo rev-parse --short HEAD", shell=True, capture_output=True, text=True).stdout.strip(),
               "silent": sum(1 for v in res.values() if v["exit"] == 0), "total": len(res), "results": res},
              open(V + "/controls/REGRESSION.json", "w"), indent=1)
    print("silent", sum(1 for v in res.values() if v["exit"] == 0), "of", len(res))

if sys.argv[1] == "--regress":
    regress(sys.argv[2:])
else:
    evaluate(sys.argv[1], sys.argv[2], sys.argv[3] if len(sys.argv) > 3 else "quick")
