#!/usr/bin/env python3
"""Strategy comparison: for every kept seeded change to a schedule-dependent
property, how many runs does each scheduling strategy need before the first
violation? (three disjoint run ranges per strategy, plain builds only - changes
whose only symptom is a race report show up as 'none'.)

usage: tools/strategy_eval.py [cap-runs] [id-substring...]
Writes /verif/seeded/STRATEGY.json and prints a summary. /repo is not touched:
each change is applied to a scratch worktree that is removed afterwards.
"""
import glob, json, os, subprocess, sys, shutil, statistics
V = os.path.dirname(os.path.dirname(os.path.abspath(__file__)))  # the framework directory this tool belongs to (/verif, or a snapshot of it)

ENV = dict(os.environ, GOFLAGS="-mod=mod", GOPROXY="off", GOSUMDB="off", GOTOOLCHAIN="local")
TIER_S = {"C04", "C05", "C09", "C10", "C17", "C18", "C19"}

def one(d, cap):
    name = os.path.basename(d)
    meta = json.load(open(d + "/meta.json"))
    pid = (meta.get("caught_by") or [meta["property"]])[0]
    if pid not in TIER_S:
        return None
    wt = f"/tmp/strat-{name}"
    subprocess.run(f"git -C /repo worktree remove --force {wt}", shell=True, capture_output=True)
    r = subprocess.run(f"git -C /repo worktree add --detach {wt} HEAD && git -C {wt} apply {d}/patch.diff", shell=True, capture_output=True, text=True)
    try:
        if r.returncode != 0:
            return {"id": name, "property": pid, "skipped": "written against an older base; does not apply to HEAD"}
        env = dict(ENV, VERIF_DIR=V, VERIF_REPO_DIR=wt, VERIF_OUT_DIR=f"/tmp/strat-{name}.out")
        r = subprocess.run(f"bin/verifsim strategy {pid} {cap}", shell=True, cwd=V, env=env, capture_output=True, text=True, timeout=900)
        line = [l for l in r.stdout.splitlines() if l.startswith("{")]
        if not line:
            return {"id": name, "property": pid, "skipped": "tool failed: " + (r.stderr or r.stdout)[-200:]}
        res = json.loads(line[-1])
        res["id"] = name
        return res
    finally:
        subprocess.run(f"git -C /repo worktree remove --force {wt}", shell=True, capture_output=True)
        shutil.rmtree(wt, ignore_errors=True)
        shutil.rmtree(f"/tmp/strat-{name}.out", ignore_errors=True)

def main():
    args = sys.argv[1:]
    cap = 200000
    if args and args[0].isdigit():
        cap = int(args[0]); args = args[1:]
    dirs = sorted(d for d in glob.glob(V + "/seeded/*") if os.path.isdir(d) and os.path.exists(d + "/patch.diff"))
    if args:
        dirs = [d for d in dirs if any(a in d for a in args)]
    results = []
    for d in dirs:
        res = one(d, cap)
        if res is None:
            continue
        results.append(res)
        if "strategies" in res:
            print(res["id"], " ".join(f"{c['strategy']}={c['runs_to_first_violation']}" for c in res["strategies"]), flush=True)
        else:
            print(res["id"], res.get("skipped"), flush=True)
    # summary: per strategy, in how many (change, range) cells a violation was found within the cap, and the median
    summary = {}
    for res in results:
        for c in res.get("strategies", []):
            s = summary.setdefault(c["strategy"], {"cells": 0, "found": 0, "runs": []})
            for n in c["runs_to_first_violation"]:
                s["cells"] += 1
                if n > 0:
                    s["found"] += 1
                    s["runs"].append(n)
    for k, s in summary.items():
        s["median_runs_when_found"] = statistics.median(s["runs"]) if s["runs"] else None
        s["mean_runs_when_found"] = round(statistics.mean(s["runs"]), 1) if s["runs"] else None
        del s["runs"]
        print(k, s)
    old = {}
    if args and os.path.exists(V + "/seeded/STRATEGY.json"):
        old = {r["id"]: r for r in json.load(open(V + "/seeded/STRATEGY.json")).get("results", [])}
    for r in results:
        old[r["id"]] = r
    allres = sorted(old.values(), key=lambda r: r["id"]) if args else results
    json.dump({"cap_runs": cap, "summary": summary if not args else None, "results": allres}, open(V + "/seeded/STRATEGY.json", "w"), indent=1)

main()
