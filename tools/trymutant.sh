#!/bin/sh
# usage: tools/trymutant.sh <patch> <ID> [tier]
# Runs a check against a scratch worktree of /repo carrying the patch. /repo, the
# evidence files and the replay directory of the real checks are not touched.
set -u
patch="$1"; id="$2"; tier="${3:-quick}"
wt="/tmp/mutwt-$$"; out="/tmp/mutout-$$"
git -C /repo worktree add --detach "$wt" HEAD >/dev/null 2>&1 || exit 2
trap 'git -C /repo worktree remove --force "$wt" >/dev/null 2>&1; rm -rf "$wt" "$out"' EXIT
git -C "$wt" apply "$patch" || { echo "patch does not apply" >&2; exit 2; }
cd /verif && VERIF_REPO_DIR="$wt" VERIF_OUT_DIR="$out" ./check "$id" "$tier"
echo "exit=$?"
