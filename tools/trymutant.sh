#!/bin/sh
# usage: tools/trymutant.sh <patch> <ID> [tier]   -- applies a patch to /repo, runs the check, always reverts.
set -u
patch="$1"; id="$2"; tier="${3:-quick}"
cd /repo || exit 2
if ! git diff --quiet; then echo "/repo has local changes; refusing" >&2; exit 2; fi
git apply "$patch" || { echo "patch does not apply" >&2; exit 2; }
trap 'git -C /repo checkout -- . ; git -C /repo clean -fdq' EXIT
cd /verif && ./check "$id" "$tier"
echo "exit=$?"
