#!/usr/bin/env python3
"""Re-runs the quick check against a kept seeded change and refreshes the
check_result / caught fields of its meta.json (after a harness was strengthened).

usage: tools/seeded_recheck.py <name> [history text]
"""
import json, os, shutil, subprocess, sys, time
V = os.path.dirname(os.path.dirname(os.path.abspath(__file__)))
ENV = dict(os.environ, GOFLAGS="-mod=mod", GOPROXY="off", GOSUMDB="off", GOTOOLCHAIN="local")
name = sys.argv[1]
d = f"{V}/seeded/{name}"
m = json.load(open(d + "/meta.json"))
pid = (m.get("caught_by") or [m["property"]])[0]
cw, co = f"/tmp/rc-{name}", f"/tmp/rc-{name}.out"
subprocess.run(f"git -C /repo worktree remove --force {cw}", shell=True, capture_output=True)
r = subprocess.run(f"git -C /repo worktree add --detach {cw} HEAD && git -C {cw} apply {d}/patch.diff", shell=True, capture_output=True, text=True)
assert r.returncode == 0, r.stderr
try:
    t0 = time.time()
    r = subprocess.run(f"./check {pid} quick", shell=True, cwd=V, env=dict(ENV, VERIF_REPO_DIR=cw, VERIF_OUT_DIR=co), capture_output=True, text=True, timeout=3600)
    out = r.stdout + r.stderr
    m["check_result"] = {"cmd": f"./check {pid} quick  (against a scratch worktree of /repo carrying patch.diff)", "exit": r.returncode, "wall_s": round(time.time() - t0, 1),
                         "violation_lines": [l.replace(co, "<out>") for l in out.splitlines() if l.startswith("VIOLATION") or l.strip().startswith("signature:")][:12],
                         "tail": out[-400:].replace(co, "<out>")}
    m["caught"] = r.returncode == 1
    if len(sys.argv) > 2:
        m["history"] = sys.argv[2]
    json.dump(m, open(d + "/meta.json", "w"), indent=1)
    print(name, "exit", r.returncode, m["check_result"]["violation_lines"][:4])
finally:
    subprocess.run(f"git -C /repo worktree remove --force {cw}", shell=True, capture_output=True)
    shutil.rmtree(cw, ignore_errors=True); shutil.rmtree(co, ignore_errors=True)
