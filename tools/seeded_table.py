#!/usr/bin/env python3
"""Prints the markdown table of independently seeded changes from /verif/seeded/*/meta.json."""
import glob, json, os
V = os.path.dirname(os.path.dirname(os.path.abspath(__file__)))  # the framework directory this tool belongs to (/verif, or a snapshot of it)
rows = []
for d in sorted(glob.glob(V + '/seeded/*')):
    if not os.path.exists(d + '/meta.json'):
        continue
    m = json.load(open(d + '/meta.json'))
    name = os.path.basename(d)
    cr = m.get('check_result') or {}
    sigs = [l.strip()[11:] for l in cr.get('violation_lines', []) if l.strip().startswith('signature:')]
    summ = (m.get('summary') or '').replace('\n', ' ').replace('|', '/')
    if len(summ) > 170:
        summ = summ[:167] + '...'
    if m.get('own'):
        summ = '(my own change, not a sub-agent\'s) ' + summ
    hist = m.get('history', '')
    verdict = 'caught' if m.get('caught') else 'NOT caught'
    if hist:
        verdict = 'caught after strengthening' if m.get('caught') else 'NOT caught'
    if m.get('superseded_by'):
        sb = m['superseded_by']
        verdict = ('written against an older PubSub; ported to the current code as ' + sb + ', which is caught') if sb != 'none' else 'written against an older PubSub; harmless on the current code, kept for the record (see meta.json note)'
    if m.get('expected') == 'thorough-only':
        verdict = 'missed by the quick tier, caught by the thorough tier (see meta.json)'
        sigs = [(m.get('thorough_result') or {}).get('signature', '')]
    if m.get('expected') == 'silent':
        verdict = 'not caught, by design: allowed by the documented contract (see meta.json note)'
    rows.append(f"| {name} | {summ} | {verdict} | {'; '.join(sigs[:2])} |")
print("| id | change (independent sub-agent, given only the property text, unless marked) | result | signature(s) reported |")
print("|---|---|---|---|")
print("\n".join(rows))
