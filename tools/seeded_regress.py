#!/usr/bin/env python3
"""Sensitivity regression: runs the quick check of every kept seeded change
(/verif/seeded/*/patch.diff) against a scratch worktree of /repo carrying that
change, a few at a time, and reports which are caught (exit 1), missed (exit 0)
or broke the check (exit 2). /repo itself is never touched.

usage: tools/seeded_regress.py [-j N] [id-substring...]
"""
import glob, json, os, subprocess, sys, shutil
V = os.path.dirname(os.path.dirname(os.path.abspath(__file__)))  # the framework directory this tool belongs to (/verif, or a snapshot of it)
from concurrent.futures import ThreadPoolExecutor

ENV = dict(os.environ, GOFLAGS="-mod=mod", GOPROXY="off", GOSUMDB="off", GOTOOLCHAIN="local")

# what was still broken in /repo at the commit a change was written against, and
# which workload features must stay off there so that the base's own defects are
# not credited to the seeded change
BASES = {
    "252b0c5": {"VERIF_KNOWN_FILE": V + "/seeded/known_at_252b0c5.json", "VERIF_NO_RACE": "1", "VERIF_C10_BASE252": "1"},
    "41a08ec": {"VERIF_KNOWN_FILE": V + "/seeded/known_at_252b0c5.json", "VERIF_NO_RACE": "1", "VERIF_C10_BASE252": "1"},
    "210ba83": {"VERIF_KNOWN_FILE": V + "/seeded/known_at_210ba83.json"},
}

def one(d):
    name = os.path.basename(d)
    meta = json.load(open(d + "/meta.json"))
    pids = meta.get("caught_by") or [meta["property"]]
    pid = pids[0]
    wt = f"/tmp/reg-{name}"
    out = f"/tmp/reg-{name}.out"
    subprocess.run(f"git -C /repo worktree remove --force {wt}", shell=True, capture_output=True)
    shutil.rmtree(out, ignore_errors=True)
    # the patch is applied to /repo's HEAD when it still applies there, otherwise to
    # the commit it was written against (recorded as base_commit); in the latter
    # case the findings that were open at that commit are passed as known
    extra = {}
    force_base = meta["property"] == "C10" and meta.get("base_commit") == "252b0c5"  # PubSub was restructured by 41a08ec
    r = None
    if not force_base:
        r = subprocess.run(f"git -C /repo worktree add --detach {wt} HEAD && git -C {wt} apply {d}/patch.diff", shell=True, capture_output=True, text=True)
    if r is None or r.returncode != 0:
        base = meta.get("base_commit")
        subprocess.run(f"git -C /repo worktree remove --force {wt}", shell=True, capture_output=True)
        r = subprocess.run(f"git -C /repo worktree add --detach {wt} {base} && git -C {wt} apply {d}/patch.diff", shell=True, capture_output=True, text=True)
        if r.returncode != 0:
            return name, "patch-does-not-apply", r.stderr[-200:]
        extra = BASES.get(base, BASES["252b0c5"])
    try:
        env = dict(ENV, VERIF_REPO_DIR=wt, VERIF_OUT_DIR=out, **extra)
        r = subprocess.run(f"./check {pid} quick", shell=True, cwd=V, env=env, capture_output=True, text=True, timeout=1200)
        sigs = [l.strip()[11:] for l in r.stdout.splitlines() if l.strip().startswith("signature:")]
        tail = "; ".join(sigs[:3])
        if r.returncode not in (0, 1):
            tail += " | " + (r.stderr.strip().splitlines() or [""])[-1][-300:]
        if meta.get("expected") == "thorough-only":  # known to be beyond the quick tier (caught by the thorough tier, see meta.json)
            return name, {0: "beyond-quick-tier", 1: "caught", 2: "CHECK-BROKE"}.get(r.returncode, str(r.returncode)), tail
        if meta.get("expected") == "silent":  # allowed by the documented contract: recorded, not required to be caught
            return name, {0: "silent-as-expected", 1: "caught", 2: "CHECK-BROKE"}.get(r.returncode, str(r.returncode)), tail
        return name, {0: "MISSED", 1: "caught", 2: "CHECK-BROKE"}.get(r.returncode, str(r.returncode)), tail
    finally:
        subprocess.run(f"git -C /repo worktree remove --force {wt}", shell=True, capture_output=True)
        shutil.rmtree(wt, ignore_errors=True)
        shutil.rmtree(out, ignore_errors=True)

def main():
    args = sys.argv[1:]
    j = 3
    if args[:1] == ["-j"]:
        j = int(args[1]); args = args[2:]
    dirs = sorted(d for d in glob.glob(V + "/seeded/*") if os.path.isdir(d) and os.path.exists(d + "/patch.diff")
                  and "superseded_by" not in json.load(open(d + "/meta.json")))
    if args:
        dirs = [d for d in dirs if any(a in d for a in args)]
    res = []
    with ThreadPoolExecutor(j) as ex:
        for name, verdict, sig in ex.map(one, dirs):
            print(f"{name:14s} {verdict:12s} {sig}", flush=True)
            res.append((name, verdict))
    bad = [n for n, v in res if v not in ("caught", "silent-as-expected", "beyond-quick-tier")]
    print(f"{len(res)-len(bad)}/{len(res)} caught; not caught: {bad}")
    old = {}
    if args and os.path.exists(V + "/seeded/REGRESSION.json"):  # a partial run updates, a full run replaces
        old = json.load(open(V + "/seeded/REGRESSION.json"))
    old.update({n: v for n, v in res})
    json.dump(old, open(V + "/seeded/REGRESSION.json", "w"), indent=1, sort_keys=True)
    sys.exit(1 if bad else 0)

main()
