#!/usr/bin/env python3
"""Writes /verif/MANIFEST.json from the table below (kept next to the checks so the two cannot drift)."""
import json, os
V = os.path.dirname(os.path.dirname(os.path.abspath(__file__)))

S_NOTE = ("Each run draws its schedule from one of four strategies (random walk, sticky random, partial-order sampling, PCT of depth 1-4), a quarter of the runs with stalled goroutines injected (task_freeze); one seed is one exactly repeatable execution. A run that exhausts its step budget is reported as no-progress, a run that kills or stalls the worker inside the code under test as crash/hang (re-executed alone from its seed before it is believed). Trusted base: Go toolchain and race detector; simgen's rewrite rules (the repository's tests pass on the rewritten tree); "
          "the enabledness models of mutex/RWMutex/WaitGroup/channel/select/timer in verif/sim/rt (a wrong model fails towards exit 2 through the divergence guards, not towards a false VIOLATION); "
          "porcupine v1.3.0 where linearizability is checked; the reference models. Seeded sampling within stated bounds: evidence, not proof.")
H_NOTE = ("Runs on the rewritten copy so that map iteration order is a replayable draw; otherwise single client, no faults: these properties have no schedule, clock or fault dimension; what is explored is the space of operation histories. "
          "Trusted base: Go toolchain, the reference model in the harness. Seeded sampling, not enumeration.")

TECH = "seeded operation-history search against an executable reference model in the simulator's fault-free single-client configuration (no interleaving or fault dimension exists)"

claimed = {
  "C04": dict(tier="S", text="Seeded search over schedules of 2-4 simulated goroutines running the real sync2.Map at the granularity of its atomic and mutex operations, plus long single-goroutine sequences; every history checked for linearizability per key with porcupine, Range obligations included; a share of runs under the race detector inside the simulation.", ref="3 (C04)",
              technique="deterministic simulation: seeded cooperative scheduler over the real code, linearizability oracle (porcupine), race detector in-sim"),
  "C05": dict(tier="S", text="Seeded search over schedules of 2-8 simulated goroutines calling Add/Remove/Has/AddSet/RemoveSet/Len on the real sync2.Set over the real sync2.Map; per-value linearizability with porcupine (successful Adds and Removes alternate consistently with real time), exact count search for composite calls, conservation of successes against final membership; a share of runs under the race detector.", ref="3 (C05)",
              technique="deterministic simulation: seeded scheduler over the real code, per-value linearizability (porcupine) + conservation oracle, race detector in-sim"),
  "C09": dict(tier="S", text="Seeded search over schedules of 2-4 simulated goroutines locking, try-locking, read-locking and unlocking 1-3 keys of KeyedMutex/KeyedRWMutex at the granularity of the underlying map's atomic steps, first-use collisions included; occupancy invariant, Try* contract from recorded intervals, and cross-key independence decided by injecting a holder that stalls forever and requiring every task that needs other keys to finish.", ref="3 (C09)",
              technique="deterministic simulation: seeded scheduler, stalled-holder fault injection, occupancy and blocked-set oracles, race detector witness"),
  "C17": dict(tier="S", text="Seeded search over arrival orders and interleavings of 2-6 callers of Once1/2/3.Do with distinct functions that contain scheduling points; exactly-one-invocation, shared results and completion-before-return (plain effect variable, also witnessed by the race detector); slow actions (virtual sleep), panicking and nil functions, and two Once values in use at once, one nested in the other's action, are part of the workload.", ref="3 (C17)",
              technique="deterministic simulation: seeded scheduler over the wrapper with an interleavable Once, exactly-once oracle, race detector in-sim"),
  "C18": dict(tier="S", text="Seeded search over interleavings of Load/Store/Swap/CompareAndSwap on AtomicValue[T] checked as an atomic register with porcupine, and of Get/use/Put on Pool[T] under a sync.Pool stub whose misses, dropped Puts and arbitrary choice are injected faults, with an ownership ledger and owner-field witness; a share of runs under the race detector (which found and now guards the Pool.Get race).", ref="3 (C18)",
              technique="deterministic simulation: seeded scheduler, sync.Pool fault stub, register linearizability (porcupine), ownership oracle, race detector in-sim"),
  "C19": dict(tier="S", text="Seeded search over the timing of peer, timer, context cancellation and close around one SendTimeout/SendContext/RecvTimeout/RecvContext call (virtual clock, stalls that let a deadline pass while tasks are runnable), and over capacity, fill level, open/closed state, limit, concurrent senders (one of which may close the channel after its last send) and competing receivers for RecvQueued/RecvQueuedFull; conservation of unique tokens (acknowledged-sent = received + buffered), legitimacy of every false result, FIFO and never-blocks for the queued receivers.", ref="3 (C19)",
              technique="deterministic simulation: seeded scheduler with virtual clock, timer/cancel/close fault injection, token-conservation oracle, race detector in-sim"),
  "C10": dict(tier="S", text="Seeded search over schedules of publishers (all six variants, WithOnly), per-subscription receivers (well-behaved, slow, stopping, absent), and a control task subscribing and unsubscribing, with the virtual clock driving PubTimeoutAfter and stalls letting deadlines pass; at-most-once, exactly-once / delivery-or-timeout accounting, Sync order, Wait-returns-after-hand-off (no live sender task at return), error values, closing exactly the removed channels, and no panic in any task including library-spawned ones. Clones taken before their channel is removed, Sub racing UnsubAll, Unsub called from the OnPubTimeout callback, slices overwritten after return and liveness under a positive timeout (nobody stays blocked, no timeout reported early, callback never after a Wait/Sync return) are part of the workload and oracle. The send-on-closed-channel panic of the asynchronous variants and three later PubSub defects were found by this check and are fixed in /repo (41a08ec, 210ba83, 644d9c9). WithOnly is also applied to publishers made by WithOnly.", ref="3 (C10)",
              technique="deterministic simulation: seeded scheduler with virtual clock, receiver-stall/unsubscribe/close fault injection, conservation and ordering oracles over the recorded history"),
  "C01": dict(tier="H", text="Seeded search over operation histories (single client, no faults - the property has no schedule, clock or fault in it) of the AVL tree against a sorted-multiset reference model stepped call by call on every live tree and clone, with cross-invariants (Len, Contains over the universe, the three traversals being one binary tree, Walk = Slice, String) after every call and minimised replay files. Found and now guards three defects (fixed).", ref="4 (C01), 2.11",
              technique="seeded operation-history search against an executable reference model in the simulator's fault-free single-client configuration (no interleaving or fault dimension exists)"),
  "C02": dict(tier="H", text="Seeded search over insertion/deletion histories from six adversarial families; after every call the shape is reconstructed from the public traversals and the AVL balance of every node, the depth bound and the comparator-call budget are checked. Single client, no faults. Found and now guards the missing rebalancing (fixed).", ref="4 (C02), 2.11",
              technique="seeded operation-history search with a structural invariant oracle in the simulator's fault-free single-client configuration"),
  "C03": dict(tier="H", text="Seeded search over pairs of sets in all four implementation pairings, with the concurrent set's internal layout driven by its construction history, against a map[T]bool model: algebra results, change reports, counts, every read method, detachment of results. Single client, no faults.", ref="4 (C03), 2.11", technique=TECH),
  "C06": dict(tier="H", text="Seeded search over list and ring operation histories executed in lock-step on lists.* and the standard library's container/list and container/ring through parallel handle tables that keep removed and foreign handles; return values, lengths, both traversals and every element's neighbours compared after every call. Single client, no faults.", ref="4 (C06), 2.11", technique="seeded operation-history search with the standard library as executable reference, single client, no faults"),
  "C07": dict(tier="H", text="Seeded search over initial slices and Add/Remove/RemoveAt/Get/Index/Contains histories of slices.Sorted against a sorted-slice model with lower-bound insertion, panics at the bounds and the caller's input slice included. Single client, no faults. Found and now guards Remove(absent) panicking (fixed).", ref="4 (C07), 2.11", technique=TECH),
  "C11": dict(tier="H", text="Seeded search over Add/RemoveForward/RemoveReverse/Clear/Clone histories of Bimap over tiny universes (all collision patterns) against a two-map model, all getters, Len and Range after every call, clones kept live. Single client, no faults.", ref="4 (C11), 2.11", technique=TECH),
  "C16": dict(tier="H", text="Seeded search over insertion/removal/peek histories of Queue and Stack from the zero value against a slice model. Single client, no faults.", ref="4 (C16), 2.11", technique=TECH),
}

not_applicable = {
  "C08": "quantifier is configurations/inputs only: Array2D results are a pure function of shape and coordinates; no schedule, clock, fault or interleaving for a simulator to decide (DESIGN.md section 5)",
  "C12": "pure functions of (slice, capacity, index, values): nothing for a scheduler, clock or fault injector to decide (DESIGN.md section 5)",
  "C13": "pure functions of (slice, size) (DESIGN.md section 5)",
  "C14": "pure functions of input and callback; map iteration order is not observable through their order-free contract (DESIGN.md section 5)",
  "C15": "pure functions; ShuffleRand is a function of the generator passed in (DESIGN.md section 5)",
  "C20": "pure numeric helpers (DESIGN.md section 5)",
}
pending = {}

def main():
    props = [json.loads(l) for l in open(V + '/properties.jsonl')]
    checks = []
    for p in props:
        pid = p['id']
        if pid in claimed:
            c = claimed[pid]
            checks.append({
                "property_id": pid,
                "quick_cmd": f"./check {pid} quick",
                "thorough_cmd": f"./check {pid} thorough",
                "evidence_file": f"/verif/evidence/{pid}.json",
                "replay_cmd_template": "./check replay {path}",
                "engine": "verifsim",
                "level_claimed": {"category": "exploration", "text": c["text"], "design_ref": c["ref"]},
                "level_note": S_NOTE if c["tier"] == "S" else H_NOTE,
                "technique": c["technique"],
            })
    na = []
    for p in props:
        pid = p['id']
        if pid in claimed:
            continue
        reason = not_applicable.get(pid) or pending.get(pid) or "check not built yet in this session (planned: see DESIGN.md); not claimed until it runs end to end"
        na.append({"property_id": pid, "reason": reason})
    m = {
        "version": 1,
        "setup_cmd": "./setup.sh",
        "hooks": {
            "guard": "none",
            "enable": "no source hooks: each check copies /repo's working tree to a scratch directory and rewrites the copy with bin/simgen (imports of sync, sync/atomic, time; go/send/receive/close/select/range statements) before building the workers against it",
            "baseline_off_cmd": "cd /repo && go test -vet=off -count=1 ./...",
            "source_commits": [],
            "add_only": True,
        },
        "engines": [{"name": "verifsim", "path": "/verif/cmd/verifsim", "serves_properties": sorted(claimed), "kind_free_text": "deterministic simulation with fault injection: seeded cooperative scheduler (verif/sim/rt) under real goroutines running the rewritten library; reference-model and linearizability oracles; minimised replay files"}],
        "checks": checks,
        "not_applicable": na,
        "notes": "Exit 0 held / 1 VIOLATION / 2 the check could not do its job. VERIF_SEED and VERIF_TIER honoured. Known findings: /verif/known_findings.json (no open entries; every entry is a fixed one with its /repo commit and the replay kept under /verif/corpus). Independently seeded breaking changes (191, nine waves) and what catches them: /verif/seeded/ and DESIGN.md 11.6; tools/seeded_regress.py re-runs them all. Correct re-implementations that must stay silent (64): /verif/controls/ and DESIGN.md 11.8; tools/control_eval.py --regress. Strategy comparison: DESIGN.md 11.9. ./check selftest proves same-seed determinism across processes, GOMAXPROCS and plain/-race builds.",
    }
    json.dump(m, open(V + '/MANIFEST.json', 'w'), indent=1)
    print("claimed:", sorted(claimed), "n/a:", [x["property_id"] for x in na])

main()
