#!/usr/bin/env python3
"""Confirms an independently produced change and runs the check against it.

usage: tools/seeded_eval.py <ID> <i> [tier]
Reads /tmp/wt/<ID>.out/{patch<i>.diff, demo<i>*, meta<i>.json}. Confirms in a
scratch worktree of /repo (removed afterwards) that the change compiles, passes
the existing tests, and that the demonstration fails with it and passes without
it; then applies it to /repo, runs ./check <ID>, and always restores /repo.
Writes /verif/seeded/<ID>-<i>/{patch.diff, demo file, meta.json}.
"""
import json, os, shutil, subprocess, sys, glob, time
V = os.path.dirname(os.path.dirname(os.path.abspath(__file__)))  # the framework directory this tool belongs to (/verif, or a snapshot of it)

ENV = dict(os.environ, GOFLAGS="-mod=mod", GOPROXY="off", GOSUMDB="off", GOTOOLCHAIN="local")

def sh(cmd, cwd=None, timeout=1800):
    p = subprocess.run(cmd, shell=True, cwd=cwd, env=ENV, capture_output=True, text=True, timeout=timeout)
    return p.returncode, p.stdout + p.stderr

def main():
    pid, i = sys.argv[1], sys.argv[2]
    tier = "quick"
    tag = sys.argv[3] if len(sys.argv) > 3 else ""
    src = f"/tmp/wt/{pid}.out"
    patch = f"{src}/patch{i}.diff"
    meta = json.load(open(f"{src}/meta{i}.json"))
    srcid = pid
    if len(pid) > 3:  # a worktree name such as C10a: the property is the first three characters
        pid = pid[:3]
    demos = [f for f in glob.glob(f"{src}/demo{i}*") if not f.endswith(".json")]
    if not demos:
        print("no demo"); sys.exit(2)
    demo = demos[0]
    # round 7: the demonstration that fails with the change forces the interleaving
    # through a hook that exists only in the patch; the one that must pass on the
    # unchanged tree is a separate black-box stress test of the same scenario
    stress = None
    if meta.get("stress_file"):
        stress = os.path.join(src, os.path.basename(meta["stress_file"]))
        demo = os.path.join(src, os.path.basename(meta.get("demo_file") or f"demo{i}_test.go"))
    dest = f"{V}/seeded/{pid}-{tag}{i}"
    os.makedirs(dest, exist_ok=True)
    wt = f"/tmp/ev-{pid}-{tag}{i}"
    sh(f"git -C /repo worktree remove --force {wt}")
    rc, out = sh(f"git -C /repo worktree add --detach {wt} HEAD")
    assert rc == 0, out
    ran = []
    rec = {}
    try:
        pkgdir = meta.get("demo_package_dir", "").replace(f"/tmp/wt/{srcid}/", "").replace(f"/tmp/wt/{srcid}", "").strip("/") or "."
        demo_dst = os.path.join(wt, pkgdir, os.path.basename(demo))
        os.makedirs(os.path.dirname(demo_dst), exist_ok=True)
        cmd = meta.get("demo_command", "").replace(f"/tmp/wt/{srcid}.out", "@OUT@").replace(f"/tmp/wt/{srcid}", wt).replace("@OUT@", src)
        cmd = cmd.replace("<module root>", wt)
        if "cd " not in cmd:
            cmd = f"cd {wt} && {cmd}"
        copies = " cp " in " " + cmd
        # without the change
        cmd0 = cmd
        if stress:
            cmd0 = meta.get("stress_command", "").replace(f"/tmp/wt/{srcid}.out", "@OUT@").replace(f"/tmp/wt/{srcid}", wt).replace("@OUT@", src)
            if "cd " not in cmd0:
                cmd0 = f"cd {wt} && {cmd0}"
            first = ("\n" + open(stress).read()).split("\npackage ", 1)[1].split()[0].replace("_test", "")
            sdir = pkgdir if not os.path.isdir(os.path.join(wt, first)) else first
            shutil.copy(stress, os.path.join(wt, sdir, os.path.basename(stress)))
        elif not copies:
            shutil.copy(demo, demo_dst)
        rc0, out0 = sh(cmd0, cwd=wt, timeout=900)
        ran.append(cmd0 + "  (unchanged tree)")
        rec["demo_passes_without"] = rc0 == 0
        if rc0 != 0:
            rec["demo_without_tail"] = out0[-400:]
        sh("git clean -fdq", cwd=wt)
        # with the change
        rc, out = sh(f"git apply {patch}", cwd=wt)
        rec["applies"] = rc == 0
        rc, out = sh("go build ./... && go vet ./... >/dev/null 2>&1; go build ./...", cwd=wt)
        rec["compiles"] = rc == 0
        rc, out = sh("go test -vet=off -count=1 ./...", cwd=wt)
        ran.append("go test -vet=off -count=1 ./...  (with the change)")
        rec["existing_tests_pass"] = rc == 0
        if not copies:
            shutil.copy(demo, demo_dst)
        rc1, out1 = sh(cmd, cwd=wt, timeout=900)
        ran.append(cmd + "  (with the change)")
        rec["demo_fails_with_change"] = rc1 != 0
        rec["demo_output_tail"] = out1[-600:]
    finally:
        sh(f"git -C /repo worktree remove --force {wt}")
        shutil.rmtree(wt, ignore_errors=True)
    confirmed = all(rec.get(k) for k in ("applies", "compiles", "existing_tests_pass", "demo_fails_with_change", "demo_passes_without"))
    rec["confirmed"] = confirmed
    check = {}
    if confirmed:
        cw = f"/tmp/evc-{pid}-{tag}{i}"
        co = f"/tmp/evc-{pid}-{tag}{i}.out"
        sh(f"git -C /repo worktree remove --force {cw}")
        rc, out = sh(f"git -C /repo worktree add --detach {cw} HEAD && git -C {cw} apply {patch}")
        assert rc == 0, out
        try:
            t0 = time.time()
            rc, out = sh(f"VERIF_REPO_DIR={cw} VERIF_OUT_DIR={co} ./check {pid} {tier}", cwd=V, timeout=3600)
            check = {"cmd": f"./check {pid} {tier}  (against a scratch worktree of /repo carrying patch.diff)", "exit": rc, "wall_s": round(time.time() - t0, 1),
                     "violation_lines": [l.replace(co, "<out>") for l in out.splitlines() if l.startswith("VIOLATION") or l.strip().startswith("signature:")][:12],
                     "tail": out[-400:].replace(co, "<out>")}
            ran.append(f"git worktree add <scratch> HEAD; git -C <scratch> apply patch.diff; VERIF_REPO_DIR=<scratch> ./check {pid} {tier}; git worktree remove <scratch>")
        finally:
            sh(f"git -C /repo worktree remove --force {cw}")
            shutil.rmtree(cw, ignore_errors=True)
            shutil.rmtree(co, ignore_errors=True)
    shutil.copy(patch, f"{dest}/patch.diff")
    shutil.copy(demo, f"{dest}/{os.path.basename(demo)}")
    if stress:
        shutil.copy(stress, f"{dest}/{os.path.basename(stress)}")
    m = {"property": pid, "base_commit": subprocess.run("git -C /repo rev-parse --short HEAD", shell=True, capture_output=True, text=True).stdout.strip(), "origin": "independent sub-agent given only the property text and a scratch worktree",
         "summary": meta.get("summary"), "needs_to_manifest": meta.get("needs_to_manifest"),
         "files_changed": meta.get("files_changed"), "demo_file": os.path.basename(demo), "stress_file": os.path.basename(stress) if stress else None,
         "stress_hits_with_patch": meta.get("stress_hits_with_patch"),
         "demo_package_dir": meta.get("demo_package_dir"), "demo_command": meta.get("demo_command"),
         "confirmation": rec, "what_i_ran": ran, "check_result": check,
         "caught": bool(check) and check.get("exit") == 1}
    json.dump(m, open(f"{dest}/meta.json", "w"), indent=1)
    print(json.dumps({"id": f"{pid}-{tag}{i}", "confirmed": confirmed, "rec": {k: v for k, v in rec.items() if k not in ("demo_output_tail",)}, "check_exit": check.get("exit"), "sigs": check.get("violation_lines")}, indent=1))

main()
