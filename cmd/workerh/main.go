// workerh runs the history-only (tier H) harnesses: single client, no faults,
// built against the unrewritten working tree.
package main

import (
	"verif/harness/c01"
	"verif/harness/c02"
	"verif/harness/core"
)

func main() {
	core.WorkerMain(map[string]core.Harness{
		"C01": c01.H{},
		"C02": c02.H{},
	})
}
