// workerh runs the history-only (tier H) harnesses: single client, no faults,
// built against the rewritten copy like the tier-S worker (map iteration order is then a replayable draw).
package main

import (
	"verif/harness/c01"
	"verif/harness/c02"
	"verif/harness/c03"
	"verif/harness/c06"
	"verif/harness/c07"
	"verif/harness/c11"
	"verif/harness/c16"
	"verif/harness/core"
)

func main() {
	core.WorkerMain(map[string]core.Harness{
		"C01": c01.H{},
		"C02": c02.H{},
		"C03": c03.H{},
		"C06": c06.H{},
		"C07": c07.H{},
		"C11": c11.H{},
		"C16": c16.H{},
	})
}
