// worker runs simulated executions of one tier-S property harness against the
// rewritten scratch copy of the code under test it was built with.
package main

import (
	"verif/harness/c04"
	"verif/harness/core"
)

func main() {
	core.WorkerMain(map[string]core.Harness{
		"C04": c04.H{},
	})
}
