// worker runs simulated executions of one tier-S property harness against the
// rewritten scratch copy of the code under test it was built with.
package main

import (
	"verif/harness/c04"
	"verif/harness/c05"
	"verif/harness/c09"
	"verif/harness/c10"
	"verif/harness/c17"
	"verif/harness/c18"
	"verif/harness/c19"
	"verif/harness/core"
)

func main() {
	core.WorkerMain(map[string]core.Harness{
		"C04": c04.H{},
		"C05": c05.H{},
		"C09": c09.H{},
		"C10": c10.H{},
		"C17": c17.H{},
		"C18": c18.H{},
		"C19": c19.H{},
	})
}
