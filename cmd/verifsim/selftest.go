package main

import (
	"bytes"
	"fmt"
	"os"
	"os/exec"
	"path/filepath"
	"sort"
	"strconv"
	"sync"
)

// selftest proves determinism: the same VERIF_SEED range is executed by many
// OS processes, plain and under the race detector, at GOMAXPROCS 1, 4 and 16,
// and the per-run trace hashes must be byte-identical.
func selftest(ids []string) int {
	if len(ids) == 0 {
		for id := range props {
			ids = append(ids, id)
		}
		sort.Strings(ids)
	}
	scS := prepare(true, "./cmd/worker", true)
	defer scS.cleanup()
	scH := prepare(true, "./cmd/workerh", false)
	defer scH.cleanup()
	bad := 0
	for _, id := range ids {
		sc := scS
		if props[id] != nil && props[id].Tier == "H" {
			sc = scH
		}
		type variant struct {
			bin  string
			proc int
		}
		var vs []variant
		for _, gmp := range []int{1, 4, 16} {
			for k := 0; k < 4; k++ {
				vs = append(vs, variant{sc.plain, gmp})
			}
			if sc.race != "" {
				vs = append(vs, variant{sc.race, gmp})
			}
		}
		logs := make([][]byte, len(vs))
		var wg sync.WaitGroup
		sem := make(chan struct{}, 16)
		for i, v := range vs {
			wg.Add(1)
			go func(i int, v variant) {
				defer wg.Done()
				sem <- struct{}{}
				defer func() { <-sem }()
				lf := filepath.Join(sc.dir, fmt.Sprintf("hashlog.%s.%d", id, i))
				cmd := exec.Command(v.bin, "-prop", id, "-seed", "424242", "-from", "0", "-to", "400", "-out", sc.dir, "-hashlog", lf, "-maxviol", "1000000")
				cmd.Env = append(os.Environ(), "GOMAXPROCS="+strconv.Itoa(v.proc), "GORACE=halt_on_error=0 exitcode=0")
				var e bytes.Buffer
				cmd.Stderr = &e
				if err := cmd.Run(); err != nil {
					fmt.Printf("selftest %s: worker failed: %v %s\n", id, err, tail(e.String(), 1000))
				}
				logs[i], _ = os.ReadFile(lf)
			}(i, v)
		}
		wg.Wait()
		ok := len(logs[0]) > 0
		// the race build may add "race" verdicts of its own: compare run, hash and
		// steps across builds, whole lines within one kind of build
		strip := func(b []byte) []byte {
			var out []byte
			for _, l := range bytes.Split(b, []byte("\n")) {
				f := bytes.Fields(l)
				if len(f) >= 3 {
					out = append(out, bytes.Join(f[:3], []byte(" "))...)
					out = append(out, '\n')
				}
			}
			return out
		}
		firstRace := -1
		for i, v := range vs {
			if sc.race != "" && v.bin == sc.race && firstRace < 0 {
				firstRace = i
			}
		}
		for i := 1; i < len(logs); i++ {
			same := bytes.Equal(strip(logs[0]), strip(logs[i]))
			if vs[i].bin == sc.plain {
				same = same && bytes.Equal(logs[0], logs[i])
			} else {
				same = same && bytes.Equal(logs[firstRace], logs[i])
			}
			if !same {
				ok = false
				fmt.Printf("selftest %s: process %d (GOMAXPROCS=%d, race=%v) diverged from process 0\n", id, i, vs[i].proc, vs[i].bin == sc.race)
			}
		}
		if ok {
			kinds := "plain and -race"
			if sc.race == "" {
				kinds = "plain"
			}
			fmt.Printf("selftest %s: %d processes x 400 seeds identical (%s, GOMAXPROCS 1/4/16)\n", id, len(vs), kinds)
		} else {
			bad++
		}
	}
	if bad > 0 {
		return 2
	}
	return 0
}
