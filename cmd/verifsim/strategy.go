package main

import (
	"bytes"
	"encoding/json"
	"fmt"
	"os"
	"os/exec"
	"path/filepath"
	"sort"
	"strconv"
	"sync"
	"time"
)

// strategyCmd compares the scheduling strategies on the tree at VERIF_REPO_DIR
// (normally a scratch worktree carrying a seeded change): for each strategy it
// runs a few plain workers over disjoint run ranges until their first violation
// and reports the number of runs each needed. It is a measurement tool for
// tools/strategy_eval.py, not a check: nothing it prints is a verdict.
func strategyCmd(id string, capRuns int64) int {
	p := props[id]
	if p == nil || p.Tier != "S" {
		fail2("strategy: %q is not a schedule-dependent property", id)
	}
	sc := prepare(true, workerPkg(p), false)
	defer sc.cleanup()
	type cell struct {
		Strategy string  `json:"strategy"`
		First    []int64 `json:"runs_to_first_violation"` // -1: none within the cap
		Sig      string  `json:"signature,omitempty"`
	}
	strategies := []struct {
		name string
		code int
	}{{"swarm-mix", -1}, {"random-walk", 0}, {"sticky-random", 3}, {"partial-order-sampling", 6}, {"pct", 8}}
	const chunks = 3
	out := make([]cell, len(strategies))
	var wg sync.WaitGroup
	var mu sync.Mutex
	for si, st := range strategies {
		out[si] = cell{Strategy: st.name, First: make([]int64, chunks)}
		for c := 0; c < chunks; c++ {
			wg.Add(1)
			go func(si, c int, code int) {
				defer wg.Done()
				from := int64(c) * (1 << 32)
				dir := filepath.Join(sc.dir, fmt.Sprintf("strat-%d-%d", si, c))
				os.MkdirAll(dir, 0o755)
				cmd := exec.Command(sc.plain, "-prop", id, "-seed", strconv.FormatInt(seedFromEnv(), 10), "-from", strconv.FormatInt(from, 10), "-to", strconv.FormatInt(from+capRuns, 10),
					"-tier", "quick", "-budget", "40s", "-out", dir, "-maxviol", "1", "-nominimise")
				cmd.Env = append(os.Environ(), "VERIF_STRATEGY="+strconv.Itoa(code))
				var o, e bytes.Buffer
				cmd.Stdout, cmd.Stderr = &o, &e
				done := make(chan error, 1)
				go func() { done <- cmd.Run() }()
				select {
				case <-done:
				case <-time.After(100 * time.Second):
					cmd.Process.Kill()
				}
				var res struct {
					Violations []struct {
						Signature string `json:"signature"`
						Run       int64  `json:"run"`
					} `json:"violations"`
				}
				first := int64(-1)
				sig := ""
				if json.Unmarshal(bytes.TrimSpace(o.Bytes()), &res) == nil && len(res.Violations) > 0 {
					sort.Slice(res.Violations, func(i, j int) bool { return res.Violations[i].Run < res.Violations[j].Run })
					first = res.Violations[0].Run - from + 1
					sig = res.Violations[0].Signature
				}
				mu.Lock()
				out[si].First[c] = first
				if sig != "" {
					out[si].Sig = sig
				}
				mu.Unlock()
			}(si, c, st.code)
		}
	}
	wg.Wait()
	b, _ := json.Marshal(map[string]any{"property": id, "cap_runs": capRuns, "strategies": out})
	fmt.Println(string(b))
	return 0
}
