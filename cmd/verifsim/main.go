// verifsim is the runner: it prepares a scratch copy of /repo's working tree,
// rewrites it with simgen (tier S), builds the workers against it, fans the
// seeded runs out over worker processes, re-verifies and reports violations,
// writes the evidence file and removes the scratch directory.
//
//	verifsim check <ID> [--tier quick|thorough]
//	verifsim replay <file>
//	verifsim selftest [<ID>...]
//	verifsim rewrite-test
//
// Exit status: 0 property held on everything explored (known findings are
// printed as KNOWN-FINDING lines); 1 a violation not listed as known was found
// (VIOLATION property=<id> replay=<path>); 2 the check could not do its job.
package main

import (
	"bytes"
	"encoding/json"
	"fmt"
	"io"
	"io/fs"
	"os"
	"os/exec"
	"path/filepath"
	"regexp"
	"sort"
	"strconv"
	"strings"
	"sync"
	"time"
)

// verifDir is where the framework lives. VERIF_DIR exists so that long experiments
// (regressions, strategy comparisons, background sweeps) can run from a snapshot
// of /verif while /verif itself is being edited; the registered checks never set it.
var verifDir = envOr("VERIF_DIR", "/verif")

// repoDir is the tree under test. VERIF_REPO_DIR and VERIF_OUT_DIR exist only so
// that the sensitivity regression (tools/seeded_regress.py) can run the checks
// against scratch worktrees carrying a seeded change, in parallel, without
// touching /repo or the evidence of the real checks.
var repoDir = envOr("VERIF_REPO_DIR", "/repo")
var outDir = envOr("VERIF_OUT_DIR", verifDir)

func envOr(k, d string) string {
	if v := os.Getenv(k); v != "" {
		return v
	}
	return d
}

type propInfo struct {
	ID        string
	Tier      string // "S" or "H"
	QuickRuns int64
	ThorRuns  int64
	RaceShare float64 // fraction of worker processes that are race builds
	Clock     bool    // property involves the virtual clock
	Faults    []string
	Real      []string
	Modelled  []string
	Stubbed   []string
	Rule      string
	Assume    []string
	Anchors   []string // files of the code under test whose block coverage is reported
}

var props = map[string]*propInfo{}

func reg(p *propInfo) { props[p.ID] = p }

func fail2(format string, a ...any) {
	fmt.Fprintf(os.Stderr, "verifsim: "+format+"\n", a...)
	os.Exit(2)
}

func goEnv() []string {
	env := os.Environ()
	env = append(env, "GOFLAGS=-mod=mod", "GOPROXY=off", "GOSUMDB=off", "GOTOOLCHAIN=local")
	return env
}

func run(dir string, env []string, name string, args ...string) (string, error) {
	cmd := exec.Command(name, args...)
	cmd.Dir = dir
	cmd.Env = env
	var buf bytes.Buffer
	cmd.Stdout = &buf
	cmd.Stderr = &buf
	err := cmd.Run()
	return buf.String(), err
}

func copyTree(src, dst string) error {
	return filepath.WalkDir(src, func(p string, d fs.DirEntry, err error) error {
		if err != nil {
			return err
		}
		rel, _ := filepath.Rel(src, p)
		if rel == ".git" {
			if d.IsDir() {
				return filepath.SkipDir
			}
			return nil // a worktree's .git is a file
		}
		target := filepath.Join(dst, rel)
		if d.IsDir() {
			return os.MkdirAll(target, 0o755)
		}
		if !d.Type().IsRegular() {
			return nil
		}
		in, err := os.Open(p)
		if err != nil {
			return err
		}
		defer in.Close()
		out, err := os.Create(target)
		if err != nil {
			return err
		}
		defer out.Close()
		_, err = io.Copy(out, in)
		return err
	})
}

type scratch struct {
	dir     string
	typ     string
	modfile string
	plain   string
	race    string
	simgen  string
}

func (s *scratch) cleanup() { os.RemoveAll(s.dir) }

// prepare copies the working tree, rewrites it when asked and builds workers.
func prepare(rewrite bool, pkg string, wantRace bool) *scratch {
	dir, err := os.MkdirTemp("", "verifsim-")
	if err != nil {
		fail2("%v", err)
	}
	s := &scratch{dir: dir, typ: filepath.Join(dir, "typ"), modfile: filepath.Join(dir, "verif.mod")}
	if err := copyTree(repoDir, s.typ); err != nil {
		s.cleanup()
		fail2("copy of %s failed: %v", repoDir, err)
	}
	if rewrite {
		out, err := run(verifDir, goEnv(), filepath.Join(verifDir, "bin", "simgen"), s.typ, filepath.Join(dir, "cover.txt"))
		s.simgen = strings.TrimSpace(out)
		if err != nil {
			s.cleanup()
			fail2("simgen failed (the tree does not build, or uses a construct the rewriter has no model for):\n%s", out)
		}
		f, err := os.OpenFile(filepath.Join(s.typ, "go.mod"), os.O_APPEND|os.O_WRONLY, 0o644)
		if err != nil {
			s.cleanup()
			fail2("%v", err)
		}
		fmt.Fprintf(f, "\nrequire verif v0.0.0\n\nreplace verif => %s\n", verifDir)
		f.Close()
	}
	mod, err := os.ReadFile(filepath.Join(verifDir, "go.mod"))
	if err != nil {
		s.cleanup()
		fail2("%v", err)
	}
	mod = bytes.Replace(mod, []byte("=> /repo"), []byte("=> "+s.typ), 1)
	os.WriteFile(s.modfile, mod, 0o644)
	sum, _ := os.ReadFile(filepath.Join(verifDir, "go.sum"))
	os.WriteFile(filepath.Join(dir, "verif.sum"), sum, 0o644)
	os.WriteFile(filepath.Join(s.typ, "go.sum"), sum, 0o644)

	s.plain = filepath.Join(dir, "worker")
	var wg sync.WaitGroup
	var e1, e2 error
	var o1, o2 string
	wg.Add(1)
	go func() {
		defer wg.Done()
		o1, e1 = run(verifDir, goEnv(), "go", "build", "-modfile="+s.modfile, "-o", s.plain, pkg)
	}()
	if wantRace {
		s.race = filepath.Join(dir, "worker-race")
		wg.Add(1)
		go func() {
			defer wg.Done()
			o2, e2 = run(verifDir, goEnv(), "go", "build", "-race", "-modfile="+s.modfile, "-o", s.race, pkg)
		}()
	}
	wg.Wait()
	if e1 != nil || e2 != nil {
		s.cleanup()
		fail2("building the worker against the current tree failed:\n%s%s", o1, o2)
	}
	return s
}

type found struct {
	Signature string `json:"signature"`
	Detail    string `json:"detail"`
	Replay    string `json:"replay"`
	Run       int64  `json:"run"`
	From      int64  `json:"-"` // first run of the worker that found it
	race      bool   // found by (and replayable with) the race-detector build
	isRace    bool   // the violation is a race report
	crash     bool   // the run killed the worker process inside the code under test
	hang      bool   // the run does not terminate
}

type workerResult struct {
	Property   string           `json:"property"`
	From       int64            `json:"from"`
	To         int64            `json:"to"`
	Runs       int64            `json:"runs"`
	Steps      int64            `json:"steps"`
	MaxSteps   int64            `json:"max_steps"`
	Truncated  int64            `json:"truncated"`
	Stuck      int64            `json:"stuck"`
	SimNanos   int64            `json:"sim_nanos"`
	WallS      float64          `json:"wall_s"`
	Race       bool             `json:"race"`
	Counts     map[string]int64 `json:"counts"`
	Samples    []any            `json:"samples"`
	Violations []found          `json:"violations"`
	Trouble    string           `json:"trouble"`
	Cover      map[int]uint32   `json:"cover"`
	Hashes     string           `json:"hashes_file"`
}

type knownFinding struct {
	Property  string `json:"property"`
	Signature string `json:"signature"`
	What      string `json:"what"`
	Status    string `json:"status"` // open | fixed
	Commit    string `json:"commit,omitempty"`
}

func loadKnown() []knownFinding {
	// VERIF_KNOWN_FILE: test-only override, used by the sensitivity regression when
	// it runs a check against an older base commit whose findings were open then
	b, err := os.ReadFile(envOr("VERIF_KNOWN_FILE", filepath.Join(verifDir, "known_findings.json")))
	if err != nil {
		return nil
	}
	var k struct {
		Findings []knownFinding `json:"findings"`
	}
	if err := json.Unmarshal(b, &k); err != nil {
		fail2("known_findings.json: %v", err)
	}
	return k.Findings
}

var raceFrameRe = regexp.MustCompile(`^\s+(\S+)\(\)$`)

// raceSignature extracts a stable name from a race detector report: the
// innermost code-under-test function of each of the two accesses.
func raceSignature(report string) string {
	var parts []string
	lines := strings.Split(report, "\n")
	for i := 0; i < len(lines); i++ {
		l := lines[i]
		if strings.HasPrefix(l, "Read at ") || strings.HasPrefix(l, "Write at ") || strings.HasPrefix(l, "Previous read at ") || strings.HasPrefix(l, "Previous write at ") ||
			strings.HasPrefix(l, "Atomic read at ") || strings.HasPrefix(l, "Atomic write at ") || strings.HasPrefix(l, "Previous atomic read at ") || strings.HasPrefix(l, "Previous atomic write at ") {
			kind := "read"
			if strings.Contains(strings.ToLower(l), "write") {
				kind = "write"
			}
			fn := ""
			first := ""
			for j := i + 1; j < len(lines) && strings.TrimSpace(lines[j]) != ""; j++ {
				if m := raceFrameRe.FindStringSubmatch(lines[j]); m != nil {
					name := m[1]
					if first == "" && !strings.HasPrefix(name, "runtime.") && !strings.HasPrefix(name, "verif/sim/") && !strings.HasPrefix(name, "sync") {
						first = name
					}
					if strings.HasPrefix(name, "gopkg.in/typ.v4/") {
						fn = name
						break
					}
				}
			}
			if fn == "" {
				fn = first
			}
			parts = append(parts, kind+"@"+shortFunc(fn))
			if len(parts) == 2 {
				break
			}
		}
	}
	sort.Strings(parts)
	if len(parts) == 0 {
		return "race"
	}
	return "race: " + strings.Join(parts, " vs ")
}

func shortFunc(name string) string {
	for {
		i := strings.Index(name, "[")
		if i < 0 {
			break
		}
		depth, j := 0, i
		for ; j < len(name); j++ {
			if name[j] == '[' {
				depth++
			} else if name[j] == ']' {
				depth--
				if depth == 0 {
					break
				}
			}
		}
		if j >= len(name) {
			break
		}
		name = name[:i] + name[j+1:]
	}
	name = strings.TrimPrefix(name, "gopkg.in/typ.v4/")
	if i := strings.Index(name, ".func"); i > 0 {
		name = name[:i]
	}
	return name
}

func replayOnce(bin, prop, file string, trace bool) (code int, stdout, stderr string) {
	args := []string{"-prop", prop, "-replay", file}
	if trace {
		args = append(args, "-trace")
	}
	cmd := exec.Command(bin, args...)
	cmd.Env = append(os.Environ(), "GORACE=halt_on_error=0 exitcode=0")
	var o, e bytes.Buffer
	cmd.Stdout, cmd.Stderr = &o, &e
	err := cmd.Run()
	code = 0
	if err != nil {
		if ee, ok := err.(*exec.ExitError); ok {
			code = ee.ExitCode()
		} else {
			code = 2
		}
	}
	return code, o.String(), e.String()
}

func main() {
	if len(os.Args) < 2 {
		fail2("usage: verifsim check <ID> [--tier quick|thorough] | replay <file> | selftest | rewrite-test")
	}
	switch os.Args[1] {
	case "check":
		if len(os.Args) < 3 {
			fail2("usage: verifsim check <ID> [--tier quick|thorough]")
		}
		tier := os.Getenv("VERIF_TIER")
		for i := 3; i < len(os.Args); i++ {
			if os.Args[i] == "--tier" && i+1 < len(os.Args) {
				tier = os.Args[i+1]
			}
		}
		if tier == "" {
			tier = "quick"
		}
		os.Exit(check(os.Args[2], tier))
	case "replay":
		if len(os.Args) < 3 {
			fail2("usage: verifsim replay <file>")
		}
		os.Exit(replayCmd(os.Args[2]))
	case "selftest":
		os.Exit(selftest(os.Args[2:]))
	case "rewrite-test":
		os.Exit(rewriteTest())
	case "strategy":
		if len(os.Args) < 3 {
			fail2("usage: verifsim strategy <ID> [cap-runs]")
		}
		capRuns := int64(200000)
		if len(os.Args) > 3 {
			if n, err := strconv.ParseInt(os.Args[3], 10, 64); err == nil {
				capRuns = n
			}
		}
		os.Exit(strategyCmd(os.Args[2], capRuns))
	default:
		fail2("unknown command %q", os.Args[1])
	}
}

func workerPkg(p *propInfo) string {
	if p.Tier == "H" {
		return "./cmd/workerh"
	}
	return "./cmd/worker"
}

func seedFromEnv() int64 {
	if v := os.Getenv("VERIF_SEED"); v != "" {
		n, err := strconv.ParseInt(v, 10, 64)
		if err != nil {
			fail2("VERIF_SEED=%q is not an integer", v)
		}
		return n
	}
	return 20261001
}

func check(id, tier string) int {
	p := props[id]
	if p == nil {
		fail2("no check for property %q", id)
	}
	if tier != "quick" && tier != "thorough" {
		fail2("unknown tier %q", tier)
	}
	start := time.Now()
	seed := seedFromEnv()
	fmt.Printf("verifsim: property=%s tier=%s VERIF_SEED=%d\n", id, tier, seed)
	// VERIF_NO_RACE: test-only, for the sensitivity regression on an older base
	// commit whose own (since fixed) races would otherwise be credited to the change
	wantRace := p.Tier == "S" && p.RaceShare > 0 && os.Getenv("VERIF_NO_RACE") == ""
	sc := prepare(true, workerPkg(p), wantRace)
	defer sc.cleanup()
	buildS := time.Since(start).Seconds()
	if sc.simgen != "" {
		fmt.Println(sc.simgen)
	}
	replayDir := filepath.Join(outDir, "replays", id)
	os.MkdirAll(replayDir, 0o755)
	rewriteTest := "not run in this tier"
	if tier == "thorough" {
		// the rewrite must preserve sequential behaviour: the repository's own tests,
		// on the rewritten tree, with the simulator inactive
		out, err := run(sc.typ, goEnv(), "go", "test", "-vet=off", "-count=1", "./...")
		if err != nil {
			fail2("the repository's tests fail on the rewritten tree (simgen does not preserve behaviour here, or the tree's own tests fail):\n%s", tail(out, 3000))
		}
		rewriteTest = "the repository's tests pass on the rewritten tree with the simulator inactive"
	}

	var all []found
	// 1. corpus: schedules that exposed a break once are the likeliest to expose its return
	corpus, _ := filepath.Glob(filepath.Join(verifDir, "corpus", id, "*.json"))
	sort.Strings(corpus)
	corpusHits := 0
	for _, f := range corpus {
		bin := sc.plain
		var meta struct {
			Race      bool `json:"race_build"`
			Violation struct {
				Signature string `json:"signature"`
			} `json:"violation"`
		}
		b, _ := os.ReadFile(f)
		json.Unmarshal(b, &meta)
		if meta.Race {
			if sc.race == "" {
				continue
			}
			bin = sc.race
		}
		code, out, errOut := replayOnce(bin, id, f, false)
		if code == 2 {
			fail2("corpus replay %s failed: %s%s", f, out, errOut)
		}
		if code == 3 {
			corpusHits++
			dst := filepath.Join(replayDir, "corpus-"+filepath.Base(f))
			os.WriteFile(dst, b, 0o644)
			sig := meta.Violation.Signature
			if meta.Race && sig == "race" {
				sig = raceSignature(errOut)
			}
			all = append(all, found{Signature: sig, Detail: "corpus schedule reproduced: " + lastLine(out), Replay: dst, race: meta.Race, isRace: meta.Race && meta.Violation.Signature == "race"})
		}
	}

	// 2. seeded exploration
	total := p.QuickRuns
	budget := 55 * time.Second
	if tier == "thorough" {
		total = p.ThorRuns
		budget = 14 * time.Minute
	}
	nproc := 16
	nrace := 0
	if wantRace {
		nrace = int(float64(nproc)*p.RaceShare + 0.5)
		if nrace < 1 {
			nrace = 1
		}
	}
	nplain := nproc - nrace
	type job struct {
		bin      string
		from, to int64
		race     bool
	}
	var jobs []job
	per := total / int64(nplain)
	for i := 0; i < nplain; i++ {
		jobs = append(jobs, job{sc.plain, int64(i) * per, int64(i+1) * per, false})
	}
	// race runs use their own index range; they are ~5x slower per run
	rper := per / 5
	if rper < 1 {
		rper = 1
	}
	for i := 0; i < nrace; i++ {
		base := int64(1) << 40
		jobs = append(jobs, job{sc.race, base + int64(i)*rper, base + int64(i+1)*rper, true})
	}
	var knownSigs []string
	for _, k := range loadKnown() {
		if k.Property == id && k.Status == "open" {
			knownSigs = append(knownSigs, k.Signature)
		}
	}
	kb, _ := json.Marshal(knownSigs)
	knownFile := filepath.Join(sc.dir, "known.json")
	os.WriteFile(knownFile, kb, 0o644)
	results := make([]workerResult, len(jobs))
	troubles := make([]string, len(jobs))
	crashes := make([]*found, len(jobs))
	var wg sync.WaitGroup
	for i, j := range jobs {
		wg.Add(1)
		go func(i int, j job) {
			defer wg.Done()
			hf := filepath.Join(sc.dir, fmt.Sprintf("hashes.%d", i))
			cmd := exec.Command(j.bin, "-prop", id, "-seed", strconv.FormatInt(seed, 10), "-from", strconv.FormatInt(j.from, 10), "-to", strconv.FormatInt(j.to, 10),
				"-tier", tier, "-budget", budget.String(), "-out", replayDir, "-hashes", hf, "-known", knownFile, "-progress", filepath.Join(sc.dir, fmt.Sprintf("progress.%d", i)))
			cmd.Env = append(os.Environ(), "GORACE=halt_on_error=0 exitcode=0")
			var o, e bytes.Buffer
			cmd.Stdout, cmd.Stderr = &o, &e
			done := make(chan error, 1)
			go func() { done <- cmd.Run() }()
			var err error
			select {
			case err = <-done:
			case <-time.After(budget + 90*time.Second):
				cmd.Process.Kill()
				if f := diedMinimising(filepath.Join(sc.dir, fmt.Sprintf("progress.%d", i)), j.race); f != nil {
					crashes[i] = f
					results[i] = workerResult{Counts: map[string]int64{}}
					return
				}
				// a single run that never returns: either the code under test spins
				// without reaching any synchronisation operation, or the harness is
				// broken. Re-execute the run in flight from its seed, alone, with a
				// generous limit: if it hangs again it is reported as what it is.
				if pb, perr := os.ReadFile(filepath.Join(sc.dir, fmt.Sprintf("progress.%d", i))); perr == nil && len(pb) >= 8 {
					var run int64
					for k := 0; k < 8; k++ {
						run |= int64(pb[k]) << (8 * k)
					}
					file := filepath.Join(replayDir, fmt.Sprintf("%s-seed%d-run%d-hang.json", id, seed, run))
					if _, derr := runCmd(j.bin, "-prop", id, "-seed", strconv.FormatInt(seed, 10), "-tier", tier, "-dumprun", strconv.FormatInt(run, 10), "-outfile", file); derr == nil {
						if hangs(j.bin, id, file) {
							crashes[i] = &found{Signature: "hang: the run does not terminate", Detail: "re-executed alone from its seed, the run again did not finish within 60 s", Replay: file, Run: run, race: j.race, hang: true}
							results[i] = workerResult{Counts: map[string]int64{}}
							return
						}
					}
				}
				troubles[i] = fmt.Sprintf("watchdog: worker for runs [%d,%d) (race=%v) did not finish within its budget and the run in flight terminates when re-executed alone; its output so far: %s %s", j.from, j.to, j.race, tail(o.String(), 500), tail(e.String(), 1500))
				return
			}
			line := lastLine(o.String())
			if jerr := json.Unmarshal([]byte(line), &results[i]); jerr != nil {
				// the process died. If the Go runtime killed it inside the code under test
				// (stack overflow, concurrent map access, ...) that is what the property
				// forbids, not trouble of ours: attribute it to the run in flight.
				progFile := filepath.Join(sc.dir, fmt.Sprintf("progress.%d", i))
				if f := diedMinimising(progFile, j.race); f != nil {
					crashes[i] = f
					results[i] = workerResult{Counts: map[string]int64{}}
					return
				}
				if sig := crashSignature(e.String()); sig != "" {
					if pb, perr := os.ReadFile(progFile); perr == nil && len(pb) >= 8 {
						var run int64
						for k := 0; k < 8; k++ {
							run |= int64(pb[k]) << (8 * k)
						}
						file := filepath.Join(replayDir, fmt.Sprintf("%s-seed%d-run%d-crash.json", id, seed, run))
						if _, derr := runCmd(j.bin, "-prop", id, "-seed", strconv.FormatInt(seed, 10), "-tier", tier, "-dumprun", strconv.FormatInt(run, 10), "-outfile", file); derr == nil {
							crashes[i] = &found{Signature: sig, Detail: tail(e.String(), 1500), Replay: file, Run: run, race: j.race, crash: true}
							results[i] = workerResult{Counts: map[string]int64{}}
							return
						}
					}
				}
				troubles[i] = fmt.Sprintf("worker died: %v\n%s\n%s", err, tail(o.String(), 2000), tail(e.String(), 4000))
				return
			}
			if err != nil || results[i].Trouble != "" {
				troubles[i] = fmt.Sprintf("%v %s\n%s", err, results[i].Trouble, tail(e.String(), 4000))
				return
			}
			for k := range results[i].Violations {
				results[i].Violations[k].From = j.from
				results[i].Violations[k].race = j.race
				results[i].Violations[k].isRace = j.race && results[i].Violations[k].Signature == "race"
			}
		}(i, j)
	}
	wg.Wait()
	for _, t := range troubles {
		if t != "" {
			fail2("%s", t)
		}
	}
	for _, c := range crashes {
		if c != nil {
			all = append(all, *c)
		}
	}

	// 3. aggregate
	agg := workerResult{Counts: map[string]int64{}}
	var raceRuns, plainRuns int64
	var wallMax float64
	distinct := map[uint64]bool{}
	nontrivial := map[uint64]bool{}
	for i, r := range results {
		agg.Runs += r.Runs
		agg.Steps += r.Steps
		if r.MaxSteps > agg.MaxSteps {
			agg.MaxSteps = r.MaxSteps
		}
		agg.Truncated += r.Truncated
		agg.Stuck += r.Stuck
		agg.SimNanos += r.SimNanos
		if r.WallS > wallMax {
			wallMax = r.WallS
		}
		if r.Race {
			raceRuns += r.Runs
		} else {
			plainRuns += r.Runs
		}
		for k, v := range r.Counts {
			agg.Counts[k] += v
		}
		if len(agg.Samples) < 4 {
			agg.Samples = append(agg.Samples, r.Samples...)
		}
		for _, v := range r.Violations {
			all = append(all, v)
		}
		if b, err := os.ReadFile(filepath.Join(sc.dir, fmt.Sprintf("hashes.%d", i))); err == nil {
			for o := 0; o+9 <= len(b); o += 9 {
				var h uint64
				for k := 0; k < 8; k++ {
					h |= uint64(b[o+1+k]) << (8 * k)
				}
				distinct[h] = true
				if b[o] == 1 {
					nontrivial[h] = true
				}
			}
		}
	}

	// block coverage of the property's anchor files (plain workers only)
	hits := map[int]uint64{}
	for _, r := range results {
		for i, n := range r.Cover {
			hits[i] += uint64(n)
		}
	}
	coverage := blockCoverage(filepath.Join(sc.dir, "cover.txt"), hits, p.Anchors)

	// 4. re-verify every violation in a fresh process; name races from the report
	known := loadKnown()
	exit := 0
	reported := map[string]bool{}
	nviol := 0
	var knownHit []string
	var unreproduced []string
	for _, v := range all {
		bin := sc.plain
		if v.race {
			bin = sc.race
		}
		var code int
		var out, errOut string
		if !v.hang {
			code, out, errOut = replayOnce(bin, id, v.Replay, false)
		}
		if v.hang {
			code = 3 // confirmed when it was found: hangs() re-executed it alone
		} else if v.crash {
			if crashSignature(errOut) != v.Signature {
				unreproduced = append(unreproduced, fmt.Sprintf("worker crash at run %d (%s) did not happen again when the run was re-executed alone from %s", v.Run, v.Signature, v.Replay))
				continue
			}
			code = 3
		}
		if code != 3 {
			// Believed only if it happens again in a fresh process. Something that
			// does not is never reported as a violation; it is harness trouble (exit 2)
			// unless other violations of this run do reproduce, in which case those are
			// reported and this one is listed in the evidence.
			// the code under test may carry state from one run to the next (a package
			// level variable): re-execute the worker's runs up to this one, in order
			rfile := strings.TrimSuffix(v.Replay, ".json") + "-range.json"
			ok := false
			if !v.isRace && v.From >= 0 && v.Run >= v.From {
				if _, err := runCmd(bin, "-prop", id, "-seed", strconv.FormatInt(seed, 10), "-tier", tier, "-from", strconv.FormatInt(v.From, 10), "-to", strconv.FormatInt(v.Run+1, 10), "-mkrange", v.Signature, "-outfile", rfile); err == nil {
					if c2, _, _ := replayOnce(bin, id, rfile, false); c2 == 3 {
						ok = true
						v.Replay = rfile
						v.Detail += fmt.Sprintf(" [reproduces only when runs %d..%d are re-executed in order in one process: the code under test carries state from run to run]", v.From, v.Run)
					}
				}
			}
			if !ok {
				unreproduced = append(unreproduced, fmt.Sprintf("%s (%s) did not reproduce in a fresh process: %s", v.Signature, v.Replay, firstN(out, 300)))
				continue
			}
		}
		sig := v.Signature
		if v.isRace {
			sig = raceSignature(errOut)
			v.Detail = tail(errOut, 3000)
			if !reported[sig] {
				v.Replay, v.Detail = minimiseRace(sc, id, v.Replay, sig, v.Detail)
			}
			annotateReplay(v.Replay, sig, v.Detail)
		}
		if reported[sig] {
			continue
		}
		reported[sig] = true
		isKnown := false
		for _, k := range known {
			if k.Property == id && k.Status == "open" && k.Signature == sig {
				fmt.Printf("KNOWN-FINDING: property=%s %s [signature %q, replay %s]\n", id, k.What, sig, v.Replay)
				knownHit = append(knownHit, sig)
				isKnown = true
			}
		}
		if isKnown {
			continue
		}
		nviol++
		exit = 1
		fmt.Printf("VIOLATION property=%s replay=%s\n", id, v.Replay)
		fmt.Printf("  signature: %s\n  detail: %s\n", sig, firstN(v.Detail, 1500))
	}

	if len(unreproduced) > 0 && nviol == 0 && len(knownHit) == 0 {
		fail2("%d reported violation(s) did not reproduce when re-executed in a fresh process (state carried from one run to the next inside a worker, or nondeterminism in the harness); nothing is believed:\n  %s", len(unreproduced), strings.Join(unreproduced, "\n  "))
	}
	for _, u := range unreproduced {
		fmt.Printf("verifsim: note: not reproduced, not reported: %s\n", u)
	}

	// 5. evidence
	wall := time.Since(start).Seconds()
	cov := map[string]any{
		"evaluations":                            agg.Runs,
		"distinct_nontrivial":                    len(nontrivial),
		"rule":                                   p.Rule,
		"samples":                                agg.Samples,
		"runs_plain":                             plainRuns,
		"runs_race_detector":                     raceRuns,
		"race_share":                             ratio(raceRuns, agg.Runs),
		"steps":                                  agg.Steps,
		"longest_run_steps":                      agg.MaxSteps,
		"step_budget_per_run":                    stepBudget(id),
		"distinct_interleavings":                 len(distinct),
		"runs_per_hour":                          int64(float64(agg.Runs) / wall * 3600),
		"steps_per_second":                       int64(float64(agg.Steps) / maxf(wallMax, 0.001)),
		"seeds":                                  fmt.Sprintf("VERIF_SEED=%d; run i uses mix(VERIF_SEED, property, i), i in [0,%d) plain and [2^40, 2^40+%d) under the race detector", seed, per*int64(nplain), rper*int64(nrace)),
		"truncated_runs":                         agg.Truncated,
		"stuck_runs":                             agg.Stuck,
		"fault_kinds_fired":                      faultCounts(agg.Counts),
		"fault_kinds_configured_but_never_fired": zeroFaults(p, agg.Counts),
		"fault_kinds_not_injected":               "message loss/duplication, partitions, crash/restart, disk errors, clock skew between nodes, allocation failure: none - the library has no such surface",
		"probes":                                 probeCounts(agg.Counts),
		"probes_reached_on_the_pinned_tree_but_not_in_this_run": zeroProbes(id, agg.Counts),
		"counters":                       agg.Counts,
		"corpus_files_replayed":          len(corpus),
		"corpus_hits":                    corpusHits,
		"build_s":                        buildS,
		"components_real":                p.Real,
		"components_modelled":            p.Modelled,
		"components_stubbed":             p.Stubbed,
		"known_findings_hit":             knownHit,
		"simgen":                         sc.simgen,
		"rewrite_sanity":                 rewriteTest,
		"block_coverage_of_anchor_files": coverage,
	}
	if p.Tier == "H" {
		cov["clients"] = 1
		cov["schedule_and_fault_dimension"] = "none: one client task, no preemption possible, no fault kinds; the only scheduler-owned draw is map iteration order"
	}
	if p.Clock {
		cov["simulated_time_s"] = float64(agg.SimNanos) / 1e9
	} else {
		cov["simulated_time_s"] = "no clock in this property: steps reported instead"
	}
	ev := map[string]any{
		"property_id": id, "tier": tier, "seed": seed, "level": "exploration", "coverage": cov,
		"assumptions": p.Assume, "wall_s": wall, "violations": nviol,
	}
	os.MkdirAll(filepath.Join(outDir, "evidence"), 0o755)
	b, _ := json.MarshalIndent(ev, "", " ")
	if err := os.WriteFile(filepath.Join(outDir, "evidence", id+".json"), b, 0o644); err != nil {
		fail2("%v", err)
	}
	fmt.Printf("verifsim: %s %s: %d runs (%d under the race detector), %d steps, %d distinct interleavings, %d violations, %d known findings, %.1fs\n",
		id, tier, agg.Runs, raceRuns, agg.Steps, len(distinct), nviol, len(knownHit), wall)
	return exit
}

// minimiseRace shrinks the scenario of a racing run. The detector reports a
// race once per process, so every candidate is a fresh race-build process that
// follows the old decision log where it still applies; an accepted candidate is
// re-executed once more to record its own exact decision log.
func minimiseRace(sc *scratch, id, file, sig, detail string) (string, string) {
	deadline := time.Now().Add(40 * time.Second)
	cur, curDetail := file, detail
	work := filepath.Join(sc.dir, "racemin")
	round := 0
	for time.Now().Before(deadline) {
		round++
		dir := filepath.Join(work, strconv.Itoa(round))
		os.MkdirAll(dir, 0o755)
		if out, err := run(verifDir, os.Environ(), sc.race, "-prop", id, "-shrinklist", cur, "-out", dir); err != nil {
			_ = out
			return cur, curDetail
		}
		cands, _ := filepath.Glob(filepath.Join(dir, "cand-*.json"))
		sort.Strings(cands)
		progress := false
		for _, c := range cands {
			if time.Now().After(deadline) {
				break
			}
			code, _, errOut := replayOnce(sc.race, id, c, false)
			if code != 3 || raceSignature(errOut) != sig {
				continue
			}
			norm := filepath.Join(dir, "accepted.json")
			if _, err := run(verifDir, append(os.Environ(), "GORACE=halt_on_error=0 exitcode=0"), sc.race, "-prop", id, "-normalise", c, "-outfile", norm); err != nil {
				continue
			}
			code2, _, errOut2 := replayOnce(sc.race, id, norm, false)
			if code2 != 3 || raceSignature(errOut2) != sig {
				continue
			}
			cur, curDetail, progress = norm, tail(errOut2, 3000), true
			break
		}
		if !progress {
			break
		}
	}
	if cur == file {
		return file, detail
	}
	dst := strings.TrimSuffix(file, ".json") + "-min.json"
	b, err := os.ReadFile(cur)
	if err != nil || os.WriteFile(dst, b, 0o644) != nil {
		return file, detail
	}
	return dst, curDetail
}

// diedMinimising returns the violation a worker had already found and written
// out (unminimised) when it died or stalled while minimising it.
func diedMinimising(progFile string, race bool) *found {
	pb, err := os.ReadFile(progFile)
	if err != nil || len(pb) < 9 || pb[8] != 2 {
		return nil
	}
	up, err := os.ReadFile(progFile + ".unmin")
	if err != nil {
		return nil
	}
	var meta struct {
		Violation struct {
			Signature string `json:"signature"`
			Detail    string `json:"detail"`
		} `json:"violation"`
	}
	rb, err := os.ReadFile(string(up))
	if err != nil || json.Unmarshal(rb, &meta) != nil {
		return nil
	}
	return &found{Signature: meta.Violation.Signature, Detail: meta.Violation.Detail + " (unminimised: the worker died or stalled while minimising)", Replay: string(up), race: race}
}

// hangs re-executes a replay file alone and reports whether it fails to finish
// within 60 seconds (a run normally takes milliseconds).
func hangs(bin, prop, file string) bool {
	cmd := exec.Command(bin, "-prop", prop, "-replay", file)
	cmd.Env = append(os.Environ(), "GORACE=halt_on_error=0 exitcode=0")
	if err := cmd.Start(); err != nil {
		return false
	}
	done := make(chan struct{})
	go func() { cmd.Wait(); close(done) }()
	select {
	case <-done:
		return false
	case <-time.After(60 * time.Second):
		cmd.Process.Kill()
		<-done
		return true
	}
}

func runCmd(bin string, args ...string) (string, error) {
	return run(verifDir, os.Environ(), bin, args...)
}

// crashSignature recognises a death of the process inside the code under
// test from the Go runtime's report, and names it; "" when the report does not
// implicate the code under test.
func crashSignature(stderr string) string {
	i := strings.Index(stderr, "fatal error: ")
	msg := ""
	if i >= 0 {
		msg = stderr[i:]
		if j := strings.Index(msg, "\n"); j >= 0 {
			msg = msg[:j]
		}
	} else if strings.Contains(stderr, "goroutine stack exceeds") {
		msg = "fatal error: stack overflow"
	} else {
		return ""
	}
	fn := ""
	for _, l := range strings.Split(stderr, "\n") {
		l = strings.TrimSpace(l)
		if strings.HasPrefix(l, "gopkg.in/typ.v4/") {
			fn = l
			if k := strings.LastIndex(fn, "("); k > 0 {
				fn = fn[:k]
			}
			fn = shortFunc(fn)
			break
		}
	}
	if fn == "" {
		return ""
	}
	return "crash: " + msg + " in=" + fn
}

// blockCoverage reports, per anchor file, how many of the blocks simgen numbered
// were executed at least once inside simulated runs, and which never were.
func blockCoverage(table string, hits map[int]uint64, anchors []string) map[string]any {
	b, err := os.ReadFile(table)
	if err != nil {
		return map[string]any{"error": err.Error()}
	}
	type fileCov struct {
		blocks, hit int
		never       []string
	}
	per := map[string]*fileCov{}
	for _, l := range strings.Split(strings.TrimSpace(string(b)), "\n") {
		var id int
		var pos string
		if _, err := fmt.Sscanf(l, "%d %s", &id, &pos); err != nil {
			continue
		}
		file := pos
		if k := strings.LastIndex(pos, ":"); k > 0 {
			file = pos[:k]
		}
		want := false
		for _, a := range anchors {
			if a == file {
				want = true
			}
		}
		if !want {
			continue
		}
		fc := per[file]
		if fc == nil {
			fc = &fileCov{}
			per[file] = fc
		}
		fc.blocks++
		if hits[id] > 0 {
			fc.hit++
		} else {
			fc.never = append(fc.never, pos)
		}
	}
	out := map[string]any{"note": "blocks = function bodies, branches, loop bodies and case clauses numbered by simgen; counted in plain-build workers only; a block never executed is listed by file:line"}
	for f, fc := range per {
		out[f] = map[string]any{"blocks": fc.blocks, "executed": fc.hit, "never_executed": fc.never}
	}
	return out
}

// stepBudget is the per-run step budget of each harness (a run that exhausts it
// is reported as no-progress); kept here so the evidence can show the margin.
func stepBudget(id string) int {
	return map[string]int{"C04": 12000, "C05": 12000, "C09": 12000, "C10": 30000, "C17": 8000, "C18": 8000, "C19": 6000,
		"C01": 100000, "C02": 200000, "C03": 4000000, "C06": 100000, "C07": 100000, "C11": 100000, "C16": 100000}[id]
}

func annotateReplay(path, sig, detail string) {
	b, err := os.ReadFile(path)
	if err != nil {
		return
	}
	var m map[string]any
	if json.Unmarshal(b, &m) != nil {
		return
	}
	m["violation"] = map[string]any{"signature": "race", "detail": detail, "race_signature": sig}
	nb, _ := json.MarshalIndent(m, "", " ")
	os.WriteFile(path, nb, 0o644)
}

func ratio(a, b int64) float64 {
	if b == 0 {
		return 0
	}
	return float64(a) / float64(b)
}

func maxf(a, b float64) float64 {
	if a > b {
		return a
	}
	return b
}

func faultCounts(c map[string]int64) map[string]int64 {
	out := map[string]int64{}
	for k, v := range c {
		if strings.HasPrefix(k, "fault.") {
			out[strings.TrimPrefix(k, "fault.")] = v
		}
	}
	if v, ok := c["preempts"]; ok {
		out["preempt"] = v
	}
	return out
}

func zeroFaults(p *propInfo, c map[string]int64) []string {
	var out []string
	for _, f := range p.Faults {
		k := "fault." + f
		if f == "preempt" {
			k = "preempts"
		}
		if c[k] == 0 {
			out = append(out, f)
		}
	}
	return out
}

func zeroProbes(id string, c map[string]int64) []string {
	out := []string{}
	for _, p := range probesOnPinned[id] {
		if c["probe."+p] == 0 {
			out = append(out, p)
		}
	}
	return out
}

func probeCounts(c map[string]int64) map[string]int64 {
	out := map[string]int64{}
	for k, v := range c {
		if strings.HasPrefix(k, "probe.") {
			out[strings.TrimPrefix(k, "probe.")] = v
		}
	}
	return out
}

func lastLine(s string) string {
	s = strings.TrimSpace(s)
	if i := strings.LastIndex(s, "\n"); i >= 0 {
		return s[i+1:]
	}
	return s
}

func tail(s string, n int) string {
	if len(s) > n {
		return "..." + s[len(s)-n:]
	}
	return s
}

func firstN(s string, n int) string {
	if len(s) > n {
		return s[:n] + "..."
	}
	return s
}

func replayCmd(file string) int {
	b, err := os.ReadFile(file)
	if err != nil {
		fail2("%v", err)
	}
	var meta struct {
		Property  string `json:"property"`
		Race      bool   `json:"race_build"`
		Violation struct {
			Signature string `json:"signature"`
		} `json:"violation"`
	}
	if err := json.Unmarshal(b, &meta); err != nil {
		fail2("%s: %v", file, err)
	}
	p := props[meta.Property]
	if p == nil {
		fail2("replay file names unknown property %q", meta.Property)
	}
	sc := prepare(true, workerPkg(p), meta.Race)
	defer sc.cleanup()
	bin := sc.plain
	if meta.Race {
		bin = sc.race
	}
	if strings.HasPrefix(meta.Violation.Signature, "hang") || strings.HasSuffix(file, "-hang.json") {
		if hangs(bin, meta.Property, file) {
			fmt.Printf("VIOLATION property=%s replay=%s\n  signature: hang: the run does not terminate\n", meta.Property, file)
			return 1
		}
		fmt.Printf("verifsim: replay of %s terminates on the current tree\n", file)
		return 0
	}
	code, out, errOut := replayOnce(bin, meta.Property, file, true)
	fmt.Print(out)
	if meta.Race && errOut != "" {
		fmt.Print(errOut)
	}
	if sig := crashSignature(errOut); sig != "" && strings.HasPrefix(meta.Violation.Signature, "crash") {
		fmt.Print(tail(errOut, 1500))
		fmt.Printf("\nVIOLATION property=%s replay=%s\n  signature: %s\n", meta.Property, file, sig)
		return 1
	}
	switch code {
	case 3:
		fmt.Printf("VIOLATION property=%s replay=%s\n", meta.Property, file)
		return 1
	case 0:
		fmt.Printf("verifsim: replay of %s did not produce its violation on the current tree\n", file)
		return 0
	}
	fail2("replay failed: %s", errOut)
	return 2
}

// rewriteTest runs the repository's own tests on the rewritten tree with the
// simulator inactive: evidence that the rewrite preserves sequential behaviour.
func rewriteTest() int {
	sc := prepare(true, "./cmd/worker", false)
	defer sc.cleanup()
	out, err := run(sc.typ, goEnv(), "go", "test", "-vet=off", "-count=1", "./...")
	fmt.Print(out)
	if err != nil {
		fmt.Println("verifsim: the repository's tests FAIL on the rewritten tree")
		return 2
	}
	fmt.Println("verifsim: the repository's tests pass on the rewritten tree (simulator inactive)")
	return 0
}
