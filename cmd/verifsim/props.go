package main

var realAll = []string{"all go-typ/typ code (rewritten copy of the current working tree)", "Go compiler, memory model, GC and race detector", "effects of sync/atomic operations, mutex acquisition and release, buffered channel sends/receives, close"}
var modelledAll = []string{"which goroutine runs next (one decision per synchronisation operation)", "when a blocked operation wakes", "unbuffered rendezvous hand-off (FIFO, as the runtime does)", "select choice among ready cases", "virtual clock and timers", "map iteration order"}

func init() {
	reg(&propInfo{ID: "C19", Tier: "S", QuickRuns: 3000000, ThorRuns: 60000000, RaceShare: 0.2, Clock: true,
		Faults: []string{"preempt", "stall", "timer_fire", "close_midop", "select_multi_ready", "ctx_cancel"},
		Real:   []string{"chans/chans.go (rewritten copy of the current working tree)", "buffer contents, closed state and panics of the real channels", "Go compiler, memory model, race detector"},
		Modelled: modelledAll, Stubbed: []string{"context.Context: the harness's own implementation whose Done channel a simulated task closes at a chosen step (existing seam: Context is an interface)"},
		Rule: "each run = one helper call (SendTimeout/SendContext/RecvTimeout/RecvContext on a channel of capacity 0-2 at any fill level with timeout in {-1s,0,1ms,1s,1min}, or RecvQueued/RecvQueuedFull on capacity 0-4, any fill, open or closed, limit 0-6) plus 0-3 peers (senders, receivers, a closer, a canceller) acting after a seeded number of steps and amount of virtual time, under one seeded schedule with optional stalls (clock jumps past a deadline while tasks are runnable); distinct = distinct hash of the step sequence; non-trivial = at least one preemption inside a call",
		Assume: []string{"the attempt/park channel model of verif/sim/rt agrees with the Go runtime (FIFO among parked goroutines; checked by the divergence guards)", "a call that never returns is not a violation: the statement does not promise that a positive timeout fires", "when timer/cancellation and peer are ready in the same step both outcomes are accepted and conservation is checked in each", "bounds: <=3 peers, capacity <=4"}})
	reg(&propInfo{ID: "C17", Tier: "S", QuickRuns: 1500000, ThorRuns: 30000000, RaceShare: 0.25,
		Faults:   []string{"preempt"},
		Real:     []string{"sync2/once.go (rewritten copy of the current working tree)", "Go compiler, memory model, race detector", "effects of the atomic flag and the mutex inside Once"},
		Modelled: []string{"which goroutine runs next", "mutex blocking and wake-up"}, Stubbed: []string{"sync.Once: re-implemented in verif/sim/ssync with the standard algorithm over the simulated mutex and atomic, so that callers can be interleaved inside it"},
		Rule:   "each run = 2-6 tasks calling Do on one Once1/Once2/Once3 with different functions (some arriving late, some calling again), each function containing 0-3 scheduling points before its final plain write; distinct = distinct hash of the step sequence; non-trivial = at least one preemption inside a Do call",
		Assume: []string{"the Once re-implementation is the standard library's algorithm", "a break that bypasses once.Do with a plain flag is visible to the race detector, one with no synchronisation at all through the scheduling points inside the action", "bounds: <=6 callers, <=3 inner points"}})
	reg(&propInfo{ID: "C18", Tier: "S", QuickRuns: 1500000, ThorRuns: 30000000, RaceShare: 0.25,
		Faults:   []string{"preempt", "pool_miss", "pool_drop", "pool_reorder"},
		Real:     []string{"sync2/atomicvalue.go, sync2/pool.go (rewritten copy of the current working tree)", "atomic.Value operations (real, after one scheduling point each)", "Go compiler, memory model, race detector"},
		Modelled: []string{"which goroutine runs next"}, Stubbed: []string{"sync.Pool: replaced by a stub whose legal freedoms (miss, drop a Put, return any pooled item) are scheduler draws; it publishes the same Put->Get happens-before edge the real pool does"},
		Rule:   "each run = either 2-4 tasks x 1-5 Load/Store/Swap/CompareAndSwap calls on one AtomicValue[int|string|struct] with unique values, or 2-4 tasks x 1-3 Get/use/Put cycles on one Pool with or without New and 0-2 pre-pooled tokens; distinct = distinct hash of the step sequence; non-trivial = at least one preemption inside an API call",
		Assume: []string{"porcupine v1.3.0 (register model; CompareAndSwap before the first Store left unconstrained, as the statement starts 'once a value has been stored')", "the Pool stub may do whatever sync.Pool documents it may do and nothing else", "bounds: <=4 tasks, <=5 calls each"}})
	reg(&propInfo{ID: "C09", Tier: "S", QuickRuns: 1000000, ThorRuns: 20000000, RaceShare: 0.25,
		Faults: []string{"preempt", "holder_stall", "map_order"},
		Real:   realAll, Modelled: modelledAll, Stubbed: []string{"none used by this property"},
		Rule:   "each run = one generated scenario (KeyedMutex or KeyedRWMutex, 1-3 keys, 2-4 tasks x 1-3 critical sections entered by Lock/TryLock/RLock/TryRLock, optionally nested in key order, optionally a second phase after ClearKey, optionally one holder that stalls forever inside its section) under one seeded schedule; distinct = distinct hash of the step sequence; non-trivial = at least one preemption inside an API call",
		Assume: []string{"DRF-SC at synchronisation-operation granularity; mutual exclusion is witnessed by harness counters in plain builds and by an unsynchronised shared variable under the race detector in race builds", "ClearKey is exercised only between phases, when no task holds or awaits any key, as the statement restricts", "bounds: <=4 tasks, <=3 sections each (+1 nested), <=3 keys"}})
	reg(&propInfo{ID: "C05", Tier: "S", QuickRuns: 500000, ThorRuns: 10000000, RaceShare: 0.25,
		Faults: []string{"preempt", "map_order"},
		Real:   realAll, Modelled: modelledAll, Stubbed: []string{"none used by this property"},
		Rule:   "each run = one generated scenario (sequential prefix, 2-8 client tasks x 1-4 calls of Add/Remove/Has/AddSet/RemoveSet/Len over a universe of <=4 values, then a checker) under one seeded schedule; distinct = distinct hash of the step sequence; non-trivial = at least one preemption inside an API call",
		Assume: []string{"DRF-SC at synchronisation-operation granularity, with race freedom checked in the same runs", "porcupine v1.3.0", "composite calls are decomposed per element over the whole call interval; when more than 4000 outcome assignments would have to be tried the count clause of that run is skipped and counted (oracle.composite_search_capped)", "bounds: <=8 tasks, <=4 calls each, <=4 values"}})
	reg(&propInfo{ID: "C04", Tier: "S", QuickRuns: 1000000, ThorRuns: 20000000, RaceShare: 0.25,
		Faults: []string{"preempt", "map_order"},
		Real:   realAll, Modelled: modelledAll, Stubbed: []string{"none used by this property"},
		Rule:   "each run = one generated scenario (sequential prefix driving the read/dirty/expunged machine, then 1-4 client tasks x 1-5 calls over <=4 keys, then a checker) executed under one seeded schedule; distinct = distinct hash of the (task, operation kind, object ordinal, draw) step sequence; non-trivial = additionally at least one preemption of a task inside an API call (between two of its atomic/mutex steps)",
		Assume: []string{"data-race-free programs are sequentially consistent at the granularity of synchronisation operations (race freedom is checked in the same runs by the race detector)", "porcupine v1.3.0 decides linearizability of the recorded per-key histories", "simgen's rewrite preserves behaviour (checked by running the repository's tests on the rewritten tree)", "bounds: <=4 client tasks, <=5 calls each, <=4 keys, <=3000 steps; sampling, not enumeration"}})
}
