package main

var realAll = []string{"all go-typ/typ code (rewritten copy of the current working tree)", "Go compiler, memory model, GC and race detector", "effects of sync/atomic operations, mutex acquisition and release, buffered channel sends/receives, close"}
var modelledAll = []string{"which goroutine runs next (one decision per synchronisation operation)", "when a blocked operation wakes", "unbuffered rendezvous hand-off (FIFO, as the runtime does)", "select choice among ready cases", "virtual clock and timers", "map iteration order"}

func init() {
	reg(&propInfo{ID: "C04", Tier: "S", QuickRuns: 1000000, ThorRuns: 20000000, RaceShare: 0.25,
		Faults: []string{"preempt", "map_order"},
		Real:   realAll, Modelled: modelledAll, Stubbed: []string{"none used by this property"},
		Rule:   "each run = one generated scenario (sequential prefix driving the read/dirty/expunged machine, then 1-4 client tasks x 1-5 calls over <=4 keys, then a checker) executed under one seeded schedule; distinct = distinct hash of the (task, operation kind, object ordinal, draw) step sequence; non-trivial = additionally at least one preemption of a task inside an API call (between two of its atomic/mutex steps)",
		Assume: []string{"data-race-free programs are sequentially consistent at the granularity of synchronisation operations (race freedom is checked in the same runs by the race detector)", "porcupine v1.3.0 decides linearizability of the recorded per-key histories", "simgen's rewrite preserves behaviour (checked by running the repository's tests on the rewritten tree)", "bounds: <=4 client tasks, <=5 calls each, <=4 keys, <=3000 steps; sampling, not enumeration"}})
}
